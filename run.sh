#!/bin/bash
# run.sh <ID> <quick|thorough>  |  run.sh replay <file>
# Rebuilds the checker against /repo's current working tree and runs one check.
set -u
cd "$(dirname "$0")"
export GOFLAGS=-mod=mod GOPROXY=off GOSUMDB=off GOTOOLCHAIN=local CGO_ENABLED=0
export VERIF_TIER="${2:-quick}"
mkdir -p bin
if ! go build -o bin/vcheck ./cmd/vcheck 2>bin/build.err; then
  echo "BUILD-ERROR: the checker does not build against /repo (see below); no verdict" >&2
  cat bin/build.err >&2
  exit 2
fi
exec ./bin/vcheck "$@"
