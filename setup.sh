#!/bin/bash
# Offline setup: pre-build the checker, the schedule-exploration harness (overlay build) and
# the -race free-running harness, warming the Go build cache, from files on disk only.
set -eu
cd "$(dirname "$0")"
export GOFLAGS=-mod=mod GOPROXY=off GOSUMDB=off GOTOOLCHAIN=local CGO_ENABLED=0
mkdir -p bin evidence replays build
go build -o bin/vcheck ./cmd/vcheck
./bin/vcheck prebuild x || true
CGO_ENABLED=1 go build -race -o bin/freeharness-race ./cmd/freeharness || echo "note: -race build not available"
go build -cover -covermode=count -coverpkg=verif/cmd/ladderbin,github.com/tdewolff/minify/v2/...,github.com/tdewolff/parse/v2/... -o bin/ladderbin ./cmd/ladderbin || echo "note: cover build not available"
echo "setup ok"
