#!/bin/bash
# Offline setup: pre-build the checker (and warm the Go build cache) from files on disk only.
set -eu
cd "$(dirname "$0")"
export GOFLAGS=-mod=mod GOPROXY=off GOSUMDB=off GOTOOLCHAIN=local CGO_ENABLED=0
mkdir -p bin evidence replays
go build -o bin/vcheck ./cmd/vcheck
echo "setup ok"
