//go:build vsched

package main

import (
	"bytes"
	"fmt"
	"io"
	"mime"
	"net/http"
	"path"
	"strings"

	"github.com/tdewolff/minify/v2/vsync"
)

type input struct {
	mt string
	in string
}

var c12inputs = []input{
	{"text/html", "<p>a  b"}, {"text/css", "a{b:0px}"}, {"application/javascript", "a = 1;b()"}, {"application/json", `{"a":1 }`},
	{"text/xml", "<a> b</a>"}, {"image/svg+xml", "<svg> <g/></svg>"},
	{"application/javascript", "a = (1;"}, // minifier fails
	{"application/json", `[1000,}`},       // minifier fails
	{"application/json", `{"a" : 1, "b":[1,}]`}, // minifier fails late, after several writes
	{"text/plain", "x y"},                 // unregistered
}

var c12short = []input{{"application/json", "[1 ]"}, {"text/css", "a{b:c }"}, {"text/html", "<b> a"}, {"application/javascript", "a ;"}}

func join(cs [][]byte) []byte { return bytes.Join(cs, nil) }

// earlyReturnScenario: the minifier returns nil after a prefix of the input; the writes that follow may fail with a closed
// pipe, but they may not block, and Close must return with everything the minifier wrote delivered.
func earlyReturnScenario(chunks [][]byte) scenario {
	r := reference("x/prefix", join(chunks))
	name := fmt.Sprintf("Writer x/prefix (minifier returns early) %s", chunkString(chunks))
	return scenario{name, func() (func(), func(*vsync.Sched) ([]string, string)) {
		var atClose []byte
		var closeErr error
		var writeErrs []string
		closed := false
		cs := cloneChunks(chunks)
		body := func() {
			m := newRegistry()
			sink := &obsSink{}
			w := m.Writer("x/prefix", sink)
			for _, c := range cs {
				n, err := w.Write(c)
				vsync.Observe("w", n, err)
				if err != nil {
					writeErrs = append(writeErrs, err.Error())
				}
			}
			closeErr = w.Close()
			atClose = append([]byte{}, sink.buf.Bytes()...)
			closed = true
			vsync.Observe("close", closeErr, atClose)
		}
		verify := func(s *vsync.Sched) ([]string, string) {
			var v []string
			if !closed {
				return v, "not-closed"
			}
			if !bytes.Equal(atClose, r.out) {
				v = append(v, fmt.Sprintf("at the instant Close returned the sink held %q, the plain call produces %q", atClose, r.out))
			}
			for _, e := range writeErrs {
				if e != io.ErrClosedPipe.Error() {
					v = append(v, "Write failed with "+e)
				}
			}
			if closeErr != nil {
				v = append(v, fmt.Sprintf("Close returned %v", closeErr))
			}
			return v, fmt.Sprintf("%q/%v/%v", atClose, writeErrs, errStr(closeErr))
		}
		return body, verify
	}, true}
}

func writerScenario(in input, r ref, chunks [][]byte, closeTwice bool) scenario {
	r = reference(in.mt, join(chunks))
	name := fmt.Sprintf("Writer %s %s closeTwice=%v", in.mt, chunkString(chunks), closeTwice)
	return scenario{name, func() (func(), func(*vsync.Sched) ([]string, string)) {
		var atClose []byte
		var closeErr, close2Err, writeErr error
		closed := false
		shortWrite := ""
		cs := cloneChunks(chunks)
		body := func() {
			m := newRegistry()
			sink := &obsSink{}
			w := m.Writer(in.mt, sink)
			for _, c := range cs {
				n, err := w.Write(c)
				vsync.Observe("w", n, err)
				if err != nil && writeErr == nil {
					writeErr = err
				}
				if err == nil && n != len(c) {
					shortWrite = fmt.Sprintf("Write(%q) = %d, nil", c, n)
				}
			}
			closeErr = w.Close()
			// the instant Close returns: nothing else has run since
			atClose = append([]byte{}, sink.buf.Bytes()...)
			closed = true
			vsync.Observe("close", closeErr, atClose)
			if closeTwice {
				close2Err = w.Close()
				vsync.Observe("close2", close2Err)
			}
		}
		verify := func(s *vsync.Sched) ([]string, string) {
			var v []string
			if !closed {
				return v, "not-closed"
			}
			if r.err == "" {
				if !bytes.Equal(atClose, r.out) {
					v = append(v, fmt.Sprintf("at the instant Close returned the sink held %q, the plain call produces %q", atClose, r.out))
				}
				if closeErr != nil || writeErr != nil {
					v = append(v, fmt.Sprintf("unexpected error: write=%v close=%v", writeErr, closeErr))
				}
				if shortWrite != "" {
					v = append(v, "short write without error: "+shortWrite)
				}
			} else {
				got := errStr(closeErr)
				if got == "" {
					got = errStr(writeErr)
				}
				if got != r.err {
					v = append(v, fmt.Sprintf("minifier error %q was not delivered by Write/Close: write=%v close=%v", r.err, writeErr, closeErr))
				}
				// "deliver all output and the minifier's error": what the plain call had written to its
				// destination when it failed is what the wrapper's destination holds when Close returns
				if !bytes.Equal(atClose, r.out) {
					v = append(v, fmt.Sprintf("the minifier failed (%s) after writing %q in the plain call; at the instant Close returned the sink held %q", r.err, r.out, atClose))
				}
			}
			if closeTwice && close2Err != nil {
				v = append(v, fmt.Sprintf("second Close returned %v", close2Err))
			}
			return v, fmt.Sprintf("%q/%v/%v", atClose, errStr(writeErr), errStr(closeErr))
		}
		return body, verify
	}, !bytes.Equal(r.out, join(chunks))}
}

func readerScenario(in input, r ref, chunks [][]byte, readSize int, zeroFirst bool) scenario {
	r = reference(in.mt, join(chunks))
	name := fmt.Sprintf("Reader %s src=%s readSize=%d zeroFirst=%v", in.mt, chunkString(chunks), readSize, zeroFirst)
	return scenario{name, func() (func(), func(*vsync.Sched) ([]string, string)) {
		var got []byte
		var finalErr error
		zeroRead := ""
		cs := cloneChunks(chunks)
		body := func() {
			m := newRegistry()
			rd := m.Reader(in.mt, &chunkReader{chunks: cs})
			if zeroFirst {
				n, err := rd.Read(nil)
				vsync.Observe("r0", n, err)
				if n != 0 {
					zeroRead = fmt.Sprintf("Read(nil) = %d, %v", n, err)
				}
				if err != nil {
					finalErr = err
					return
				}
			}
			buf := make([]byte, readSize)
			for i := 0; i < 500; i++ {
				n, err := rd.Read(buf)
				vsync.Observe("r", n, err)
				got = append(got, buf[:n]...)
				if err != nil {
					finalErr = err
					return
				}
			}
			finalErr = fmt.Errorf("no end of stream after 500 reads")
		}
		verify := func(s *vsync.Sched) ([]string, string) {
			var v []string
			if zeroRead != "" {
				v = append(v, zeroRead)
			}
			if r.err == "" {
				if !bytes.Equal(got, r.out) {
					v = append(v, fmt.Sprintf("consumer read %q, the plain call produces %q", got, r.out))
				}
				if finalErr != io.EOF {
					v = append(v, fmt.Sprintf("stream ended with %v instead of EOF", finalErr))
				}
			} else {
				if errStr(finalErr) != r.err {
					v = append(v, fmt.Sprintf("minifier error %q not delivered to the consumer, got %v", r.err, finalErr))
				}
				if !bytes.Equal(got, r.out) {
					v = append(v, fmt.Sprintf("the minifier failed (%s) after writing %q in the plain call; the consumer read %q before the error", r.err, r.out, got))
				}
			}
			return v, fmt.Sprintf("%q/%v", got, errStr(finalErr))
		}
		return body, verify
	}, !bytes.Equal(r.out, join(chunks))}
}

// respScenario drives ResponseWriter / Middleware / MiddlewareWithError.
func respScenario(kind string, ct, uri string, payload string, chunks [][]byte, writeHeaderFirst, staleCL bool) scenario {
	name := fmt.Sprintf("%s ct=%q uri=%q chunks=%s writeHeader=%v staleCL=%v", kind, ct, uri, chunkString(chunks), writeHeaderFirst, staleCL)
	// expected media type: Content-Type, else extension of the request path
	mt := ct
	if mt == "" {
		// the extension of the request PATH: a query string or fragment is not part of it
		pth := uri
		if i := strings.IndexAny(pth, "?#"); i >= 0 {
			pth = pth[:i]
		}
		mt = mime.TypeByExtension(path.Ext(pth))
	}
	payload = string(join(chunks))
	r := reference(mt, []byte(payload))
	passthrough := r.err == "minifier does not exist for mimetype"
	if len(chunks) == 0 {
		r = ref{nil, ""} // the handler never writes: no minifier is ever started
	}
	return scenario{name, func() (func(), func(*vsync.Sched) ([]string, string)) {
		rec := &recResp{header: http.Header{}}
		var closeErr, handlerErr error
		var atReturn []byte
		returned := false
		errorFuncCalled := false
		cs := cloneChunks(chunks)
		body := func() {
			m := newRegistry()
			req := &http.Request{RequestURI: uri}
			handler := http.HandlerFunc(func(w http.ResponseWriter, _ *http.Request) {
				if ct != "" {
					w.Header().Set("Content-Type", ct)
				}
				if staleCL {
					w.Header().Set("Content-Length", "999")
				}
				if writeHeaderFirst {
					w.WriteHeader(200)
				}
				for _, c := range cs {
					n, err := w.Write(c)
					vsync.Observe("hw", n, err)
					if err != nil && handlerErr == nil {
						handlerErr = err
					}
				}
			})
			switch kind {
			case "ResponseWriter":
				mw := m.ResponseWriter(rec, req)
				handler(mw, req)
				closeErr = mw.Close()
			case "Middleware":
				m.Middleware(handler).ServeHTTP(rec, req)
			case "MiddlewareWithError":
				m.MiddlewareWithError(handler, func(_ http.ResponseWriter, _ *http.Request, err error) {
					errorFuncCalled = true
					closeErr = err
				}).ServeHTTP(rec, req)
			}
			atReturn = append([]byte{}, rec.body.Bytes()...)
			returned = true
			vsync.Observe("ret", closeErr, atReturn)
		}
		verify := func(s *vsync.Sched) ([]string, string) {
			var v []string
			if !returned {
				return v, "not-returned"
			}
			want := r.out
			if passthrough {
				want = []byte(payload)
			}
			if passthrough || r.err == "" {
				if !bytes.Equal(atReturn, want) {
					v = append(v, fmt.Sprintf("when %s returned the response body was %q, expected %q (media type %q)", kind, atReturn, want, mt))
				}
				if closeErr != nil || handlerErr != nil {
					v = append(v, fmt.Sprintf("unexpected error: handler=%v close=%v", handlerErr, closeErr))
				}
			} else if kind != "Middleware" {
				got := errStr(closeErr)
				if got == "" {
					got = errStr(handlerErr)
				}
				if got != r.err {
					v = append(v, fmt.Sprintf("minifier error %q not delivered (handler=%v close=%v errorFunc=%v)", r.err, handlerErr, closeErr, errorFuncCalled))
				}
			}
			if staleCL && !passthrough && len(cs) > 0 && rec.sent != nil && rec.sent.Get("Content-Length") != "" {
				v = append(v, fmt.Sprintf("stale Content-Length %q was sent with the minified response", rec.sent.Get("Content-Length")))
			}
			return v, fmt.Sprintf("%q/%v", atReturn, errStr(closeErr))
		}
		return body, verify
	}, !passthrough && !bytes.Equal(r.out, []byte(payload))}
}

func withEmpty(cs [][]byte, pos int) [][]byte {
	out := append([][]byte{}, cs[:pos]...)
	out = append(out, []byte{})
	return append(out, cs[pos:]...)
}

func c12Scenarios(tier string) []scenario {
	var scs []scenario
	thorough := tier == "thorough"
	// Writer: every composition of the short inputs, ≤3 pieces (quick) of the longer ones
	for _, in := range c12short {
		r := reference(in.mt, []byte(in.in))
		for _, cs := range compositions([]byte(in.in), 0) {
			scs = append(scs, writerScenario(in, r, cs, false))
		}
	}
	for _, in := range c12inputs {
		r := reference(in.mt, []byte(in.in))
		maxPieces := 2
		if thorough {
			maxPieces = 3
		}
		for i, cs := range compositions([]byte(in.in), maxPieces) {
			scs = append(scs, writerScenario(in, r, cs, i%5 == 0))
			if len(cs) == 2 {
				for p := 0; p <= 2; p++ {
					scs = append(scs, writerScenario(in, r, withEmpty(cs, p), false))
				}
			}
		}
		scs = append(scs, writerScenario(in, r, nil, false)) // Close without any Write
	}
	// size thresholds: a stylesheet of ~20 kB cut into (a, b, rest) for every ordered pair of
	// lengths around the usual buffer sizes; a wrapper that buffers, coalesces or reorders
	// writes by size shows up here and nowhere among the short inputs (Reader is left out:
	// its pipe hands over one minifier write per read, thousands of scheduling points per run)
	big := bigCSS()
	bigIn := input{"text/css", string(big)}
	bigRef := reference("text/css", big)
	lens := []int{1, 18, 511, 512, 513, 4095, 4096, 4097, 8192}
	for i, a := range lens {
		for j, b := range lens {
			cs := [][]byte{big[:a], big[a : a+b], big[a+b:]}
			scs = append(scs, writerScenario(bigIn, bigRef, cs, false))
			if thorough || (i+j)%3 == 0 {
				scs = append(scs, respScenario("Middleware", "text/css", "/x", "", cs, false, true))
			}
		}
	}
	// a minifier that returns before the end of its input, fed in 1..4 chunks
	for _, cs := range [][][]byte{{[]byte("titlebody")}, {[]byte("ti"), []byte("tlebody")}, {[]byte("title"), []byte("body")}, {[]byte("t"), []byte("itle"), []byte("body")}, {[]byte("title"), []byte("bo"), []byte("d"), []byte("y")}} {
		scs = append(scs, earlyReturnScenario(cs))
	}
	// Reader: source chunking × consumer read sizes
	for _, in := range c12inputs {
		r := reference(in.mt, []byte(in.in))
		for i, cs := range compositions([]byte(in.in), 2) {
			for _, rs := range []int{1, 2, 64} {
				scs = append(scs, readerScenario(in, r, cs, rs, i%3 == 0))
			}
		}
	}
	// ResponseWriter / middleware
	type rw struct{ ct, uri, payload string }
	for _, c := range []rw{{"text/css", "/x", "a{b:0px}"}, {"", "/s.css", "a{b:0px}"}, {"text/html; charset=utf-8", "/i.css", "<p>a  b"}, {"", "/x.unknownext", "a  b"},
		{"application/json", "/", `[1000,}`}, {"", "/noext", "a  b"}, {"text/plain", "/a.css", "a{b:0px}"},
		// media types with parameters that reach minifiers registered by regular expression (as in the README)
		{"application/json; charset=utf-8", "/", `[1000, 2]`}, {"", "/app.js", "var  x = 1 ;"}, {"application/ld+json;charset=UTF-8", "/", `{"a" : 1}`}, {"", "/f.xml", "<a> <b/> </a>"}, {"image/svg+xml; charset=utf-8", "/", "<svg> <g/> </svg>"},
		// request targets with a query string
		{"", "/s.css?v=1.2", "a{b:0px}"}, {"", "/app.js?cb=x.y", "var  x = 1 ;"}, {"", "/page?file=a.css", "a  b"}} {
		for _, kind := range []string{"ResponseWriter", "Middleware", "MiddlewareWithError"} {
			for i, cs := range compositions([]byte(c.payload), 2) {
				if !thorough && i%3 != 0 {
					continue
				}
				for _, wh := range []bool{false, true} {
					scs = append(scs, respScenario(kind, c.ct, c.uri, c.payload, cs, wh, true))
				}
			}
			scs = append(scs, respScenario(kind, c.ct, c.uri, c.payload, nil, false, false)) // handler never writes
			scs = append(scs, respScenario(kind, c.ct, c.uri, c.payload, nil, true, true))
		}
	}
	return scs
}

func runC12(tier string, shard, shards int) result {
	scs := c12Scenarios(tier)
	bound := 3
	maxExecs := 50000
	if tier == "thorough" {
		bound = -1 // unbounded: every interleaving
		maxExecs = 400000
	}
	res := runScenarios(scs, bound, maxExecs, shard, shards)
	res.Extra["total_scenarios"] = len(scs)
	// sequential entry points: Bytes and String equal the plain call (no scheduling involved)
	if shard == 0 {
		n := 0
		// results of Bytes stay the caller's: all of them are kept and compared again after every other call was made
		shared := newRegistry()
		type keptT struct {
			name string
			b    []byte
			want string
		}
		var kept []keptT
		for _, in := range append(append([]input{}, c12inputs...), c12short...) {
			r := reference(in.mt, []byte(in.in))
			if kb, kerr := shared.Bytes(in.mt, []byte(in.in)); kerr == nil {
				kept = append(kept, keptT{in.mt + " " + in.in, kb, string(kb)})
				shared.String(in.mt, in.in)
			}
			m := newRegistry()
			b, err := m.Bytes(in.mt, []byte(in.in))
			s, err2 := m.String(in.mt, in.in)
			n += 2
			wantB := r.out
			if r.err != "" {
				wantB = []byte(in.in)
			}
			if !bytes.Equal(b, wantB) || errStr(err) != r.err || s != string(wantB) || errStr(err2) != r.err {
				res.Failures = append(res.Failures, failure{"Bytes/String " + in.mt + " " + in.in, nil, []string{fmt.Sprintf("Bytes=%q,%v String=%q,%v; plain call: %q,%q", b, err, s, err2, r.out, r.err)}, nil})
			}
		}
		for _, kk := range kept {
			n++
			if string(kk.b) != kk.want {
				res.Failures = append(res.Failures, failure{"Bytes result kept across later calls: " + kk.name, nil, []string{fmt.Sprintf("the slice returned by Bytes held %q; after later Bytes/String calls on the same registry it reads %q", kk.want, kk.b)}, nil})
			}
		}
		res.Extra["bytes_string_calls"] = n
	}
	return res
}

// bigCSS is a stylesheet of about 20 kB whose minified form differs from it everywhere.
func bigCSS() []byte {
	var b bytes.Buffer
	b.WriteString("@charset \"utf-8\";\n")
	for i := 0; b.Len() < 20000; i++ {
		fmt.Fprintf(&b, ".rule-%03d { margin : 0px ; color : #ff0000 }\n", i)
	}
	return b.Bytes()
}
