//go:build vsched

// vsharness is built with `go build -overlay` (see internal/overlay): minify.go is a copy in
// which sync/io.Pipe/go are routed through the scheduler package vsync.
package main

import (
	"bytes"
	"encoding/json"
	"fmt"
	"io"
	"net/http"
	"os"
	"regexp"
	"strconv"
	"strings"

	minify "github.com/tdewolff/minify/v2"
	"github.com/tdewolff/minify/v2/css"
	"github.com/tdewolff/minify/v2/html"
	"github.com/tdewolff/minify/v2/js"
	mjson "github.com/tdewolff/minify/v2/json"
	"github.com/tdewolff/minify/v2/svg"
	"github.com/tdewolff/minify/v2/vsync"
	"github.com/tdewolff/minify/v2/xml"
)

type scenario struct {
	name       string
	sc         vsync.Scenario
	nontrivial bool // the reference output differs from the input (a rewrite fired)
}

type failure struct {
	Scenario string   `json:"scenario"`
	Schedule []int    `json:"schedule"`
	What     []string `json:"what"`
	Trace    []string `json:"trace,omitempty"`
}

type result struct {
	Scenarios    int            `json:"scenarios"`
	Nontrivial   int            `json:"nontrivial_scenarios"`
	Executions   int            `json:"executions"`
	Complete     int            `json:"complete"`
	Pruned       int            `json:"pruned"`
	States       int            `json:"states"`
	Transitions  int            `json:"transitions"`
	Points       int            `json:"points"`
	Deadlocks    int            `json:"deadlocks"`
	MaxTrace     int            `json:"max_trace"`
	Capped       int            `json:"capped_scenarios"`
	Outcomes     int            `json:"distinct_outcomes"`
	MultiOutcome int            `json:"scenarios_with_several_outcomes"`
	Failures     []failure      `json:"failures"`
	Samples      []any          `json:"samples"`
	ReplayChecks int            `json:"replay_checks"`
	Extra        map[string]any `json:"extra,omitempty"`
	Bound        int            `json:"bound"`
}

var errInjected = faultIdentities[0]

func newRegistry() *minify.M {
	m := minify.New()
	m.Add("text/css", &css.Minifier{})
	m.Add("text/html", &html.Minifier{})
	m.Add("image/svg+xml", &svg.Minifier{})
	m.AddRegexp(regexp.MustCompile("^(application|text)/(x-)?(java|ecma)script$"), &js.Minifier{})
	m.AddRegexp(regexp.MustCompile("[/+]json$"), &mjson.Minifier{})
	m.AddRegexp(regexp.MustCompile("[/+]xml$"), &xml.Minifier{})
	// a minifier that is done after a prefix of its input (a custom function, or a command such as head): it returns nil without
	// reading to the end
	m.AddFunc("x/prefix", func(_ *minify.M, w io.Writer, r io.Reader, _ map[string]string) error {
		buf := make([]byte, 3)
		n, _ := io.ReadFull(r, buf)
		_, err := w.Write(buf[:n])
		return err
	})
	// a streaming minifier: copies as it reads and stops at the first failed write (before it has read everything)
	m.AddFunc("x/copy", func(_ *minify.M, w io.Writer, r io.Reader, _ map[string]string) error {
		buf := make([]byte, 2)
		for {
			n, rerr := r.Read(buf)
			if 0 < n {
				if _, werr := w.Write(buf[:n]); werr != nil {
					return werr
				}
			}
			if rerr == io.EOF {
				return nil
			} else if rerr != nil {
				return rerr
			}
		}
	})
	return m
}

type ref struct {
	out []byte
	err string
}

func errStr(e error) string {
	if e == nil {
		return ""
	}
	return e.Error()
}

// reference: the plain reader-to-writer call, sequential (outside the scheduler).
func reference(mt string, in []byte) ref {
	var buf bytes.Buffer
	err := newRegistry().Minify(mt, &buf, bytes.NewReader(append([]byte{}, in...)))
	return ref{buf.Bytes(), errStr(err)}
}

// obsSink is a sink whose writes enter the writing thread's observation log.
type obsSink struct {
	buf    bytes.Buffer
	writes int
	failAt int // fail from the failAt-th Write call on (1-based; 0 = never)
	short  bool
}

func (s *obsSink) Write(p []byte) (int, error) {
	s.writes++
	if s.failAt > 0 && s.writes >= s.failAt {
		vsync.Observe("sinkfail", s.writes)
		if s.short && len(p) > 1 {
			s.buf.Write(p[:1])
			return 1, errInjected
		}
		return 0, errInjected
	}
	s.buf.Write(p)
	vsync.Observe("sink", p)
	return len(p), nil
}

// chunkReader hands out the chunks one Read at a time; then failErr or EOF.
type chunkReader struct {
	chunks   [][]byte
	i        int
	failErr  error
	withLast bool // return the error together with the last chunk
}

func (r *chunkReader) Read(p []byte) (int, error) {
	for r.i < len(r.chunks) {
		c := r.chunks[r.i]
		n := copy(p, c)
		if n < len(c) {
			r.chunks[r.i] = c[n:]
			return n, nil
		}
		r.i++
		if r.i == len(r.chunks) && r.withLast {
			if r.failErr != nil {
				return n, r.failErr
			}
			return n, io.EOF
		}
		return n, nil
	}
	if r.failErr != nil {
		return 0, r.failErr
	}
	return 0, io.EOF
}

// compositions returns all ways to cut b into consecutive non-empty chunks (max pieces; 0 = any).
func compositions(b []byte, maxPieces int) [][][]byte {
	n := len(b)
	if n == 0 {
		return [][][]byte{{}}
	}
	var out [][][]byte
	for mask := 0; mask < 1<<(n-1); mask++ {
		pieces := 1
		for i := 0; i < n-1; i++ {
			if mask>>i&1 == 1 {
				pieces++
			}
		}
		if maxPieces > 0 && pieces > maxPieces {
			continue
		}
		var cs [][]byte
		start := 0
		for i := 0; i < n-1; i++ {
			if mask>>i&1 == 1 {
				cs = append(cs, append([]byte{}, b[start:i+1]...))
				start = i + 1
			}
		}
		cs = append(cs, append([]byte{}, b[start:]...))
		out = append(out, cs)
	}
	return out
}

func chunkString(cs [][]byte) string {
	s := make([]string, len(cs))
	for i, c := range cs {
		if len(c) > 40 {
			s[i] = fmt.Sprintf("<%d bytes %q…>", len(c), c[:8])
			continue
		}
		s[i] = strconv.Quote(string(c))
	}
	return "[" + strings.Join(s, ",") + "]"
}

func cloneChunks(cs [][]byte) [][]byte {
	out := make([][]byte, len(cs))
	for i, c := range cs {
		out[i] = append([]byte{}, c...)
	}
	return out
}

// recResp is a recording http.ResponseWriter that snapshots the header at the (implicit or
// explicit) WriteHeader, as net/http does.
type recResp struct {
	header http.Header
	sent   http.Header
	status int
	body   bytes.Buffer
	writes int
	failAt int
}

func (r *recResp) Header() http.Header { return r.header }
func (r *recResp) WriteHeader(status int) {
	if r.sent == nil {
		r.sent = r.header.Clone()
		r.status = status
		vsync.Observe("hdr", status, r.sent.Get("Content-Length"))
	}
}
func (r *recResp) Write(p []byte) (int, error) {
	if r.sent == nil {
		r.WriteHeader(200)
	}
	r.writes++
	if r.failAt > 0 && r.writes >= r.failAt {
		vsync.Observe("respfail")
		return 0, errInjected
	}
	r.body.Write(p)
	vsync.Observe("resp", p)
	return len(p), nil
}

func runScenarios(scs []scenario, bound, maxExecs, shard, shards int) result {
	res := result{Bound: bound, Extra: map[string]any{}}
	outcomes := map[string]bool{}
	for i, sc := range scs {
		if i%shards != shard {
			continue
		}
		e := &vsync.Explorer{Bound: bound, MaxExecs: maxExecs, Horizon: 20000}
		e.Explore(sc.sc)
		res.Scenarios++
		if sc.nontrivial {
			res.Nontrivial++
		}
		res.Executions += e.Executions
		res.Complete += e.Complete
		res.Pruned += e.Pruned
		res.States += e.States
		res.Transitions += e.Transitions
		res.Points += e.Points
		res.Deadlocks += e.Deadlocks
		if e.MaxTrace > res.MaxTrace {
			res.MaxTrace = e.MaxTrace
		}
		if e.Capped {
			res.Capped++
			res.Extra["capped:"+sc.name] = e.Executions
		}
		if len(e.Outcomes) > 1 {
			res.MultiOutcome++
		}
		for o := range e.Outcomes {
			outcomes[sc.name+"→"+o] = true
		}
		for _, f := range e.Failures {
			// determinism: the same schedule must give the same verdict and trace twice more
			stable := true
			for k := 0; k < 2; k++ {
				s2, v2, _ := vsync.RunOne(sc.sc, f.Schedule, 20000)
				res.ReplayChecks++
				if strings.Join(v2, "|") != strings.Join(f.What, "|") || len(s2.Trace) != len(f.Schedule) {
					stable = false
				}
			}
			what := f.What
			if !stable {
				what = append([]string{"INTERNAL: verdict not reproducible on replay"}, what...)
			}
			if len(res.Failures) < 40 {
				res.Failures = append(res.Failures, failure{sc.name, f.Schedule, what, f.Trace})
			}
		}
		if len(res.Samples) < 3 && i%7 == shard%7 {
			tr := e.FirstTrace()
			if len(tr) > 40 {
				tr = append(tr[:40], "…")
			}
			res.Samples = append(res.Samples, map[string]any{"scenario": sc.name, "executions": e.Executions, "states": e.States, "outcomes": e.Outcomes, "default_schedule_trace": tr})
		}
		// replay determinism of the default schedule: twice, identical observations
		if i%16 == shard {
			s1, v1, o1 := vsync.RunOne(sc.sc, nil, 20000)
			s2, v2, o2 := vsync.RunOne(sc.sc, nil, 20000)
			res.ReplayChecks += 2
			if o1 != o2 || len(s1.Trace) != len(s2.Trace) || strings.Join(v1, "|") != strings.Join(v2, "|") {
				res.Failures = append(res.Failures, failure{sc.name, nil, []string{"INTERNAL: default schedule not deterministic"}, nil})
			}
		}
	}
	res.Outcomes = len(outcomes)
	return res
}

func main() {
	if len(os.Args) < 5 {
		fmt.Fprintln(os.Stderr, "usage: vsharness <c12|c13|c14|conform|replay> <tier> <shard> <shards>")
		os.Exit(2)
	}
	prop, tier := os.Args[1], os.Args[2]
	shard, _ := strconv.Atoi(os.Args[3])
	shards, _ := strconv.Atoi(os.Args[4])
	var res any
	switch prop {
	case "c12":
		res = runC12(tier, shard, shards)
	case "c13":
		res = runC13(tier, shard, shards)
	case "c14":
		res = runC14(tier, shard, shards)
	case "conform":
		maxOps := 1
		if tier == "thorough" {
			maxOps = 2
		}
		res = vsync.PipeConformance(maxOps, 40, shard, shards)
	default:
		fmt.Fprintln(os.Stderr, "unknown", prop)
		os.Exit(2)
	}
	b, _ := json.Marshal(res)
	fmt.Printf("\nRESULT %s\n", b) // code under test may print to stdout; the result is the line with this prefix
}
