//go:build vsched

package main

import (
	"bytes"
	"errors"
	"fmt"
	"io"
	"net/http"

	"github.com/tdewolff/minify/v2/vsync"
)

// countWrites: number of Write calls the minifier makes on a clean run.
func countWrites(mt string, in []byte) int {
	s := &obsSink{}
	newRegistry().Minify(mt, s, bytes.NewReader(append([]byte{}, in...)))
	return s.writes
}

func writerFaultScenario(in input, chunks [][]byte, failAt int, short bool) scenario {
	name := fmt.Sprintf("Writer/failing-sink %s %s failAt=%d short=%v", in.mt, chunkString(chunks), failAt, short)
	return scenario{name, func() (func(), func(*vsync.Sched) ([]string, string)) {
		var closeErr, writeErr error
		closed := false
		var sink *obsSink
		cs := cloneChunks(chunks)
		body := func() {
			m := newRegistry()
			sink = &obsSink{failAt: failAt, short: short}
			w := m.Writer(in.mt, sink)
			for _, c := range cs {
				n, err := w.Write(c)
				vsync.Observe("w", n, err)
				if err != nil && writeErr == nil {
					writeErr = err
				}
			}
			closeErr = w.Close()
			closed = true
			vsync.Observe("close", closeErr)
		}
		verify := func(s *vsync.Sched) ([]string, string) {
			var v []string
			if !closed {
				if !s.Deadlock && !s.Livelock && s.Panic == "" {
					v = append(v, "Close did not return")
				}
				return v, "not-closed"
			}
			faulted := sink.writes >= failAt
			if faulted && !errors.Is(closeErr, errInjected) && !errors.Is(writeErr, errInjected) {
				v = append(v, fmt.Sprintf("sink failed from call %d (of %d) but neither Write (%v) nor Close (%v) returned the error", failAt, sink.writes, writeErr, closeErr))
			}
			return v, fmt.Sprintf("%v/%v/%v", faulted, errStr(writeErr), errStr(closeErr))
		}
		return body, verify
	}, true}
}

func readerFaultScenario(in input, failAfter int, withLast bool, readSize int) scenario {
	return readerFaultScenarioErr(in, failAfter, withLast, readSize, 0)
}

// faultIdentities: what a failing source or sink fails with. The wrappers create and test for io.ErrClosedPipe themselves,
// so a source or sink failing with exactly that value (or wrapping it) is an identity of its own.
var faultIdentities = []error{errors.New("injected I/O failure"), io.ErrClosedPipe, fmt.Errorf("relay: %w", io.ErrClosedPipe), fmt.Errorf("frame: %w", io.ErrUnexpectedEOF)}
var faultIdentityNames = []string{"plain", "io.ErrClosedPipe", "wraps-io.ErrClosedPipe", "wraps-io.ErrUnexpectedEOF"}

func readerFaultScenarioErr(in input, failAfter int, withLast bool, readSize int, ident int) scenario {
	name := fmt.Sprintf("Reader/failing-source %s %q failAfter=%d withLast=%v readSize=%d", in.mt, in.in, failAfter, withLast, readSize)
	if ident != 0 {
		name += " error=" + faultIdentityNames[ident]
	}
	return scenario{name, func() (func(), func(*vsync.Sched) ([]string, string)) {
		var finalErr error
		var got []byte
		errInjected := faultIdentities[ident]
		body := func() {
			m := newRegistry()
			src := &chunkReader{chunks: [][]byte{[]byte(in.in)[:failAfter]}, failErr: errInjected, withLast: withLast}
			if failAfter == 0 {
				src.chunks = nil
			}
			rd := m.Reader(in.mt, src)
			buf := make([]byte, readSize)
			for i := 0; i < 500; i++ {
				n, err := rd.Read(buf)
				vsync.Observe("r", n, err)
				got = append(got, buf[:n]...)
				if err != nil {
					finalErr = err
					return
				}
			}
			finalErr = fmt.Errorf("no end of stream after 500 reads")
		}
		verify := func(s *vsync.Sched) ([]string, string) {
			var v []string
			if finalErr == nil {
				if !s.Deadlock && !s.Livelock && s.Panic == "" {
					v = append(v, "consumer never saw the end of the stream")
				}
				return v, "no-end"
			}
			if finalErr == io.EOF {
				v = append(v, fmt.Sprintf("source failed after %d bytes but the consumer saw a clean EOF (silent truncation), data %q", failAfter, got))
			} else if !errors.Is(finalErr, errInjected) {
				v = append(v, fmt.Sprintf("source failed after %d bytes but the consumer got %q instead of the source's error", failAfter, finalErr))
			}
			return v, errStr(finalErr)
		}
		return body, verify
	}, true}
}

func respFaultScenario(kind string, in input, chunks [][]byte, failAt int) scenario {
	name := fmt.Sprintf("%s/failing-response %s %s failAt=%d", kind, in.mt, chunkString(chunks), failAt)
	return scenario{name, func() (func(), func(*vsync.Sched) ([]string, string)) {
		var closeErr, handlerErr error
		returned := false
		rec := &recResp{header: http.Header{}, failAt: failAt}
		cs := cloneChunks(chunks)
		body := func() {
			m := newRegistry()
			req := &http.Request{RequestURI: "/"}
			handler := http.HandlerFunc(func(w http.ResponseWriter, _ *http.Request) {
				w.Header().Set("Content-Type", in.mt)
				for _, c := range cs {
					n, err := w.Write(c)
					vsync.Observe("hw", n, err)
					if err != nil && handlerErr == nil {
						handlerErr = err
					}
				}
			})
			switch kind {
			case "ResponseWriter":
				mw := m.ResponseWriter(rec, req)
				handler(mw, req)
				closeErr = mw.Close()
			case "MiddlewareWithError":
				m.MiddlewareWithError(handler, func(_ http.ResponseWriter, _ *http.Request, err error) { closeErr = err }).ServeHTTP(rec, req)
			}
			returned = true
			vsync.Observe("ret", closeErr)
		}
		verify := func(s *vsync.Sched) ([]string, string) {
			var v []string
			if !returned {
				if !s.Deadlock && !s.Livelock && s.Panic == "" {
					v = append(v, kind+" did not return")
				}
				return v, "not-returned"
			}
			faulted := rec.writes >= failAt
			if faulted && !errors.Is(closeErr, errInjected) && !errors.Is(handlerErr, errInjected) {
				v = append(v, fmt.Sprintf("response writer failed from call %d (of %d) but neither Write (%v) nor Close (%v) returned the error", failAt, rec.writes, handlerErr, closeErr))
			}
			return v, fmt.Sprintf("%v/%v/%v", faulted, errStr(handlerErr), errStr(closeErr))
		}
		return body, verify
	}, true}
}

func c14Scenarios(tier string) []scenario {
	var scs []scenario
	valid := c12inputs[:6]
	for _, in := range valid {
		nw := countWrites(in.mt, []byte(in.in))
		for _, cs := range compositions([]byte(in.in), 2) {
			if tier != "thorough" && len(cs) == 2 && len(cs[0])%3 != 1 {
				continue
			}
			for k := 1; k <= nw+1; k++ {
				scs = append(scs, writerFaultScenario(in, cs, k, false))
				if k%2 == 1 {
					scs = append(scs, writerFaultScenario(in, cs, k, true))
				}
			}
		}
		for k := 0; k <= len(in.in); k++ {
			for _, wl := range []bool{false, true} {
				if k == 0 && wl {
					continue
				}
				scs = append(scs, readerFaultScenario(in, k, wl, 2))
				if tier == "thorough" {
					scs = append(scs, readerFaultScenario(in, k, wl, 64))
				}
			}
		}
		for ident := 1; ident < len(faultIdentities); ident++ {
			for _, k := range []int{0, len(in.in) / 2, len(in.in)} {
				scs = append(scs, readerFaultScenarioErr(in, k, false, 2, ident))
			}
		}
		for _, kind := range []string{"ResponseWriter", "MiddlewareWithError"} {
			for k := 1; k <= nw+1; k++ {
				scs = append(scs, respFaultScenario(kind, in, [][]byte{[]byte(in.in)}, k))
				if len(in.in) > 3 {
					scs = append(scs, respFaultScenario(kind, in, [][]byte{[]byte(in.in)[:3], []byte(in.in)[3:]}, k))
				}
			}
		}
	}
	// a streaming minifier that gives up at the first failed write while the producer still has chunks to write
	for _, cs := range [][][]byte{{[]byte("abcdef")}, {[]byte("ab"), []byte("cdef")}, {[]byte("ab"), []byte("cd"), []byte("ef")}, {[]byte("a"), []byte("bcd"), []byte("e"), []byte("f")}} {
		for k := 1; k <= 3; k++ {
			scs = append(scs, writerFaultScenario(input{"x/copy", string(join(cs))}, cs, k, false))
			for _, kind := range []string{"ResponseWriter", "MiddlewareWithError"} {
				scs = append(scs, respFaultScenario(kind, input{"x/copy", string(join(cs))}, cs, k))
			}
		}
	}
	// a minifier that is done after a prefix of its input and returns nil (or the sink's error) without draining the
	// pipe, while the producer still has chunks to write: the sink fails at its only write (k=1) or never (k=2); the
	// later writes may fail with a closed pipe, but Write and Close must return
	for _, cs := range [][][]byte{{[]byte("titlebody")}, {[]byte("ti"), []byte("tlebody")}, {[]byte("title"), []byte("body")}, {[]byte("t"), []byte("itle"), []byte("bo"), []byte("dy")}} {
		for k := 1; k <= 2; k++ {
			scs = append(scs, writerFaultScenario(input{"x/prefix", string(join(cs))}, cs, k, false))
			for _, kind := range []string{"ResponseWriter", "MiddlewareWithError"} {
				scs = append(scs, respFaultScenario(kind, input{"x/prefix", string(join(cs))}, cs, k))
			}
		}
	}
	// failing documents: the minifier's own error must still not hang the wrappers when the sink fails too
	for _, in := range c12inputs[6:8] {
		scs = append(scs, writerFaultScenario(in, [][]byte{[]byte(in.in)}, 1, false))
		scs = append(scs, readerFaultScenario(in, len(in.in)/2, false, 2))
	}
	return scs
}

func runC14(tier string, shard, shards int) result {
	scs := c14Scenarios(tier)
	bound, maxExecs := 3, 50000
	if tier == "thorough" {
		bound, maxExecs = -1, 400000
	}
	res := runScenarios(scs, bound, maxExecs, shard, shards)
	res.Extra["total_scenarios"] = len(scs)
	return res
}
