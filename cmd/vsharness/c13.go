//go:build vsched

package main

import (
	"fmt"
	"strings"

	mdefault "github.com/tdewolff/minify/v2/minify"
	"github.com/tdewolff/minify/v2/vsync"
	"verif/internal/calls"
)

// c13Scenario runs the given calls concurrently on one shared registry.
func c13Scenario(cs []calls.Call, refs []string, useDefault bool) scenario {
	names := make([]string, len(cs))
	for i, c := range cs {
		names[i] = c.Name
	}
	name := "concurrent " + strings.Join(names, " || ")
	return scenario{name, func() (func(), func(*vsync.Sched) ([]string, string)) {
		results := make([]string, len(cs))
		var before, after string
		finished := false
		body := func() {
			sh := calls.New()
			before = sh.Snapshot()
			if useDefault {
				before = fmt.Sprintf("%+v", mdefault.Default.URL)
			}
			var wg vsync.WaitGroup
			wg.Add(len(cs))
			for i := range cs {
				i := i
				vsync.GoNamed(cs[i].Name, func() {
					results[i] = cs[i].Run(sh.M)
					vsync.Observe("result", i, results[i])
					wg.Done()
				})
			}
			wg.Wait()
			after = sh.Snapshot()
			if useDefault {
				after = fmt.Sprintf("%+v", mdefault.Default.URL)
			}
			vsync.Observe(after)
			finished = true
		}
		verify := func(s *vsync.Sched) ([]string, string) {
			var v []string
			if !finished {
				return v, "unfinished"
			}
			for i := range cs {
				if results[i] != refs[i] {
					v = append(v, fmt.Sprintf("call %s returned %q, sequentially it returns %q", cs[i].Name, results[i], refs[i]))
				}
			}
			if before != after {
				v = append(v, fmt.Sprintf("user option structs were mutated: before %s after %s", before, after))
			}
			for _, b := range s.LockBlocked {
				if !strings.Contains(b, ".wrMu") {
					v = append(v, "a call blocked on a lock held by another call: "+b)
					break
				}
			}
			return v, strings.Join(results, "#")
		}
		return body, verify
	}, true}
}

func c13Scenarios(tier string) []scenario {
	var scs []scenario
	// sequential reference: the call alone, under the scheduler's default schedule
	refOf := func(c calls.Call) string {
		var r string
		vsync.Run(nil, 20000, func() { r = c.Run(calls.New().M) })
		return r
	}
	al := calls.Alphabet
	refs := make([]string, len(al))
	for i, c := range al {
		refs[i] = refOf(c)
	}
	for i := 0; i < len(al); i++ {
		for j := i; j < len(al); j++ {
			scs = append(scs, c13Scenario([]calls.Call{al[i], al[j]}, []string{refs[i], refs[j]}, false))
		}
	}
	dl := calls.DefaultAlphabet
	drefs := make([]string, len(dl))
	for i, c := range dl {
		drefs[i] = refOf(c)
	}
	for i := 0; i < len(dl); i++ {
		for j := i; j < len(dl); j++ {
			scs = append(scs, c13Scenario([]calls.Call{dl[i], dl[j]}, []string{drefs[i], drefs[j]}, true))
		}
	}
	if tier == "thorough" {
		for i := 0; i < len(al); i++ {
			for j := i; j < len(al); j++ {
				for k := j; k < len(al); k++ {
					scs = append(scs, c13Scenario([]calls.Call{al[i], al[j], al[k]}, []string{refs[i], refs[j], refs[k]}, false))
				}
			}
		}
	}
	return scs
}

func runC13(tier string, shard, shards int) result {
	scs := c13Scenarios(tier)
	bound, maxExecs := 2, 60000
	if tier == "thorough" {
		bound, maxExecs = 3, 150000
	}
	res := runScenarios(scs, bound, maxExecs, shard, shards)
	res.Extra["total_scenarios"] = len(scs)
	return res
}
