package main

import (
	"bufio"
	"fmt"
	"os"

	"verif/internal/props/c03"
)

func main() {
	cfg, ok := c03.ParseConfig(os.Args[1])
	if !ok {
		fmt.Println("bad config")
		return
	}
	sc := bufio.NewScanner(os.Stdin)
	for sc.Scan() {
		in := sc.Text()
		kind, what, out := c03.CheckOne(in, cfg)
		fmt.Printf("%s\n  => %s\n  %s %s\n", in, out, kind, what)
	}
}
