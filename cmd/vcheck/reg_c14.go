package main

import "verif/internal/props/c14"

func init() { props["C14"] = prop{"fault_enumeration", c14.Run, c14.Replay} }
