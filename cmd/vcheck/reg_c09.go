package main

import "verif/internal/props/c09"

func init() { props["C09"] = prop{"exploration", c09.Run, c09.Replay} }
