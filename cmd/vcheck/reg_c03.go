package main

import "verif/internal/props/c03"

func init() { props["C03"] = prop{"exploration", c03.Run, c03.Replay} }
