package main

import "verif/internal/props/c04"

func init() { props["C04"] = prop{"exploration", c04.Run, c04.Replay} }
