package main

import (
	"fmt"
	"os"

	"verif/internal/props/c13"
)

func init() {
	props["C13"] = prop{"model_checking", c13.Run, c13.Replay}
	if len(os.Args) > 1 && os.Args[1] == "digest" {
		fmt.Println(c13.Digest())
		os.Exit(0)
	}
}
