// vcheck runs one property check: vcheck <ID> <quick|thorough>, or vcheck replay <file>.
package main

import (
	"encoding/json"
	"fmt"
	"os"
	"time"

	"verif/internal/core"
)

type prop struct {
	level  string
	run    func(c *core.Check)
	replay func(f core.Failure) (kind, what string)
}

var props = map[string]prop{}

func main() {
	if len(os.Args) < 3 {
		fmt.Fprintln(os.Stderr, "usage: vcheck <ID> <quick|thorough> | vcheck replay <file>")
		os.Exit(2)
	}
	if os.Args[1] == "replay" {
		os.Exit(replay(os.Args[2]))
	}
	id, tier := os.Args[1], os.Args[2]
	p, ok := props[id]
	if !ok {
		fmt.Fprintf(os.Stderr, "unknown property %s\n", id)
		os.Exit(2)
	}
	c := core.New(id, tier, p.level)
	if d := os.Getenv("VERIF_DEADLINE_S"); d != "" {
		var s int
		fmt.Sscan(d, &s)
		c.Deadline = time.Now().Add(time.Duration(s) * time.Second)
	}
	c.Confirm = p.replay
	p.run(c)
	os.Exit(c.Finish())
}

func replay(path string) int {
	b, err := os.ReadFile(path)
	if err != nil {
		fmt.Fprintln(os.Stderr, err)
		return 2
	}
	var rec struct {
		Property string       `json:"property"`
		Failure  core.Failure `json:"failure"`
	}
	if err := json.Unmarshal(b, &rec); err != nil {
		fmt.Fprintln(os.Stderr, err)
		return 2
	}
	p, ok := props[rec.Property]
	if !ok || p.replay == nil {
		fmt.Fprintf(os.Stderr, "no replay for %s\n", rec.Property)
		return 2
	}
	kind, what := p.replay(rec.Failure)
	if kind == "" {
		fmt.Printf("REPLAY property=%s: holds (no violation reproduced)\n", rec.Property)
		return 0
	}
	fmt.Printf("VIOLATION property=%s replay=%s\n  kind=%s %s\n", rec.Property, path, kind, what)
	return 1
}
