package main

import "verif/internal/props/c07"

func init() { props["C07"] = prop{"exploration", c07.Run, c07.Replay} }
