package main

import "verif/internal/props/c11"

func init() { props["C11"] = prop{"exploration", c11.Run, c11.Replay} }
