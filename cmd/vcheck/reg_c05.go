package main

import "verif/internal/props/c05"

func init() { props["C05"] = prop{"exploration", c05.Run, c05.Replay} }
