package main

import (
	"verif/internal/core"
	"verif/internal/props/c10"
)

func init() {
	props["C10"] = prop{"exploration", c10.Run, func(f core.Failure) (string, string) {
		return "replay-unsupported", "re-run ./run.sh C10 quick; the replay file holds the exact input bytes and configuration"
	}}
}
