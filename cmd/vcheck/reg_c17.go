package main

import "verif/internal/props/c17"

func init() { props["C17"] = prop{"exploration", c17.Run, c17.Replay} }
