package main

import "verif/internal/props/c06"

func init() { props["C06"] = prop{"exploration", c06.Run, c06.Replay} }
