package main

import "verif/internal/props/c01"

func init() { props["C01"] = prop{"exploration", c01.Run, c01.Replay} }
