package main

import "verif/internal/props/c16"

func init() { props["C16"] = prop{"exploration", c16.Run, c16.Replay} }
