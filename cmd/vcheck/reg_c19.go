package main

import "verif/internal/props/c19"

func init() { props["C19"] = prop{"exploration", c19.Run, c19.Replay} }
