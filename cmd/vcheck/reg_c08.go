package main

import "verif/internal/props/c08"

func init() { props["C08"] = prop{"exploration", c08.Run, c08.Replay} }
