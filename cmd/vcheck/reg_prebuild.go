package main

import (
	"fmt"
	"os"

	"verif/internal/vsrun"
)

func init() {
	if len(os.Args) > 1 && os.Args[1] == "prebuild" {
		if _, _, err := vsrun.Build(); err != nil {
			fmt.Fprintln(os.Stderr, err)
			os.Exit(1)
		}
		os.Exit(0)
	}
}
