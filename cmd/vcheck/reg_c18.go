package main

import "verif/internal/props/c18"

func init() { props["C18"] = prop{"exploration", c18.Run, c18.Replay} }
