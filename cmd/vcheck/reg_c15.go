package main

import "verif/internal/props/c15"

func init() { props["C15"] = prop{"model_checking", c15.Run, c15.Replay} }
