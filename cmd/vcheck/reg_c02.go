package main

import "verif/internal/props/c02"

func init() { props["C02"] = prop{"exploration", c02.Run, c02.Replay} }
