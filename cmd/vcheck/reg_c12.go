package main

import "verif/internal/props/c12"

func init() { props["C12"] = prop{"model_checking", c12.Run, c12.Replay} }
