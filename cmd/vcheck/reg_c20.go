package main

import "verif/internal/props/c20"

func init() { props["C20"] = prop{"fault_enumeration", c20.Run, c20.Replay} }
