// freeharness runs the C13 call alphabet free (real goroutines, unmodified library, no
// scheduler); it is built with -race, so any data race between concurrent calls on one
// shared registry is reported by the race detector (exit status 66). It also compares
// every result with the sequential reference.
//
// usage: freeharness <goroutines> <iterations> <gomaxprocs> <seed>
package main

import (
	"fmt"
	"os"
	"runtime"
	"strconv"
	"sync"

	"verif/internal/calls"
)

func main() {
	g, _ := strconv.Atoi(os.Args[1])
	iters, _ := strconv.Atoi(os.Args[2])
	procs, _ := strconv.Atoi(os.Args[3])
	seed, _ := strconv.Atoi(os.Args[4])
	runtime.GOMAXPROCS(procs)
	bad := 0
	for _, set := range []struct {
		name string
		al   []calls.Call
		def  bool
		mk   func() *calls.Shared
	}{{"shared-registry", calls.Alphabet, false, calls.New}, {"shared-registry-zero-options", calls.Alphabet, false, calls.NewPlain}, {"minify.Default", calls.DefaultAlphabet, true, calls.New}} {
		refs := make([]string, len(set.al))
		for i, c := range set.al {
			refs[i] = c.Run(set.mk().M)
		}
		sh := set.mk()
		before := sh.Snapshot()
		var wg sync.WaitGroup
		var mu sync.Mutex
		total := 0
		for w := 0; w < g; w++ {
			wg.Add(1)
			go func(w int) {
				defer wg.Done()
				for it := 0; it < iters; it++ {
					k := (w*7 + it*3 + seed) % len(set.al)
					got := set.al[k].Run(sh.M)
					if got != refs[k] {
						mu.Lock()
						if bad < 5 {
							fmt.Printf("MISMATCH %s call %s: concurrent result %q, sequential %q\n", set.name, set.al[k].Name, got, refs[k])
						}
						bad++
						mu.Unlock()
					}
				}
				mu.Lock()
				total += iters
				mu.Unlock()
			}(w)
		}
		wg.Wait()
		if after := sh.Snapshot(); after != before {
			fmt.Printf("MISMATCH %s: option structs mutated: %s -> %s\n", set.name, before, after)
			bad++
		}
		fmt.Printf("FREE %s goroutines=%d iterations=%d gomaxprocs=%d calls=%d\n", set.name, g, iters, procs, total)
	}
	if bad > 0 {
		os.Exit(1)
	}
}
