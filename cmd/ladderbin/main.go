// ladderbin minifies one synthetic input pre + unit^n + suf + close^n once. It is built with
// -cover -covermode=count so that the sum of the coverage block counters, written at exit to
// GOCOVERDIR, is a deterministic measure of the work done (C10 growth ladders).
package main

import (
	"os"
	"strconv"
	"strings"

	minify "github.com/tdewolff/minify/v2"
	"github.com/tdewolff/minify/v2/css"
	"github.com/tdewolff/minify/v2/html"
	"github.com/tdewolff/minify/v2/js"
	"github.com/tdewolff/minify/v2/json"
	"github.com/tdewolff/minify/v2/svg"
	"github.com/tdewolff/minify/v2/xml"
)

func main() {
	typ, pre, unit, suf, cl := os.Args[1], os.Args[2], os.Args[3], os.Args[4], os.Args[5]
	n, _ := strconv.Atoi(os.Args[6])
	m := minify.New()
	m.Add("text/html", &html.Minifier{})
	m.Add("text/css", &css.Minifier{})
	m.Add("application/javascript", &js.Minifier{})
	m.Add("application/json", &json.Minifier{})
	m.Add("image/svg+xml", &svg.Minifier{})
	m.Add("text/xml", &xml.Minifier{})
	in := pre + strings.Repeat(unit, n) + suf + strings.Repeat(cl, n)
	m.Bytes(typ, []byte(in))
}
