module verif

go 1.23

require (
	github.com/djherbis/atime v1.1.0
	github.com/fsnotify/fsnotify v1.8.0
	github.com/matryer/try v0.0.0-20161228173917-9ac251b645a2
	github.com/tdewolff/argp v0.0.0-20250209172303-079abae893fb
	github.com/tdewolff/minify/v2 v2.0.0
	github.com/tdewolff/parse/v2 v2.7.23
	golang.org/x/net v0.34.0
)

require (
	github.com/jmoiron/sqlx v1.4.0 // indirect
	github.com/pelletier/go-toml v1.9.5 // indirect
	golang.org/x/sys v0.30.0 // indirect
	gopkg.in/yaml.v3 v3.0.1 // indirect
)

replace github.com/tdewolff/minify/v2 => /repo
