// jsoracle.js — long-lived V8/acorn oracle worker. One JSON request per input line, one JSON
// reply per line. Run with: node --expose-internals --no-warnings node/jsoracle.js
//
// Requests:
//  {op:"run", id, mode:"fn"|"global", strict:bool, orig:<text>, variants:[<text>...], vectors:[[v...]...]}
//     fn mode: the texts are scripts that define a global function F(h0,h1,h2,h3); F is
//     called with recording host functions. global mode: the text is run as a script with
//     h0..h3 as globals; the global object is snapshotted afterwards.
//     Reply {id, status:"ok"|"skip", why?, mismatches:[{variant, vector, orig:<obs>, got:<obs>}]}
//  {op:"parse", id, text, ecmaVersion, sourceType, strict?} → {id, ok, error?, info?}
'use strict';
const vm = require('vm');
const readline = require('readline');
let acorn = null, walk = null;
try {
  acorn = require('internal/deps/acorn/acorn/dist/acorn');
  walk = require('internal/deps/acorn/acorn-walk/dist/walk');
} catch (e) { /* acorn only with --expose-internals */ }

const VALUES = {
  'u': undefined, 'n': null, 't': true, 'f': false, '0': 0, '1': 1, '-1': -1, 'NaN': NaN, '-0': -0,
  'e': '', 'a': 'a', 'big': 2 ** 31, 'two': 2, 'half': 0.5, 's1': '1',
};
function decodeValue(v, ctx) {
  if (v === 'obj') return vm.runInContext('({p:1})', ctx);
  if (v === 'arr') return vm.runInContext('[1,2]', ctx);
  if (v === 'fun') return vm.runInContext('(function(){return 7})', ctx);
  if (v in VALUES) return VALUES[v];
  throw new Error('unknown value ' + v);
}

function enc(v, depth, seen) {
  switch (typeof v) {
    case 'undefined': return 'u';
    case 'boolean': return v ? 'T' : 'F';
    case 'number': return Object.is(v, -0) ? '-0' : 'N' + String(v);
    case 'bigint': return 'B' + String(v);
    case 'string': return JSON.stringify(v);
    case 'symbol': return 'sym';
    case 'function': return 'fn';
  }
  if (v === null) return 'null';
  if (depth > 4) return 'deep';
  if (seen.indexOf(v) >= 0) return 'cycle';
  seen = seen.concat([v]);
  let tag;
  try { tag = Object.prototype.toString.call(v); } catch (e) { tag = '[object ?]'; }
  if (tag === '[object Error]' || v instanceof Error || (v && typeof v.name === 'string' && typeof v.message === 'string' && /Error$/.test(v.name))) {
    return 'Err:' + (v.constructor && v.constructor.name || v.name);
  }
  if (tag === '[object RegExp]') return 'regexp';
  if (tag === '[object Promise]') return 'promise';
  if (tag === '[object Generator]') return 'generator';
  if (Array.isArray(v)) {
    const parts = [];
    for (let i = 0; i < v.length && i < 20; i++) parts.push(i in v ? enc(v[i], depth + 1, seen) : 'hole');
    return '[' + parts.join(',') + ']';
  }
  let keys;
  try { keys = Object.keys(v); } catch (e) { return 'obj?'; }
  keys = keys.slice(0, 20).sort();
  const parts = [];
  for (const k of keys) {
    let val;
    try { val = enc(v[k], depth + 1, seen); } catch (e) { val = 'getter-throws'; }
    parts.push(JSON.stringify(k) + ':' + val);
  }
  return '{' + parts.join(',') + '}';
}

class Budget extends Error {}

const BOOT = `
(function(){
  const encF = ${enc.toString()};
  const VALUES = {'u': undefined, 'n': null, 't': true, 'f': false, '0': 0, '1': 1, '-1': -1, 'NaN': NaN, '-0': -0, 'e': '', 'a': 'a', 'big': 2 ** 31, 'two': 2, 'half': 0.5, 's1': '1'};
  function dec(v){ if(v==='obj')return {p:1}; if(v==='arr')return [1,2]; if(v==='fun')return function(){return 7}; return VALUES[v]; }
  class Budget extends Error {}
  const base = new Set(Object.getOwnPropertyNames(globalThis));
  base.add('__runAll'); base.add('F'); base.add('__vectors'); base.add('__h0'); base.add('__h1'); base.add('__h2'); base.add('__h3');
  const getNames = Object.getOwnPropertyNames, sort = Array.prototype.sort, join = Array.prototype.join;
  globalThis.__runAll = function(F, vectors){
    const out = [];
    for (let vi = 0; vi < vectors.length; vi++) {
      const vector = vectors[vi];
      const log = []; let calls = 0;
      const hosts = [0,1,2,3].map(i => function(...args){
        calls++;
        if (calls > 60) throw new Budget('budget');
        log.push('h'+i+'('+args.map(a => encF(a,0,[])).join(',')+')');
        return dec(vector.length ? vector[(calls-1) % vector.length] : 'u');
      });
      let completion;
      try { completion = 'return ' + encF(F(hosts[0],hosts[1],hosts[2],hosts[3]),0,[]); }
      catch (e) {
        if (e instanceof Budget) completion = 'budget';
        else if (e && typeof e.message === 'string' && /before initialization/.test(e.message)) { out.push('TDZ'); completion = null; }
        else completion = 'throw ' + encF(e,0,[]);
      }
      const parts = [];
      const names = getNames(globalThis).filter(k => !base.has(k)).sort();
      for (const k of names) { let v; try { v = encF(globalThis[k],0,[]); } catch (e) { v = 'throws'; } parts.push(k+'='+v); }
      for (const k of ['g0','g1','g2','g3']) { let v; try { v = encF(globalThis[k],0,[]); } catch (e) { v = 'throws'; } parts.push(k+'='+v); }
      for (const k of names) { try { delete globalThis[k]; } catch (e) {} }
      g0=1; g1="s"; g2={q:2}; g3=[3];
      if (completion !== null) out.push(log.join(' ') + ' | ' + completion + ' | ' + parts.join(';'));
    }
    return out;
  };
})();
`;

function makeContext() {
  const ctx = vm.createContext({});
  vm.runInContext('var g0=1,g1="s",g2={q:2},g3=[3];', ctx);
  vm.runInContext(BOOT, ctx);
  const base = new Set(Object.getOwnPropertyNames(vm.runInContext('globalThis', ctx)));
  return { ctx, base };
}

let shared = makeContext();

function cleanup(c) {
  const g = vm.runInContext('globalThis', c.ctx);
  for (const k of Object.getOwnPropertyNames(g)) {
    if (!c.base.has(k)) { try { delete g[k]; } catch (e) {} }
  }
  try { vm.runInContext('g0=1;g1="s";g2={q:2};g3=[3];', c.ctx); } catch (e) { shared = makeContext(); }
}

// run one text under one vector; returns an observation string, or {skip:why}
// The vm timeout only guards against programs that loop without calling a host function (host calls are budgeted). It is a
// wall-clock limit, so a first expiry decides nothing: the run is repeated in a fresh context with a limit a hundred times longer,
// and only a program that exceeds that as well counts as non-terminating (a loaded machine cannot stretch microseconds to seconds).
function observe(text, mode, vector, c) {
  let r;
  try { r = observe1(text, mode, vector, c, 50); } finally { try { cleanup(c); } catch (e) {} }
  if (r && r.skip === 'timeout') {
    const c2 = makeContext();
    r = observe1(text, mode, vector, c2, 5000);
  }
  return r;
}
function observe1(text, mode, vector, c, limit) {
  const log = [];
  let calls = 0;
  const hosts = [0, 1, 2, 3].map(i => function (...args) {
    calls++;
    if (calls > 60) throw new Budget('budget');
    log.push('h' + i + '(' + args.map(a => enc(a, 0, [])).join(',') + ')');
    const v = vector.length ? vector[(calls - 1) % vector.length] : undefined;
    return decodeValue(v, c.ctx);
  });
  let completion;
  const g = vm.runInContext('globalThis', c.ctx);
  try {
    if (mode === 'fn') {
      // the call happens inside the vm so that the timeout also covers F's body
      for (let i = 0; i < 4; i++) g['__h' + i] = hosts[i];
      const script = new vm.Script(text + '\n;if(typeof F!=="function")throw new SyntaxError("F is not a function");F(__h0,__h1,__h2,__h3)', { filename: 'case.js' });
      const r = script.runInContext(c.ctx, { timeout: limit });
      completion = 'return ' + enc(r, 0, []);
    } else {
      for (let i = 0; i < 4; i++) g['h' + i] = hosts[i];
      const script = new vm.Script(text, { filename: 'case.js' });
      script.runInContext(c.ctx, { timeout: limit });
      completion = 'normal'; // the completion value of a script is not observable by the program
    }
  } catch (e) {
    if (e instanceof Budget) completion = 'budget';
    else if (e && e.code === 'ERR_SCRIPT_EXECUTION_TIMEOUT') return { skip: 'timeout' };
    else if (e instanceof SyntaxError && e.constructor === SyntaxError) return { syntax: String(e.message) };
    else {
      if (e && typeof e.message === 'string' && /before initialization/.test(e.message)) return { skip: 'tdz' };
      completion = 'throw ' + enc(e, 0, []);
    }
  }
  let globals = '';
  const names = Object.getOwnPropertyNames(g).filter(k => !c.base.has(k) && !/^(__)?h[0-3]$/.test(k) && k !== 'F').sort();
  const parts = [];
  for (const k of names) { let v; try { v = enc(g[k], 0, []); } catch (e) { v = 'throws'; } parts.push(k + '=' + v); }
  // values of the predefined free globals (they may be assigned)
  for (const k of ['g0', 'g1', 'g2', 'g3']) { let v; try { v = enc(g[k], 0, []); } catch (e) { v = 'throws'; } parts.push(k + '=' + v); }
  globals = parts.join(';');
  return { obs: log.join(' ') + ' | ' + completion + ' | ' + globals };
}


// observeAll: fn mode, all vectors in one vm call. Returns {obs:[...]} | {skip} | {syntax} | {timeout:true}
function observeAll(text, vectors, c) {
  const g = vm.runInContext('globalThis', c.ctx);
  g.__vectors = vectors;
  let res;
  try {
    const script = new vm.Script(text + '\n;if(typeof F!=="function")throw new SyntaxError("F is not a function");__runAll(F,__vectors)', { filename: 'case.js' });
    res = script.runInContext(c.ctx, { timeout: 400 });
  } catch (e) {
    if (e && e.code === 'ERR_SCRIPT_EXECUTION_TIMEOUT') { shared = makeContext(); return { timeout: true }; }
    if (e instanceof SyntaxError && e.constructor === SyntaxError) return { syntax: String(e.message) };
    shared = makeContext();
    return { skip: 'harness exception: ' + String(e && e.message || e) };
  }
  const obs = Array.from(res, String);
  if (obs.indexOf('TDZ') >= 0) return { skip: 'tdz' };
  return { obs };
}

function handleRunFn(req) {
  const out = { id: req.id, status: 'ok', mismatches: [] };
  const vectors = req.vectors && req.vectors.length ? req.vectors : [[]];
  const o = observeAll(req.orig, vectors, shared);
  if (o.timeout || o.skip || o.syntax) return null; // fall back to the per-vector path
  for (let k = 0; k < req.variants.length; k++) {
    const m = observeAll(req.variants[k], vectors, shared);
    if (m.timeout || m.skip) return null;
    if (m.syntax) { out.mismatches.push({ variant: k, vector: 0, orig: o.obs[0], got: 'SyntaxError: ' + m.syntax, syntax: true }); continue; }
    for (let vi = 0; vi < vectors.length; vi++) {
      if (m.obs[vi] !== o.obs[vi]) { out.mismatches.push({ variant: k, vector: vi, orig: o.obs[vi], got: m.obs[vi] }); break; }
    }
  }
  return out;
}

function handleRun(req) {
  cleanup(shared); // never inherit globals from an earlier request (early exits skip the per-run cleanup)
  if (req.mode === 'fn' && !req.fresh) { const fast = handleRunFn(req); if (fast) return fast; }
  const out = { id: req.id, status: 'ok', mismatches: [] };
  const vectors = req.vectors && req.vectors.length ? req.vectors : [[]];
  for (let vi = 0; vi < vectors.length; vi++) {
    const c = req.fresh ? makeContext() : shared;
    const o = observe(req.orig, req.mode, vectors[vi], c);
    if (o.skip) { out.status = 'skip'; out.why = o.skip; return out; }
    if (o.syntax) { out.status = 'skip'; out.why = 'original does not compile: ' + o.syntax; return out; }
    for (let k = 0; k < req.variants.length; k++) {
      const c2 = req.fresh ? makeContext() : shared;
      const m = observe(req.variants[k], req.mode, vectors[vi], c2);
      if (m.skip) {
        if (m.skip === 'timeout') out.mismatches.push({ variant: k, vector: vi, orig: o.obs, got: 'TIMEOUT (original terminated)' });
        else out.mismatches.push({ variant: k, vector: vi, orig: o.obs, got: 'SKIP ' + m.skip });
        continue;
      }
      if (m.syntax) { out.mismatches.push({ variant: k, vector: vi, orig: o.obs, got: 'SyntaxError: ' + m.syntax, syntax: true }); continue; }
      if (m.obs !== o.obs) out.mismatches.push({ variant: k, vector: vi, orig: o.obs, got: m.obs });
    }
    if (out.mismatches.length > 8) break;
  }
  return out;
}

function handleParse(req) {
  if (!acorn) return { id: req.id, ok: false, error: 'acorn unavailable (run node with --expose-internals)' };
  try {
    const text = (req.strict ? '"use strict";' : '') + req.text;
    const ast = acorn.parse(text, { ecmaVersion: req.ecmaVersion || 'latest', sourceType: req.sourceType || 'script', allowHashBang: true });
    const out = { id: req.id, ok: true };
    if (req.info) out.info = scopeInfo(ast);
    return out;
  } catch (e) {
    return { id: req.id, ok: false, error: String(e.message) };
  }
}

// scopeInfo: identifier names by role (for C02's static checks)
function scopeInfo(ast) {
  const info = { idents: [], props: [], labels: [], topDecls: [], imports: [], exports: [], strings: 0 };
  walk.full(ast, node => {
    switch (node.type) {
      case 'Identifier': info.idents.push(node.name); break;
      case 'LabeledStatement': info.labels.push(node.label.name); break;
      case 'MemberExpression': if (!node.computed && node.property.type === 'Identifier') info.props.push(node.property.name); break;
      case 'Property': if (!node.computed && node.key.type === 'Identifier') info.props.push(node.key.name); break;
      case 'MethodDefinition': case 'PropertyDefinition': if (!node.computed && node.key.type === 'Identifier') info.props.push(node.key.name); break;
      case 'ImportSpecifier': info.imports.push(node.imported.name || node.imported.value); break;
      case 'ExportSpecifier': info.exports.push(node.exported.name || node.exported.value); break;
      // the modules a module depends on (each import runs that module), and the kinds of binding taken from them
      case 'ImportDeclaration': info.imports.push('from:' + node.source.value); break;
      case 'ImportDefaultSpecifier': info.imports.push('default'); break;
      case 'ImportNamespaceSpecifier': info.imports.push('*'); break;
      case 'ExportAllDeclaration': info.exports.push('*from:' + node.source.value + (node.exported ? ' as ' + (node.exported.name || node.exported.value) : '')); break;
      case 'ExportNamedDeclaration': if (node.source) info.exports.push('from:' + node.source.value); if (node.declaration) { if (node.declaration.id) info.exports.push(node.declaration.id.name); else if (node.declaration.declarations) for (const d of node.declaration.declarations) collectPattern(d.id, info.exports); } break;
      case 'ExportDefaultDeclaration': info.exports.push('default'); break;
      case 'ImportExpression': info.imports.push('dynamic'); break;
    }
  });
  for (const st of ast.body) {
    if (st.type === 'VariableDeclaration') for (const d of st.declarations) collectPattern(d.id, info.topDecls);
    else if ((st.type === 'FunctionDeclaration' || st.type === 'ClassDeclaration') && st.id) info.topDecls.push(st.id.name);
  }
  return info;
}
function collectPattern(p, out) {
  if (!p) return;
  switch (p.type) {
    case 'Identifier': out.push(p.name); break;
    case 'ObjectPattern': for (const q of p.properties) collectPattern(q.type === 'RestElement' ? q.argument : q.value, out); break;
    case 'ArrayPattern': for (const q of p.elements) collectPattern(q, out); break;
    case 'AssignmentPattern': collectPattern(p.left, out); break;
    case 'RestElement': collectPattern(p.argument, out); break;
  }
}

const rl = readline.createInterface({ input: process.stdin, terminal: false });
rl.on('line', line => {
  if (!line) return;
  let req;
  try { req = JSON.parse(line); } catch (e) { process.stdout.write(JSON.stringify({ error: 'bad request' }) + '\n'); return; }
  let rep;
  try {
    if (req.op === 'run') rep = handleRun(req);
    else if (req.op === 'parse') rep = handleParse(req);
    else rep = { id: req.id, error: 'unknown op' };
  } catch (e) {
    rep = { id: req.id, status: 'skip', why: 'oracle exception: ' + (e && e.stack || e) };
    shared = makeContext();
  }
  process.stdout.write(JSON.stringify(rep) + '\n');
});
