// Package corpus holds small hand-written inputs per media type (each exercising several
// writes, at least one rewrite, and — for HTML/SVG/CSS — embedded content that re-enters
// the registry) plus helpers to build a fully registered registry.
package corpus

import (
	"regexp"

	minify "github.com/tdewolff/minify/v2"
	"github.com/tdewolff/minify/v2/css"
	"github.com/tdewolff/minify/v2/html"
	"github.com/tdewolff/minify/v2/js"
	mjson "github.com/tdewolff/minify/v2/json"
	"github.com/tdewolff/minify/v2/svg"
	"github.com/tdewolff/minify/v2/xml"
)

// Doc is one input.
type Doc struct {
	Type string
	Text string
}

// Types lists the media types in a fixed order.
var Types = []string{"text/html", "text/css", "application/javascript", "application/json", "image/svg+xml", "text/xml"}

// Small documents that minify without error.
var Valid = []Doc{
	// a style type of the length of "text/css" on the root, and a plain document with a style sheet and a style attribute
	{Type: "image/svg+xml", Text: `<svg xmlns="http://www.w3.org/2000/svg" contentStyleType="text/xsl"><style>a { fill : red }</style></svg>`},
	{Type: "image/svg+xml", Text: `<svg xmlns="http://www.w3.org/2000/svg"><style>a { fill : #ff0000 }</style><path style="fill : #ff0000" d="M0 0z"/></svg>`},
	{"text/html", "<!doctype html><html><head><title> a  b </title></head><body><p>one  two</p> <p>three</p></body></html>"},
	{"text/html", "<p>a <b>b</b>  c</p><ul><li>x</li><li>y</li></ul>"},
	{"text/html", "<div style=\"color: red; margin: 0px\" onclick=\"a ( ) ;\">x</div><style>a { color : #ff0000 }</style><script>var a = 1 ; f ( a )</script>"},
	{"text/html", "<a href=\"data:text/css,a%20%7B%20b%20%3A%20c%20%7D\">x</a><svg><path d=\"M 10 10 L 20 20\"/></svg>"},
	{"text/html", "<table><tr><td>1</td><td>2</td></tr></table><!-- c --><pre> a  b </pre><textarea> x </textarea>"},
	{"text/html", "<input type=text value=\"a&amp;b\" disabled=disabled><img src=\"http://x/y.png\" alt=\"\">"},
	{"text/html", "<script type=\"application/ld+json\">{ \"a\" : [ 1 , 2 ] }</script><p>x</p>"},
	{"text/html", "x &lt; y &amp;&amp; z &nbsp; <br> <span> q </span> <em>r</em>"},
	{"text/css", "a { color : red ; margin : 0px 0px 0px 0px }"},
	{"text/css", "@media screen { .a , .b > c { background : url( \"x.png\" ) no-repeat ; } } /* c */"},
	{"text/css", "a{b:url(data:image/svg+xml,%3Csvg%20xmlns%3D%22http%3A%2F%2Fwww.w3.org%2F2000%2Fsvg%22%3E%3Cpath%20d%3D%22M%2010%2010%20L%2020%2020%22%2F%3E%3C%2Fsvg%3E)}"},
	{"text/css", "a { background : url(data:,%00%01%02%03%04%05%06%07) }"},
	{"text/css", "a { background : url(data:,hello%2Cworld) ; b : url(\"data:;base64,aGVsbG8=\") }"},
	{"text/css", "@font-face { font-family : \"A B\" ; src : url(a.woff) } h1 { font : bold 12px/1.0 \"Helvetica\" , sans-serif }"},
	{"text/css", "a{color:rgb(255,0,0);width:calc( 1px + 2px );transform:translate( 0px , 0.50em )}"},
	{"text/css", "@import \"x.css\" ; @charset \"utf-8\"; a:hover::before{content:\"\\201C\"}"},
	{"application/javascript", "var a = 1 , b = 2 ; function f ( x ) { return x + a ; } f ( b ) ;"},
	{"application/javascript", "if ( a ) { b ( ) ; } else { c ( ) ; } for ( var i = 0 ; i < 10 ; i ++ ) d ( i ) ;"},
	{"application/javascript", "let s = 'a\\'b' + \"c\" ; const r = /a\\/b/g ; class A extends B { m ( ) { return super.m ( ) } }"},
	{"application/javascript", "x = y => ( { a : y , [ y ] : 1 } ) ; async function * g ( ) { yield * h ( ) ; await k } ; `t${ x }u`"},
	{"application/javascript", "try { a ( ) } catch ( e ) { b ( e ) } finally { c ( ) } ; switch ( x ) { case 1 : y ( ) ; break ; default : z ( ) }"},
	{"application/json", "{ \"a\" : [ 1.0 , 2e3 , true , null ] , \"b\" : { \"c\" : \"d e\" } }"},
	{"application/json", "[ 1000 , 0.5 , -0.0 , \"x\" , [ ] , { } ]"},
	{"application/json", " \"just a string\" "},
	{"image/svg+xml", "<svg xmlns=\"http://www.w3.org/2000/svg\" version=\"1.1\"> <g> <path d=\"M 10 10 L 20 20 L 30 30 Z\" fill=\"#ff0000\"/> </g> </svg>"},
	{"image/svg+xml", "<svg><style> a { fill : red } </style><rect x=\"0px\" y=\"0\" width=\"10.0\" height=\"5e0\" style=\"fill : blue\"/><!-- c --></svg>"},
	{"image/svg+xml", "<?xml version=\"1.0\"?><svg><text> a  b </text><metadata>m</metadata><circle r=\"1\"/></svg>"},
	{"image/svg+xml", "<svg><path d=\"M0 0L1 1\"/></svg><?xml-stylesheet href=\"a\"?><!-- c -->"},
	{"text/xml", "<a>t</a><?p d?><!-- c -->"},
	{"text/xml", "<?xml version=\"1.0\" ?><a b=\"c\" d='e'> <f> g  h </f> <i/> <![CDATA[ x < y ]]> <!-- c --> </a>"},
	{"text/xml", "<!DOCTYPE a [ <!ENTITY e \"v\"> ]><a>&e; &amp; &#65;<b></b></a>"},
	{"text/xml", "<a  x = \"1\"   y = '&quot;' ><b>t</b><b>u</b></a>"},
}

// Documents on which the minifier reports an error (JS and JSON parse errors; the other
// minifiers are lenient).
var Failing = []Doc{
	{"application/javascript", "var a = ( 1 ;"},
	{"application/javascript", "function f ( ) { return 1 ; } ; x = = 2"},
	{"application/json", "[ 1000 , }"},
	{"application/json", "{ \"a\" : 1e3 , \"b\" }"},
	{"text/html", "<p>x</p><script>var a = ( 1 ;</script><p>y</p>"},
	{"text/html", "<div onclick=\"a ( ( ;\">x</div>"},
	{"image/svg+xml", "<svg><style>a{</style></svg>"},
}

// Registry returns a fresh, fully registered registry with default options.
func Registry() *minify.M {
	m := minify.New()
	m.Add("text/css", &css.Minifier{})
	m.Add("text/html", &html.Minifier{})
	m.Add("image/svg+xml", &svg.Minifier{})
	m.AddRegexp(regexp.MustCompile("^(application|text)/(x-)?(java|ecma)script$"), &js.Minifier{})
	m.AddRegexp(regexp.MustCompile("[/+]json$"), &mjson.Minifier{})
	m.AddRegexp(regexp.MustCompile("[/+]xml$"), &xml.Minifier{})
	return m
}

// Direct returns the minifier for a type, for calling its Minify method directly.
func Direct(t string) minify.Minifier {
	switch t {
	case "text/css":
		return &css.Minifier{}
	case "text/html":
		return &html.Minifier{}
	case "image/svg+xml":
		return &svg.Minifier{}
	case "application/javascript":
		return &js.Minifier{}
	case "application/json":
		return &mjson.Minifier{}
	case "text/xml":
		return &xml.Minifier{}
	}
	return nil
}
