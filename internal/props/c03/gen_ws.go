package c03

import (
	"fmt"
	"strings"

	"verif/internal/core"
)

// Family (ii): whitespace placement. Skeleton S0 <A> S1 </A> S2 <B> S3 </B> S4 inside a
// wrapper; every Si ranges over text/no text with and without collapsible space on either
// side, so every gap of the skeleton is none/space (and newline, as a substitution) next to
// text, next to a tag, and next to another gap.

type wsElem struct {
	open, close string
	free        bool   // inner text may vary
	fixed       string // inner when !free
}

func we(name string) wsElem { return wsElem{"<" + name + ">", "</" + name + ">", true, ""} }

var wsElems = map[string]wsElem{
	// inline
	"span": we("span"), "b": we("b"), "a": {`<a href=u>`, "</a>", true, ""}, "label": we("label"), "x-custom": we("x-custom"),
	"ins": we("ins"), "q": we("q"), "i": we("i"), "noscript": we("noscript"), "ruby": {"<ruby>r<rt>", "</rt></ruby>", true, ""},
	// block
	"div": we("div"), "p": we("p"), "h1": we("h1"), "address": we("address"), "pre": we("pre"), "ul": {"<ul><li>", "</li></ul>", true, ""},
	"table": {"<table><tbody><tr><td>", "</td></tr></tbody></table>", true, ""}, "dl": {"<dl><dt>", "</dt><dd>d</dd></dl>", true, ""},
	"details": {"<details><summary>", "</summary></details>", true, ""}, "fieldset": {"<fieldset><legend>", "</legend></fieldset>", true, ""},
	// break
	"br": {"<br>", "", false, ""}, "hr": {"<hr>", "", false, ""}, "wbr": {"<wbr>", "", false, ""},
	// atomic inline
	"button": we("button"), "img": {`<img src=i alt=i>`, "", false, ""}, "input": {"<input>", "", false, ""},
	"select": {"<select>", "</select>", false, "<option>a</option>"}, "textarea": we("textarea"), "svg": {"<svg>", "</svg>", false, "<g/>"},
	"math": {"<math>", "</math>", false, "<mi>x</mi>"}, "video": {`<video src=v>`, "</video>", true, ""}, "iframe": {`<iframe src=u>`, "</iframe>", false, ""},
	"marquee": we("marquee"), "meter": {`<meter value=1>`, "</meter>", true, ""}, "object": {`<object data=u>`, "</object>", true, ""},
	"canvas": we("canvas"), "audio": {`<audio src=v>`, "</audio>", true, ""}, "progress": we("progress"),
	// not rendered
	"script": we("script"), "template": we("template"), "datalist": {`<datalist id=d>`, "</datalist>", false, "<option>a</option>"},
	"link": {`<link itemprop=a href=b>`, "", false, ""}, "meta": {`<meta itemprop=a content=b>`, "", false, ""},
}

var slotFull = []string{"", "a", " ", " a", "a ", " a "}

func wsSkeleton(wrapOpen, wrapClose string, a, b wsElem, outer0, inner, outer4 []string, nl bool, emit func(string) bool) bool {
	s1s, s3s := inner, inner
	if !a.free {
		s1s = []string{a.fixed}
	}
	if !b.free {
		s3s = []string{b.fixed}
	}
	for _, s0 := range outer0 {
		for _, s1 := range s1s {
			for _, s2 := range inner {
				for _, s3 := range s3s {
					for _, s4 := range outer4 {
						d := wrapOpen + s0 + a.open + s1 + a.close + s2 + b.open + s3 + b.close + s4 + wrapClose
						if nl {
							d = strings.ReplaceAll(d, "> ", ">\n")
							d = strings.ReplaceAll(d, "a ", "a\n")
						}
						if !emit(d) {
							return false
						}
					}
				}
			}
		}
	}
	return true
}

func runWhitespace(c *core.Check) {
	th := c.Thorough()
	first := []string{"span", "a", "b", "label", "noscript", "button", "img", "input", "select", "textarea", "svg", "script", "template", "br", "wbr", "marquee", "x-custom", "q"}
	second := []string{"div", "p", "span", "pre", "ul", "table", "h1", "button", "br", "script"}
	if th {
		first = append(first, "ins", "i", "ruby", "math", "video", "iframe", "meter", "object", "canvas", "audio", "progress", "datalist", "link", "meta", "hr",
			"div", "p", "h1", "address", "pre", "ul", "table", "dl", "details", "fieldset")
		second = append(second, "a", "b", "label", "noscript", "img", "input", "select", "textarea", "svg", "template", "wbr", "marquee", "x-custom", "q",
			"address", "dl", "details", "fieldset", "hr", "math", "video", "iframe")
	}
	outer0, outer4 := []string{"", "a", "a "}, []string{"", "a", " a"}
	if th {
		outer0, outer4 = slotFull, slotFull
	}
	bound := fmt.Sprintf("skeleton S0 <A> S1 </A> S2 <B> S3 </B> S4 in <div>…</div> (body fragment)%s: A over %d and B over %d representatives of the inline/block/break/atomic/not-rendered classes; inner slots over {'', a, ' ', ' a', 'a ', ' a '}, outer slots over %d values; spaces as space%s",
		map[bool]string{false: "", true: ", bare in body and in <span>…</span>"}[th], len(first), len(second), len(outer0), map[bool]string{false: "", true: " and, substituted, as newline"}[th])
	runFamily(c, "whitespace", bound, 0, func(emit func(ctx, text string) bool) {
		wraps := [][2]string{{"<div>", "</div>"}}
		if th {
			wraps = append(wraps, [2]string{"", ""}, [2]string{"<span>", "</span>"})
		}
		for wi, w := range wraps {
			for _, an := range first {
				for _, bn := range second {
					o0, o4 := outer0, outer4
					if wi > 0 {
						o0, o4 = []string{"", "a", "a "}, []string{"", "a", " a"}
					}
					nls := []bool{false}
					if th && wi == 0 {
						nls = []bool{false, true}
					}
					for _, nl := range nls {
						if !wsSkeleton(w[0], w[1], wsElems[an], wsElems[bn], o0, slotFull, o4, nl, func(d string) bool { return emit("body", d) }) {
							return
						}
					}
				}
			}
		}
		// nesting: A inside B and B inside A for inline/atomic pairs
		for _, an := range first {
			for _, bn := range first {
				a, b := wsElems[an], wsElems[bn]
				if !a.free || !b.free || an == bn || an == "script" || an == "textarea" || an == "template" && false {
					continue
				}
				if interactive[an] && interactive[bn] {
					continue
				}
				for _, s0 := range []string{"a", "a "} {
					for _, s1 := range slotFull {
						for _, s2 := range slotFull {
							bi := []string{s2}
							if !b.free {
								bi = []string{b.fixed}
							}
							for _, s3 := range slotFull {
								for _, s4 := range []string{"a", " a"} {
									if !emit("body", "<div>"+s0+a.open+s1+b.open+bi[0]+b.close+s3+a.close+s4+"</div>") {
										return
									}
								}
							}
						}
					}
				}
			}
		}
	})
}
