package c03

import (
	"fmt"
	"strings"

	"verif/internal/core"
)

// Family (ii): whitespace placement. Skeleton S0 <A> S1 </A> S2 <B> S3 </B> S4 inside a
// wrapper; every Si ranges over text/no text with and without collapsible space on either
// side, so every gap of the skeleton is none/space (and newline, as a substitution) next to
// text, next to a tag, and next to another gap.

type wsElem struct {
	open, close string
	free        bool   // inner text may vary
	nonEmpty    bool   // the empty inner is another family's subject (script)
	fixed       string // inner when !free
}

func el(open, close string, free bool, fixed string) wsElem {
	return wsElem{open: open, close: close, free: free, fixed: fixed}
}

func we(name string) wsElem {
	return wsElem{open: "<" + name + ">", close: "</" + name + ">", free: true}
}

var wsElems = map[string]wsElem{
	// inline
	"span": we("span"), "b": we("b"), "a": el(`<a href=u>`, "</a>", true, ""), "label": we("label"), "x-custom": we("x-custom"),
	"ins": we("ins"), "q": we("q"), "i": we("i"), "noscript": we("noscript"), "ruby": el("<ruby>r<rt>", "</rt></ruby>", true, ""),
	// block
	"div": we("div"), "p": we("p"), "h1": we("h1"), "address": we("address"), "pre": we("pre"), "ul": el("<ul><li>", "</li></ul>", true, ""),
	"table": el("<table><tbody><tr><td>", "</td></tr></tbody></table>", true, ""), "dl": el("<dl><dt>", "</dt><dd>d</dd></dl>", true, ""),
	"details": el("<details><summary>", "</summary></details>", true, ""), "fieldset": el("<fieldset><legend>", "</legend></fieldset>", true, ""),
	// break
	"br": el("<br>", "", false, ""), "hr": el("<hr>", "", false, ""), "wbr": el("<wbr>", "", false, ""),
	// atomic inline
	"button": we("button"), "img": el(`<img src=i alt=i>`, "", false, ""), "input": el("<input>", "", false, ""),
	"select": el("<select>", "</select>", false, "<option>a</option>"), "textarea": we("textarea"), "svg": el("<svg>", "</svg>", false, "<g/>"),
	"math": el("<math>", "</math>", false, "<mi>x</mi>"), "video": el(`<video src=v>`, "</video>", true, ""), "iframe": el(`<iframe src=u>`, "</iframe>", false, ""),
	"marquee": we("marquee"), "meter": el(`<meter value=1>`, "</meter>", true, ""), "object": el(`<object data=u>`, "</object>", true, ""),
	"canvas": we("canvas"), "audio": el(`<audio src=v>`, "</audio>", true, ""), "progress": we("progress"),
	// not rendered
	"script": {open: "<script>", close: "</script>", free: true, nonEmpty: true}, "template": we("template"), "datalist": el(`<datalist id=d>`, "</datalist>", false, "<option>a</option>"),
	"link": el(`<link itemprop=a href=b>`, "", false, ""), "meta": el(`<meta itemprop=a content=b>`, "", false, ""),
}

var slotFull = []string{"", "a", " ", " a", "a ", " a "}

func wsSkeleton(wrapOpen, wrapClose string, a, b wsElem, outer0, inner, outer4 []string, sub string, emit func(string) bool) bool {
	s1s, s3s := inner, inner
	if !a.free {
		s1s = []string{a.fixed}
	} else if a.nonEmpty {
		s1s = inner[1:]
	}
	if !b.free {
		s3s = []string{b.fixed}
	} else if b.nonEmpty {
		s3s = inner[1:]
	}
	for _, s0 := range outer0 {
		for _, s1 := range s1s {
			for _, s2 := range inner {
				for _, s3 := range s3s {
					for _, s4 := range outer4 {
						d := wrapOpen + s0 + a.open + s1 + a.close + s2 + b.open + s3 + b.close + s4 + wrapClose
						if sub == "\n" {
							d = strings.ReplaceAll(d, "> ", ">\n")
							d = strings.ReplaceAll(d, "a ", "a\n")
						} else if sub != "" { // a space-like character that is NOT HTML white space: never collapsible
							d = strings.ReplaceAll(d, "> ", ">"+sub)
							d = strings.ReplaceAll(d, "a ", "a"+sub)
							d = strings.ReplaceAll(d, " a", sub+"a")
							d = strings.ReplaceAll(d, " <", sub+"<")
						}
						if !emit(d) {
							return false
						}
					}
				}
			}
		}
	}
	return true
}

func runWhitespace(c *core.Check) {
	th := c.Thorough()
	first := []string{"span", "a", "noscript", "button", "img", "input", "select", "textarea", "svg", "script", "template", "br", "marquee", "q"}
	second := []string{"div", "p", "span", "pre", "button", "br", "script"}
	if th {
		first = append(first, "b", "label", "wbr", "x-custom", "ins", "i", "ruby", "math", "video", "iframe", "meter", "object", "canvas", "hr", "div", "p")
		second = append(second, "ul", "table", "h1", "a", "noscript", "img", "input", "select", "textarea", "svg", "template", "marquee", "q")
	}
	outer0, outer4 := []string{"", "a", "a "}, []string{"", "a", " a"}
	if th {
		outer0, outer4 = slotFull, slotFull
	}
	bound := fmt.Sprintf("skeleton S0 <A> S1 </A> S2 <B> S3 </B> S4 in <div>…</div> (body fragment)%s; B nested in A for inline/atomic/not-rendered pairs: A over %d and B over %d representatives of the inline/block/break/atomic/not-rendered classes; inner slots over {'', a, ' ', ' a', 'a ', ' a '}, outer slots over %d values; spaces as space%s",
		map[bool]string{false: "", true: ", and for the quick-tier representatives bare in body and in <span>…</span>"}[th], len(first), len(second), len(outer0), map[bool]string{false: "", true: " and, substituted, as newline"}[th])
	runFamily(c, "whitespace", bound, 0, func(emit func(ctx, text string) bool) {
		quickFirst, quickSecond := first, second
		if th {
			quickFirst, quickSecond = first[:14], second[:7]
		}
		type pass struct {
			wrap          [2]string
			first, second []string
			o0, o4        []string
			nl            string
		}
		small0, small4 := []string{"", "a", "a "}, []string{"", "a", " a"}
		passes := []pass{{[2]string{"<div>", "</div>"}, first, second, outer0, outer4, ""},
			{[2]string{"<div>", "</div>"}, quickFirst, quickSecond, small0, small4, "\u00a0"}}
		if th {
			passes = append(passes,
				pass{[2]string{"<div>", "</div>"}, first, second, small0, small4, "\n"},
				pass{[2]string{"<div>", "</div>"}, quickFirst, quickSecond, small0, small4, "\u3000"},
				pass{[2]string{"", ""}, quickFirst, quickSecond, small0, small4, ""},
				pass{[2]string{"<span>", "</span>"}, quickFirst, quickSecond, small0, small4, ""})
		}
		for _, p := range passes {
			for _, an := range p.first {
				for _, bn := range p.second {
					if !wsSkeleton(p.wrap[0], p.wrap[1], wsElems[an], wsElems[bn], p.o0, slotFull, p.o4, p.nl, func(d string) bool { return emit("body", d) }) {
						return
					}
				}
			}
		}
		// nesting: B inside A for inline/atomic/not-rendered pairs
		outerPairs := [][2]string{{"a", "a"}, {"a ", " a"}}
		nestA, nestB := []string{"span", "a", "button", "noscript", "marquee", "q", "template"}, []string{"span", "b", "button", "img", "input", "br", "script", "template", "noscript", "svg"}
		if th {
			outerPairs = append(outerPairs, [2]string{"a", " a"}, [2]string{"a ", "a"})
			nestA, nestB = first[:14], first
		}
		for _, an := range nestA {
			for _, bn := range nestB {
				a, b := wsElems[an], wsElems[bn]
				if !a.free || an == bn || an == "script" || an == "textarea" || bn == "div" || bn == "p" || bn == "hr" {
					continue // raw text holds no elements; the outer elements take phrasing content only
				}
				if interactive[an] && interactive[bn] {
					continue
				}
				for _, op := range outerPairs {
					for _, s1 := range slotFull {
						for _, s2 := range slotFull {
							if !b.free {
								s2 = b.fixed
							} else if b.nonEmpty && s2 == "" {
								continue
							}
							for _, s3 := range slotFull {
								if !emit("body", "<div>"+op[0]+a.open+s1+b.open+s2+b.close+s3+a.close+op[1]+"</div>") {
									return
								}
							}
						}
					}
				}
			}
		}
	})
}
