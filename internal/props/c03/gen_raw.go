package c03

import (
	"fmt"
	"strings"

	"verif/internal/core"
)

// seqTexts enumerates every concatenation of at most maxLen pieces, shortest first.
func seqTexts(pieces []string, maxLen int, fn func(s string) bool) {
	seqs := core.Sequences{K: len(pieces), MaxLen: maxLen}
	var idx []int
	var sb strings.Builder
	for i := uint64(0); i < seqs.Count(); i++ {
		idx = seqs.At(i, idx)
		sb.Reset()
		for _, k := range idx {
			sb.WriteString(pieces[k])
		}
		if !fn(sb.String()) {
			return
		}
	}
}

// Family (iv): raw text and escapable raw text. The body of the element is followed by a
// paragraph, so an element end that moves changes the element structure.
var rawPieces = []string{"a", " ", "\n", "</scr", "<!--", "-->", "</script ", "</style", "&amp;", "&lt;", "<script>", "</script>", "<b>", "</textarea", "</title>"}

type rawHost struct{ ctx, pre, post string }

var rawHosts = map[string]rawHost{
	"script":   {"body", "<script>", "</script><p>b</p>"},
	"style":    {"document", docHead + "<style>", "</style><p>b</p>"},
	"textarea": {"body", "<textarea>", "</textarea><p>b</p>"},
	"title":    {"document", "<!doctype html><title>", "</title><p>b</p>"},
	"iframe":   {"body", "<iframe src=u>", "</iframe><p>b</p>"},
	"xmp":      {"body", "<xmp>", "</xmp><p>b</p>"},
	"noscript": {"body", "<noscript>", "</noscript><p>b</p>"},
	"pre":      {"body", "<pre>", "</pre><p>b</p>"},
}

// rawDomain: is body a conforming content of el? (§4.12.1.3 restrictions for contents of
// script elements; iframe must be empty; xmp is obsolete; noscript and pre hold phrasing/flow
// markup, so stray end tags and unclosed comments are out.)
func rawDomain(el, body string) bool {
	lower := strings.ToLower(body)
	switch el {
	case "style":
		return body != ""
	case "script":
		if body == "" || strings.Contains(lower, "</script") {
			return false // empty: family empty-raw; "</script" ends the element
		}
		// "<!--" must be closed by "-->" before the end, and "<script" inside a comment
		// must be followed by "</script" before the comment closes.
		rest := lower
		for {
			i := strings.Index(rest, "<!--")
			if i < 0 {
				return true
			}
			rest = rest[i+4:]
			j := strings.Index(rest, "-->")
			if j < 0 {
				return false
			}
			if strings.Contains(rest[:j], "<script") {
				return false
			}
			rest = rest[j+3:]
		}
	case "iframe":
		return body == ""
	case "xmp":
		return false
	case "noscript", "pre":
		for _, bad := range []string{"</scr", "<!--", "-->", "</script", "</style", "<script>", "</textarea", "</title", "&lt;<"} {
			if strings.Contains(lower, bad) {
				return false
			}
		}
		return !strings.Contains(lower, "<b>")
	}
	return true
}

func runRaw(c *core.Check) {
	n := c.Pick(3, 4)
	runFamily(c, "raw-text", fmt.Sprintf("bodies of script/style/textarea/title/pre/noscript/iframe from <=%d pieces of %q, followed by a paragraph; bodies that are not conforming content of the element (script content restrictions, non-empty iframe, markup errors in noscript/pre; xmp is obsolete) are skipped", n, rawPieces), 0,
		func(emit func(ctx, text string) bool) {
			for _, el := range []string{"script", "style", "textarea", "title", "pre", "noscript", "iframe", "xmp"} {
				h := rawHosts[el]
				ok := true
				seqTexts(rawPieces, n, func(body string) bool {
					if !rawDomain(el, body) {
						return true
					}
					// the body must not end the element early in the input either: the
					// first end tag of the element in the input is the host's own
					if strings.Contains(strings.ToLower(body), "</"+el) {
						return true
					}
					ok = emit(h.ctx, h.pre+body+h.post)
					return ok
				})
				if !ok {
					return
				}
			}
		})
	// empty script and style elements
	runFamily(c, "empty-raw", "empty script/style elements (no attributes, with attributes, whitespace-only) in head, body, paragraph and list contexts", 0, func(emit func(ctx, text string) bool) {
		for _, e := range []string{"<script></script>", "<script> </script>", "<script async></script>", "<script src=s></script>", "<script type=text/javascript></script>", "<SCRIPT></SCRIPT>", "<script ></script >",
			"<style></style>", "<style> </style>", "<style media=print></style>"} {
			inHead := docHead + e + "<p>a"
			if !emit("document", inHead) {
				return
			}
			if strings.HasPrefix(strings.ToLower(e), "<script") {
				for _, w := range []string{"%s", "a%sb", "a %s b", "<p>a%s</p>", "<p>a %s b</p>", "<ul><li>a</li>%s<li>b</li></ul>", "<div>%s</div>"} {
					if !emit("body", strings.Replace(w, "%s", e, 1)) {
						return
					}
				}
			}
		}
	})
}

// Family (v): text with character references.
var textPieces = []string{"a", " ", ";", "=", "1", "#", "x", "&", "&amp;", "&lt;", "&gt;", "&nbsp;", "&notit;", "&not;", "&#38;", "&#x26;", "&amp", "&ampx", "&#0;", "&#128;", "<", ">", "&num;"}

func textDomain(s string) bool {
	// a "<" followed by a letter, "/", "!" or "?" opens markup: not text
	for i := 0; i+1 < len(s); i++ {
		if s[i] == '<' {
			c := s[i+1]
			if c == '/' || c == '!' || c == '?' || c >= 'a' && c <= 'z' || c >= 'A' && c <= 'Z' {
				return false
			}
		}
	}
	return true
}

func runText(c *core.Check) {
	n := c.Pick(3, 4)
	hosts := []rawHost{{"body", "<p>", "</p>"}, {"body", "<p>b", "b</p>"}, {"document", "<!doctype html><title>", "</title><p>b"}, {"body", "<textarea>", "</textarea>"}, {"body", "<pre>", "</pre>"},
		{"body", `<div title="`, `">a</div>`}, {"body", "<select><option>", "</option></select>"}}
	runFamily(c, "text-references", fmt.Sprintf("texts of <=%d pieces of %q in p (alone and between letters), title, textarea, pre, option and a double-quoted attribute value", n, textPieces), 0,
		func(emit func(ctx, text string) bool) {
			for _, h := range hosts {
				ok := true
				seqTexts(textPieces, n, func(body string) bool {
					if !textDomain(body) {
						return true
					}
					ok = emit(h.ctx, h.pre+body+h.post)
					return ok
				})
				if !ok {
					return
				}
			}
		})
}

// Family (vi): template delimiters, with the corresponding TemplateDelims option.
func runTemplates(c *core.Check) {
	n := c.Pick(4, 5)
	for di := 1; di < len(Delims); di++ {
		d := Delims[di]
		t1 := d[0] + " x  y " + d[1]
		t2 := d[0] + `"a  b"` + d[1]
		pieces := []string{"a", " ", t1, "<b>", "</b>", "<p>", "</p>", "<div>", "</div>"}
		fixed := []string{
			`<div class="%s">a</div>`, `<div class=" a  %s ">a</div>`, `<div class="a %s  b">a</div>`, `<div %s>a</div>`, `<div %s class=a>a</div>`, `<div data-x=%s>a</div>`, `<div data-x=%s id=i>a</div>`,
			`<a href="%s">a</a>`, `<a href=" %s ">a</a>`, `<a href="http://h/%s">a</a>`, `<a href='%s'>a</a>`, `<input value=%s>`, `<input type=text value="%s">`, `<input type="%s" value="">`, `<input %s>`,
			`<div style=" %s ">a</div>`, `<div style="color:%s">a</div>`, `<div onclick=" %s ">a</div>`, `<div id="%s" name="%s">a</div>`,
			`<script>%s</script>`, `<script> %s  a</script>`, `<script>a  %s</script>b`, `<style>%s</style>`, `<style> a{} %s  b{}</style>`, `<textarea>%s</textarea>`, `<textarea> %s  </textarea>`, `<pre> %s  </pre>`,
			`<select><option>%s</option><option> %s </select>`, `<ul><li>%s</li><li> %s </ul>`, `<table><tr><td>%s</td><td> %s </table>`,
			`<p>a</p>%s<p>b</p>`, `<p>a</p> %s <p>b</p>`, `<p>a %s</p>`, `<p>%s a</p>`, `<p>a</p>%s`, `%s<p>a</p>`, `<div> %s </div>`, `<b> %s </b>`, `a %s %s b`, `a%s%sb`, `<p>%s`, `<p>a</p>%s<div>b</div>`,
			`<title>%s</title>`, `<title> a %s </title>`, `<button> %s </button>`, `<img src="%s" alt="%s">`, `<img alt=a src=%s>`, `<meta name=viewport content="width=%s, initial-scale=1.0">`, `<div class="%s"id="x">a</div>`,
			`<svg>%s</svg>`, `<svg width="%s"><g/></svg>`, `<math><mi>%s</mi></math>`, `<noscript>%s</noscript>`, `<iframe src="%s"></iframe>`, `<template> %s </template>`,
		}
		runFamily(c, "template-"+d[0]+d[1], fmt.Sprintf("TemplateDelims=%q: every sequence of <=%d pieces of %q with balanced tags, and %d hand-written placements (attribute names/values, raw text, select, comments, foreign content) x 2 template bodies; template spans must survive byte-identical", d, n, pieces, len(fixed)), di,
			func(emit func(ctx, text string) bool) {
				ok := true
				seqTexts(pieces, n, func(s string) bool {
					if !strings.Contains(s, d[0]) || !balanced(s) {
						return true
					}
					ok = emit("body", s)
					return ok
				})
				if !ok {
					return
				}
				for _, f := range fixed {
					for _, t := range []string{t1, t2} {
						if strings.Contains(f, `"%s"`) && strings.Contains(t, `"`) || strings.Contains(f, `="`) && strings.Contains(t, `"`) && !strings.Contains(f, `'%s'`) {
							continue // a double quote would end the attribute value
						}
						ctx, text := "body", strings.ReplaceAll(f, "%s", t)
						if strings.HasPrefix(f, "<title>") || strings.HasPrefix(f, "<meta") || strings.HasPrefix(f, "<style>") {
							ctx, text = "document", "<!doctype html>"+map[bool]string{true: "", false: "<title>t</title>"}[strings.HasPrefix(f, "<title>")]+text+"<p>a"
						}
						if !emit(ctx, text) {
							return
						}
					}
				}
			})
	}
}

// balanced: start and end tags of the piece alphabet nest properly (p may stay open).
func balanced(s string) bool {
	var stack []string
	for i := 0; i < len(s); i++ {
		if s[i] != '<' {
			continue
		}
		j := strings.IndexByte(s[i:], '>')
		if j < 0 {
			return true
		}
		tag := s[i+1 : i+j]
		if tag == "" || !(tag[0] == '/' || tag[0] >= 'a' && tag[0] <= 'z') {
			continue
		}
		if tag[0] != '/' {
			if tag == "p" || tag == "div" {
				for _, o := range stack {
					if o == "p" || o == "b" {
						return false // block inside p / inside b: not conforming
					}
				}
			}
			stack = append(stack, tag)
			continue
		}
		if len(stack) == 0 || stack[len(stack)-1] != tag[1:] {
			return false
		}
		stack = stack[:len(stack)-1]
	}
	for _, o := range stack {
		if o != "p" {
			return false
		}
	}
	return len(stack) <= 1
}

// Family (vii): comments.
func runComments(c *core.Check) {
	n := c.Pick(4, 5)
	comments := []string{"<!--c-->", "<!---->", "<!-- a -- b -->", "<!--[if IE]><p>x  y</p><![endif]-->", "<!--[if lt IE 9]> <b> a </b> <![endif]-->", "<!--#include file=\"a  b\" -->", "<!--[if !IE]><!-->a<!--<![endif]-->"}
	pieces := []string{"a", " ", "<b>", "</b>", "<p>", "</p>", "<div>", "</div>"}
	runFamily(c, "comments", fmt.Sprintf("every sequence of <=%d pieces of %q plus one of %d comments (plain, empty, with dashes, conditional, SSI) at every position, balanced tags; comments at the 8 document-level positions; comments inside table, select, ul, pre, textarea, title, script", n, pieces, len(comments)), 0,
		func(emit func(ctx, text string) bool) {
			ok := true
			for ci, cm := range comments {
				ps := append(append([]string{}, pieces...), cm)
				k := n
				if ci > 1 {
					k = n - 1
				}
				seqTexts(ps, k, func(s string) bool {
					if !strings.Contains(s, "<!--") || !balanced(strings.ReplaceAll(s, cm, "")) {
						return true
					}
					ok = emit("body", s)
					return ok
				})
				if !ok {
					return
				}
				visible := strings.Contains(cm, ">a<")
				doc := []string{"<!doctype html>", "<html>", "<head>", "<title>t</title>", "</head>", "<body>", "<p>a</p>", "</body>", "</html>", ""}
				for pos := 1; pos < len(doc); pos++ {
					if visible && pos != 6 && pos != 7 {
						continue
					}
					for _, sp := range []string{"", " "} {
						if !emit("document", strings.Join(doc[:pos], "")+sp+cm+sp+strings.Join(doc[pos:], "")) {
							return
						}
					}
				}
				if strings.Contains(cm, ">a<") {
					continue // visible text between two comments: only where text may stand
				}
				for _, f := range []string{"<table>%s<tr>%s<td>a</td>%s</tr>%s</table>", "<table><caption>a</caption>%s<colgroup><col></colgroup>%s<tbody><tr><td>a</td></tr></tbody></table>", "<select>%s<option>a</option>%s</select>", "<ul>%s<li>a</li>%s<li>b</li>%s</ul>",
					"<dl><dt>a</dt>%s<dd>b</dd>%s</dl>", "<pre> %s </pre>", "<textarea> %s </textarea>", "<script> %s </script>", "<p>a</p>%s<p>b</p>", "<p>a%s</p>%s<div>b</div>", "<ruby>a<rt>b</rt>%s</ruby>", "<p>a</p>%s"} {
					if !emit("body", strings.ReplaceAll(f, "%s", cm)) {
						return
					}
				}
				if !emit("document", "<!doctype html><title> %s </title><p>a") {
					return
				}
			}
		})
}

// runReviewed: documents that reviewers of the unchanged tree pointed out, each with a few neighbours. Every one of them is a
// product the grammar families above could form with one more terminal; they are kept as a family of their own so that the
// check names the defect (or its repair) on every run.
func runReviewed(c *core.Check) {
	docs := [][2]string{
		// end tags that may be omitted only before certain successors
		{"body", "<ruby>漢<rt>kan</rt>字<rt>ji</rt></ruby>"}, {"body", "<ruby>漢<rp>(</rp><rt>kan</rt><rp>)</rp>字</ruby>"}, {"body", "<ruby>a<rt>b</rt></ruby>c"},
		{"body", "<select><optgroup label=a><option>1</optgroup><!-- x --><option>2</select>"}, {"body", "<select><optgroup label=a><option>1</optgroup> <option>2</select>"}, {"body", "<select><optgroup label=a><option>1</optgroup><optgroup label=b><option>2</select>"},
		// a p element inside elements whose end tag does not close it
		{"body", "<my-el><p>a</p></my-el><span>b</span>"}, {"body", "<slot><p>a</p></slot><span>b</span>"}, {"body", "<x-y><p>a</p> </x-y>b"}, {"body", "<canvas><p>a</p></canvas><span>b</span>"}, {"body", "<object><p>a</p></object><span>b</span>"}, {"body", "<video><p>a</p></video><span>b</span>"}, {"body", "<dialog><p>a</p></dialog><span>b</span>"}, {"body", "<details><summary>s</summary><p>a</p></details><span>b</span>"}, {"body", "<button><p>a</p></button><span>b</span>"},
		// text that becomes a character reference when a comment between its parts is dropped
		{"body", "<p>a &amp;<!---->lt; b</p>"}, {"body", "<p>a &<!---->amp; b</p>"}, {"body", "<p>a &am<!--x-->p; b</p>"}, {"body", "<p title=\"&amp;lt;\">a</p>"},
		// text that becomes a character reference when the reference behind an ampersand is decoded
		{"body", "<p>a &amp;&num;60; b</p>"}, {"body", "<p>&amp;&#108;t; b</p>"}, {"body", "<p>&amp;&#35;60;</p>"}, {"body", "<p title=\"&amp;&num;60;\">a</p>"}, {"body", "<p>&&num;60;</p>"}, {"body", "<p>&amp;&lpar;&amp;&semi;&amp;l&#116;;</p>"}, {"body", "<p>&amp;cop&#121; b</p>"}, {"body", "<p>&&num;xa</p>"}, {"body", "<p>a&amp;&num;x20;b</p>"}, {"document", "<!doctype html><title>&&num;1;</title><p>b"}, {"document", "<!doctype html><title>&&num;xa</title><p>b"}, {"body", "<textarea>&amp;&num;60;</textarea>"},
		// raw text elements with attributes of frameworks
		{"document", "<!doctype html><html><head><title>t</title><style amp-boilerplate>a{content:\"&amp;   x\"}</style></head><body><p>x</p></body></html>"}, {"document", "<!doctype html><html><head><title>t</title><style amp-custom>a{content:\"&lt;  x\"}</style></head><body><p>x</p></body></html>"},
		// the start tag of body before elements that would otherwise go to head
		{"document", "<!doctype html><html><head><title>x</title></head><body><script>a()</script><p>x</body></html>"}, {"document", "<!doctype html><html><head><title>x</title></head><body><style>a{}</style><p>x</body></html>"}, {"document", "<!doctype html><html><head><title>x</title></head><body><link rel=stylesheet href=a><p>x</body></html>"}, {"document", "<!doctype html><html><head><title>x</title></head><body><meta itemprop=a content=b><p>x</body></html>"}, {"document", "<!doctype html><html><head><title>x</title></head><body><template><p>t</p></template><p>x</body></html>"}, {"document", "<!doctype html><html><head><title>x</title></head><body><noscript><p>n</p></noscript><p>x</body></html>"},
		// values that are submitted as written
		{"body", "<input type=radio name=a value=ON>"}, {"body", "<input type=radio name=a value=on>"}, {"body", "<input type=checkbox name=a value=On>"}, {"body", "<input type=radio name=a value=\" on\">"},
		// elements that are not rendered, between words
		{"body", "<p>a <style>b{color:red}</style> c"}, {"body", "<p>a <script>x()</script> c"}, {"body", "<p>a <template>t</template> c"}, {"body", "<p>a <link rel=stylesheet href=a> c"}, {"body", "<p>a <meta itemprop=a content=b> c"},
		// comments that are kept, next to tags that are not written
		{"document", "<!doctype html><html><head><title>t</title></head><body><!-- c --><p>x</body><!-- d --></html>"}, {"document", "<!doctype html><html><head><title>t</title></head><!-- e --><body><p>x</body></html><!-- f -->"},
	}
	runFamily(c, "reviewed", fmt.Sprintf("%d documents pointed out by reviewers, with neighbours", len(docs)), 0, func(emit func(ctx, text string) bool) {
		for _, d := range docs {
			if !emit(d[0], d[1]) {
				return
			}
		}
	})
}
