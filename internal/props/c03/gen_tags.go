package c03

import (
	"fmt"
	"regexp"
	"strings"

	"verif/internal/core"
)

// Family (i): optional tags. The content models and the tag omission rules below are
// written from the HTML Standard (§4 element definitions, §13.1.2.4 optional tags); they
// decide which texts are conforming and where the *input* may omit a tag.

func set(s string) map[string]bool {
	m := map[string]bool{}
	for _, f := range strings.Fields(s) {
		m[f] = true
	}
	return m
}

const textSib = "#text" // a text node "b" as a sibling

var (
	flowKids     = "p div span b a ul ol dl select table ruby pre textarea script br img input button svg math template noscript iframe h1 hr address label ins video x-custom " + textSib
	phrasingKids = "span b a select ruby textarea script br img input button svg math template noscript iframe label ins video x-custom " + textSib
	interactive  = set("a select textarea input button iframe label")
	voidEl       = set("br img input hr col meta link base")
)

func minus(kids string, not ...string) string {
	var out []string
	for _, k := range strings.Fields(kids) {
		drop := false
		for _, n := range not {
			if n == "interactive" && interactive[k] || n == k {
				drop = true
			}
		}
		if !drop {
			out = append(out, k)
		}
	}
	return strings.Join(out, " ")
}

// contentModel: the children a conforming document may put into each parent of the alphabet.
var contentModel = map[string]string{
	"body":     flowKids,
	"div":      flowKids,
	"li":       flowKids,
	"dd":       flowKids,
	"td":       flowKids,
	"th":       minus(flowKids, "h1", "address"),
	"caption":  minus(flowKids, "table"),
	"template": flowKids,
	"x-custom": flowKids,
	"ins":      flowKids,
	"noscript": minus(flowKids, "noscript"),
	"dt":       minus(flowKids, "h1", "address"),
	"address":  minus(flowKids, "h1", "address"),
	"a":        minus(flowKids, "interactive"),
	"video":    minus(flowKids, "video"),
	"p":        phrasingKids,
	"span":     phrasingKids,
	"b":        phrasingKids,
	"h1":       phrasingKids,
	"pre":      phrasingKids,
	"label":    minus(phrasingKids, "label"),
	"rt":       phrasingKids,
	"button":   minus(phrasingKids, "interactive"),
	"ruby":     minus(phrasingKids, "ruby") + " rb rt rtc rp",
	"ul":       "li script template",
	"ol":       "li script template",
	"dl":       "dt dd script template",
	"select":   "option optgroup script template",
	"optgroup": "option script template",
	"table":    "caption colgroup thead tbody tfoot tr script template",
	"colgroup": "col template",
	"thead":    "tr script template",
	"tbody":    "tr script template",
	"tfoot":    "tr script template",
	"tr":       "td th script template",
	"head":     "title style script template noscript meta link base",
}

// wrapper: the conforming ancestor chain that puts parent P into a body.
var wrapper = map[string][2]string{
	"li":       {"<ul>", "</ul>"},
	"dd":       {"<dl><dt>t</dt>", "</dl>"},
	"dt":       {"<dl>", "<dd>d</dd></dl>"},
	"td":       {"<table><tbody><tr>", "</tr></tbody></table>"},
	"th":       {"<table><tbody><tr>", "</tr></tbody></table>"},
	"caption":  {"<table>", "<tbody><tr><td>c</td></tr></tbody></table>"},
	"colgroup": {"<table>", "<tbody><tr><td>c</td></tr></tbody></table>"},
	"thead":    {"<table>", "</table>"},
	"tbody":    {"<table>", "</table>"},
	"tfoot":    {"<table>", "</table>"},
	"tr":       {"<table><tbody>", "</tbody></table>"},
	"optgroup": {"<select>", "</select>"},
	"rt":       {"<ruby>r", "</ruby>"},
}

// fillers: the inner variants of a sibling element (first: the default; "no text" second).
func fillers(name string) []string {
	switch name {
	case "ul", "ol":
		return []string{"<li>a</li>", ""}
	case "dl":
		return []string{"<dt>a</dt><dd>b</dd>", ""}
	case "select":
		return []string{"<option>a</option>", ""}
	case "optgroup":
		return []string{"<option>a</option>", ""}
	case "table":
		return []string{"<tbody><tr><td>a</td></tr></tbody>", "<tr><td>a</td></tr>", ""}
	case "thead", "tbody", "tfoot":
		return []string{"<tr><td>a</td></tr>", ""}
	case "tr":
		return []string{"<td>a</td>", ""}
	case "colgroup":
		return []string{"<col>", ""}
	case "ruby":
		return []string{"a<rt>b</rt>", "a"}
	case "script", "style":
		return []string{"x"} // the empty ones are a family of their own
	case "iframe":
		return []string{""}
	case "svg":
		return []string{"<g/>", ""}
	case "math":
		return []string{"<mi>x</mi>"}
	case "noscript":
		return []string{"a"}
	}
	return []string{"a", ""}
}

func headFillers(name string) []string {
	if name == "noscript" {
		return []string{"<link rel=a href=b>"}
	}
	return fillers(name)
}

var voidAttrs = map[string]string{"img": ` src=i alt=i`, "meta": ` name=a content=b`, "link": ` rel=a href=b`, "base": ` target=a`}

func openTag(name string) string {
	switch name {
	case "a":
		return `<a href=u>`
	case "iframe":
		return `<iframe src=u>`
	}
	return "<" + name + voidAttrs[name] + ">"
}

// mayOmitEnd: §13.1.2.4 — may the end tag of el be omitted when it is followed by next
// ("" = no more content in the parent, " " = whitespace, otherwise an element name or
// #text) inside parent?
func mayOmitEnd(el, next, parent string) bool {
	in := func(s string) bool { return set(s)[next] }
	switch el {
	case "li":
		return next == "" || next == "li"
	case "dt":
		return in("dt dd")
	case "dd":
		return next == "" || in("dt dd")
	case "p":
		if next == "" {
			return !set("a audio del ins map noscript video x-custom")[parent]
		}
		return in("address article aside blockquote details dialog div dl fieldset figcaption figure footer form h1 h2 h3 h4 h5 h6 header hgroup hr main menu nav ol p pre search section table ul")
	case "rt", "rp":
		return next == "" || in("rt rp")
	case "optgroup":
		return next == "" || in("optgroup hr")
	case "option":
		return next == "" || in("option optgroup hr")
	case "caption", "colgroup":
		return next != " " && next != "#comment"
	case "thead":
		return in("tbody tfoot")
	case "tbody":
		return next == "" || in("tbody tfoot")
	case "tfoot":
		return next == ""
	case "tr":
		return next == "" || next == "tr"
	case "td", "th":
		return next == "" || in("td th")
	}
	return false
}

// sibling renders one sibling. endTag=false omits its end tag (caller checked mayOmitEnd).
func sibling(name, filler string, endTag bool) string {
	if name == textSib {
		return "b"
	}
	if voidEl[name] {
		return openTag(name)
	}
	s := openTag(name) + filler
	if endTag {
		s += "</" + name + ">"
	}
	return s
}

// tableOrder: table children come as caption, colgroup*, thead, (tbody*|tr+), tfoot.
var tableRank = map[string]int{"caption": 0, "colgroup": 1, "thead": 2, "tbody": 3, "tr": 3, "tfoot": 4}

func orderOK(parent string, seq []string) bool {
	if parent == "table" {
		last, lastName := -1, ""
		for _, s := range seq {
			r, ok := tableRank[s]
			if !ok {
				continue
			}
			if r < last || r == last && !(r == 1 || r == 3 && s == lastName) {
				return false
			}
			last, lastName = r, s
		}
	}
	if parent == "head" {
		n := 0
		for _, s := range seq {
			if s == "title" || s == "base" {
				n++
			}
		}
		return n <= 1
	}
	return true
}

const (
	docPrefix = "<!doctype html><html><head><title>t</title></head><body>"
	docSuffix = "</body></html>"
)

var fragmentContexts = set("body select table tr ul dl ruby")

var rubyPart = regexp.MustCompile(`<r(b|t|tc|p)>`)

type tagsGen struct {
	thorough bool
	emit     func(ctx, text string) bool
	stop     bool
}

func (g *tagsGen) out(ctx, text string) {
	if !g.stop && !g.emit(ctx, text) {
		g.stop = true
	}
}

// place emits the content (children of parent) in every embedding of the parent.
func (g *tagsGen) place(parent, content string) {
	if g.stop {
		return
	}
	if fragmentContexts[parent] && !(parent == "ruby" && rubyPart.MatchString(content)) {
		// (In the fragment case the parser has no ruby element "in scope", so it never
		// infers the end of rb/rt/rtc/rp: such fragments are only parsed inside <ruby>.)
		g.out(parent, content)
	}
	switch parent {
	case "body":
		g.out("document", docPrefix+content+docSuffix)
		g.out("document", "<!doctype html><title>t</title><body>"+content)
		return
	case "head":
		g.out("document", "<!doctype html><html><head>"+content+"</head><body>a</body></html>")
		g.out("document", "<!doctype html>"+content+"<body>a")
		return
	}
	w := wrapper[parent]
	open, close := openTag(parent), "</"+parent+">"
	g.out("document", docPrefix+w[0]+open+content+close+w[1]+docSuffix)
	// the parent's own end tag omitted where the standard allows it
	next := ""
	switch parent {
	case "dt":
		next = "dd"
	case "caption", "colgroup", "thead":
		next = "tbody"
	}
	inner := "body"
	if w[0] != "" {
		inner = "wrapped"
	}
	if mayOmitEnd(parent, next, inner) {
		g.out("document", docPrefix+w[0]+open+content+w[1]+docSuffix)
	}
}

func (g *tagsGen) run() {
	wsQuick := []string{"", " "}
	wsFull := []string{"", " ", "\n"}
	parents := []string{"body", "div", "p", "span", "li", "td", "ul", "table", "tr", "select", "dl", "ruby", "head",
		"a", "b", "h1", "pre", "label", "button", "address", "ins", "video", "x-custom", "template", "noscript",
		"dd", "dt", "th", "caption", "rt", "ol", "optgroup", "colgroup", "thead", "tbody", "tfoot"}
	for _, parent := range parents {
		kids := strings.Fields(contentModel[parent])
		fill := fillers
		if parent == "head" {
			fill = headFillers
		}
		ws := wsQuick
		if g.thorough {
			ws = wsFull
		}
		// zero and one child
		g.place(parent, "")
		for _, x := range kids {
			for _, fx := range fill(x) {
				for _, pre := range ws {
					for _, post := range ws {
						g.place(parent, pre+sibling(x, fx, true)+post)
						if mayOmitEnd(x, "", parent) && post == "" {
							g.place(parent, pre+sibling(x, fx, false))
						}
					}
				}
			}
		}
		// pairs
		for _, x := range kids {
			for _, y := range kids {
				if x == textSib && y == textSib || !orderOK(parent, []string{x, y}) {
					continue
				}
				fys := fill(y)
				if !g.thorough {
					fys = fys[:1]
				}
				for _, fx := range fill(x) {
					for _, gap := range ws {
						for _, fy := range fys {
							for xe := 0; xe < 2; xe++ {
								next := y
								if gap != "" && (x == "caption" || x == "colgroup") {
									next = " "
								}
								if xe == 1 && (voidEl[x] || x == textSib || !mayOmitEnd(x, next, parent)) {
									continue
								}
								for ye := 0; ye < 2; ye++ {
									if ye == 1 && (voidEl[y] || y == textSib || !mayOmitEnd(y, "", parent)) {
										continue
									}
									g.place(parent, sibling(x, fx, xe == 0)+gap+sibling(y, fy, ye == 0))
								}
							}
						}
					}
				}
				if g.stop {
					return
				}
			}
		}
		if !g.thorough {
			continue
		}
		// triples (thorough): default fillers, gaps none/space, end tags written/omitted
		for _, x := range kids {
			for _, y := range kids {
				for _, z := range kids {
					if x == textSib && y == textSib || y == textSib && z == textSib || !orderOK(parent, []string{x, y, z}) {
						continue
					}
					fx, fy, fz := fill(x)[0], fill(y)[0], fill(z)[0]
					for _, g1 := range wsQuick {
						for _, g2 := range wsQuick {
							for xe := 0; xe < 2; xe++ {
								nx := y
								if g1 != "" && (x == "caption" || x == "colgroup") {
									nx = " "
								}
								if xe == 1 && (voidEl[x] || x == textSib || !mayOmitEnd(x, nx, parent)) {
									continue
								}
								for ye := 0; ye < 2; ye++ {
									ny := z
									if g2 != "" && (y == "caption" || y == "colgroup") {
										ny = " "
									}
									if ye == 1 && (voidEl[y] || y == textSib || !mayOmitEnd(y, ny, parent)) {
										continue
									}
									g.place(parent, sibling(x, fx, xe == 0)+g1+sibling(y, fy, ye == 0)+g2+sibling(z, fz, true))
								}
							}
						}
					}
				}
				if g.stop {
					return
				}
			}
		}
	}
}

// Document tags: html/head/body start and end tags written or omitted where §13.1.2.4
// allows, whitespace between head and body, and the first thing in the body.
func (g *tagsGen) documentTags() {
	headContents := []string{"<title>t</title>", "<title>t</title><meta charset=utf-8>", "<title>t</title><script>x</script>", "<meta charset=utf-8><title>t</title>",
		"<title>t</title><style>x</style>", "<title>t</title><noscript><link rel=a href=b></noscript>", "<title>t</title><template>a</template>", "<title>t</title><link rel=a href=b>", "<title>t</title> "}
	bodyContents := []string{"", "a", " a", "<p>a", "<p>a</p>", "<script>x</script>a", "<noscript>a</noscript>", "<template>a</template>b", "<meta itemprop=a content=b>c",
		"<link itemprop=a href=b>c", "<div>a</div> ", "a ", "<span>a</span>", "<pre>\na</pre>", "<br>a", "<table><tr><td>a</table>", "<ul><li>a</ul> "}
	gaps := []string{"", " ", "\n"}
	if !g.thorough {
		gaps = []string{"", " "}
	}
	for _, hc := range headContents {
		for _, bc := range bodyContents {
			for mask := 0; mask < 64; mask++ {
				htmlS, headS, headE, bodyS, bodyE, htmlE := mask&1 == 0, mask&2 == 0, mask&4 == 0, mask&8 == 0, mask&16 == 0, mask&32 == 0
				for _, gap := range gaps {
					// omission rules
					if !headS && !strings.HasPrefix(hc, "<") {
						continue // head start: first thing inside must be an element
					}
					if !headE && gap != "" {
						continue // head end: not followed by whitespace or comment
					}
					if !bodyS {
						first := bc
						if strings.HasPrefix(first, " ") || strings.HasPrefix(first, "\n") {
							continue // body start: first thing is not whitespace
						}
						bad := false
						for _, p := range []string{"<meta", "<noscript", "<link", "<script", "<style", "<template"} {
							if strings.HasPrefix(first, p) {
								bad = true
							}
						}
						if bad {
							continue
						}
					}
					var b strings.Builder
					b.WriteString("<!doctype html>")
					if htmlS {
						b.WriteString("<html>")
					}
					if headS {
						b.WriteString("<head>")
					}
					b.WriteString(hc)
					if headE {
						b.WriteString("</head>")
					}
					b.WriteString(gap)
					if bodyS {
						b.WriteString("<body>")
					}
					b.WriteString(bc)
					if bodyE {
						b.WriteString("</body>")
					}
					if htmlE {
						b.WriteString("</html>")
					}
					g.out("document", b.String())
					if g.stop {
						return
					}
				}
			}
		}
	}
	// attributes on document tags keep them; upper-case and spaced spellings
	for _, d := range []string{
		"<!DOCTYPE html><HTML lang=en><HEAD><TITLE>t</TITLE></HEAD><BODY class=a>a</BODY></HTML>",
		"<!doctype html><html lang=en><head><title>t</title></head><body>a</body></html>",
		"<!doctype html><html><head><title>t</title></head><body class=a>a</body></html>",
		"<!doctype html><html><head><title>t</title></head><body class=''>a</body></html>",
		"<!doctype html><html ><head ><title >t</title ></head ><body >a</body ></html >",
		"<!doctype html>\n<html>\n<head>\n<title>t</title>\n</head>\n<body>\na\n</body>\n</html>\n",
		"<!DOCTYPE html SYSTEM \"about:legacy-compat\"><title>t</title><p>a",
		"<!doctype html><title>t</title>",
		"<!doctype html><html><head><title>t</title></head></html>",
		"<!doctype html><html><head><title>t</title></head><body></body></html> ",
		"<!doctype html><html><head><title>t</title></head><body>a</body> </html> ",
		"<!doctype html><html><head><title>t</title></head><body>a</body></html>b",
	} {
		g.out("document", d)
	}
}

func runTags(c *core.Check) {
	th := c.Thorough()
	bound := "36 parents x children allowed by the content model (element alphabet of 50 + text): 0, 1 and 2 children"
	if th {
		bound += " and 3 children (default inner, gaps none/space)"
	}
	bound += fmt.Sprintf("; inner text/no text; gaps %s; end tags of every child and of the parent written or omitted where §13.1.2.4 allows; each parent as whole document and, for body/select/table/tr/ul/dl/ruby, as fragment", map[bool]string{false: "none/space", true: "none/space/newline"}[th])
	runFamily(c, "optional-tags", bound, 0, func(emit func(ctx, text string) bool) {
		g := &tagsGen{thorough: th, emit: emit}
		g.run()
	})
	runFamily(c, "document-tags", "9 head contents x 17 body contents x 64 written/omitted assignments of the six html/head/body tags (where §13.1.2.4 allows) x whitespace between head and body; plus spelled variants", 0, func(emit func(ctx, text string) bool) {
		g := &tagsGen{thorough: th, emit: emit}
		g.documentTags()
	})
}
