package c03

import (
	"fmt"

	"verif/internal/core"
)

// Family "history": non-initial states of the minifier. The token look-ahead buffer, the
// white-space state and the raw-text state of the HTML minifier are reused over the whole
// document, so what came earlier may change what is done later (a look-ahead slot that keeps
// fields of the token it held before, a flag that is not reset). Every document D of a small
// white-space skeleton is minified behind every prefix P of a list of self-contained block
// fragments that drive the look-ahead in different ways (text + inline end tag + block tag,
// comments between, foreign content, raw text, void elements, omitted end tags); the DOM of
// P+D is compared as for every other family, so that D behind P must keep exactly what D keeps
// alone. Two prefixes in a row give every slot of the look-ahead ring a second predecessor.

var historyPrefixes = []string{
	"<p><b>x </b></p>",
	"<ul><li><i>x </i></li></ul>",
	"<p>x <!--c--></p>",
	"<div>x <span>y </span></div>",
	"<div><span>x</span> </div>",
	"<p>x <svg><g/></svg> y</p>",
	"<p>x <math><mi>x</mi></math></p>",
	"<div><script>a</script> x </div>",
	"<p>x <img src=i alt=i> <br> y",
	"<table><tbody><tr><td>x </td></tr></tbody></table>",
	"<pre> x </pre>",
	"<p><a href=u>x </a><input> </p>",
	"<h1>x </h1>",
	"<div><textarea> x </textarea> <select><option>a</option></select> </div>",
	"<p>x<p>y <p><em>z </em>",
	"<dl><dt>x </dt><dd>y </dd></dl>",
}

var blockFollow = map[string]bool{"div": true, "p": true, "hr": true, "pre": true}

func runHistory(c *core.Check) {
	th := c.Thorough()
	inl := []string{"b", "span", "a"}
	follow := []string{"svg", "math", "img", "input", "button", "span", "br", "script", "select", "textarea"}
	if th {
		inl = append(inl, "i", "q", "label", "x-custom", "ins")
		// (noscript and marquee are left to the whitespace family: the minifier classes them as block elements, a recorded finding)
		follow = append(follow, "div", "p", "template", "iframe", "video", "object", "canvas", "wbr", "hr", "pre")
	}
	seps := []string{"", " ", "<!--c-->", " <!--c-->", "<!--c--> "}
	bound := fmt.Sprintf("documents P+D and P+P'+D: P, P' over %d block fragments (ordered pairs%s), D = <p>[s0]<I>[s1]</I>[sep]<F>…</F>[s4]</p> and <p>[s0][sep]<F>…</F>[s4]</p> (<div> instead of <p> around a block F) with I over %d inline elements, F over %d following elements (foreign, atomic, void, raw, inline%s), slots over {'', a, 'a ', ' a'}, sep over %d separators (none, space, comment, both orders)",
		len(historyPrefixes), map[bool]string{false: " with P' in the first four", true: ""}[th], len(inl), len(follow), map[bool]string{false: "", true: ", block"}[th], len(seps))
	runFamily(c, "history", bound, 0, func(emit func(ctx, text string) bool) {
		var docs []string
		for _, fn := range follow {
			f := wsElems[fn]
			inner := f.fixed
			if f.free {
				inner = "a"
			}
			fe := f.open + inner + f.close
			wo, wc := "<p>", "</p>"
			if blockFollow[fn] {
				wo, wc = "<div>", "</div>" // a paragraph takes phrasing content only
			}
			for _, sep := range seps {
				for _, s4 := range []string{"", " a", "a"} {
					for _, s0 := range []string{"a", "a ", ""} {
						docs = append(docs, wo+s0+sep+fe+s4+wc)
					}
					for _, in := range inl {
						i := wsElems[in]
						if interactive[in] && interactive[fn] {
							continue
						}
						for _, s1 := range []string{"a", "a ", " a "} {
							docs = append(docs, wo+i.open+s1+i.close+sep+fe+s4+wc)
						}
					}
				}
			}
		}
		second := historyPrefixes
		if !th {
			second = historyPrefixes[:4]
		}
		for _, d := range docs {
			if !emit("body", d) {
				return
			}
			for _, p := range historyPrefixes {
				if !emit("body", p+d) {
					return
				}
				for _, q := range second {
					if !emit("body", p+q+d) {
						return
					}
				}
			}
		}
	})
}
