// one: c03 probe — one <opts> <ctx> <text>... prints output and oracle verdict.
package main

import (
	"fmt"
	"os"

	"verif/internal/oracle/htmltree"
	"verif/internal/props/c03"
)

func main() {
	cfg := c03.Config{Opts: os.Args[1], Ctx: os.Args[2]}
	for _, in := range os.Args[3:] {
		kind, what, out := c03.CheckOne(in, cfg)
		fmt.Printf("%q -> %q  [%s]\n", in, out, kind)
		if kind != "" {
			fmt.Println("  ", what)
		}
		if os.Getenv("DUMP") != "" {
			o := htmltree.Options{}
			if cfg.Ctx != "document" {
				o.Context = cfg.Ctx
			}
			fmt.Println("  in :", htmltree.Dump(in, o, false))
			fmt.Println("  out:", htmltree.Dump(out, o, false))
		}
	}
}
