// c03dev is a development driver (same protocol as cmd/vcheck) for C03 only.
package main

import (
	"os"

	"verif/internal/core"
	"verif/internal/props/c03"
)

func main() {
	tier := "quick"
	if len(os.Args) > 1 {
		tier = os.Args[1]
	}
	c := core.New("C03", tier, "exploration")
	c03.Run(c)
	os.Exit(c.Finish())
}
