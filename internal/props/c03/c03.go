// Package c03: HTML minification preserves the parsed document.
//
// Every generated text is minified by an HTML-only registry (embedded CSS/JS/SVG pass
// through; their minification is C11's subject) under nine configurations and both texts
// are handed to the htmltree oracle.
package c03

import (
	"fmt"
	"regexp"
	"strings"

	minify "github.com/tdewolff/minify/v2"
	mhtml "github.com/tdewolff/minify/v2/html"
	"verif/internal/core"
	"verif/internal/oracle/htmltree"
)

// OptionSets are the minifier configurations of C03, simplest first.
var OptionSets = []string{"default", "all-keep", "KeepComments", "KeepDefaultAttrVals", "KeepDocumentTags", "KeepEndTags", "KeepQuotes", "KeepWhitespace", "KeepSpecialComments"}

// Delims are the template delimiter sets (index 0: none).
var Delims = [][2]string{{"", ""}, {"{{", "}}"}, {"<%", "%>"}, {"<?", "?>"}}

// Config is one configuration: minifier options, parse context, template delimiters.
type Config struct {
	Opts   string // one of OptionSets
	Ctx    string // "document" or the fragment's context element
	Delims int    // index into Delims
}

func (c Config) String() string {
	d := "none"
	if c.Delims > 0 {
		d = Delims[c.Delims][0] + Delims[c.Delims][1]
	}
	return fmt.Sprintf("opts=%s ctx=%s delims=%s", c.Opts, c.Ctx, d)
}

var cfgRe = regexp.MustCompile(`^opts=(\S+) ctx=(\S+) delims=(\S+)$`)

// ParseConfig is the inverse of Config.String.
func ParseConfig(s string) (Config, bool) {
	m := cfgRe.FindStringSubmatch(s)
	if m == nil {
		return Config{}, false
	}
	c := Config{Opts: m[1], Ctx: m[2]}
	for i, d := range Delims {
		if i > 0 && d[0]+d[1] == m[3] {
			c.Delims = i
		}
	}
	return c, true
}

func minifier(c Config) *mhtml.Minifier {
	o := &mhtml.Minifier{}
	all := c.Opts == "all-keep"
	o.KeepComments = all || c.Opts == "KeepComments"
	o.KeepDefaultAttrVals = all || c.Opts == "KeepDefaultAttrVals"
	o.KeepDocumentTags = all || c.Opts == "KeepDocumentTags"
	o.KeepEndTags = all || c.Opts == "KeepEndTags"
	o.KeepQuotes = all || c.Opts == "KeepQuotes"
	o.KeepWhitespace = all || c.Opts == "KeepWhitespace"
	o.KeepSpecialComments = all || c.Opts == "KeepSpecialComments"
	o.TemplateDelims = Delims[c.Delims]
	return o
}

func oracleOptions(c Config) htmltree.Options {
	o := htmltree.Options{}
	if c.Ctx != "document" {
		o.Context = c.Ctx
	}
	switch c.Opts {
	case "all-keep", "KeepComments":
		o.KeepComments = true
	case "KeepSpecialComments":
		o.KeepSpecialComments = true
	}
	if c.Delims == 3 {
		// "<? … ?>" is a (bogus) comment to an HTML parser: it has to survive.
		o.KeepComments = true
	}
	return o
}

// Minify runs the HTML-only registry on one text.
func Minify(in string, c Config) (out string, err error, panicked string) {
	m := minify.New()
	m.Add("text/html", minifier(c))
	var res []byte
	panicked = core.Recover(func() { res, err = m.Bytes("text/html", []byte(in)) })
	return string(res), err, panicked
}

// templates extracts the template spans of a text (delimiter to the next end delimiter).
func templates(s string, d [2]string) []string {
	var out []string
	for {
		i := strings.Index(s, d[0])
		if i < 0 {
			return out
		}
		j := strings.Index(s[i+len(d[0]):], d[1])
		if j < 0 {
			return append(out, s[i:])
		}
		e := i + len(d[0]) + j + len(d[1])
		out = append(out, s[i:e])
		s = s[e:]
	}
}

// CheckOne minifies one text under one configuration and asks the oracle.
func CheckOne(in string, c Config) (kind, what, out string) {
	out, err, p := Minify(in, c)
	if p != "" {
		return "panic", p, ""
	}
	if err != nil {
		return "error", fmt.Sprintf("minifier returned an error on a conforming text: %v", err), ""
	}
	kind, what = htmltree.Compare(in, out, oracleOptions(c))
	if kind == "" && c.Delims > 0 {
		a, b := templates(in, Delims[c.Delims]), templates(out, Delims[c.Delims])
		if strings.Join(a, "\x00") != strings.Join(b, "\x00") {
			kind, what = "template-changed", fmt.Sprintf("template spans %q became %q", a, b)
		}
	}
	if kind != "" {
		what = fmt.Sprintf("output %q\n  %s", out, what)
	}
	return
}

// doc is one generated case: the text and its parse context.
type doc struct {
	ctx    string // "document" or context element
	text   string
	delims int
}

func enc(ctx, text string) string { return ctx + "\x00" + text }

func dec(s string) (ctx, text string) {
	i := strings.IndexByte(s, 0)
	return s[:i], s[i+1:]
}

// runFamily streams the cases of gen through every option set.
func runFamily(c *core.Check, name, bound string, delims int, gen func(emit func(ctx, text string) bool)) {
	st := c.Family(name)
	st.Bound = bound
	c.ParallelStream(name, func(emit func(string) bool) {
		seen := map[string]struct{}{}
		gen(func(ctx, text string) bool {
			k := enc(ctx, text)
			if _, dup := seen[k]; dup {
				return true
			}
			seen[k] = struct{}{}
			return emit(k)
		})
	}, func(idx uint64, s string) {
		ctx, text := dec(s)
		var nt uint64
		type res struct{ kind, what string }
		cache := map[string]res{}
		for _, o := range OptionSets {
			cfg := Config{Opts: o, Ctx: ctx, Delims: delims}
			out, err, p := Minify(text, cfg)
			oo := oracleOptions(cfg)
			key := fmt.Sprintf("%v|%v|%s", oo.KeepComments, oo.KeepSpecialComments, out)
			r, ok := cache[key]
			if !ok || err != nil || p != "" {
				r.kind, r.what, _ = CheckOne(text, cfg)
				cache[key] = r
			}
			if out != text {
				nt++
				c.Nontrivial(s, o)
			}
			if r.kind != "" {
				c.Fail(core.Failure{Family: name, Input: text, Config: cfg.String(), Kind: r.kind, What: r.what, Order: idx})
			}
			if o == "default" && idx%40009 == 11 {
				c.Sample(map[string]any{"family": name, "ctx": ctx, "in": text, "out": out})
			}
		}
		n := uint64(len(OptionSets))
		c.Count(n)
		c.AddFamily(name, n, nt)
	})
}

// Run executes C03.
func Run(c *core.Check) {
	c.Rule = "exhaustive enumeration, within the bound stated per family, of conforming documents (<!doctype html>, html.Parse) and fragments (html.ParseFragment in a no-quirks body/select/table/tr/ul/dl/ruby context): (i) optional tags: parent x left sibling x whitespace x right sibling [thorough: triples] with end tags written or omitted in the input where the standard allows, document tags written/omitted; (ii) whitespace placement around and inside inline/block/atomic/not-rendered element pairs; (iii) attribute values over the quote/reference alphabet under three quoting styles on one attribute of each kind, the catalogue of standard attributes with conforming values, and the special cases coded in html.go; (iv) raw-text and escapable-raw-text bodies; (v) text with character references; (vi) template delimiters; (vii) comments. Each case runs under 9 option sets (default, all Keep*, each Keep* alone) with an HTML-only registry; evaluations = (text, option set) pairs; non-trivial = output bytes differ from input; distinct = distinct (context, text, option set)"
	c.Assumptions = []string{
		"golang.org/x/net/html v0.34.0 is the HTML5-conforming reference tokenizer and tree builder",
		"rendering equivalence is decided under the user-agent style sheet of HTML Standard §15 (no author CSS changes display or white-space)",
		"the start and the end of a fragment are block boundaries (the text is minified as a whole)",
		"HTML-only registry: style, script, on*, svg and math content must pass through byte-identical (modulo documented trimming)",
	}
	runTags(c)
	runWhitespace(c)
	runAttrs(c)
	runRaw(c)
	runText(c)
	runTemplates(c)
	runComments(c)
}

// Replay re-executes one failure.
func Replay(f core.Failure) (string, string) {
	cfg, ok := ParseConfig(f.Config)
	if !ok {
		return "bad-config", "cannot parse configuration " + f.Config
	}
	kind, what, _ := CheckOne(f.Input, cfg)
	return kind, what
}
