// Package c03: HTML minification preserves the parsed document.
//
// Every generated text is minified by an HTML-only registry (embedded CSS/JS/SVG pass
// through; their minification is C11's subject) under nine configurations and both texts
// are handed to the htmltree oracle.
package c03

import (
	"fmt"
	"os"
	"regexp"
	"sort"
	"strconv"
	"strings"
	"sync"

	minify "github.com/tdewolff/minify/v2"
	mhtml "github.com/tdewolff/minify/v2/html"
	"verif/internal/core"
	"verif/internal/oracle/htmltree"
)

// OptionSets are the minifier configurations of C03, simplest first.
var OptionSets = []string{"default", "all-keep", "KeepComments", "KeepDefaultAttrVals", "KeepDocumentTags", "KeepEndTags", "KeepQuotes", "KeepWhitespace", "KeepSpecialComments"}

// Delims are the template delimiter sets (index 0: none).
var Delims = [][2]string{{"", ""}, {"{{", "}}"}, {"<%", "%>"}, {"<?", "?>"}}

// Config is one configuration: minifier options, parse context, template delimiters.
type Config struct {
	Opts   string // one of OptionSets
	Ctx    string // "document" or the fragment's context element
	Delims int    // index into Delims
}

func (c Config) String() string {
	d := "none"
	if c.Delims > 0 {
		d = Delims[c.Delims][0] + Delims[c.Delims][1]
	}
	return fmt.Sprintf("opts=%s ctx=%s delims=%s", c.Opts, c.Ctx, d)
}

var bogusEnd = regexp.MustCompile(`</[^a-zA-Z]`)

var cfgRe = regexp.MustCompile(`^opts=(\S+) ctx=(\S+) delims=(\S+)$`)

// ParseConfig is the inverse of Config.String.
func ParseConfig(s string) (Config, bool) {
	m := cfgRe.FindStringSubmatch(s)
	if m == nil {
		return Config{}, false
	}
	c := Config{Opts: m[1], Ctx: m[2]}
	for i, d := range Delims {
		if i > 0 && d[0]+d[1] == m[3] {
			c.Delims = i
		}
	}
	return c, true
}

func minifier(c Config) *mhtml.Minifier {
	o := &mhtml.Minifier{}
	all := c.Opts == "all-keep"
	o.KeepComments = all || c.Opts == "KeepComments"
	o.KeepDefaultAttrVals = all || c.Opts == "KeepDefaultAttrVals"
	o.KeepDocumentTags = all || c.Opts == "KeepDocumentTags"
	o.KeepEndTags = all || c.Opts == "KeepEndTags"
	o.KeepQuotes = all || c.Opts == "KeepQuotes"
	o.KeepWhitespace = all || c.Opts == "KeepWhitespace"
	o.KeepSpecialComments = all || c.Opts == "KeepSpecialComments"
	o.TemplateDelims = Delims[c.Delims]
	return o
}

func oracleOptions(c Config) htmltree.Options {
	o := htmltree.Options{}
	if c.Ctx != "document" {
		o.Context = c.Ctx
	}
	switch c.Opts {
	case "all-keep", "KeepComments":
		o.KeepComments = true
	case "KeepSpecialComments":
		o.KeepSpecialComments = true
	}
	if c.Delims == 3 {
		// "<? … ?>" is a (bogus) comment to an HTML parser: it has to survive.
		o.KeepComments = true
	}
	return o
}

// Minify runs the HTML-only registry on one text.
func Minify(in string, c Config) (out string, err error, panicked string) {
	m := minify.New()
	m.Add("text/html", minifier(c))
	var res []byte
	panicked = core.Recover(func() { res, err = m.Bytes("text/html", []byte(in)) })
	return string(res), err, panicked
}

// templates extracts the template spans of a text (delimiter to the next end delimiter).
func templates(s string, d [2]string) []string {
	var out []string
	for {
		i := strings.Index(s, d[0])
		if i < 0 {
			return out
		}
		j := strings.Index(s[i+len(d[0]):], d[1])
		if j < 0 {
			return append(out, s[i:])
		}
		e := i + len(d[0]) + j + len(d[1])
		out = append(out, s[i:e])
		s = s[e:]
	}
}

// CheckOne minifies one text under one configuration and asks the oracle.
func CheckOne(in string, c Config) (kind, what, out string) {
	out, err, p := Minify(in, c)
	if p != "" {
		return "panic", p, ""
	}
	if err != nil {
		return "error", fmt.Sprintf("minifier returned an error on a conforming text: %v", err), ""
	}
	kind, what = htmltree.Compare(in, out, oracleOptions(c))
	if kind == "" && c.Delims > 0 {
		a, b := templates(in, Delims[c.Delims]), templates(out, Delims[c.Delims])
		if strings.Join(a, "\x00") != strings.Join(b, "\x00") {
			kind, what = "template-changed", fmt.Sprintf("template spans %q became %q", a, b)
		}
	}
	if kind != "" {
		what = fmt.Sprintf("output %q\n  %s", out, what)
	}
	return
}

// doc is one generated case: the text and its parse context.
type doc struct {
	ctx    string // "document" or context element
	text   string
	delims int
}

func enc(ctx, text string) string { return ctx + "\x00" + text }

func dec(s string) (ctx, text string) {
	i := strings.IndexByte(s, 0)
	return s[:i], s[i+1:]
}

// runFamily streams the cases of gen through every option set.
func runFamily(c *core.Check, name, bound string, delims int, gen func(emit func(ctx, text string) bool)) {
	st := c.Family(name)
	st.Bound = bound
	c.ParallelStream(name, func(emit func(string) bool) {
		seen := map[string]struct{}{}
		gen(func(ctx, text string) bool {
			k := enc(ctx, text)
			if _, dup := seen[k]; dup {
				return true
			}
			seen[k] = struct{}{}
			return emit(k)
		})
	}, func(idx uint64, s string) {
		ctx, text := dec(s)
		var nt uint64
		type res struct{ kind, what string }
		cache := map[string]res{}
		prepared := map[[2]bool]*htmltree.Input{}
		// Without any "<!", "<?" or "</x" (x not a letter) neither text can hold a comment,
		// and the comment allowance of the option set makes no difference.
		commentFree := !strings.Contains(strings.TrimPrefix(text, "<!doctype html>"), "<!") && !strings.Contains(text, "<?") && !bogusEnd.MatchString(text) && delims == 0
		for _, o := range OptionSets {
			cfg := Config{Opts: o, Ctx: ctx, Delims: delims}
			out, err, p := Minify(text, cfg)
			oo := oracleOptions(cfg)
			if commentFree {
				oo.KeepComments, oo.KeepSpecialComments = false, false
			}
			mode := [2]bool{oo.KeepComments, oo.KeepSpecialComments}
			key := fmt.Sprintf("%v|%s", mode, out)
			r, ok := cache[key]
			switch {
			case err != nil || p != "" || delims > 0:
				r.kind, r.what, _ = CheckOne(text, cfg)
			case !ok:
				in := prepared[mode]
				if in == nil {
					in = htmltree.Prepare(text, oo)
					prepared[mode] = in
				}
				if r.kind, r.what = in.Compare(out); r.kind != "" {
					r.what = fmt.Sprintf("output %q\n  %s", out, r.what)
				}
				cache[key] = r
			}
			if out != text {
				nt++
				c.Nontrivial(s, o)
			}
			if r.kind != "" {
				collect(c, core.Failure{Family: name, Input: text, Config: cfg.String(), Kind: r.kind, What: r.what, Order: idx})
			}
			if o == "default" && idx%40009 == 11 {
				c.Sample(map[string]any{"family": name, "ctx": ctx, "in": text, "out": out})
			}
		}
		n := uint64(len(OptionSets))
		c.Count(n)
		c.AddFamily(name, n, nt)
	})
}

// Failure thinning. One defect of the minifier makes tens of thousands of enumerated cases
// fail (every text with a noscript next to a space, times nine option sets); core keeps at
// most 200000 failures. So failures are grouped by signature — family, kind and the set of
// element names of the input — and only the perGroup simplest (enumeration order, then
// option set) of each group are handed to core. The selection does not depend on the
// scheduling of the workers; the totals are reported in the evidence.
var perGroup = func() int {
	// VERIF_C03_PER_GROUP overrides the number of failures kept per group (classification aid).
	if n, err := strconv.Atoi(os.Getenv("VERIF_C03_PER_GROUP")); err == nil && n > 0 {
		return n
	}
	return 6
}()

var tagNameRe = regexp.MustCompile(`<([a-zA-Z][a-zA-Z0-9-]*)`)

type group struct {
	total uint64
	kept  []core.Failure // sorted, simplest first, at most perGroup
}

var (
	collectMu sync.Mutex
	groups    = map[string]*group{}
	kindTotal = map[string]uint64{}
)

func failLess(a, b *core.Failure) bool {
	if a.Order != b.Order {
		return a.Order < b.Order
	}
	if a.Input != b.Input {
		return a.Input < b.Input
	}
	return a.Config < b.Config
}

func collect(c *core.Check, f core.Failure) {
	if c.Known(f) {
		return // listed cases are counted per class and never take one of the perGroup places
	}
	names := map[string]bool{}
	for _, m := range tagNameRe.FindAllStringSubmatch(f.Input, -1) {
		names[strings.ToLower(m[1])] = true
	}
	list := make([]string, 0, len(names))
	for n := range names {
		list = append(list, n)
	}
	sort.Strings(list)
	sig := f.Family + "|" + f.Kind + "|" + strings.Join(list, ",")
	collectMu.Lock()
	defer collectMu.Unlock()
	kindTotal[f.Family+"/"+f.Kind]++
	g := groups[sig]
	if g == nil {
		g = &group{}
		groups[sig] = g
	}
	g.total++
	i := sort.Search(len(g.kept), func(i int) bool { return failLess(&f, &g.kept[i]) })
	if i >= perGroup {
		return
	}
	g.kept = append(g.kept, core.Failure{})
	copy(g.kept[i+1:], g.kept[i:])
	g.kept[i] = f
	if len(g.kept) > perGroup {
		g.kept = g.kept[:perGroup]
	}
}

func flush(c *core.Check) {
	collectMu.Lock()
	defer collectMu.Unlock()
	sigs := make([]string, 0, len(groups))
	var total uint64
	for s, g := range groups {
		sigs = append(sigs, s)
		total += g.total
	}
	sort.Strings(sigs)
	for _, s := range sigs {
		for _, f := range groups[s].kept {
			c.FailUnlisted(f)
		}
	}
	c.Extra["failing_evaluations"] = total
	c.Extra["failure_groups"] = len(groups)
	c.Extra["failing_evaluations_by_family_kind"] = kindTotal
	c.Extra["failures_reported_per_group"] = perGroup
	groups, kindTotal = map[string]*group{}, map[string]uint64{}
}

// Run executes C03.
func Run(c *core.Check) {
	defer flush(c)
	c.Rule = "exhaustive enumeration, within the bound stated per family, of conforming documents (<!doctype html>, html.Parse) and fragments (html.ParseFragment in a no-quirks body/select/table/tr/ul/dl/ruby context): (i) optional tags: parent x left sibling x whitespace x right sibling [thorough: triples] with end tags written or omitted in the input where the standard allows, document tags written/omitted; (ii) whitespace placement around and inside inline/block/atomic/not-rendered element pairs; (iii) attribute values over the quote/reference alphabet under three quoting styles on one attribute of each kind, the catalogue of standard attributes with conforming values, and the special cases coded in html.go; (iv) raw-text and escapable-raw-text bodies; (v) text with character references; (vi) template delimiters; (vii) comments. Each case runs under 9 option sets (default, all Keep*, each Keep* alone) with an HTML-only registry; evaluations = (text, option set) pairs; non-trivial = output bytes differ from input; distinct = distinct (context, text, option set)"
	c.Assumptions = []string{
		"golang.org/x/net/html v0.34.0 is the HTML5-conforming reference tokenizer and tree builder",
		"rendering equivalence is decided under the user-agent style sheet of HTML Standard §15 (no author CSS changes display or white-space)",
		"the start and the end of a fragment are block boundaries (the text is minified as a whole)",
		"HTML-only registry: style, script, on*, svg and math content must pass through byte-identical (modulo documented trimming)",
	}
	for _, part := range []struct {
		name string
		run  func(*core.Check)
	}{{"tags", runTags}, {"whitespace", runWhitespace}, {"attrs", runAttrs}, {"raw", runRaw}, {"text", runText}, {"templates", runTemplates}, {"comments", runComments}, {"history", runHistory}, {"reviewed", runReviewed}} {
		// VERIF_C03_ONLY=tags,attrs restricts a run to some parts (debugging aid; such a
		// run is reported as not exhaustive).
		if only := os.Getenv("VERIF_C03_ONLY"); only != "" && !strings.Contains(","+only+",", ","+part.name+",") {
			c.Exhaustive = false
			continue
		}
		part.run(c)
	}
}

// Replay re-executes one failure.
func Replay(f core.Failure) (string, string) {
	cfg, ok := ParseConfig(f.Config)
	if !ok {
		return "bad-config", "cannot parse configuration " + f.Config
	}
	kind, what, _ := CheckOne(f.Input, cfg)
	return kind, what
}
