package c03

import "verif/internal/core"

func runWhitespace(c *core.Check) {}
func runAttrs(c *core.Check)      {}
func runRaw(c *core.Check)        {}
func runText(c *core.Check)       {}
func runTemplates(c *core.Check)  {}
func runComments(c *core.Check)   {}
