package c03

import (
	"fmt"
	"strings"

	"verif/internal/core"
)

// Family (iii): attribute values.

// attrSymbols: the alphabet of attribute value sources.
var attrSymbols = []string{"a", " ", "\t", `"`, "'", "=", "<", ">", "`", "&", ";", "&amp;", "&#34;", "&quot", "&lt", "&notit;"}

// quote renders a value source in one of the three quoting styles; ok=false when the source
// is not valid in that style (§13.1.2.3).
func quote(src string, style int) (string, bool) {
	switch style {
	case 0:
		if strings.Contains(src, `"`) {
			return "", false
		}
		return `"` + src + `"`, true
	case 1:
		if strings.Contains(src, "'") {
			return "", false
		}
		return "'" + src + "'", true
	}
	if src == "" || strings.ContainsAny(src, " \t\n\f\r\"'=<>`") {
		return "", false
	}
	return src, true
}

// wsStable: surrounding/duplicate whitespace is not part of the value. Attributes whose
// microsyntax does not allow whitespace (keywords, numbers, identifiers) only have
// conforming values of this shape; their other values are outside the domain.
func wsStable(v string) bool {
	return v == strings.Join(strings.FieldsFunc(v, func(r rune) bool { return strings.ContainsRune(" \t\n\f\r", r) }), " ")
}

func validURL(v string) bool {
	v = strings.Trim(v, " \t\n\f\r")
	return !strings.ContainsAny(v, " \t\n\f\r\"<>`")
}

func anyValue(string) bool { return true }

// decodeRefs decodes the character references this family writes (attribute value rules:
// a named reference without semicolon is not decoded before "=" or an alphanumeric).
func decodeRefs(src string) string {
	var b strings.Builder
	for i := 0; i < len(src); {
		rest := src[i:]
		next := func(n int) byte {
			if n < len(rest) {
				return rest[n]
			}
			return 0
		}
		alnumEq := func(c byte) bool {
			return c == '=' || c >= '0' && c <= '9' || c >= 'a' && c <= 'z' || c >= 'A' && c <= 'Z'
		}
		switch {
		case strings.HasPrefix(rest, "&amp;"):
			b.WriteByte('&')
			i += 5
		case strings.HasPrefix(rest, "&#34;"):
			b.WriteByte('"')
			i += 5
		case strings.HasPrefix(rest, "&quot;"):
			b.WriteByte('"')
			i += 6
		case strings.HasPrefix(rest, "&lt;"):
			b.WriteByte('<')
			i += 4
		case strings.HasPrefix(rest, "&quot") && !alnumEq(next(5)):
			b.WriteByte('"')
			i += 5
		case strings.HasPrefix(rest, "&lt") && !alnumEq(next(3)):
			b.WriteByte('<')
			i += 3
		default:
			b.WriteByte(src[i])
			i++
		}
	}
	return b.String()
}

type attrHost struct {
	name       string
	ctx        string
	pre, post  string
	quick, max int // longest symbol sequence in the quick and thorough tier
	prefixes   []string
	domain     func(decoded string) bool
}

var docHead = "<!doctype html><title>t</title>"

var attrHosts = []attrHost{
	{"data-x", "body", "<div ", ">a</div>", 3, 4, nil, anyValue},
	{"data-x", "body", "<div ", " id=i>a</div>", 2, 3, nil, anyValue},
	{"data-x", "body", "<img alt=i src=i ", "/>", 2, 3, nil, anyValue},
	{"title", "body", "<div ", ">a</div>", 3, 4, nil, anyValue},
	{"class", "body", "<div ", ">a</div>", 3, 3, nil, anyValue},
	{"href", "body", "<a ", ">a</a>", 3, 3, []string{"", "http:", "https://h/", "HTTP://h/", "data:,"}, validURL},
	{"src", "body", "<img alt=i ", ">", 2, 3, []string{"i", "http://h/", "Https://h/"}, validURL},
	{"checked", "body", "<input type=checkbox ", ">", 2, 3, nil, anyValue},
	{"type", "body", "<input ", ">", 2, 3, []string{"", "text", "TEXT", "radio", "Radio"}, wsStable},
	{"method", "body", "<form ", "></form>", 2, 3, []string{"", "get", "GET", "post"}, wsStable},
	{"colspan", "tr", "<td ", ">a</td>", 2, 3, []string{"", "1", "2", "01"}, wsStable},
	{"style", "body", "<div ", ">a</div>", 2, 3, []string{"", "color:red"}, anyValue},
	{"onclick", "body", "<div ", ">a</div>", 2, 3, []string{"", "javascript:", "JavaScript:a()", "a()"}, anyValue},
	{"pattern", "body", "<input ", ">", 2, 3, nil, anyValue},
	{"value", "body", "<input ", ">", 2, 3, nil, anyValue},
	{"alt", "body", "<img src=i ", ">", 2, 3, nil, anyValue},
	{"content", "document", docHead + "<meta name=description ", ">", 3, 3, nil, anyValue},
	{"id", "body", "<div ", ">a</div>", 2, 3, nil, wsStable},
	{"x", "body", "<x-custom ", ">a</x-custom>", 2, 3, nil, anyValue},
}

func genAttrStrings(thorough bool, emit func(ctx, text string) bool) {
	var idx []int
	for _, h := range attrHosts {
		maxLen := h.quick
		if thorough {
			maxLen = h.max
		}
		seqs := core.Sequences{K: len(attrSymbols), MaxLen: maxLen}
		prefixes := h.prefixes
		if prefixes == nil {
			prefixes = []string{""}
		}
		for i := uint64(0); i < seqs.Count(); i++ {
			idx = seqs.At(i, idx)
			var sb strings.Builder
			for _, k := range idx {
				sb.WriteString(attrSymbols[k])
			}
			for _, p := range prefixes {
				src := p + sb.String()
				if !h.domain(decodeRefs(src)) {
					continue
				}
				for style := 0; style < 3; style++ {
					q, ok := quote(src, style)
					if !ok {
						continue
					}
					if style == 2 && strings.HasPrefix(h.post, "/") {
						q += " " // an unquoted value must be separated from "/>"
					}
					if !emit(h.ctx, h.pre+h.name+"="+q+h.post) {
						return
					}
				}
			}
		}
	}
}

// Special cases coded in html.go, plus the droppable-default table of the oracle probed
// from both sides (values that are the default, and near misses that are not).
var attrSpecials = []string{
	// meta
	`D<meta charset=utf-8>`, `D<meta charset="UTF-8">`, `D<meta charset=" utf-8 ">`, `D<meta charset=iso-8859-1>`,
	`D<meta http-equiv=content-type content="text/html; charset=utf-8">`, `D<meta http-equiv="Content-Type" content="text/html;charset=UTF-8">`,
	`D<meta http-equiv=content-type content="text/html; charset=iso-8859-1">`, `B<div>a</div>`,
	`D<meta content="text/html; charset=utf-8" http-equiv=content-type>`, `D<meta http-equiv=content-type content="text/html; charset='utf-8'">`,
	`D<meta http-equiv=refresh content="5; url=http://h/">`, `D<meta http-equiv=content-type content="text/html">`,
	`D<meta http-equiv=content-language content="en">`, `D<meta http-equiv=default-style content="A  B">`,
	`D<meta name=viewport content="width=device-width, initial-scale=1.0">`, `D<meta name=viewport content="width=device-width,initial-scale=1">`,
	`D<meta name=viewport content="width=device-width; initial-scale=0.50">`, `D<meta name=viewport content="width=device-width initial-scale=1">`,
	`D<meta name=viewport content="width = 320, user-scalable = no">`, `D<meta name=viewport content="initial-scale=1.00, maximum-scale=10.0">`,
	`D<meta name=viewport content="initial-scale=01.5">`, `D<meta name=viewport content="width=100.0">`, `D<meta name=Viewport content="Width=device-width, Initial-Scale=1.0">`,
	`D<meta name=keywords content="a, b,c ,  d">`, `D<meta name=keywords content="a b, c d">`, `D<meta name=Keywords content="a,  b">`, `D<meta name=keywords content=", ">`,
	`D<meta name=description content=" a,  b ">`, `B<div>a</div>`, `D<meta name=theme-color content="#fff">`, `D<meta name=description content="">`,
	`D<meta property="og:title" content="a  b">`, `D<meta itemprop=a content=" b ">`,
	// script
	`B<script src=s charset=utf-8></script>`, `B<script charset=utf-8>x</script>`, `B<script src=s type=text/javascript></script>`, `B<script type="application/javascript">x</script>`,
	`B<script type="text/javascript; charset=utf-8">x</script>`, `B<script type=" text/javascript ">x</script>`, `B<script type="TEXT/JAVASCRIPT">x</script>`, `B<script type=module>x</script>`,
	`B<script type="text/ecmascript">x</script>`, `B<script type="application/x-javascript">x</script>`, `B<script type="text/jscript">x</script>`, `B<script type="application/ld+json">{"a": 1}</script>`,
	`B<script type="text/template"> <b> a </b> </script>`, `B<script type="">x</script>`, `B<div>a</div>`, `B<script language=javascript>x</script>`,
	`B<script type=importmap>{}</script>`, `B<script src=s async defer></script>`, `B<script src=s async="" defer="defer"></script>`, `B<script src=" s "></script>`, `B<script type=text/javascript></script>`,
	// style and link
	`D<style type=text/css>x</style>`, `D<style type="TEXT/CSS">x</style>`, `D<style type="text/css; charset=utf-8">x</style>`, `D<style type="">x</style>`, `D<style type=text/less>x</style>`,
	`D<style media=all>x</style>`, `D<style media=ALL>x</style>`, `D<style media=" all ">x</style>`, `D<style media=screen>x</style>`, `D<style media="">x</style>`, `D<style media="screen  and  (min-width: 1px)">x</style>`,
	`D<style type=text/css></style>`, `D<style amp-boilerplate>body{a:b}</style>`,
	`D<link rel=stylesheet type=text/css href=c>`, `D<link rel="stylesheet" type="TEXT/CSS" href=c>`, `D<link rel="alternate stylesheet" type=text/css href=c title=t>`, `D<link rel=STYLESHEET type=text/css href=c>`,
	`D<link rel=alternate type=text/css href=c>`, `D<link rel=preload as=style type=text/css href=c>`, `D<link rel=stylesheet type=text/less href=c>`, `D<link rel=icon type="image/png" sizes="16x16  32x32" href=i>`,
	`D<link rel=" stylesheet  alternate " href=c title=t>`, `D<link rel=stylesheet href=c media=all>`, `D<link rel=stylesheet href="http://h/c" media="screen">`, `D<link rel=alternate type="Application/RSS+XML; Charset=UTF-8" href=f>`,
	`D<base href=" http://h/ " target=_blank>`,
	// input
	`B<input type=text>`, `B<input type=TEXT>`, `B<input type="">`, `B<input type=search>`, `B<input type=text value="">`, `B<input type=text value=a>`, `B<input value="">`, `B<input type=hidden value="">`,
	`B<input type=checkbox value="">`, `B<input type=checkbox value=on>`, `B<input type=radio value=on>`, `B<input type=radio value=ON>`, `B<input type=radio value="">`, `B<input type=RADIO value=on>`,
	`B<input type=submit value="">`, `B<input type=reset value="">`, `B<input type=button value="">`, `B<input type=submit value=" a ">`, `B<input type=email value="" name=e>`, `B<input type=range value="">`,
	`B<input value="" type=checkbox>`, `B<input type=text value=" ">`, `B<input type=number value="">`, `B<div>a</div>`, `B<input type=text name="">`, `B<input type=checkbox checked=checked disabled="">`,
	`B<input pattern=" a  b ">`, `B<input pattern="[a-z]  +">`, `B<input placeholder=" a  b ">`, `B<input type=text size=" 10 " maxlength="5">`, `B<input type=file accept="image/*, .PDF">`, `B<input type=file accept="Image/PNG,image/jpeg">`,
	// button and form
	`B<button type=submit>a</button>`, `B<button type=SUBMIT>a</button>`, `B<button type=button>a</button>`, `B<button type=reset>a</button>`, `B<button type="">a</button>`, `B<button type=submit name="" value="">a</button>`,
	`B<form method=get action="">a</form>`, `B<form method=GET>a</form>`, `B<form method=post action=u>a</form>`, `B<form method=POST>a</form>`, `B<form method=dialog>a</form>`, `B<form action=" u ">a</form>`, `B<form action=" ">a</form>`,
	`B<form enctype=application/x-www-form-urlencoded>a</form>`, `B<form enctype="Application/X-WWW-Form-Urlencoded">a</form>`, `B<form enctype=multipart/form-data method=post>a</form>`, `B<form enctype="text/plain">a</form>`,
	`B<form accept-charset=" UTF-8 " autocomplete=OFF novalidate=novalidate>a</form>`, `B<form><button formmethod=get formenctype=application/x-www-form-urlencoded formaction="">a</button></form>`,
	`B<form><input type=submit formmethod=GET formaction=" u "></form>`, `B<form name="" id="" class="" dir="" title="" lang="" style="">a</form>`,
	// a, area, map
	`B<a id=x name=x>a</a>`, `B<a name=x id=x>a</a>`, `B<a id=x name=y>a</a>`, `B<a name=x>a</a>`, `B<a id="" name="">a</a>`, `B<a id=x name=X>a</a>`, `B<a href=u name="">a</a>`,
	`B<a href=" u ">a</a>`, `B<a href="http://h/p">a</a>`, `B<a href="HTTPS://h/p">a</a>`, `B<a href="https:p">a</a>`, `B<a href="http:">a</a>`, `B<a href="javascript:a()">a</a>`, `B<a href=" javascript:a() ">a</a>`, `B<a href="JavaScript:a( 1,  2 )">a</a>`,
	`B<a href="mailto:A@b">a</a>`, `B<a href="">a</a>`, `B<a href="#">a</a>`, `B<a href=u target=_blank rel=" noopener  noreferrer ">a</a>`, `B<a href=u target="my  frame">a</a>`, `B<a href=u type="Text/HTML; Charset=UTF-8">a</a>`,
	`B<a href=u download="a  b.txt" hreflang=en ping=" p  q ">a</a>`, `B<a href="u?a=1&amp;b=2&c=3">a</a>`, `B<a href="u?a=1&copy=2">a</a>`, `B<a href="u?a=1&amp;copy=2">a</a>`, `B<a href='u?a="b"'>a</a>`, `B<a href=u?a=b&lt=c>a</a>`,
	`B<a href="data:,a%20b">a</a>`, `B<a href="data:text/plain,a b">a</a>`, `B<a href="data:;base64,YWI=">a</a>`, `B<a href="data:image/gif;base64,R0lGODdh">a</a>`, `B<a href="data:text/plain;charset=utf-8,%C3%A9">a</a>`, `B<a href="DATA:,a">a</a>`, `B<a href="data:text/css,a{}">a</a>`,
	`B<map name=m><area shape=rect coords="0,0,1,1" href=u alt=a><area shape=RECT coords=" 0, 0, 1, 1 " href=u alt=a><area shape=circle coords="1,1,1" href=u alt=a><area shape=default href=u alt=a><area shape="" href=u alt=a></map>`,
	// tables
	`T<tr><td colspan=1 rowspan=1>a</td><td colspan=2 rowspan=2>a</td><td colspan="1 " rowspan=" 1">a</td><td colspan=01 rowspan=0>a</td><td colspan=0>a</td><th colspan=1 scope=COL headers=" a  b ">a</th></tr>`,
	`T<colgroup span=1><colgroup span=2><col span=1><col span=2><tr><td>a`, `T<colgroup span=" 1 "></colgroup><tr><td>a`, `T<colgroup span=1 class=a></colgroup><tr><td width=" 50% " height=10>a`,
	// global attributes
	`B<div class="">a</div>`, `B<div class=" ">a</div>`, `B<div class=" a  b ">a</div>`, "B<div class=\"a\tb\nc\">a</div>", `B<div id="">a</div>`, `B<div id=a>a</div>`, `B<div dir="">a</div>`, `B<div dir=LTR>a</div>`, `B<div>a</div>`,
	`B<div title="">a</div>`, `B<div title=" a  b ">a</div>`, `B<div lang="">a</div>`, `B<div lang=en>a</div>`, `B<div style="">a</div>`, `B<div style=" ">a</div>`, `B<div style=" color : red ; ">a</div>`, `B<div style="color:red;;">a</div>`, "B<div style=\"background:url('a  b')\">a</div>",
	`B<div onclick="">a</div>`, `B<div onclick=" ">a</div>`, `B<div onclick=" a( ) ; ">a</div>`, `B<div onclick="javascript:a()">a</div>`, `B<div onclick=" JAVASCRIPT: a() ">a</div>`, `B<div onclick="javascript:">a</div>`, `B<div onclick='a("b")'>a</div>`, `B<div onclick="a('b')">a</div>`,
	`B<div onclick="a('b', &quot;c&quot;)">a</div>`, `B<div onclick="if(a<b&&c>d)e()">a</div>`, `B<div hidden>a</div>`, `B<div hidden="">a</div>`, `B<div hidden=hidden>a</div>`, `B<div hidden=until-found>a</div>`, `B<div tabindex=" -1 " draggable=TRUE contenteditable="">a</div>`,
	`B<div data-a="" data-b=" " data-c=" a  b " aria-label=" a  b " role=" button ">a</div>`, `B<div itemscope itemtype=" http://a  http://b " itemprop=" a  b " itemid=" u ">a</div>`, `B<div accesskey=" a  b " spellcheck=FALSE translate=NO>a</div>`,
	`B<div name="">a</div>`, `B<div CLASS=A ID=B>a</div>`, `B<div class=a class=b>a</div>`, `B<div class="a"id="b">a</div>`,
	// unknown and custom elements keep what the author wrote
	`B<x-custom checked=a disabled="" selected=selected>a</x-custom>`, `B<x-custom class="" id="" name="" dir="" style="" onclick="">a</x-custom>`, `B<x-custom type=" A " method=GET href=" u " colspan=1 class=" a  b ">a</x-custom>`,
	`B<x-custom value="" pattern=" a " title="">a</x-custom>`, `B<div>a</div>`,
	// other elements
	`B<img src=" i " alt="" width=" 10 " height=010 loading=LAZY decoding=Async srcset=" a 1x,  b 2x " sizes=" (min-width: 1px)  50vw,  100vw " usemap="#m" ismap>`, `B<img src=i alt=" a  b " title="" crossorigin="" referrerpolicy="">`,
	`B<img src="http://h/i" alt=i>`, `B<img src="data:image/png;base64,iVBORw0KGgo=" alt=i>`, `B<iframe src=" u " name=" my  frame " sandbox=" allow-scripts  allow-forms " allow="camera;  microphone" width=1 height=1 loading=lazy></iframe>`,
	`B<iframe srcdoc=" <p> a  b </p> " name=""></iframe>`, `B<video src=v controls="" autoplay=autoplay loop muted playsinline preload=AUTO poster=" p " width=10>a</video>`, `B<audio controls><source src=" a " type="Audio/OGG; codecs=&quot;Vorbis&quot;"><track kind=SUBTITLES src=t srclang=en label=" a  b " default>a</audio>`,
	`B<object data=" d " type="Application/PDF" name="" width=1>a</object>`, `B<embed src=" e " type="Application/X-Shockwave-Flash" width=1>`, `B<ol type=A start=" 3 " reversed=reversed><li value=" 5 ">a</ol>`, `B<ol type=a><li>a</ol>`, `B<ul type=DISC><li type=Circle>a</ul>`,
	`B<select name="" size=" 1 " multiple=multiple><option value="" selected=selected label=" a  b ">a<option value=" ">b</select>`, `B<textarea rows=" 2 " cols=02 wrap=HARD placeholder=" a  b " name="" maxlength=5 readonly=readonly> a </textarea>`,
	`B<div>a</div>`, `B<output for=" a  b " name="">a</output>`, `B<time datetime="2020-01-01 10:00">a</time>`, `B<div>a</div>`, `B<meter value=" 1 " min=0 max=" 2 " low=.5 high=1.5 optimum=1.0>a</meter>`, `B<progress value=1 max=" 2 ">a</progress>`,
	`B<blockquote cite=" http://h/ ">a</blockquote>`, `B<q cite="HTTP://h/">a</q>`, `B<del cite=" u " datetime=2020-01-01>a</del>`, `B<details open=open name="">a<summary>b</summary></details>`, `B<dialog open="">a</dialog>`, `B<div>a</div>`, `B<data value=" a ">a</data>`, `B<abbr title=" a  b ">a</abbr>`,
	`B<bdo dir=RTL>a</bdo>`, `T<tr><th scope=ROW abbr=" a  b ">a`, `B<div>a</div>`, `B<div>a</div>`,
	`D<body onload=" a() " class="">a`, `B<p class>a`, `B<div class>a</div>`, `B<div class=>a</div>`, `B<input value>`, `B<input value= a>`, `B<input disabled = disabled>`, `B<a href = "u" >a</a>`, `B<a href='u'class='c'>a</a>`, `B<svg width=" 10 " viewBox="0  0 1 1" class=" a  b "><path d="M0  0"/></svg>`,
	`B<math display=" block " class=" a  b "><mi mathvariant=" normal ">x</mi></math>`, `B<div xmlns="http://www.w3.org/1999/xhtml">a</div>`, `B<div>a</div>`, `B<div data-x=&quot;a&quot;>a</div>`, `B<div data-x="&#39;&#34;">a</div>`, `B<div data-x='&apos;"'>a</div>`,
	`B<div data-x="a&nbsp;b&NBSP;c&#160;d&#xA0;e">a</div>`, `B<div data-x="&amp;amp;&amp;lt;&amp;#38;">a</div>`, `B<div data-x="&ampamp;&ampquot;">a</div>`, `B<div data-x="a&#10;b&#13;c&#9;d">a</div>`, "B<div data-x=\"a\nb\rc\r\nd\">a</div>", `B<div title="a&#10; b">a</div>`, `B<div class="a&#32;&#32;b">a</div>`,
	`B<div data-x="&gt;&lt;&GT;&LT">a</div>`, `B<div data-x=a&gt;b>a</div>`, `B<div data-x="&Aacute;&eacute;&#233;&#xe9;">a</div>`, `B<div data-x="&#x80;&#x9F;&#150;">a</div>`, `B<div data-x="&unknown;&a;&;&#;&#x;">a</div>`, `B<a href="u?a&b=c&d;e">a</a>`, `B<div data-x="x&equals;y&quest;">a</div>`,
}

func specialDoc(s string) (ctx, text string) {
	switch s[0] {
	case 'D':
		return "document", docHead + s[1:] + "<p>a"
	case 'T':
		return "table", s[1:]
	}
	return "body", s[1:]
}

// Catalogue: the attributes of the HTML Standard's attribute index, each on an element it
// applies to, with conforming values of its microsyntax spelled in the ways the microsyntax
// allows (surrounding/duplicate whitespace only where the standard permits it).
var valueSets = map[string][]string{
	"text":   {"", " ", "a", " a  b ", "a\tb", "a\nb", "A b"},
	"tokens": {"", "a", " a  b ", "a\tb", "A b", "\na\n"},
	"url":    {"u", " u ", "http://h/p", " HTTP://H/p ", "https://h/", "//h/p", "#f", "?q=a&b=c", "u?a=1&amp;b=2", "p/q%20r"},
	"int":    {"0", "1", "2", "10", "01"},
	"sint":   {"-1", "0", "1"},
	"float":  {"0", "1.5", "-1", "1e3", ".5", "1.0"},
	"id":     {"a", "A-b", "a.b"},
	"target": {"_blank", "_self", "a", " a  b ", "A"},
	"lang":   {"", "en", "en-US"},
	"mime":   {"text/plain", "Text/Plain", "text/plain; charset=utf-8", "text/plain;charset=\"A B\"", " image/png "},
	"mq":     {"all", "screen", "screen and (min-width: 1px)", " screen,  print ", "(min-width:1px)"},
	"date":   {"2020-01-01", "2020-01-01T10:00", "2020-01-01 10:00", "10:00", "P1D"},
	"color":  {"#ff0000", "#FF0000"},
	"regex":  {"a", " a ", "a  b", "[a-z]+", "a|b", "\\s"},
	"srcset": {"a 1x", "a 1x, b 2x", " a 1x,  b 2x ", "a 100w,\nb 200w"},
	"coords": {"0,0,1,1", " 0, 0, 1, 1 ", "0 0 1 1"},
	"hash":   {"#m", "#A"},
	"oltype": {"1", "a", "A", "i", "I"},
	"accept": {"image/*", ".png, .jpg", "Image/PNG,.PDF", " audio/* , video/* "},
}

func enumValues(keywords string) []string {
	var out []string
	for _, k := range strings.Fields(keywords) {
		out = append(out, k, strings.ToUpper(k))
		if len(k) > 1 {
			out = append(out, strings.ToUpper(k[:1])+k[1:])
		}
	}
	return out
}

// catalogue rows: "element attribute valueset-or-enum-keywords…"
var catalogue = []string{
	"div accesskey tokens", "div autocapitalize =off none on sentences words characters", "div autofocus bool", "div class tokens", "div contenteditable =true false plaintext-only", "div dir =ltr rtl auto",
	"div draggable =true false", "div enterkeyhint =enter done go next previous search send", "div hidden =hidden until-found", "div id id", "div inert bool", "div inputmode =none text tel url email numeric decimal search",
	"div is id", "div itemid url", "div itemprop tokens", "div itemref tokens", "div itemscope bool", "div itemtype tokens", "div lang lang", "div nonce text", "div popover =auto manual", "div slot text",
	"div spellcheck =true false", "div style text", "div tabindex sint", "div title text", "div translate =yes no", "div data-x text", "div aria-label text", "div role =button link", "div onclick text", "div onfocus text",
	"a href url", "a target target", "a download text", "a ping tokens", "a rel tokens", "a hreflang lang", "a type mime", "a referrerpolicy =no-referrer origin unsafe-url",
	"area alt text", "area coords coords", "area shape =circle circ default poly polygon rect rectangle", "area href url", "area target target",
	"audio src url", "audio crossorigin =anonymous use-credentials", "audio preload =none metadata auto", "audio autoplay bool", "audio loop bool", "audio muted bool", "audio controls bool",
	"base href url", "base target target", "blockquote cite url", "button disabled bool", "button form id", "button formaction url", "button formenctype =application/x-www-form-urlencoded multipart/form-data text/plain",
	"button formmethod =get post dialog", "button formnovalidate bool", "button formtarget target", "button name text", "button popovertarget id", "button popovertargetaction =toggle show hide", "button type =submit reset button", "button value text",
	"canvas width int", "canvas height int", "col span int", "colgroup span int", "data value text", "del cite url", "del datetime date", "details open bool", "details name text", "dialog open bool",
	"embed src url", "embed type mime", "embed width int", "embed height int", "fieldset disabled bool", "fieldset form id", "fieldset name text",
	"form accept-charset tokens", "form action url", "form autocomplete =on off", "form enctype =application/x-www-form-urlencoded multipart/form-data text/plain", "form method =get post dialog", "form name text", "form novalidate bool", "form target target", "form rel tokens",
	"iframe src url", "iframe srcdoc text", "iframe name target", "iframe sandbox tokens", "iframe allow text", "iframe allowfullscreen bool", "iframe width int", "iframe height int", "iframe referrerpolicy =no-referrer origin", "iframe loading =lazy eager",
	"img alt text", "img src url", "img srcset srcset", "img sizes text", "img crossorigin =anonymous use-credentials", "img usemap hash", "img ismap bool", "img width int", "img height int", "img referrerpolicy =no-referrer origin", "img decoding =sync async auto", "img loading =lazy eager", "img fetchpriority =high low auto",
	"input accept accept", "input alt text", "input autocomplete tokens", "input checked bool", "input dirname text", "input disabled bool", "input form id", "input formaction url", "input formenctype =application/x-www-form-urlencoded multipart/form-data text/plain",
	"input formmethod =get post dialog", "input formnovalidate bool", "input formtarget target", "input height int", "input list id", "input max float", "input maxlength int", "input min float", "input minlength int", "input multiple bool", "input name text",
	"input pattern regex", "input placeholder text", "input readonly bool", "input required bool", "input size int", "input src url", "input step float", "input type =hidden text search tel url email password date month week time datetime-local number range color checkbox radio file submit image reset button",
	"input value text", "input width int", "input title text", "ins cite url", "ins datetime date", "label for id", "li value sint",
	"link href url", "link crossorigin =anonymous use-credentials", "link rel tokens", "link as =audio document embed fetch font image object script style track video worker", "link media mq", "link hreflang lang", "link type mime", "link sizes tokens", "link imagesrcset srcset", "link imagesizes text", "link referrerpolicy =no-referrer origin", "link integrity text", "link blocking tokens", "link disabled bool", "link fetchpriority =high low auto", "link title text",
	"map name id", "meta name id", "meta http-equiv =content-type default-style refresh x-ua-compatible content-security-policy", "meta content text", "meta charset =utf-8", "meta media mq",
	"meter value float", "meter min float", "meter max float", "meter low float", "meter high float", "meter optimum float",
	"object data url", "object type mime", "object name target", "object form id", "object width int", "object height int", "ol reversed bool", "ol start sint", "ol type oltype", "optgroup disabled bool", "optgroup label text",
	"option disabled bool", "option label text", "option selected bool", "option value text", "output for tokens", "output form id", "output name text", "progress value float", "progress max float", "q cite url",
	"script src url", "script type mime", "script nomodule bool", "script async bool", "script defer bool", "script crossorigin =anonymous use-credentials", "script integrity text", "script referrerpolicy =no-referrer origin", "script blocking tokens", "script fetchpriority =high low auto",
	"select autocomplete tokens", "select disabled bool", "select form id", "select multiple bool", "select name text", "select required bool", "select size int", "slot name text",
	"source type mime", "source media mq", "source src url", "source srcset srcset", "source sizes text", "source width int", "source height int", "style media mq", "style blocking tokens", "style title text",
	"td colspan int", "td rowspan int", "td headers tokens", "th colspan int", "th rowspan int", "th headers tokens", "th scope =row col rowgroup colgroup", "th abbr text",
	"template shadowrootmode =open closed", "template shadowrootdelegatesfocus bool",
	"textarea autocomplete tokens", "textarea cols int", "textarea dirname text", "textarea disabled bool", "textarea form id", "textarea maxlength int", "textarea minlength int", "textarea name text", "textarea placeholder text", "textarea readonly bool", "textarea required bool", "textarea rows int", "textarea wrap =soft hard",
	"time datetime date", "track default bool", "track kind =subtitles captions descriptions chapters metadata", "track label text", "track src url", "track srclang lang",
	"video src url", "video crossorigin =anonymous use-credentials", "video poster url", "video preload =none metadata auto", "video autoplay bool", "video playsinline bool", "video loop bool", "video muted bool", "video controls bool", "video width int", "video height int",
	"body onload text", "html lang lang", "x-custom anything text", "x-custom checked text", "x-custom type text", "x-custom href text",
}

var requiredAttrs = map[string]string{"img": "src=i alt=i", "area": "alt=a href=u", "meta": "content=c", "link": "rel=x href=u", "track": "src=t", "source": "src=s", "embed": "src=e"}

// hostFor embeds <el attr="v"> in a conforming text.
func hostFor(el, attr, quoted string) (ctx, text string) {
	tag := "<" + el + " " + attr + "=" + quoted
	if !strings.HasSuffix(quoted, `"`) && !strings.HasSuffix(quoted, "'") {
		tag += " "
	}
	for _, r := range strings.Fields(requiredAttrs[el]) {
		if !strings.HasPrefix(r, attr+"=") {
			tag += " " + r
		}
	}
	tag = strings.TrimRight(tag, " ") + ">"
	switch el {
	case "meta", "link", "base", "style":
		body := ""
		if el == "style" {
			body = "x</style>"
		}
		return "document", docHead + tag + body + "<p>a"
	case "html":
		return "document", "<!doctype html>" + tag + "<head><title>t</title></head><body>a</body></html>"
	case "body":
		return "document", docHead + tag + "a"
	case "td", "th":
		return "tr", tag + "a</" + el + ">"
	case "col":
		return "table", "<colgroup>" + tag + "</colgroup><tr><td>a"
	case "colgroup":
		return "table", tag + "<col></colgroup><tr><td>a"
	case "option", "optgroup":
		if el == "optgroup" {
			return "select", tag + "<option>a</option></optgroup>"
		}
		return "select", tag + "a</option>"
	case "li":
		return "ul", tag + "a</li>"
	case "area":
		return "body", "<map name=m>" + tag + "</map>"
	case "track", "source":
		return "body", "<video>" + tag + "</video>"
	case "img", "input", "embed":
		return "body", tag
	case "script":
		if attr == "src" {
			return "body", tag + "</script>"
		}
		return "body", tag + "x</script>"
	case "iframe":
		return "body", tag + "</iframe>"
	case "select":
		return "body", tag + "<option>a</option></select>"
	case "ol":
		return "body", tag + "<li>a</li></ol>"
	case "details":
		return "body", tag + "<summary>s</summary>a</details>"
	case "map":
		return "body", tag + "a</map>"
	}
	return "body", tag + "a</" + el + ">"
}

func genCatalogue(emit func(ctx, text string) bool) {
	for _, row := range catalogue {
		f := strings.Fields(row)
		el, attr := f[0], f[1]
		var vals []string
		if strings.HasPrefix(f[2], "=") {
			f[2] = f[2][1:]
			vals = enumValues(strings.Join(f[2:], " "))
		} else if f[2] == "bool" {
			vals = []string{"", attr}
		} else {
			vals = valueSets[f[2]]
		}
		for _, v := range vals {
			for style := 0; style < 3; style++ {
				q, ok := quote(v, style)
				if !ok {
					continue
				}
				if !emit(hostFor(el, attr, q)) {
					return
				}
			}
		}
	}
}

func runAttrs(c *core.Check) {
	th := c.Thorough()
	runFamily(c, "attr-strings", fmt.Sprintf("every value of <=N symbols over %q (N per host: quick 2-3, thorough 3-4) under double, single and no quotes where the style is valid, on %d attribute hosts (data-x, title, class, href, src, checked, type, method, colspan, style, onclick, pattern, value, alt, meta content, id, custom element), with scheme/keyword prefixes; values outside the attribute's conforming microsyntax are skipped", attrSymbols, len(attrHosts)), 0,
		func(emit func(ctx, text string) bool) { genAttrStrings(th, emit) })
	runFamily(c, "attr-special", fmt.Sprintf("%d hand-written texts: every attribute rewrite coded in html.go (meta charset/http-equiv/viewport/keywords, script src+charset, input type/value, a id/name, defaults, empty attributes, URL schemes, data URIs, on*/style, media types) from both sides of each condition", len(attrSpecials)), 0,
		func(emit func(ctx, text string) bool) {
			for _, s := range attrSpecials {
				if !emit(specialDoc(s)) {
					return
				}
			}
		})
	// the elements whose attributes are looked up together (meta, script, input, a, style): every ordered pair and triple of
	// variants with different attribute subsets, so that whatever is remembered from one element meets the next
	runFamily(c, "attr-sequences", "every ordered pair (thorough: triple) of 24 element variants with different attribute subsets (script src/charset/async, a id/name/href, input type/value/checked, meta charset/http-equiv/content/name, style amp-boilerplate)", 0, func(emit func(ctx, text string) bool) {
		v := []string{
			`<script src=a.js charset=utf-8></script>`, `<script async src=b.js></script>`, `<script src=c.js></script>`, `<script charset=utf-8>x()</script>`, `<script defer src=d.js id=s></script>`,
			`<a id=top name=top>t</a>`, `<a href=#top id=back>b</a>`, `<a name=n>n</a>`, `<a id=i title=x>i</a>`, `<a href=u>u</a>`,
			`<input type=text value="">`, `<input type=checkbox checked>`, `<input type=radio value=on name=r>`, `<input value=v>`, `<input type=text name=q value=w>`, `<input disabled type=submit>`,
			`<meta charset=utf-8>`, `<meta http-equiv=content-type content="text/html; charset=utf-8">`, `<meta name=keywords content="a, b">`, `<meta name=viewport content="width=device-width, initial-scale=1">`, `<meta content=c itemprop=p>`, `<meta name=description content="d  e">`,
			`<p>w</p>`, `<b title=t>x</b>`,
		}
		n := 2
		if th {
			n = 3
		}
		seq := core.Sequences{K: len(v), MaxLen: n}
		for i := uint64(1); i < seq.Count(); i++ {
			ks := seq.At(i, nil)
			if len(ks) < 2 {
				continue
			}
			var b strings.Builder
			for _, k := range ks {
				b.WriteString(v[k])
			}
			if !emit("body", b.String()) {
				return
			}
		}
	})
	runFamily(c, "attr-catalogue", fmt.Sprintf("%d (element, attribute) pairs of the standard's attribute index x conforming values of the attribute's microsyntax (with the whitespace and case freedom the microsyntax allows) x 3 quoting styles", len(catalogue)), 0, genCatalogue)
}
