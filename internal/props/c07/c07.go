// Package c07: JSON minification preserves the value.
package c07

import (
	"bytes"
	stdjson "encoding/json"
	"fmt"
	"strings"

	minify "github.com/tdewolff/minify/v2"
	mjson "github.com/tdewolff/minify/v2/json"
	"verif/internal/core"
	"verif/internal/numref"
)

// Tok is a raw JSON token: kind is one of { } [ ] : , s(tring) n(umber) l(iteral).
type Tok struct {
	Kind byte
	Text string
}

// Lex is an own raw JSON lexer (RFC 8259); ok=false when the text is not lexically JSON.
func Lex(s string) (toks []Tok, ok bool) {
	i := 0
	for i < len(s) {
		c := s[i]
		switch {
		case c == ' ' || c == '\t' || c == '\n' || c == '\r':
			i++
		case strings.IndexByte("{}[]:,", c) >= 0:
			toks = append(toks, Tok{c, string(c)})
			i++
		case c == '"':
			j := i + 1
			for j < len(s) && s[j] != '"' {
				if s[j] == '\\' {
					j++
				}
				if j < len(s) && s[j] < 0x20 {
					return nil, false
				}
				j++
			}
			if j >= len(s) {
				return nil, false
			}
			toks = append(toks, Tok{'s', s[i : j+1]})
			i = j + 1
		case c == '-' || c >= '0' && c <= '9':
			j := i
			for j < len(s) && strings.IndexByte("+-.eE0123456789", s[j]) >= 0 {
				j++
			}
			toks = append(toks, Tok{'n', s[i:j]})
			i = j
		case c >= 'a' && c <= 'z':
			j := i
			for j < len(s) && s[j] >= 'a' && s[j] <= 'z' {
				j++
			}
			toks = append(toks, Tok{'l', s[i:j]})
			i = j
		default:
			return nil, false
		}
	}
	return toks, true
}

// Compare checks the C07 oracle for one (input, output) pair.
func Compare(in, out string, keepNumbers bool) (kind, what string) {
	if !stdjson.Valid([]byte(out)) {
		return "invalid-json", fmt.Sprintf("output %q is not valid JSON", out)
	}
	if len(out) > len(in) {
		return "longer", fmt.Sprintf("output %q is longer than the input", out)
	}
	a, ok1 := Lex(in)
	b, ok2 := Lex(out)
	if !ok1 || !ok2 {
		return "lex", fmt.Sprintf("raw lexer failed in=%v out=%v", ok1, ok2)
	}
	if len(a) != len(b) {
		return "token-count", fmt.Sprintf("input has %d tokens, output %q has %d", len(a), out, len(b))
	}
	for i := range a {
		if a[i].Kind != b[i].Kind {
			return "token-kind", fmt.Sprintf("token %d: %q became %q", i, a[i].Text, b[i].Text)
		}
		if a[i].Kind != 'n' || keepNumbers {
			if a[i].Text != b[i].Text {
				return "token-bytes", fmt.Sprintf("token %d: %q became %q", i, a[i].Text, b[i].Text)
			}
			continue
		}
		x, okx := numref.Parse(a[i].Text)
		y, oky := numref.Parse(b[i].Text)
		if !okx || !oky || !x.Equal(y) {
			return "number-value", fmt.Sprintf("number %q became %q", a[i].Text, b[i].Text)
		}
		// a JSON number is read as an IEEE double by nearly every consumer: -0 and 0 are different values there
		if x.IsZero() && strings.HasPrefix(a[i].Text, "-") != strings.HasPrefix(b[i].Text, "-") {
			return "number-value", fmt.Sprintf("number %q became %q (the sign of zero changed)", a[i].Text, b[i].Text)
		}
	}
	return "", ""
}

// CheckOne minifies one text under one configuration.
func CheckOne(in string, keepNumbers bool) (kind, what, out string) {
	m := minify.New()
	m.Add("application/json", &mjson.Minifier{KeepNumbers: keepNumbers})
	var res []byte
	var err error
	orig := []byte(in)
	p := core.Recover(func() { res, err = m.Bytes("application/json", orig) })
	if p != "" {
		return "panic", p, ""
	}
	if err != nil {
		return "rejected", fmt.Sprintf("valid JSON rejected: %v", err), ""
	}
	out = string(res)
	kind, what = Compare(in, out, keepNumbers)
	return
}

var numbersFull = []string{"0", "-0", "1", "-1", "10", "100", "1000", "-1000", "1000000", "0.5", "-0.5", "0.0", "1.0", "1.50", "0.001", "0.0001",
	"1e3", "1E+2", "1e-2", "1e400", "1e-400", "123456789012345678901234567890", "0.1e1", "10e-1", "12.5e1", "5e-1", "-5e-1", "1e0", "0e5",
	"0.0e-0", "100e-2", "1.0e+0", "9007199254740993", "0.000001", "1e21", "1e-7", "-0.0", "0.10", "1e00", "1E01", "0.5e0", "-0.05e1", "0.00050", "99.5", "1e-0",
	// exponents at the limits of int64, with and without digits behind the dot
	"1.5e-9223372036854775808", "0.25E-9223372036854775807", "123.4567e-9223372036854775805", "15e-9223372036854775808", "1.5e9223372036854775807", "12.5e9223372036854775806", "0.01e9223372036854775807", "1e9223372036854775808", "1e-9223372036854775809"}
var stringsFull = []string{`""`, `"a"`, `"A\"\\\/"`, `"1"`, `"é"`, `"é\n"`, `" "`, `"-1"`, `"1e3"`}
var literals = []string{"true", "false", "null"}

var scalarsSmall = []string{"0", "1000", "0.5", "-5e-1", `"a"`, `""`, "true", "null"}

type style struct{ pre, mid, post string }

var styles = []style{{"", "", ""}, {" ", " ", " "}, {"\n\t", "\n\t", "\n"}, {"", " ", ""}, {" ", "", "\r\n"}}

// gen emits every JSON value with at most budget scalars+brackets, nesting depth<=depth,
// built over the scalar alphabet; tokens are joined later with a whitespace style.
func genValues(scalars, keys []string, budget, depth int, emit func(toks []string) bool) bool {
	var rec func(budget, depth int, prefix []string, k func(toks []string, left int) bool) bool
	// value: continuation style enumeration
	var seq func(budget, depth int, prefix []string, obj bool, first bool, k func([]string, int) bool) bool
	rec = func(budget, depth int, prefix []string, k func([]string, int) bool) bool {
		if budget < 1 {
			return true
		}
		for _, s := range scalars {
			if !k(append(prefix[:len(prefix):len(prefix)], s), budget-1) {
				return false
			}
		}
		if depth > 0 && budget >= 2 {
			if !seq(budget-2, depth-1, append(prefix[:len(prefix):len(prefix)], "["), false, true, k) {
				return false
			}
			if !seq(budget-2, depth-1, append(prefix[:len(prefix):len(prefix)], "{"), true, true, k) {
				return false
			}
		}
		return true
	}
	seq = func(budget, depth int, prefix []string, obj, first bool, k func([]string, int) bool) bool {
		closer := "]"
		if obj {
			closer = "}"
		}
		// close here
		if !k(append(prefix[:len(prefix):len(prefix)], closer), budget) {
			return false
		}
		if budget < 1 {
			return true
		}
		p := prefix[:len(prefix):len(prefix)]
		if !first {
			p = append(p, ",")
		}
		if obj {
			if budget < 2 {
				return true
			}
			for _, key := range keys {
				pk := append(p[:len(p):len(p)], key, ":")
				if !rec(budget-1, depth, pk, func(t []string, left int) bool { return seq(left, depth, t, obj, false, k) }) {
					return false
				}
			}
			return true
		}
		return rec(budget, depth, p, func(t []string, left int) bool { return seq(left, depth, t, obj, false, k) })
	}
	return rec(budget, depth, nil, func(t []string, left int) bool { return emit(t) })
}

func render(toks []string, st style) string {
	var b strings.Builder
	b.WriteString(st.pre)
	for i, t := range toks {
		if i > 0 {
			b.WriteString(st.mid)
		}
		b.WriteString(t)
	}
	b.WriteString(st.post)
	return b.String()
}

func runFamily(c *core.Check, name string, scalars, keys []string, budget, depth int) {
	st := c.Family(name)
	st.Bound = fmt.Sprintf("<=%d scalars+brackets, depth<=%d, %d scalars, %d keys, %d whitespace styles, KeepNumbers off/on", budget, depth, len(scalars), len(keys), len(styles))
	c.ParallelStream(name, func(emit func(string) bool) {
		genValues(scalars, keys, budget, depth, func(toks []string) bool {
			return emit(strings.Join(toks, "\x00"))
		})
	}, func(idx uint64, s string) {
		toks := strings.Split(s, "\x00")
		var nt uint64
		for si, sty := range styles {
			in := render(toks, sty)
			for _, keep := range []bool{false, true} {
				kind, what, out := CheckOne(in, keep)
				if out != in {
					nt++
					c.Nontrivial(in, fmt.Sprint(keep))
				}
				if kind != "" {
					c.Fail(core.Failure{Family: name, Input: in, Config: fmt.Sprintf("KeepNumbers=%v", keep), Kind: kind, What: what, Order: idx})
				}
			}
			if si == 1 && idx%50021 == 17 {
				_, _, out := CheckOne(in, false)
				c.Sample(map[string]any{"in": in, "out": out})
			}
		}
		n := uint64(2 * len(styles))
		c.Count(n)
		c.AddFamily(name, n, nt)
	})
}

// Run executes C07.
func Run(c *core.Check) {
	c.Rule = "every JSON value derivable with at most N scalars+brackets and bounded depth over the scalar alphabet (number lexemes in every notation, strings with escapes, literals; object keys include duplicates), rendered in 5 whitespace styles, KeepNumbers off and on; non-trivial = output bytes differ from input; distinct = distinct (text, option)"
	c.Assumptions = []string{"encoding/json.Valid as validity oracle", "own raw lexer + math/big for token/number comparison"}
	scal := append(append(append([]string{}, numbersFull...), stringsFull...), literals...)
	runFamily(c, "scalars-and-pairs", scal, []string{`"a"`, `""`}, c.Pick(5, 6), 2)
	runFamily(c, "nesting", scalarsSmall, []string{`"a"`, `"b"`}, c.Pick(8, 10), 3)
	// every number lexeme of the C08 grammar that is also JSON, as a lone value and inside an array after another number
	for _, n := range numbersFull {
		for _, pre := range []string{"", "-"} {
			if pre == "-" && strings.HasPrefix(n, "-") {
				continue
			}
			for _, wrap := range []string{"%s", "[%s]", "[1,%s]", "{\"a\":%s}", "[%s,%s]"} {
				in := strings.ReplaceAll(wrap, "%s", pre+n)
				for _, keep := range []bool{false, true} {
					kind, what, out := CheckOne(in, keep)
					c.Count(1)
					if out != in {
						c.Nontrivial(in, fmt.Sprint(keep))
					}
					if kind != "" {
						c.Fail(core.Failure{Family: "numbers", Input: in, Config: fmt.Sprintf("KeepNumbers=%v", keep), Kind: kind, What: what})
					}
				}
			}
		}
	}
	// the number grammar itself: int part x fraction x exponent over small digit alphabets
	digs := []string{"0", "1", "5", "9"}
	var ints, fracs []string
	for _, a := range digs {
		ints = append(ints, a)
	}
	for _, a := range digs[1:] {
		for _, b := range digs {
			ints = append(ints, a+b)
			for _, d := range digs {
				ints = append(ints, a+b+d)
			}
		}
	}
	fracs = append(fracs, "")
	var grow func(p string, n int)
	grow = func(p string, n int) {
		if p != "" {
			fracs = append(fracs, "."+p)
		}
		if n == 0 {
			return
		}
		for _, d := range digs {
			grow(p+d, n-1)
		}
	}
	grow("", c.Pick(3, 4))
	// long digit strings: every length around the sizes of the scratch buffers a number may be copied into (16..28 digits)
	const long = "1234567891234567891234567891"
	for l := 14; l <= len(long); l++ {
		fracs = append(fracs, "."+long[:l])
		ints = append(ints, long[:l])
	}
	exps := []string{"", "e0", "e1", "e2", "e3", "e4", "e5", "e+4", "e-1", "e-2", "e-3", "e-5", "E2", "e10"}
	p := core.Product{len(ints), len(fracs), len(exps), 2}
	c.Family("number-grammar").Bound = fmt.Sprintf("%d integer parts x %d fractions x %d exponents x sign, in an array and as an object value, KeepNumbers off/on", len(ints), len(fracs), len(exps))
	c.ParallelRange("number-grammar", p.Size(), func(i uint64) {
		d := p.Decode(i, nil)
		n := ints[d[0]] + fracs[d[1]] + exps[d[2]]
		if d[3] == 1 {
			n = "-" + n
		}
		var cases, nt uint64
		for _, wrap := range []string{"[%s]", "{\"a\":%s}"} {
			in := strings.ReplaceAll(wrap, "%s", n)
			for _, keep := range []bool{false, true} {
				kind, what, out := CheckOne(in, keep)
				cases++
				if out != in {
					nt++
					c.Nontrivial(in, fmt.Sprint(keep))
				}
				if kind != "" {
					c.Fail(core.Failure{Family: "number-grammar", Input: in, Config: fmt.Sprintf("KeepNumbers=%v", keep), Kind: kind, What: what, Order: i})
				}
			}
		}
		c.Count(cases)
		c.AddFamily("number-grammar", cases, nt)
	})
}

// Replay re-executes one failure.
func Replay(f core.Failure) (string, string) {
	kind, what, _ := CheckOne(f.Input, strings.Contains(f.Config, "true"))
	return kind, what
}

var _ = bytes.Equal
