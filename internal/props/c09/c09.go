// Package c09: accepted input yields syntactically valid output that is accepted again.
// All bundled corpora and benchmark documents (finite, taken completely), the complete
// one-edit neighbourhood of the small ones, and splices of pairs of them.
package c09

import (
	"bytes"
	stdjson "encoding/json"
	"fmt"
	"github.com/tdewolff/parse/v2"
	phtml "github.com/tdewolff/parse/v2/html"
	"os"
	"regexp"
	"strings"
	"sync"
	"verif/internal/props/c01"
	"verif/internal/props/c05"
	"verif/internal/props/c06"

	minify "github.com/tdewolff/minify/v2"
	"github.com/tdewolff/minify/v2/css"
	"github.com/tdewolff/minify/v2/html"
	"github.com/tdewolff/minify/v2/js"
	mjson "github.com/tdewolff/minify/v2/json"
	"github.com/tdewolff/minify/v2/svg"
	"github.com/tdewolff/minify/v2/xml"
	xhtml "golang.org/x/net/html"
	"verif/internal/core"
	"verif/internal/files"
	"verif/internal/jsoracle"
	"verif/internal/oracle/cssval"
	"verif/internal/oracle/svgpath"
	"verif/internal/oracle/xmlinfo"
)

// the JavaScript media types as the command line tool registers them, so that scripts with
// type="text/javascript" inside HTML reach the JS minifier
var jsTypes = regexp.MustCompile("^(application|text)/(x-)?(java|ecma|j|live)script(1\\.[0-5])?$|^module$")

func registry(nondefault bool) *minify.M {
	m := minify.New()
	if !nondefault {
		m.Add("text/html", &html.Minifier{})
		m.Add("text/css", &css.Minifier{})
		m.AddRegexp(jsTypes, &js.Minifier{})
		m.Add("application/json", &mjson.Minifier{})
		m.Add("image/svg+xml", &svg.Minifier{})
		m.Add("text/xml", &xml.Minifier{})
		return m
	}
	m.Add("text/html", &html.Minifier{KeepComments: true, KeepSpecialComments: true, KeepDefaultAttrVals: true, KeepDocumentTags: true, KeepEndTags: true, KeepQuotes: true, KeepWhitespace: true})
	m.Add("text/css", &css.Minifier{KeepCSS2: true, Precision: 3})
	m.AddRegexp(jsTypes, &js.Minifier{KeepVarNames: true, Version: 2015, Precision: 3})
	m.Add("application/json", &mjson.Minifier{KeepNumbers: true})
	m.Add("image/svg+xml", &svg.Minifier{KeepComments: true, Precision: 3})
	m.Add("text/xml", &xml.Minifier{KeepWhitespace: true})
	return m
}

type validator struct{ w *jsoracle.Worker }

func (v validator) js(text string) (bool, string) {
	rep, err := v.w.Parse(jsoracle.ParseReq{Text: text, SourceType: "script"})
	if err != nil {
		return true, ""
	}
	if rep.OK {
		return true, ""
	}
	rep2, err := v.w.Parse(jsoracle.ParseReq{Text: text, SourceType: "module"})
	if err == nil && rep2.OK {
		return true, ""
	}
	return false, rep.Error
}

func cssStats(s string) (bad int, depth int, neg bool) {
	for _, t := range cssval.Tokenize(s) {
		switch t.Kind {
		case cssval.KBadString, cssval.KBadURL:
			bad++
		}
		switch t.Kind.String() {
		case "{", "(", "[", "function":
			depth++
		case "}", ")", "]":
			depth--
			if depth < 0 {
				neg = true
			}
		}
	}
	return
}

func (v validator) css(in, out string) (bool, string) {
	ib, id, ineg := cssStats(in)
	ob, od, oneg := cssStats(out)
	if ob > ib {
		return false, fmt.Sprintf("output has %d bad-string/bad-url tokens, input %d", ob, ib)
	}
	if id == 0 && !ineg && (od != 0 || oneg) {
		return false, fmt.Sprintf("brackets are balanced in the input but not in the output (depth %d)", od)
	}
	return true, ""
}

// xmlOK: well-formedness by the own XML reader. ext = the document the text derives from
// names an external DTD subset (the minifier drops the DOCTYPE), so entity references cannot
// be judged.
func xmlOK(s string, ext bool) (bool, string) {
	for i := 0; i < len(s); i++ {
		if c := s[i]; c < 0x20 && c != '\t' && c != '\n' && c != '\r' {
			return false, fmt.Sprintf("control character 0x%02X is not a legal XML character", c)
		}
	}
	items, err := xmlinfo.Tokenize(s)
	if err != nil {
		return false, err.Error()
	}
	if _, err := xmlinfo.Events(items); err != nil {
		return false, err.Error()
	}
	if r := xmlinfo.IllegalCharRef(s); r != "" {
		return false, "character reference " + r + " is not a legal XML character"
	}
	if !ext {
		if n := xmlinfo.UndeclaredEntity(s); n != "" {
			return false, "reference to the undeclared entity " + n
		}
	}
	return true, ""
}

var rawEndPrefix = regexp.MustCompile(`(?i)</(script|style|textarea|title|iframe|xmp|noembed|noframes|noscript|plaintext)[^\s/>]`)
var externalSubset = regexp.MustCompile(`<!DOCTYPE[^\[>]*\b(SYSTEM|PUBLIC)\b`)

func pathData(s string) []string {
	items, err := xmlinfo.Tokenize(s)
	if err != nil {
		return nil
	}
	var out []string
	for _, it := range items {
		if it.Name == "path" {
			for _, a := range it.Attrs {
				if a.Name == "d" {
					out = append(out, xmlinfo.NormalizeAttr(a.Raw))
				}
			}
		}
	}
	return out
}

func scripts(s string) (js []string, styles []string, ok bool) {
	doc, err := xhtml.Parse(strings.NewReader(s))
	if err != nil {
		return nil, nil, false
	}
	var walk func(n *xhtml.Node)
	walk = func(n *xhtml.Node) {
		if n.Type == xhtml.ElementNode && (n.Data == "script" || n.Data == "style") {
			typ := ""
			for _, a := range n.Attr {
				if a.Key == "type" {
					typ = strings.ToLower(strings.TrimSpace(a.Val))
				}
			}
			var b strings.Builder
			for c := n.FirstChild; c != nil; c = c.NextSibling {
				if c.Type == xhtml.TextNode {
					b.WriteString(c.Data)
				}
			}
			if n.Data == "script" && (typ == "" || typ == "text/javascript" || typ == "application/javascript" || typ == "module") {
				js = append(js, b.String())
			} else if n.Data == "style" {
				styles = append(styles, b.String())
			}
			return
		}
		for c := n.FirstChild; c != nil; c = c.NextSibling {
			walk(c)
		}
	}
	walk(doc)
	return js, styles, true
}

// rawStructure lists the raw-text element boundaries and comments a lexer sees in an HTML text.
func rawStructureStd(s string) []string {
	var out []string
	z := xhtml.NewTokenizer(strings.NewReader(s))
	foreign := 0
	for {
		tt := z.Next()
		if tt == xhtml.ErrorToken {
			return out
		}
		switch tt {
		case xhtml.CommentToken:
			if foreign == 0 {
				out = append(out, "!")
			}
		case xhtml.StartTagToken, xhtml.EndTagToken, xhtml.SelfClosingTagToken:
			nb, _ := z.TagName()
			n := string(nb)
			if n == "svg" || n == "math" {
				if tt == xhtml.StartTagToken {
					foreign++
				} else if tt == xhtml.EndTagToken && foreign > 0 {
					foreign--
				}
				continue
			}
			if foreign == 0 && (n == "script" || n == "style" || n == "textarea" || n == "title") {
				if tt == xhtml.EndTagToken {
					out = append(out, "-"+n)
				} else {
					out = append(out, "+"+n)
				}
			}
		}
	}
}

func rawStructureDep(s string) []string {
	var out []string
	l := phtml.NewLexer(parse.NewInputString(s))
	for {
		tt, _ := l.Next()
		switch tt {
		case phtml.ErrorToken:
			return out
		case phtml.CommentToken:
			out = append(out, "!")
		case phtml.StartTagToken, phtml.EndTagToken:
			n := strings.ToLower(string(l.Text()))
			if n == "script" || n == "style" || n == "textarea" || n == "title" {
				if tt == phtml.EndTagToken {
					out = append(out, "-"+n)
				} else {
					out = append(out, "+"+n)
				}
			}
		}
	}
}

// lexersDisagree: the HTML lexer of the dependency and the HTML Standard tokenizer (x/net) see
// different raw-text element boundaries or comments in this INPUT. Then the minifier works on
// a different document than a browser from the start (malformed markup: unterminated quotes,
// junk in tags, abruptly closed comments, `</script` followed by another character).
func lexersDisagree(in []byte) bool {
	defer func() { recover() }()
	a, b := rawStructureStd(string(in)), rawStructureDep(string(in))
	return strings.Join(a, " ") != strings.Join(b, " ")
}

// htmlInputClass names the class of malformed markup in an HTML input on which the dependency's
// lexer is known to deviate from the HTML Standard ("" if none): part of the failure kind, so
// that only these inputs are covered by the corresponding known findings.
func htmlInputClass(in []byte) string {
	switch {
	case rawEndPrefix.Match(in):
		// the dependency's HTML lexer ends a raw-text element at `</script` followed by ANY
		// character (and lower-cases the text it scanned); the Standard requires white space, `/` or `>`
		return ":input-has-raw-end-tag-prefix"
	case bytes.Contains(in, []byte("<!-->")) || bytes.Contains(in, []byte("<!--->")):
		// complete (abruptly closed) comments for a browser; the dependency's lexer reads on to the next `-->`
		return ":input-has-abruptly-closed-comment"
	case lexersDisagree(in):
		return ":lexers-disagree-on-input"
	}
	return ""
}

// slug turns the head of an error message into a short class name for the failure kind.
func slug(msg string) string {
	if i := strings.Index(msg, " on line"); i >= 0 {
		msg = msg[:i]
	}
	var b strings.Builder
	for _, r := range strings.ToLower(msg) {
		if r >= 'a' && r <= 'z' {
			b.WriteRune(r)
		} else if b.Len() > 0 && !strings.HasSuffix(b.String(), "-") {
			b.WriteByte('-')
		}
		if b.Len() > 40 {
			break
		}
	}
	return strings.Trim(b.String(), "-")
}

func passedThrough(s string, in []string) bool {
	for _, t := range in {
		if t == s {
			return true
		}
	}
	return false
}

// CheckOne minifies one input and validates the output. Returns accepted=false when the
// minifier reports an error (outside the property's premise).
func (v validator) CheckOne(m *minify.M, typ string, in []byte, pristine bool) (kind, what string, accepted bool) {
	var out []byte
	var err error
	if p := core.Recover(func() { out, err = m.Bytes(typ, append(make([]byte, 0, len(in)+1), in...)) }); p != "" {
		return "panic", p, false
	}
	if err != nil {
		return "", "", false
	}
	accepted = true
	o := string(out)
	valid, why := true, ""
	reason := "" // class of the validity failure, part of the failure kind
	inputValid := true
	switch typ {
	case "application/javascript":
		valid, why = v.js(o)
		reason = "js-syntax"
		if !valid {
			inputValid, _ = v.js(string(in))
		}
	case "application/json":
		reason = "json-syntax"
		valid = stdjson.Valid(out) || len(strings.TrimSpace(o)) == 0 && len(strings.TrimSpace(string(in))) == 0
		why = "encoding/json rejects it"
		if !valid {
			inputValid = stdjson.Valid(in)
		}
	case "text/xml":
		ext := externalSubset.Match(in)
		valid, why = xmlOK(o, ext)
		reason = "not-well-formed"
		if !valid {
			inputValid, _ = xmlOK(string(in), ext)
		}
	case "image/svg+xml":
		ext := externalSubset.Match(in)
		valid, why = xmlOK(o, ext)
		reason = "not-well-formed"
		inXML, _ := xmlOK(string(in), ext)
		if !valid {
			inputValid = inXML
		} else {
			ip, op := pathData(string(in)), pathData(o)
			for i, d := range op {
				if _, err := svgpath.Parse(d); err != nil {
					okIn := true
					if i < len(ip) {
						_, e2 := svgpath.Parse(ip[i])
						okIn = e2 == nil
					}
					reason = "path-data"
					valid, why, inputValid = false, fmt.Sprintf("path data %q: %v", trunc(d), err), okIn && inXML && len(ip) == len(op)
					break
				}
			}
		}
	case "text/css":
		// CSS defines error recovery for every input, so "valid" is only meaningful for the
		// unmodified bundled stylesheets; mutated ones must merely be accepted again
		if pristine {
			valid, why = v.css(string(in), o)
			reason = "css-tokens"
		}
	case "text/html":
		ij, is, ok1 := scripts(string(in))
		oj, os, ok2 := scripts(o)
		if ok1 && ok2 {
			if len(ij) != len(oj) || len(is) != len(os) {
				// an empty script/style element may be removed (documented behaviour of the minifier)
				ne := func(l []string) int {
					n := 0
					for _, s := range l {
						if strings.TrimSpace(s) != "" {
							n++
						}
					}
					return n
				}
				if ne(ij) != ne(oj) || ne(is) != ne(os) {
					reason = "raw-text-end-moved" + htmlInputClass(in)
					valid, why = false, fmt.Sprintf("the input has %d script and %d style elements, the output %d and %d: the end of a raw-text element moved", len(ij), len(is), len(oj), len(os))
				}
			}
			if valid {
				k := 0
				for _, s := range oj {
					if strings.TrimSpace(s) == "" {
						continue
					}
					if passedThrough(s, ij) {
						k++
						continue // not handed to a minifier (or left untouched): nothing was produced here
					}
					if okJS, e := v.js(s); !okJS {
						// find the corresponding non-empty input script
						inOK := true
						n := 0
						for _, t := range ij {
							if strings.TrimSpace(t) == "" {
								continue
							}
							if n == k {
								inOK, _ = v.js(t)
							}
							n++
						}
						reason = "embedded-script-invalid" + htmlInputClass(in)
						valid, why, inputValid = false, fmt.Sprintf("embedded script %q: %s", trunc(s), e), inOK
						break
					}
					k++
				}
			}
		}
	}
	if !valid {
		kind = "invalid-output"
		if !inputValid {
			kind = "invalid-output-of-invalid-input"
		}
		kind += ":" + reason
		return kind, fmt.Sprintf("%s | output %q", why, trunc(o)), true
	}
	// accepted again
	var err2 error
	if p := core.Recover(func() { _, err2 = m.Bytes(typ, append(make([]byte, 0, len(out)+1), out...)) }); p != "" {
		return "panic-on-output", p, true
	}
	if err2 != nil {
		return "output-not-accepted-again:" + slug(err2.Error()), fmt.Sprintf("minifying the output again fails: %v | output %q", err2, trunc(o)), true
	}
	return "", "", true
}

func trunc(s string) string {
	if len(s) > 160 {
		return s[:160] + "…"
	}
	return s
}

var structural = []byte("<>\"'/\\&;=(){}\n")

type job struct {
	f    files.File
	kind string
	pos  int
	b    byte
	g    *files.File
}

func (j job) input() []byte {
	switch j.kind {
	case "whole":
		return j.f.Data
	case "delete":
		return append(append([]byte{}, j.f.Data[:j.pos]...), j.f.Data[j.pos+1:]...)
	case "replace":
		out := append([]byte{}, j.f.Data...)
		out[j.pos] = j.b
		return out
	case "splice":
		return append(append([]byte{}, j.f.Data[:j.pos]...), j.g.Data[j.pos%max(1, len(j.g.Data)):]...)
	}
	return nil
}

func (j job) desc() string {
	switch j.kind {
	case "replace":
		return fmt.Sprintf("%s byte %d replaced by %q", j.f.Short(), j.pos, j.b)
	case "splice":
		return fmt.Sprintf("%s[:%d] + %s[%d:]", j.f.Short(), j.pos, j.g.Short(), j.pos%max(1, len(j.g.Data)))
	}
	return fmt.Sprintf("%s %s@%d", j.f.Short(), j.kind, j.pos)
}

// Run executes C09.
func Run(c *core.Check) {
	limit := c.Pick(1500, 120000)
	c.Rule = fmt.Sprintf("(i) every file of tests/*/corpus and _benchmarks (all six media types) under the default and an all-non-default registry; (ii) for every such file of at most %d bytes: every deletion of one byte and every replacement of one byte by each of 14 structural bytes (< > \" ' / \\ & ; = ( ) { } newline) (above 20 kB every 11th position); (iii) splices of every ordered pair of small files of the same type at every 16th offset; (iv) every program of the C01 grammar families (stand-alone, and the literal family inside an HTML script element); (v) every document of the C06 content-sequence grammar; (vi) every sequence of <=3 HTML raw-text elements with and without type attributes. Only inputs the minifier accepts count (evaluations); the output must be valid by an independent parser (acorn for JS incl. scripts embedded in HTML, encoding/json, own XML reader + strict path-data parser, own CSS tokenizer: no new bad tokens, balanced brackets stay balanced; HTML: raw-text elements end where they ended) and must be accepted again. Non-trivial = accepted input whose output differs from it", limit)
	c.Assumptions = []string{"acorn 8.16 (script, then module goal), encoding/json, the XML/CSS/path readers of /verif", "inputs rejected by the minifier are outside the premise"}
	pool, err := jsoracle.NewPool(core.Workers())
	if err != nil {
		fmt.Println("BUILD-ERROR: cannot start node workers:", err)
		c.Exhaustive = false
		return
	}
	defer pool.Close()
	all := files.All()
	if only := os.Getenv("VERIF_C09_ONLY"); only != "" { // development aid: restrict to matching file names
		var sel []files.File
		for _, f := range all {
			if strings.Contains(f.Path, only) {
				sel = append(sel, f)
			}
		}
		all = sel
		c.Exhaustive = false
	}
	var jobs []job
	var small []files.File
	for _, f := range all {
		jobs = append(jobs, job{f: f, kind: "whole"})
		if len(f.Data) <= limit {
			step := 1
			if len(f.Data) > 20000 {
				step = 11
			}
			for p := 0; p < len(f.Data); p += step {
				jobs = append(jobs, job{f: f, kind: "delete", pos: p})
				for _, b := range structural {
					if f.Data[p] != b {
						jobs = append(jobs, job{f: f, kind: "replace", pos: p, b: b})
					}
				}
			}
			if len(f.Data) <= 1500 {
				small = append(small, f)
			}
		}
	}
	for i := range small {
		for k := range small {
			if i != k && small[i].Type == small[k].Type {
				for p := 0; p < len(small[i].Data); p += 16 {
					g := small[k]
					jobs = append(jobs, job{f: small[i], kind: "splice", pos: p, g: &g})
				}
			}
		}
	}
	fam := "files-and-one-edit-neighbourhood"
	c.Family(fam).Bound = fmt.Sprintf("%d inputs from %d files", len(jobs), len(all))
	mdef, mnon := registry(false), registry(true)
	var mu sync.Mutex
	accepted, rejected := 0, 0
	workers := make(chan *jsoracle.Worker, core.Workers())
	for i := 0; i < core.Workers(); i++ {
		workers <- pool.Get()
	}
	c.ParallelRange(fam, uint64(len(jobs)), func(i uint64) {
		j := jobs[i]
		w := <-workers
		defer func() { workers <- w }()
		v := validator{w}
		in := j.input()
		for ri, m := range []*minify.M{mdef, mnon} {
			if ri == 1 && j.kind != "whole" && i%7 != 0 {
				continue
			}
			kind, what, acc := v.CheckOne(m, j.f.Type, in, j.kind == "whole")
			mu.Lock()
			if acc {
				accepted++
			} else {
				rejected++
			}
			mu.Unlock()
			if !acc && kind == "" {
				continue
			}
			c.Count(1)
			c.AddFamily(fam, 1, 1)
			c.Nontrivial(j.desc(), fmt.Sprint(ri))
			if kind != "" {
				c.Fail(core.Failure{Family: j.f.Type, Input: j.desc(), Config: []string{"default", "non-default"}[ri], Kind: kind, What: what, Order: i, Extra: map[string]any{"input_bytes": string(in)}})
			}
		}
		if i%50021 == 9 {
			c.Sample(map[string]any{"input": j.desc(), "type": j.f.Type})
		}
	})
	// (iv) generated programs: the complete program grammar of C01 (all families at this tier), as a
	// stand-alone script and — the literal family — inside an HTML script element; only validity
	// and re-acceptance are decided here, behaviour is C01's business
	gfam := "generated-js-programs"
	c.ParallelStream(gfam, func(emit func(string) bool) { c01.Programs(c, emit) }, func(idx uint64, s string) {
		k := strings.IndexByte(s, 0)
		famName, text := s[:k], s[k+1:]
		w := <-workers
		defer func() { workers <- w }()
		v := validator{w}
		check := func(typ, in string) {
			kind, what, acc := v.CheckOne(mdef, typ, []byte(in), false)
			if !acc && kind == "" {
				return
			}
			c.Count(1)
			c.AddFamily(gfam, 1, 1)
			if kind != "" {
				c.Fail(core.Failure{Family: typ, Input: in, Config: "default", Kind: kind, What: what, Order: idx, Extra: map[string]any{"input_bytes": in}})
			}
		}
		check("application/javascript", text)
		if strings.HasPrefix(famName, "F7") {
			check("text/html", "<script>"+text+"</script><p>after</p>")
		}
	})
	// (v) generated XML documents: the content-sequence grammar of C06 (text, CDATA sections incl. the
	// ]]> corner cases, comments, PIs, children); well-formedness of the output and re-acceptance
	xfam := "generated-xml-documents"
	c.ParallelStream(xfam, func(emit func(string) bool) { c06.Documents(c.Pick(2, 3), emit) }, func(idx uint64, doc string) {
		w := <-workers
		defer func() { workers <- w }()
		v := validator{w}
		for ri, m := range []*minify.M{mdef, mnon} {
			kind, what, acc := v.CheckOne(m, "text/xml", []byte(doc), false)
			if !acc && kind == "" {
				continue
			}
			c.Count(1)
			c.AddFamily(xfam, 1, 1)
			if kind != "" {
				c.Fail(core.Failure{Family: "text/xml", Input: doc, Config: []string{"default", "non-default"}[ri], Kind: kind, What: what, Order: idx, Extra: map[string]any{"input_bytes": doc}})
			}
		}
	})
	// (v') generated SVG documents: the document grammar of C05 (shapes, style elements and attributes, white-space- and
	// comment-only elements, references, foreign content); stand-alone and inside HTML
	sfam := "generated-svg-documents"
	c.ParallelStream(sfam, func(emit func(string) bool) { c05.Documents(emit) }, func(idx uint64, doc string) {
		w := <-workers
		defer func() { workers <- w }()
		v := validator{w}
		for ri, m := range []*minify.M{mdef, mnon} {
			for ti, in := range []string{doc, "<p>x</p>" + doc[strings.Index(doc, "<svg"):] + "<p>y</p>"} {
				typ := []string{"image/svg+xml", "text/html"}[ti]
				if ti == 1 && idx%4 != 0 {
					continue
				}
				kind, what, acc := v.CheckOne(m, typ, []byte(in), false)
				if !acc && kind == "" {
					continue
				}
				c.Count(1)
				c.AddFamily(sfam, 1, 1)
				if kind != "" {
					c.Fail(core.Failure{Family: typ, Input: in, Config: []string{"default", "non-default"}[ri], Kind: kind, What: what, Order: idx, Extra: map[string]any{"input_bytes": in}})
				}
			}
		}
	})
	// (vi) HTML: every sequence of <=3 raw-text elements with and without type and other attributes
	// (per-element state such as the current media type must not travel from one to the next)
	raws := []string{`<style type="text/css">a { b : c }</style>`, `<style>a { b : c }</style>`, `<style media=print>@media x { a { b : c } }</style>`,
		`<script type="application/ld+json">{ "a" : 1 }</script>`, `<script type=module>import "x" ; f ( )</script>`, `<script src=x></script>`, `<script type="text/x-tmpl"><b>{{x}}</b></script>`,
		"<script id=boot>var total = 0\nvar items = [1,2,3]\nfor (var i = 0; i < 3; i++) total += items[i]\nf(total)</script>", "<script>var a = 1\nvar b = 2\nf(a, b)</script>", `<script async>g ( )</script>`, `<p>x</p>`, `<textarea>a  b</textarea>`, `<title>t  u</title>`}
	hseq := core.Sequences{K: len(raws), MaxLen: 3}
	hfam := "generated-html-raw-text-sequences"
	c.ParallelRange(hfam, hseq.Count(), func(i uint64) {
		var b strings.Builder
		for _, k := range hseq.At(i, nil) {
			b.WriteString(raws[k])
		}
		w := <-workers
		defer func() { workers <- w }()
		v := validator{w}
		doc := b.String()
		kind, what, acc := v.CheckOne(mdef, "text/html", []byte(doc), false)
		if !acc && kind == "" {
			return
		}
		c.Count(1)
		c.AddFamily(hfam, 1, 1)
		if kind != "" {
			c.Fail(core.Failure{Family: "text/html", Input: doc, Config: "default", Kind: kind, What: what, Order: i, Extra: map[string]any{"input_bytes": doc}})
		}
	})
	c.Extra["accepted_inputs"] = accepted
	c.Extra["rejected_inputs_outside_premise"] = rejected
}

// Replay re-validates one recorded input.
func Replay(f core.Failure) (string, string) {
	ex, _ := f.Extra.(map[string]any)
	in, _ := ex["input_bytes"].(string)
	pool, err := jsoracle.NewPool(1)
	if err != nil {
		return "replay-error", err.Error()
	}
	defer pool.Close()
	v := validator{pool.Get()}
	k, w, _ := v.CheckOne(registry(f.Config == "non-default"), f.Family, []byte(in), strings.Contains(f.Input, "whole@"))
	return k, w
}
