package c05

import (
	"fmt"
	"strings"

	minify "github.com/tdewolff/minify/v2"
	msvg "github.com/tdewolff/minify/v2/svg"
	"verif/internal/core"
	"verif/internal/oracle/svgpath"
	"verif/internal/oracle/xmlinfo"
)

// a command variant: letter + argument lexemes ("F0"/"F1" mark arc flags)
type cmdVar struct {
	letter byte
	args   []string
}

func cv(letter byte, args string) cmdVar {
	if args == "" {
		return cmdVar{letter, nil}
	}
	return cmdVar{letter, strings.Fields(args)}
}

// The alphabet: for every command letter a few argument tuples chosen so that, starting from
// M1 1 / M0 0 / M2 2 with small integer coordinates, every shortcut of the shortener is hit:
// coincident end point (dropped line), axis-aligned lines (H/V), control points on end points
// (curve → line), reflected control points (C → S, Q → T), implicit repetition, every flag
// pair, numbers in every notation, closepath followed by drawing.
var cmdVars = []cmdVar{
	cv('M', "2 2"), cv('m', "1 0"), cv('M', "0 0 1 1"), cv('m', "1 1 1 0"), cv('M', "1e2 .5"),
	cv('L', "1 1"), cv('L', "2 1"), cv('L', "1 2"), cv('L', "3 3"), cv('l', "0 0"), cv('l', "1 0"), cv('l', "0 -1"), cv('l', "-.5 .5"), cv('L', "2 2 3 2 3 3"), cv('l', "1000 .001"), cv('L', "100 200"), cv('L', "1e100 7"), cv('l', "1e-100 100e100"), cv('L', "1000000 0.000001"),
	cv('H', "2"), cv('h', "0"), cv('h', "-1"), cv('H', "1 2 3"), cv('V', "2"), cv('v', "0"), cv('v', "1.5"), cv('V', "100"),
	cv('C', "1 1 2 2 2 2"), cv('C', "1 2 2 2 3 1"), cv('C', "4 0 5 0 5 1"), cv('c', "0 0 1 1 1 1"), cv('c', "0 1 1 1 2 0"), cv('c', "1 -1 2 -1 2 0"), cv('C', "0 0 0 0 0 0"), cv('C', "1 2 2 2 3 1 4 0 5 0 5 1"),
	cv('S', "2 2 3 1"), cv('s', "1 1 2 0"), cv('S', "5 0 5 1"), cv('s', "0 0 1 1"), cv('S', "3 3 3 3"),
	cv('Q', "1 1 2 2"), cv('Q', "2 0 3 1"), cv('q', "1 1 2 0"), cv('q', "0 0 1 1"), cv('Q', "4 2 5 1"), cv('q', "1 -1 2 0"),
	cv('T', "3 1"), cv('t', "2 0"), cv('T', "5 1"), cv('t', "1 1 1 1"),
	cv('A', "1 1 0 F0 F0 2 2"), cv('A', "1 1 0 F1 F0 2 2"), cv('A', "1 1 0 F0 F1 2 2"), cv('a', "1 1 0 F1 F1 1 1"), cv('a', "2 1 45 F0 F1 .5 .5"), cv('A', "0 0 0 F0 F0 3 3"), cv('a', "1 1 0 F0 F0 0 0"), cv('A', "1 2 30 F1 F0 0 0 1 2 30 F0 F1 2 2"), cv('a', "5 5 0 F0 F1 0 10"),
	cv('Z', ""), cv('z', ""),
}

// render writes one command in a separator style: 0 spaces, 1 commas, 2 compact.
func (c cmdVar) render(b *strings.Builder, style int) {
	b.WriteByte(c.letter)
	prev := ""
	for i, a := range c.args {
		flag := strings.HasPrefix(a, "F")
		if flag {
			a = a[1:]
		}
		sep := ""
		if i > 0 {
			switch style {
			case 0:
				sep = " "
			case 1:
				sep = ","
			case 2:
				// compact: a separator is needed unless the next token starts with a sign, or with a
				// dot while the previous number already has a dot/exponent, or around single-character flags
				need := true
				prevFlag := strings.HasPrefix(c.args[i-1], "F")
				if a[0] == '-' || prevFlag && !flag {
					need = false
				}
				if prevFlag && flag {
					need = false
				}
				if a[0] == '.' && strings.ContainsAny(prev, ".e") && !prevFlag {
					need = false
				}
				if flag && !prevFlag {
					need = true // "0 0" rotation then flag: keep a separator so the flag is not glued to a number
				}
				if need {
					sep = " "
				}
			}
		} else if style == 0 {
			sep = " "
		}
		b.WriteString(sep)
		b.WriteString(a)
		prev = a
	}
}

var starts = []string{"M1 1", "M0 0", "m2 2", "M 10 10"}

// CheckPath shortens one path through the exported shortener (and, when viaDoc, through the
// public minifier) and compares the segments.
func CheckPath(d string, viaDoc bool) (kind, what, out string) { return checkPath(d, viaDoc, true) }

func checkPath(d string, viaDoc, diagnose bool) (kind, what, out string) {
	in, err := svgpath.Parse(d)
	if err != nil {
		return "skip", "", "" // not valid path data: outside the domain
	}
	var res string
	if p := core.Recover(func() {
		if viaDoc {
			m := minify.New()
			m.Add("image/svg+xml", &msvg.Minifier{})
			b, err := m.Bytes("image/svg+xml", []byte(`<svg><path d="`+d+`"/></svg>`))
			if err != nil {
				res = "ERROR " + err.Error()
				return
			}
			items, terr := xmlinfo.Tokenize(string(b))
			if terr != nil {
				res = "ERROR output not tokenizable: " + string(b)
				return
			}
			found := false
			for _, it := range items {
				if it.Name == "path" {
					for _, a := range it.Attrs {
						if a.Name == "d" {
							res, found = xmlinfo.NormalizeAttr(a.Raw), true
						}
					}
				}
			}
			if !found {
				res = "ERROR d attribute missing in " + string(b)
			}
		} else {
			res = string(msvg.NewPathData(&msvg.Minifier{}).ShortenPathData([]byte(d)))
		}
	}); p != "" {
		return "panic", p, ""
	}
	out = res
	if strings.HasPrefix(res, "ERROR ") {
		return "error", res, out
	}
	o, err := svgpath.Parse(out)
	if err != nil {
		return "invalid-path-data", fmt.Sprintf("output %q is not valid path data: %v", out, err), out
	}
	if len(out) > len(d) {
		return "longer", fmt.Sprintf("output %q is longer than the input", out), out
	}
	a, b := svgpath.Normalize(in), svgpath.Normalize(o)
	if ok, why := svgpath.Equal(a, b); !ok {
		// sub-class: does the difference need a smooth command (S/T, whose first control point is
		// the reflection of the previous one)? Re-run with every segment written explicitly.
		if diagnose && strings.ContainsAny(d, "SsTtCcQq") {
			// (a) the difference needs a smooth command: with every control point explicit it vanishes
			if k2, _, _ := checkPath(explicit(in), false, false); k2 == "" && strings.ContainsAny(d, "SsTt") {
				return "geometry-smooth-reflection", fmt.Sprintf("output %q denotes [%s], input denotes [%s]: %s (the explicit form %q is shortened correctly)", out, svgpath.Describe(b), svgpath.Describe(a), why, explicit(in)), out
			}
			// (b) a zero-length segment between curves is dropped, which makes the following curve "smooth"
			if ez := explicitZ(in, true); ez != explicit(in) {
				if k2, _, _ := checkPath(ez, false, false); k2 == "" {
					return "geometry-zero-length-segment-dropped-before-curve", fmt.Sprintf("output %q denotes [%s], input denotes [%s]: %s (with the zero-length segments replaced by movetos, %q is shortened correctly)", out, svgpath.Describe(b), svgpath.Describe(a), why, ez), out
				}
			}
		}
		return "geometry", fmt.Sprintf("output %q denotes [%s], input denotes [%s]: %s", out, svgpath.Describe(b), svgpath.Describe(a), why), out
	}
	return "", "", out
}

func runPaths(c *core.Check) {
	n := c.Pick(3, 4)
	seq := core.Sequences{K: len(cmdVars), MaxLen: n}
	total := seq.Count() * uint64(len(starts)) * 3
	fam := "path-data"
	c.Family(fam).Bound = fmt.Sprintf("4 start points x all sequences of <=%d of %d command variants x 3 separator styles", n, len(cmdVars))
	c.ParallelRange(fam, total, func(i uint64) {
		style := int(i % 3)
		st := starts[i/3%uint64(len(starts))]
		var b strings.Builder
		b.WriteString(st)
		for _, k := range seq.At(i/3/uint64(len(starts)), nil) {
			if style == 0 {
				b.WriteByte(' ')
			}
			cmdVars[k].render(&b, style)
		}
		d := b.String()
		kind, what, out := CheckPath(d, i%16 == 5)
		if kind == "skip" {
			return
		}
		c.Count(1)
		nt := uint64(0)
		if out != d {
			nt = 1
			c.Nontrivial("path", d)
		}
		c.AddFamily(fam, 1, nt)
		if kind != "" {
			c.Fail(core.Failure{Family: fam, Input: d, Config: fmt.Sprintf("viaDoc=%v", i%16 == 5), Kind: kind, What: what, Order: i})
		}
		if i%400009 == 11 {
			c.Sample(map[string]any{"d": d, "out": out})
		}
	})
}

// explicit writes segments as absolute M/L/C/Q/A/Z commands with every control point spelled out.
func explicit(segs []svgpath.Seg) string { return explicitZ(segs, false) }

// explicitZ: with zeroAsMove, a line to the current point is written as a moveto to it.
func explicitZ(segs []svgpath.Seg, zeroAsMove bool) string {
	var b strings.Builder
	var x, y, x0, y0 float64
	for _, s := range segs {
		if zeroAsMove && s.X == x && s.Y == y && (s.Cmd == 'L' || s.Cmd == 'Q' && s.X1 == x && s.Y1 == y || s.Cmd == 'C' && s.X1 == x && s.Y1 == y && s.X2 == x && s.Y2 == y) {
			s.Cmd = 'M'
		}
		switch s.Cmd {
		case 'M':
			x0, y0 = s.X, s.Y
		case 'Z':
			s.X, s.Y = x0, y0
		}
		x, y = s.X, s.Y
		switch s.Cmd {
		case 'Z':
			b.WriteString("Z")
		case 'M', 'L':
			fmt.Fprintf(&b, "%c%g %g", s.Cmd, s.X, s.Y)
		case 'C':
			fmt.Fprintf(&b, "C%g %g %g %g %g %g", s.X1, s.Y1, s.X2, s.Y2, s.X, s.Y)
		case 'Q':
			fmt.Fprintf(&b, "Q%g %g %g %g", s.X1, s.Y1, s.X, s.Y)
		case 'A':
			l, w := 0, 0
			if s.Large {
				l = 1
			}
			if s.Sweep {
				w = 1
			}
			fmt.Fprintf(&b, "A%g %g %g %d %d %g %g", s.X1, s.Y1, s.X2, l, w, s.X, s.Y)
		}
	}
	return b.String()
}
