package c05

import (
	"fmt"
	"sort"
	"strings"

	minify "github.com/tdewolff/minify/v2"
	msvg "github.com/tdewolff/minify/v2/svg"
	"verif/internal/core"
	"verif/internal/numref"
	"verif/internal/oracle/csscolor"
	"verif/internal/oracle/svgpath"
	"verif/internal/oracle/xmlinfo"
)

// ---------- a small element tree over xmlinfo items ----------

type node struct {
	name     string
	attrs    []xmlinfo.Attr
	children []*node
	text     string // for text nodes (name == "")
	cdata    bool
	doctype  string
}

func buildTree(items []xmlinfo.Item) (*node, error) {
	root := &node{name: "#doc"}
	stack := []*node{root}
	for _, it := range items {
		top := stack[len(stack)-1]
		switch it.Kind {
		case xmlinfo.Comment, xmlinfo.PI:
		case xmlinfo.Doctype:
			top.children = append(top.children, &node{name: "#doctype", doctype: it.Raw})
		case xmlinfo.Text:
			var b strings.Builder
			for _, c := range xmlinfo.Decode(it.Raw) {
				if c.Opaque != "" {
					b.WriteString("&" + c.Opaque + ";")
				} else {
					b.WriteRune(c.R)
				}
			}
			top.children = append(top.children, &node{text: b.String()})
		case xmlinfo.CData:
			top.children = append(top.children, &node{text: it.Raw, cdata: true})
		case xmlinfo.Start, xmlinfo.Empty:
			n := &node{name: it.Name, attrs: it.Attrs}
			top.children = append(top.children, n)
			if it.Kind == xmlinfo.Start {
				stack = append(stack, n)
			}
		case xmlinfo.End:
			if len(stack) < 2 || stack[len(stack)-1].name != it.Name {
				return nil, fmt.Errorf("mismatched </%s>", it.Name)
			}
			stack = stack[:len(stack)-1]
		}
	}
	if len(stack) != 1 {
		return nil, fmt.Errorf("unclosed <%s>", stack[len(stack)-1].name)
	}
	return root, nil
}

func prefix(name string) string {
	if i := strings.IndexByte(name, ':'); i >= 0 {
		return name[:i]
	}
	return ""
}

var rootDefaults = map[string]string{"version": "1.1", "x": "0", "y": "0", "preserveAspectRatio": "xMidYMid meet", "baseProfile": "none", "contentScriptType": "application/ecmascript", "contentStyleType": "text/css"}

// strip applies, to the INPUT tree, exactly what the statement allows to disappear: metadata
// elements, foreign-namespace elements and attributes (and their xmlns declarations),
// default-valued root attributes, type=text/css on style, empty defs, DOCTYPE without
// internal subset; inline mode also drops the root xmlns.
func strip(n *node, isRoot, inline bool) *node {
	// an element written with the svg: prefix is the same element as the unprefixed one (documented
	// normalisation of the minifier; the SVG namespace is the default namespace of the document)
	out := &node{name: strings.TrimPrefix(n.name, "svg:"), text: n.text, cdata: n.cdata, doctype: n.doctype}
	for _, a := range n.attrs {
		p := prefix(a.Name)
		v := xmlinfo.NormalizeAttr(a.Raw)
		switch {
		case p == "xmlns" && a.Name != "xmlns:xlink":
			continue
		case p != "" && p != "xml" && p != "xlink" && p != "xmlns":
			continue
		case n.name == "svg" && rootDefaults[a.Name] != "" && sameDim(v, rootDefaults[a.Name]):
			// (x, y and preserveAspectRatio have these defaults on nested svg elements as well; the others mean nothing there)
			continue
		case isRoot && inline && a.Name == "xmlns":
			continue
		case n.name == "style" && a.Name == "type" && v == "text/css":
			continue
		}
		out.attrs = append(out.attrs, a)
	}
	for _, ch := range n.children {
		switch {
		case ch.name == "#doctype":
			if strings.Contains(ch.doctype, "[") {
				out.children = append(out.children, ch)
			}
		case ch.name == "metadata":
		case ch.name != "" && prefix(ch.name) != "" && prefix(ch.name) != "svg":
		case ch.name == "defs" && !hasElementChild(ch):
		case ch.name == "":
			out.children = append(out.children, ch)
		default:
			out.children = append(out.children, strip(ch, n.name == "#doc", inline))
		}
	}
	return out
}

func hasElementChild(n *node) bool {
	for _, c := range n.children {
		if c.name != "" {
			return true
		}
	}
	return false
}

// ---------- attribute value equivalence ----------

func splitDim(s string) (numref.Num, string, bool) {
	s = strings.TrimSpace(s)
	i := len(s)
	for i > 0 && (s[i-1] >= 'a' && s[i-1] <= 'z' || s[i-1] >= 'A' && s[i-1] <= 'Z' || s[i-1] == '%') {
		i--
	}
	// an exponent is not a unit: "1e2" has no unit, "1em" has unit em
	if n, ok := numref.Parse(s); ok {
		return n, "", true
	}
	n, ok := numref.Parse(s[:i])
	return n, strings.ToLower(s[i:]), ok
}

func sameDim(a, b string) bool {
	x, ux, ok1 := splitDim(a)
	y, uy, ok2 := splitDim(b)
	if !ok1 || !ok2 {
		return a == b
	}
	if ux == "px" {
		ux = ""
	}
	if uy == "px" {
		uy = ""
	}
	if x.IsZero() && y.IsZero() && (ux == "" || uy == "") && ux != "%" && uy != "%" {
		return true // a zero length needs no unit
	}
	return x.Equal(y) && ux == uy
}

var exactAttrs = map[string]bool{"id": true, "class": true, "href": true, "xlink:href": true, "name": true, "xml:lang": true, "lang": true, "type": true, "xlink:title": true, "inkscape:label": true, "unicode": true, "glyph-name": true, "in": true, "in2": true, "result": true, "systemLanguage": true, "title": true, "target": true}

var colorAttrs = map[string]bool{"fill": true, "stroke": true, "stop-color": true, "flood-color": true, "lighting-color": true, "color": true, "solid-color": true}

func numbers(s string) ([]numref.Num, bool) {
	var out []numref.Num
	for _, f := range strings.FieldsFunc(s, func(r rune) bool { return r == ' ' || r == ',' || r == '\t' || r == '\n' }) {
		n, ok := numref.Parse(f)
		if !ok {
			return nil, false
		}
		out = append(out, n)
	}
	return out, true
}

func sameAttr(elem, name, a, b string) (bool, string) {
	if a == b {
		return true, ""
	}
	switch {
	case name == "d":
		sa, e1 := svgpath.Parse(a)
		if e1 != nil {
			return false, "input path data invalid (outside the domain)"
		}
		sb, e2 := svgpath.Parse(b)
		if e2 != nil {
			return false, "output path data invalid: " + e2.Error()
		}
		if ok, why := svgpath.Equal(svgpath.Normalize(sa), svgpath.Normalize(sb)); !ok {
			return false, why
		}
		return true, ""
	case name == "viewBox":
		x, ok1 := numbers(a)
		y, ok2 := numbers(b)
		if ok1 && ok2 && len(x) == 4 && len(y) == 4 {
			for i := range x {
				if !x[i].Equal(y[i]) {
					return false, "viewBox number differs"
				}
			}
			return true, ""
		}
		return false, "viewBox"
	case colorAttrs[name]:
		x, ok1 := csscolor.ParseSimple(a)
		y, ok2 := csscolor.ParseSimple(b)
		if ok1 && ok2 && x == y {
			return true, ""
		}
		return false, "colour differs"
	case name == "style":
		return collapseOutsideQuotes(a) == collapseOutsideQuotes(b), "style value differs"
	}
	if exactAttrs[name] {
		// identifiers and references are strings, whatever they look like: id="1000" and
		// xlink:href="#1000" stop matching when one of them is rewritten as a number
		return false, "identifier or reference rewritten"
	}
	if sameDim(a, b) {
		if _, _, ok := splitDim(a); ok {
			return true, ""
		}
	}
	return false, "value differs"
}

// collapseOutsideQuotes collapses white-space runs and trims, leaving quoted strings alone.
func collapseOutsideQuotes(s string) string {
	var b strings.Builder
	var q byte
	ws := false
	for i := 0; i < len(s); i++ {
		c := s[i]
		if q != 0 {
			b.WriteByte(c)
			if c == q {
				q = 0
			}
			continue
		}
		if c == ' ' || c == '\t' || c == '\n' || c == '\r' {
			ws = true
			continue
		}
		if ws && b.Len() > 0 {
			b.WriteByte(' ')
		}
		ws = false
		if c == '"' || c == '\'' {
			q = c
		}
		b.WriteByte(c)
	}
	return b.String()
}

func collapse(s string) string { return strings.Join(strings.Fields(s), " ") }

// textOf concatenates the text children (used for style/text elements).
func compareNodes(a, b *node, path string, preserve bool) (kind, what string) {
	if a.name != b.name {
		return "element-tree", fmt.Sprintf("%s: element <%s> became <%s>", path, a.name, b.name)
	}
	// attributes: same set in the same order, equivalent values
	if len(a.attrs) != len(b.attrs) {
		for _, x := range a.attrs {
			if x.Name == "xml:space" && xmlinfo.NormalizeAttr(x.Raw) == "preserve" && len(a.attrs) == len(b.attrs)+1 {
				return "xml-space-preserve-dropped", fmt.Sprintf("%s<%s>: xml:space=\"preserve\" was removed (attributes %v became %v)", path, a.name, attrNames(a.attrs), attrNames(b.attrs))
			}
		}
		return "attribute-set", fmt.Sprintf("%s<%s>: attributes %v became %v", path, a.name, attrNames(a.attrs), attrNames(b.attrs))
	}
	for i := range a.attrs {
		if a.attrs[i].Name != b.attrs[i].Name {
			return "attribute-set", fmt.Sprintf("%s<%s>: attributes %v became %v", path, a.name, attrNames(a.attrs), attrNames(b.attrs))
		}
		va, vb := xmlinfo.NormalizeAttr(a.attrs[i].Raw), xmlinfo.NormalizeAttr(b.attrs[i].Raw)
		if ok, why := sameAttr(a.name, a.attrs[i].Name, va, vb); !ok {
			if strings.Contains(why, "outside the domain") {
				continue
			}
			return "attribute-value", fmt.Sprintf("%s<%s %s>: %q became %q (%s)", path, a.name, a.attrs[i].Name, va, vb, why)
		}
		if a.attrs[i].Name == "xml:space" {
			preserve = va == "preserve"
		}
	}
	// children: merge adjacent text nodes; white-space-only text may vanish unless preserved
	ca, cb := mergeText(a.children, preserve || a.name == "style"), mergeText(b.children, preserve || a.name == "style")
	if len(ca) != len(cb) {
		return "element-tree", fmt.Sprintf("%s<%s>: children %s became %s", path, a.name, childNames(ca), childNames(cb))
	}
	for i := range ca {
		x, y := ca[i], cb[i]
		if (x.name == "") != (y.name == "") {
			return "element-tree", fmt.Sprintf("%s<%s>: children %s became %s", path, a.name, childNames(ca), childNames(cb))
		}
		if x.name == "#doctype" {
			if collapse(x.doctype) != collapse(y.doctype) {
				return "doctype", fmt.Sprintf("DOCTYPE %q became %q", x.doctype, y.doctype)
			}
			continue
		}
		if x.name == "" {
			switch {
			case preserve:
				if x.text != y.text {
					return "text-preserved-space", fmt.Sprintf("%s<%s> (xml:space=preserve): text %q became %q", path, a.name, x.text, y.text)
				}
			case a.name == "style":
				if collapseOutsideQuotes(x.text) != collapseOutsideQuotes(y.text) {
					return "style-text", fmt.Sprintf("%s<style>: %q became %q", path, x.text, y.text)
				}
			default:
				if collapse(x.text) != collapse(y.text) {
					if strings.Join(strings.Fields(x.text), "") == strings.Join(strings.Fields(y.text), "") && len(strings.Fields(y.text)) < len(strings.Fields(x.text)) {
						return "text-words-joined", fmt.Sprintf("%s<%s>: text %q became %q (white space between two words removed)", path, a.name, x.text, y.text)
					}
					return "text", fmt.Sprintf("%s<%s>: text %q became %q", path, a.name, x.text, y.text)
				}
			}
			continue
		}
		if k, w := compareNodes(x, y, path+"<"+a.name+">", preserve); k != "" {
			return k, w
		}
	}
	return "", ""
}

func mergeText(ch []*node, keepWS bool) []*node {
	var out []*node
	for _, c := range ch {
		if c.name == "" {
			if len(out) > 0 && out[len(out)-1].name == "" {
				out[len(out)-1] = &node{text: out[len(out)-1].text + c.text}
			} else {
				out = append(out, &node{text: c.text})
			}
			continue
		}
		out = append(out, c)
	}
	var res []*node
	for _, c := range out {
		if c.name == "" && !keepWS && strings.TrimSpace(c.text) == "" {
			continue
		}
		res = append(res, c)
	}
	return res
}

func attrNames(as []xmlinfo.Attr) []string {
	var s []string
	for _, a := range as {
		s = append(s, a.Name)
	}
	return s
}

func childNames(ch []*node) string {
	var s []string
	for _, c := range ch {
		if c.name == "" {
			s = append(s, fmt.Sprintf("text(%q)", c.text))
		} else {
			s = append(s, "<"+c.name+">")
		}
	}
	return "[" + strings.Join(s, " ") + "]"
}

// CheckDoc minifies one SVG document (cfg: "standalone" or "inline") with an SVG-only registry.
func CheckDoc(in, cfg string) (kind, what, out string) {
	inline := strings.Contains(cfg, "inline")
	m := minify.New()
	m.Add("image/svg+xml", &msvg.Minifier{})
	var res []byte
	var err error
	mt := "image/svg+xml"
	if inline {
		mt = "image/svg+xml;inline=1"
	}
	if p := core.Recover(func() { res, err = m.Bytes(mt, []byte(in)) }); p != "" {
		return "panic", p, ""
	}
	if err != nil {
		return "rejected", err.Error(), ""
	}
	out = string(res)
	if err := xmlinfo.WellFormed(out, nil); err != nil {
		return "not-well-formed", fmt.Sprintf("output %q: %v", out, err), out
	}
	ii, err := xmlinfo.Tokenize(in)
	if err != nil {
		return "skip", "", out
	}
	oi, _ := xmlinfo.Tokenize(out)
	ta, err := buildTree(ii)
	if err != nil {
		return "skip", "", out
	}
	tb, err := buildTree(oi)
	if err != nil {
		return "not-well-formed", err.Error(), out
	}
	k, w := compareNodes(strip(ta, false, inline), strip2(tb), "", false)
	if k != "" {
		w += fmt.Sprintf(" | output %q", out)
	}
	return k, w, out
}

// strip2: on the output side only the OPTIONAL removals are normalised away (an empty defs
// element and a DOCTYPE without internal subset may or may not have been removed).
func strip2(n *node) *node {
	out := &node{name: n.name, text: n.text, cdata: n.cdata, doctype: n.doctype, attrs: n.attrs}
	for _, ch := range n.children {
		switch {
		case ch.name == "#doctype" && !strings.Contains(ch.doctype, "["):
		case ch.name == "defs" && !hasElementChild(ch):
		case ch.name == "" || ch.name == "#doctype":
			out.children = append(out.children, ch)
		default:
			out.children = append(out.children, strip2(ch))
		}
	}
	return out
}

// ---------- generator ----------

var rootAttrSets = []string{
	``, ` xmlns="http://www.w3.org/2000/svg"`, ` xmlns="http://www.w3.org/2000/svg" version="1.1" x="0" y="0px" width="10px" height="5.0"`,
	` viewBox="0 0 10 10"`, ` viewBox="0,0,10,10"`, ` viewBox="0, 0 , 10.0 1e1" preserveAspectRatio="xMidYMid meet" baseProfile="none"`,
	` xmlns:xlink="http://www.w3.org/1999/xlink" xmlns:inkscape="http://www.inkscape.org/namespaces/inkscape" inkscape:version="1.0" version="1.0" x="1"`,
	` contentStyleType="text/css" contentScriptType="application/ecmascript" width="100%" height="0.0"`, ` viewBox="-.5-.5 1e1 10"`,
}

var childItems = []string{
	`<g></g>`, `<g> </g>`, `<path d="M 1 1 L 2 2 L 2 2"/>`, `<path d="M1 1Z L3 3"/>`, `<rect x="1.0" y="0.0px" width="10.50px" height="5e0" fill="#ff0000"/>`,
	`<rect width="1.0em" height="2.50MM" rx="0.0cm" ry=".5pt" stroke="#FF0000" fill="#f00"/>`, `<circle r="1" cx="+5" stroke="red" fill="RED" fill-opacity="0.50" stroke-width="0.0"/>`,
	`<circle r="10%" fill="#c0c0c0" stroke="silver"/>`, `<style> a { fill : red } </style>`, `<style type="text/css"><![CDATA[ a { fill : red } ]]></style>`, `<style>a:after{content:"x  y"}</style>`,
	`<g style="fill : blue ; stroke : none"/>`, `<metadata>m<x/></metadata>`, `<sodipodi:namedview a="b"><inkscape:grid/></sodipodi:namedview>`, `<use xlink:href="#a"/>`,
	`<text xml:space="preserve"> a  b </text>`, `<text> a  b </text>`, `<text>a<tspan> b </tspan> c</text>`, `<foreignObject><p xmlns="http://www.w3.org/1999/xhtml"> x  y </p></foreignObject>`,
	`<defs/>`, `<defs></defs>`, `<defs><g id="a"/></defs>`, `<!-- c -->`, `<?pi x?>`, ` `, "\n", `<a xlink:href="x" xml:lang="en" inkscape:label="l"><path d="m0 0h1v1z"/></a>`,
	`<g fill="url(#p)" stroke="lightslateblue" color="BlanchedAlmond"/>`, `<linearGradient><stop offset="0.50" stop-color="#ffffff"/></linearGradient>`, `<image width="1" height="1" xlink:href="data:image/png;base64,AAAA"/>`,
	// identifiers that look like numbers, together with a reference to them
	`<g id="1000"/><use xlink:href="#1000"/>`, `<rect id="1.0" class="010 1e3" width="1000" height="0.50"/>`,
	// character data and CDATA sections that must not join to the sequence ]]>
	`<text>]]<![CDATA[>]]></text>`, `<text>a]<![CDATA[]>]]></text>`, `<text>]]<!--c-->&gt;</text>`, `<text>x]]</text>`, `<text><![CDATA[]]]]><![CDATA[>]]></text>`,
	// attributes whose value is a name, a reference or text although it looks like a number
	`<a xlink:href="010" xlink:title="1.0"><path d="M0 0L1 1"/></a>`, `<font><glyph unicode="1.0" glyph-name="007" d="M0 0L1 1"/></font>`, `<filter id="f"><feOffset in="01" result="1.0" dx="1.0"/><feBlend in="1.0" in2="01"/></filter>`, `<text xml:lang="1.0" systemLanguage="010">x</text>`,
	// elements whose content is only white space and comments, in every combination that has to be skipped before the end tag
	`<defs> </defs>`, "<defs>\n  </defs>", `<g> <!--a--></g>`, "<defs>\n<!-- c -->\n</defs>", `<g><!--a--><!--b--></g>`, `<g> <!--a--> <!--b--> </g>`, `<defs><!--a--></defs>`, `<symbol id="s"> </symbol>`,
	// numeric references to markup characters in text and in attribute values
	`<text>x &#60; y &#38; z &#x3C;b&#62;</text>`, `<g id="a&#60;b" class="c&#38;d" fill="url(#a&#38;)"/>`, `<a xlink:href="?x=1&#38;y=2" xlink:title="&#34;q&#34; &#39;r&#39;"><path d="M0 0L1 1"/></a>`,
	// prefixed SVG elements: both tags of an element must keep (or lose) the prefix together
	`<svg:g xmlns:svg="http://www.w3.org/2000/svg"><svg:path d="M0 0L1 1"/></svg:g>`,
}

var prologs = []string{"", `<?xml version="1.0" encoding="UTF-8"?>` + "\n", `<!DOCTYPE svg PUBLIC "-//W3C//DTD SVG 1.1//EN" "http://www.w3.org/Graphics/SVG/1.1/DTD/svg11.dtd">`, `<!DOCTYPE svg [<!ENTITY e "v">]>`}

// Documents emits the documents of the quick document family (pairs of child items under each root attribute set), for checks
// that only need SVG documents as inputs (C09: validity of the output).
func Documents(emit func(string) bool) {
	seq := core.Sequences{K: len(childItems), MaxLen: 2}
	for i := uint64(0); i < seq.Count(); i++ {
		var b strings.Builder
		for _, k := range seq.At(i, nil) {
			b.WriteString(childItems[k])
		}
		if !emit(prologs[i%uint64(len(prologs))] + "<svg" + rootAttrSets[i%uint64(len(rootAttrSets))] + ">" + b.String() + "</svg>") {
			return
		}
	}
}

func runDocs(c *core.Check) {
	n := c.Pick(2, 3)
	seq := core.Sequences{K: len(childItems), MaxLen: n}
	fam := "documents"
	total := seq.Count() * uint64(len(rootAttrSets))
	c.Family(fam).Bound = fmt.Sprintf("%d root attribute sets x all sequences of <=%d of %d child items (also nested in <g>), prologs rotating, standalone and inline", len(rootAttrSets), n, len(childItems))
	c.ParallelRange(fam, total, func(i uint64) {
		ra := rootAttrSets[i%uint64(len(rootAttrSets))]
		var b strings.Builder
		ks := seq.At(i/uint64(len(rootAttrSets)), nil)
		for j, k := range ks {
			if j == 1 && len(ks) == 3 {
				b.WriteString("<g id=\"n\">" + childItems[k] + "</g>")
			} else {
				b.WriteString(childItems[k])
			}
		}
		in := prologs[i%uint64(len(prologs))] + "<svg" + ra + ">" + b.String() + "</svg>"
		for _, cfg := range []string{"standalone", "inline"} {
			kind, what, out := CheckDoc(in, cfg)
			if kind == "skip" {
				continue
			}
			c.Count(1)
			nt := uint64(0)
			if out != in {
				nt = 1
				c.Nontrivial("doc", cfg, in)
			}
			c.AddFamily(fam, 1, nt)
			if kind != "" {
				c.Fail(core.Failure{Family: fam, Input: in, Config: cfg, Kind: kind, What: what, Order: i})
			}
		}
		if i%20011 == 3 {
			_, _, out := CheckDoc(in, "standalone")
			c.Sample(map[string]any{"svg": in, "out": out})
		}
	})
}

// runDefaultAttrs: every attribute the minifier may drop from an <svg> element because it states the default,
// with the default itself and with values that only resemble it.
func runDefaultAttrs(c *core.Check) {
	vals := map[string][]string{
		"preserveAspectRatio": {"xMidYMid meet", "xMidYMid slice", "xMidYMid", "xMinYMin meet", "xMaxYMid meet", "xMidYMax slice", "none", "xMidYMid meetx", "XMIDYMID MEET", "defer xMidYMid meet"},
		"version":             {"1.1", "1.0", "1.2", "1", "11", "1.1 ", "2"},
		"x":                   {"0", "0px", "0.0", "1", "00", "-0", "0e3", "0em", ".0", "1e0", "10"},
		"y":                   {"0", "0px", "0.0", "1", "5", "0.5"},
		"baseProfile":         {"none", "full", "basic", "tiny", "none2", "NONE", "non"},
		"contentScriptType":   {"application/ecmascript", "text/ecmascript", "application/ecmascript;v=1", "application/javascript", "application/ecmascript2"},
		"contentStyleType":    {"text/css", "text/css2", "text/cs", "text/x-scss"},
		"width":               {"100%", "100", "100.0%", "1e2%", "10%", "100px", "100%x"},
		"height":              {"100%", "100", "50%", "100.00%"},
		"zoomAndPan":          {"magnify", "disable"},
		"xml:space":           {"preserve", "default"},
		"xmlns":               {"http://www.w3.org/2000/svg", "http://www.w3.org/2000/svg2"},
	}
	var names []string
	for k := range vals {
		names = append(names, k)
	}
	sort.Strings(names)
	shapes := []string{`<svg ATTR viewBox="0 0 10 10"><rect width="4" height="4"/></svg>`, `<svg viewBox="0 0 10 10" ATTR><g/></svg>`, `<svg xmlns="http://www.w3.org/2000/svg"><svg ATTR viewBox="0 0 2 2"><path d="M0 0L1 1"/></svg></svg>`, `<svg><g ATTR><path d="M0 0L1 1"/></g></svg>`, `<svg><symbol ATTR viewBox="0 0 1 1"/><rect ATTR fill="red"/></svg>`}
	fam := "default-attributes"
	var docs []string
	for _, n := range names {
		for _, v := range vals[n] {
			for _, sh := range shapes {
				if n == "xmlns" && !strings.HasPrefix(sh, "<svg ATTR") {
					continue
				}
				docs = append(docs, strings.ReplaceAll(sh, "ATTR", n+`="`+v+`"`))
			}
		}
	}
	// pairs of such attributes on the root
	for _, n1 := range names {
		for _, n2 := range names {
			if n1 < n2 && n1 != "xmlns" && n2 != "xmlns" {
				for _, v1 := range vals[n1][:2] {
					for _, v2 := range vals[n2][:2] {
						docs = append(docs, `<svg `+n1+`="`+v1+`" `+n2+`="`+v2+`"><g/></svg>`)
					}
				}
			}
		}
	}
	c.Family(fam).Bound = fmt.Sprintf("%d attribute names x their default and 1-11 near-default values x 5 positions (root first/last, nested svg, g, symbol+rect), and every pair of two such attributes on the root; standalone and inline", len(names))
	c.ParallelRange(fam, uint64(len(docs)), func(i uint64) {
		in := docs[i]
		for _, cfg := range []string{"standalone", "inline"} {
			kind, what, out := CheckDoc(in, cfg)
			if kind == "skip" {
				continue
			}
			c.Count(1)
			nt := uint64(0)
			if out != in {
				nt = 1
				c.Nontrivial("doc", cfg, in)
			}
			c.AddFamily(fam, 1, nt)
			if kind != "" {
				c.Fail(core.Failure{Family: fam, Input: in, Config: cfg, Kind: kind, What: what, Order: i})
			}
		}
	})
}

var _ = sort.Strings

// runCharData: character data of a <text> element built from short pieces, so that the sequence `]]>` (and the
// end of a word) is assembled across token boundaries in every way: a `]` or `>` may reach the output as a write of
// its own (after a dropped comment, out of a CDATA section that is dissolved, out of a character reference) or as
// part of a longer write. Every sequence of <=4 (thorough <=5) pieces; the oracle is the one of every other
// document (well-formed output, same character data, same structure).
var charDataPieces = []string{"]", "]]", "&gt;", ">", "a", "<!--c-->", "<![CDATA[]]]>", "<![CDATA[>]]>", "<![CDATA[]]]]><![CDATA[>]]>", "<![CDATA[a]]]>", "&#93;", " "}

func runCharData(c *core.Check) {
	n := c.Pick(4, 5)
	seq := core.Sequences{K: len(charDataPieces), MaxLen: n}
	fam := "character-data"
	total := seq.Count()
	c.Family(fam).Bound = fmt.Sprintf("<svg><text>…</text></svg> and <svg><text>…<tspan>b</tspan></text></svg> with all sequences of <=%d of %d pieces (], ]], &gt;, >, a letter, a comment, four CDATA sections ending in ] or starting with >, &#93;, a space); standalone and inline", n, len(charDataPieces))
	c.ParallelRange(fam, total, func(i uint64) {
		var b strings.Builder
		for _, k := range seq.At(i, nil) {
			b.WriteString(charDataPieces[k])
		}
		for v, in := range []string{"<svg><text>" + b.String() + "</text></svg>", "<svg><text>" + b.String() + "<tspan>b</tspan></text></svg>"} {
			for _, cfg := range []string{"standalone", "inline"} {
				kind, what, out := CheckDoc(in, cfg)
				if kind == "skip" {
					continue
				}
				c.Count(1)
				nt := uint64(0)
				if out != in {
					nt = 1
					c.Nontrivial("doc", cfg, in)
				}
				c.AddFamily(fam, 1, nt)
				if kind != "" {
					c.Fail(core.Failure{Family: fam, Input: in, Config: cfg, Kind: kind, What: what, Order: i*2 + uint64(v)})
				}
			}
		}
	})
}
