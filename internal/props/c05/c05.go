// Package c05: SVG minification preserves geometry, references and structure.
package c05

import (
	"fmt"
	"strings"

	minify "github.com/tdewolff/minify/v2"
	"github.com/tdewolff/minify/v2/css"
	"github.com/tdewolff/minify/v2/html"
	"github.com/tdewolff/minify/v2/svg"
	"verif/internal/core"
)

// Run executes C05.
func Run(c *core.Check) {
	c.Rule = "paths: 4 start points x every sequence of <=N command variants (57 variants covering all 20 command letters, implicit repetition, coincident/axis-aligned/reflected/degenerate geometry, every arc flag pair, numbers with exponents and sign/dot adjacency) x 3 separator styles (spaces, commas, compact incl. glued arc flags), through the exported shortener and (every 16th) through the public minifier; documents: small SVG trees by grammar (see documents.go); call sequences: every sequence of <=3 calls (stand-alone SVG, HTML with inline SVG, CSS with an SVG data URI) on one shared *svg.Minifier against the same calls on fresh registries. Non-trivial = output differs from input"
	c.Assumptions = []string{"own strict path-data parser (SVG 1.1 grammar) and interpreter; tolerance 1e-9 relative to the coordinate scale", "zero-length lines and curves whose control points all lie on end points may be simplified, nothing else"}
	runPaths(c)
	runDocs(c)
	runDefaultAttrs(c)
	runCharData(c)
	runSequences(c)
}

// runSequences: state carried from one call to the next on ONE registered *svg.Minifier (the
// way the command line tool and the bindings use it): every sequence of <=3 documents over
// stand-alone SVG files and HTML pages with inline SVG (which reach the SVG minifier with the
// inline parameter); every call must give what it gives on a fresh registry.
func runSequences(c *core.Check) {
	docs := []struct{ typ, text string }{
		{"image/svg+xml", `<svg xmlns="http://www.w3.org/2000/svg" viewBox="0 0 10 10"><path d="M0 0L10 10"/></svg>`},
		{"text/html", `<p>x<svg xmlns="http://www.w3.org/2000/svg" width="1.0"><rect width="10.0" style="fill : red"/></svg>`},
		{"image/svg+xml", `<?xml version="1.0"?><svg xmlns="http://www.w3.org/2000/svg" xmlns:xlink="http://www.w3.org/1999/xlink"><use xlink:href="#a"/><!-- c --></svg>`},
		{"text/css", `a{background:url("data:image/svg+xml,%3Csvg xmlns='http://www.w3.org/2000/svg'%3E%3Cpath d='M0 0L1 1'/%3E%3C/svg%3E")}`},
	}
	mk := func(keep bool) *minify.M {
		m := minify.New()
		m.Add("image/svg+xml", &svg.Minifier{KeepComments: keep})
		m.Add("text/html", &html.Minifier{})
		m.Add("text/css", &css.Minifier{})
		return m
	}
	fam := "call-sequences"
	seq := core.Sequences{K: len(docs), MaxLen: 3}
	c.Family(fam).Bound = fmt.Sprintf("every sequence of <=3 calls over %d documents on one shared *svg.Minifier, KeepComments off/on", len(docs))
	for _, keep := range []bool{false, true} {
		alone := make([]string, len(docs))
		for i, d := range docs {
			alone[i], _ = mk(keep).String(d.typ, d.text)
		}
		for i := uint64(1); i < seq.Count(); i++ {
			m := mk(keep)
			ks := seq.At(i, nil)
			for j, k := range ks {
				out, _ := m.String(docs[k].typ, docs[k].text)
				c.Count(1)
				c.AddFamily(fam, 1, 1)
				c.Nontrivial(fam, fmt.Sprint(keep, ks[:j+1]))
				if out != alone[k] {
					var names []string
					for _, x := range ks[:j+1] {
						names = append(names, docs[x].typ)
					}
					c.Fail(core.Failure{Family: fam, Input: strings.Join(names, " ⟶ "), Config: fmt.Sprintf("KeepComments=%v", keep), Kind: "state-survives-call", What: fmt.Sprintf("call %d gives %q, on a fresh registry it gives %q", j+1, out, alone[k]), Order: i})
					break
				}
			}
		}
	}
}

// Replay re-executes one failure.
func Replay(f core.Failure) (string, string) {
	if f.Family == "path-data" {
		k, w, _ := CheckPath(f.Input, strings.Contains(f.Config, "true"))
		return k, w
	}
	k, w, _ := CheckDoc(f.Input, f.Config)
	return k, w
}
