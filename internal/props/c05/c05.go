// Package c05: SVG minification preserves geometry, references and structure.
package c05

import (
	"strings"

	"verif/internal/core"
)

// Run executes C05.
func Run(c *core.Check) {
	c.Rule = "paths: 4 start points x every sequence of <=N command variants (57 variants covering all 20 command letters, implicit repetition, coincident/axis-aligned/reflected/degenerate geometry, every arc flag pair, numbers with exponents and sign/dot adjacency) x 3 separator styles (spaces, commas, compact incl. glued arc flags), through the exported shortener and (every 16th) through the public minifier; documents: small SVG trees by grammar (see documents.go). Non-trivial = output differs from input"
	c.Assumptions = []string{"own strict path-data parser (SVG 1.1 grammar) and interpreter; tolerance 1e-9 relative to the coordinate scale", "zero-length lines and curves whose control points all lie on end points may be simplified, nothing else"}
	runPaths(c)
	runDocs(c)
}

// Replay re-executes one failure.
func Replay(f core.Failure) (string, string) {
	if f.Family == "path-data" {
		k, w, _ := CheckPath(f.Input, strings.Contains(f.Config, "true"))
		return k, w
	}
	k, w, _ := CheckDoc(f.Input, f.Config)
	return k, w
}
