// Package c06: XML minification preserves the infoset up to insignificant whitespace.
package c06

import (
	"fmt"
	"strings"

	minify "github.com/tdewolff/minify/v2"
	mxml "github.com/tdewolff/minify/v2/xml"
	"verif/internal/core"
	"verif/internal/oracle/xmlinfo"
)

var entities = map[string]string{"e": "v"}

// CheckOne minifies one document under one configuration.
func CheckOne(in string, keepWS bool) (kind, what, out string) {
	m := minify.New()
	m.Add("text/xml", &mxml.Minifier{KeepWhitespace: keepWS})
	var res []byte
	var err error
	if p := core.Recover(func() { res, err = m.Bytes("text/xml", []byte(in)) }); p != "" {
		return "panic", p, ""
	}
	if err != nil {
		return "rejected", fmt.Sprintf("well-formed document rejected: %v", err), ""
	}
	out = string(res)
	kind, what = xmlinfo.Compare(in, out, keepWS, entities)
	if kind != "" {
		what += fmt.Sprintf(" | output %q", out)
	}
	return
}

var texts = []string{"t", " ", " t", "t ", " t ", "\n", "&amp;", "&lt;", "&#9;", "&#10;", "&apos;", "a &gt; b", "  ", "&e;", "t  u", "\u00a0", "\u3000 ", "\u0085", "t]]", "]", "&#60;", "&#38;", "&#x3C;b&#x3e;", "&#38;amp;", "&#38;#60;", "]]&gt;", "]]&#62;", "&gt;", "]&gt;"} // \u00a0 \u3000 \u0085: Unicode spaces that are NOT XML white space; ]&gt; after a ] with a dropped node in between spells ]]>
var cdatas = []string{"<![CDATA[x]]>", "<![CDATA[ x]]>", "<![CDATA[x ]]>", "<![CDATA[<&>]]>", "<![CDATA[]]]]><![CDATA[>]]>", "<![CDATA[]]>", "<![CDATA[ ]]>", "<![CDATA[a]]b]]>", "<![CDATA[<<<<&&&&]]>", "<![CDATA[>y]]>", "<![CDATA[]>]]>"}
var others = []string{"<!--c-->", "<!-- -->", "<?p d?>", "<?q d  e ?>", "<?r x=\"1\" y?>", "<?s a></b>?>", "<?s a>t?>", "<b/>", "<b></b>", "<b> </b>", "<b>t</b>", "<b>\u00a0</b>", "<b x=\"1\"> t  u </b>", "<b ></b >", "<b\n/>"}

var attrSyms = []string{"a", " ", "\"", "'", "&lt;", "&amp;", "&#9;", "&#10;", "&#13;", "&quot;", "&apos;", ">", "\t", "&#32;", "&gt;", "&#60;", "&#38;", "&#x3C;", "&#34;", "&#39;"} // the last five: numeric references to the characters that may not stand raw in an attribute value

func docWith(content string, decl, doctype int) string {
	var b strings.Builder
	switch decl {
	case 1:
		b.WriteString("<?xml version=\"1.0\"?>")
	case 2:
		b.WriteString("<?xml version=\"1.0\" encoding=\"UTF-8\" ?>\n")
	}
	switch doctype {
	case 1:
		b.WriteString("<!DOCTYPE a [<!ENTITY e \"v\">]>")
	case 2:
		b.WriteString("<!DOCTYPE a [ <!ENTITY e \"v\"> <!ELEMENT a ANY> ]>\n")
	}
	if doctype == 0 {
		content = strings.ReplaceAll(content, "&e;", "&#101;")
	}
	b.WriteString("<a>" + content + "</a>")
	return b.String()
}

func runOne(c *core.Check, fam, in string, order uint64) uint64 {
	var nt uint64
	for _, keep := range []bool{false, true} {
		kind, what, out := CheckOne(in, keep)
		if out != in {
			nt++
			c.Nontrivial(in, fmt.Sprint(keep))
		}
		if kind != "" {
			c.Fail(core.Failure{Family: fam, Input: in, Config: fmt.Sprintf("KeepWhitespace=%v", keep), Kind: kind, What: what, Order: order})
		}
	}
	c.Count(2)
	c.AddFamily(fam, 2, nt)
	return nt
}

// Run executes C06.
func Run(c *core.Check) {
	c.Rule = "well-formed documents by grammar: optional XML declaration and DOCTYPE with internal subset, root with every content sequence of <=N items over text chunks (words, spaces, newlines, predefined/numeric/DTD entity references), CDATA sections (plain, edge spaces, markup characters, ]]> splits, empty), comments, PIs, child elements (empty in both spellings, whitespace-only, with attributes, with spaces in tags), nested one level deeper with a reduced alphabet; attribute values: every string of <=L symbols over quotes, references to tab/newline/CR/space, &lt; &amp; &gt; literal tab, numeric references to < & \" ', in both quote kinds; KeepWhitespace off/on. Non-trivial = output differs from input"
	c.Assumptions = []string{"own XML tokenizer + encoding/xml (strict) for well-formedness", "attribute-value normalisation per XML 1.0 §3.3.3 (CDATA type)", "DTD-declared entities are opaque tokens"}
	items := append(append(append([]string{}, texts...), cdatas...), others...)
	n := c.Pick(3, 4)
	seq := core.Sequences{K: len(items), MaxLen: n}
	c.Family("content-sequences").Bound = fmt.Sprintf("all sequences of <=%d of %d items, 3 prolog variants rotating", n, len(items))
	c.ParallelRange("content-sequences", seq.Count(), func(i uint64) {
		var b strings.Builder
		for _, k := range seq.At(i, nil) {
			b.WriteString(items[k])
		}
		content := b.String()
		if strings.Contains(content, "]]>") && !strings.Contains(content, "<![CDATA[") {
			return
		}
		in := docWith(content, int(i%3), int(i/3%3))
		runOne(c, "content-sequences", in, i)
		if i%30011 == 5 {
			_, _, out := CheckOne(in, false)
			c.Sample(map[string]any{"in": in, "out": out})
		}
	})
	// nested: child elements whose own content comes from a reduced alphabet, surrounded by text
	small := []string{"t", " ", "\n ", "<![CDATA[ x ]]>", "<!--c-->", "<c/>", "&amp;", " u ", "<?p d?>", "<?pi a=\"&quot;x\"?>"}
	seq2 := core.Sequences{K: len(small), MaxLen: c.Pick(2, 3)}
	outer := []string{"", " ", "t", " t ", "\n", "<!--c-->", "<![CDATA[y]]>"}
	c.Family("nested").Bound = fmt.Sprintf("outer text x child content sequences of <=%d of %d items", seq2.MaxLen, len(small))
	total := seq2.Count() * uint64(len(outer)*len(outer))
	c.ParallelRange("nested", total, func(i uint64) {
		var b strings.Builder
		for _, k := range seq2.At(i%seq2.Count(), nil) {
			b.WriteString(small[k])
		}
		j := i / seq2.Count()
		in := docWith(outer[j%uint64(len(outer))]+"<b y='2'>"+b.String()+"</b>"+outer[j/uint64(len(outer))]+"<b>"+b.String()+"</b>", 0, 0)
		runOne(c, "nested", in, i)
	})
	// attribute values
	seq3 := core.Sequences{K: len(attrSyms), MaxLen: c.Pick(4, 5)}
	c.Family("attribute-values").Bound = fmt.Sprintf("all strings of <=%d of %d symbols, both quote kinds", seq3.MaxLen, len(attrSyms))
	c.ParallelRange("attribute-values", seq3.Count()*2, func(i uint64) {
		q := "\""
		if i%2 == 1 {
			q = "'"
		}
		var b strings.Builder
		for _, k := range seq3.At(i/2, nil) {
			b.WriteString(attrSyms[k])
		}
		v := b.String()
		if strings.Contains(v, q) {
			return
		}
		in := "<a x=" + q + v + q + " y=" + q + "k" + q + "/>"
		runOne(c, "attribute-values", in, i)
		if i%50021 == 3 {
			_, _, out := CheckOne(in, false)
			c.Sample(map[string]any{"in": in, "out": out})
		}
	})
}

// Replay re-executes one failure.
func Replay(f core.Failure) (string, string) {
	k, w, _ := CheckOne(f.Input, strings.Contains(f.Config, "true"))
	return k, w
}

// Documents streams every document of the content-sequence family (<=n items), for checks that
// reuse the grammar with another oracle.
func Documents(n int, emit func(string) bool) {
	items := append(append(append([]string{}, texts...), cdatas...), others...)
	seq := core.Sequences{K: len(items), MaxLen: n}
	for i := uint64(0); i < seq.Count(); i++ {
		var b strings.Builder
		for _, k := range seq.At(i, nil) {
			b.WriteString(items[k])
		}
		content := b.String()
		if strings.Contains(content, "]]>") && !strings.Contains(content, "<![CDATA[") {
			continue
		}
		if !emit(docWith(content, int(i%3), int(i/3%3))) {
			return
		}
	}
}
