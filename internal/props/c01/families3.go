package c01

import (
	"strconv"
	"strings"

	"verif/internal/core"
)

func init() {
	extraFamilies = append(extraFamilies,
		family{"F10-three-level-nesting", genDeepNesting},
		family{"F11-literal-operands", genLiteralOperands},
		family{"F12-string-concatenation", genConcat},
		family{"F13-dangling-else", genDanglingElse},
		family{"F14-syntax-forms", genForms},
	)
}

// ---------------- F10: three operators, every parenthesisation ----------------

func genDeepNesting(c *core.Check, emit func(Program) bool) {
	ops := []string{"+", "*", "<", "==", "&&", "||", "??", ",", "in"}
	if c.Thorough() {
		ops = binOps
	}
	vec := vectorsOver([]string{"0", "1", "a"}, 4)
	pre := "var a=h0(),b=h0(),c=h0(),d=h0();"
	for _, o1 := range ops {
		for _, o2 := range ops {
			for _, o3 := range ops {
				for _, e := range []string{
					"((a " + o1 + " b) " + o2 + " c) " + o3 + " d",
					"(a " + o1 + " (b " + o2 + " c)) " + o3 + " d",
					"a " + o1 + " ((b " + o2 + " c) " + o3 + " d)",
					"a " + o1 + " (b " + o2 + " (c " + o3 + " d))",
					"(a " + o1 + " b) " + o2 + " (c " + o3 + " d)"} {
					if !emit(Program{fn(pre + "return [" + e + "]"), "fn", vec}) {
						return
					}
				}
			}
		}
	}
	// the same as an expression statement (no surrounding brackets), the value observed through the calls
	for _, o1 := range ops {
		for _, o2 := range ops {
			for _, e := range []string{"(h1(1) " + o1 + " h1(2)) " + o2 + " h1(3)", "h1(1) " + o1 + " (h1(2) " + o2 + " h1(3))", "(a " + o1 + " h1(2) " + o2 + " h1(3)) + h1(4)", "(h1(1), h1(2) " + o1 + " h1(3)) " + o2 + " h1(4)"} {
				if o1 == "??" && (o2 == "||" || o2 == "&&") || o2 == "??" && (o1 == "||" || o1 == "&&") {
					if strings.Contains(e, "(a "+o1+" h1(2) "+o2) {
						continue // a ?? b || c without parentheses is a syntax error
					}
				}
				if !emit(Program{fn(pre + e + ";" + e), "fn", vectorsOver([]string{"0", "1", "a"}, 3)}) {
					return
				}
			}
		}
	}
}

// ---------------- F11: operators over literals of mixed types ----------------

func genLiteralOperands(c *core.Check, emit func(Program) bool) {
	atoms := []string{"a", "'2'", "'c'", "3"}
	ops := []string{"+", "-", "*", "<"}
	if c.Thorough() {
		atoms = []string{"a", "'2'", "'c'", "3", `""`, "null", "-1", "0.5", "true", "[]", "1n", "undefined"}
		ops = []string{"+", "-", "*", "/", "%", "**", "<", "==", "===", "&&", "||", "??", ",", "|", "<<"}
	}
	vec := [][]string{{"1"}, {"a"}, {"s1"}, {"u"}, {"obj"}, {"half"}}
	for _, x := range atoms {
		for _, y := range atoms {
			for _, z := range atoms {
				if x != "a" && y != "a" && z != "a" && !c.Thorough() {
					continue
				}
				for _, o1 := range ops {
					for _, o2 := range ops {
						for _, e := range []string{"(" + x + " " + o1 + " " + y + ") " + o2 + " " + z, x + " " + o1 + " (" + y + " " + o2 + " " + z + ")", x + " " + o1 + " " + y + " " + o2 + " " + z} {
							if !emit(Program{fn("var a=h0();return [" + e + "]"), "fn", vec}) {
								return
							}
						}
					}
				}
			}
		}
	}
	// member access by string literal: only canonical array indices and identifier names may lose their quotes
	keys := []string{"1.0", "01", "1e3", "-1", " 1", "1.", ".5", "0x1", "1_0", "0", "-0", "9007199254740993", "1e21", "0.10", "1", "1000", "00", "1e0", "+1", "4294967295", "4294967296", "Infinity", "NaN", "a", "a-b", "if", "é", "$", "_", "1a", "a1", "", "0.5", "1E3", "0b1", "0o7", "١"}
	var all []string
	for i, k := range keys {
		all = append(all, `"`+k+`":`+strconv.Itoa(i+1))
	}
	obj := "var o=JSON.parse('{" + strings.Join(all, ",") + "}');" // built at run time: the table itself is not rewritten
	for _, k := range keys {
		for _, t := range []string{"return [o['K'],o[\"K\"],o[`K`]]", "o['K']=99;return o", "return ['K' in o,delete o['K'],o]", "return {'K':1,\"K\":2}", "var C=class{static 'K'=1;'K'(){}};return [Object.getOwnPropertyNames(C),Object.getOwnPropertyNames(C.prototype)]", "var {'K':v}=o;return v", "return o?.['K']", "return {['K']:1}", "return {get 'K'(){return 1}}", "return [o['K']++,o]"} {
			if !emit(Program{fn(obj + strings.ReplaceAll(t, "K", k)), "fn", [][]string{{}}}) {
				return
			}
		}
	}
}

// ---------------- F12: concatenation of string literals ----------------

func genConcat(c *core.Check, emit func(Program) bool) {
	pieces := []string{`\0`, `\1`, `\7`, `\00`, `\x00`, "1", "8", "a", `\\`, `\n`, "$", "{", "{a}", "${a}", `\ud83d`, `\ude00`, "</", "script>", "<!", "--", "\\\n", `\`, "x41", "u0041", "u{41}", "0", "", "'", `"`, "`", `\x0`, `\u004`}
	for _, l := range pieces {
		for _, r := range pieces {
			for _, q1 := range []string{"'", `"`, "`"} {
				for _, q2 := range []string{"'", `"`, "`"} {
					if l == q1 || r == q2 {
						continue
					}
					e := q1 + l + q1 + "+" + q2 + r + q2
					if !emit(Program{fn("var a=h0();return [" + e + ",(" + e + ").length," + e + "+a,a+" + e + ",a+(" + e + ")]"), "fn", [][]string{{"a"}, {"1"}}}) {
						return
					}
				}
			}
		}
	}
}

// ---------------- F13: an if without else below an if with else ----------------

func genDanglingElse(c *core.Check, emit func(Program) bool) {
	leaves := []string{"if(b)h1(1)", "if(b)h1(1);else;", "if(b)h1(1);else{}", "if(b){try{h1(1)}catch{}}", "if(b)return 1", "if(b)return 1;else;", "if(b){for(;;){h1(1);break}}", "if(b)throw 1", "if(b);else;", "if(b)h1(1);else if(c)h1(5)", "if(b){try{h1(1)}catch{}}else if(c)h1(5)", "if(b){try{h1(1)}catch{}}else if(c)return 5", "if(b)h1(1);else if(c){try{h1(5)}catch{}}", "if(b)return 1;else if(c)return 5", "if(b)return 1;else if(c)h1(5);else;"}
	wraps := []string{"X", "for(;h2();)X", "while(h2())X", "l:X", "with(o)X", "for(var k in o)X", "for(var k of [1])X", "if(c)h1(3);else X", "if(c){try{h1(3)}catch{}}else X", "{X}", "if(c)X", "do X;while(h2())"}
	depth := c.Pick(2, 3)
	vec := vectorsOver([]string{"0", "1"}, 4)
	seq := core.Sequences{K: len(wraps), MaxLen: depth}
	for i := uint64(1); i < seq.Count(); i++ {
		ws := seq.At(i, nil)
		for _, leaf := range leaves {
			s := leaf
			for j := len(ws) - 1; j >= 0; j-- {
				s = strings.Replace(wraps[ws[j]], "X", s, 1)
			}
			for _, outer := range []string{"if(a){S}else h1(2);return 9", "if(a)S\nelse h1(2);return 9", "if(a){S}else{try{h1(2)}catch{}}return 9", "if(a){S}else return 2;return 9", "if(a){h1(0);S}else h1(2)"} {
				p := strings.Replace(outer, "S", s, 1)
				if strings.Contains(outer, "if(a)S\n") {
					// without braces in the source the else already belongs to the innermost if: a different, equally valid program
					if strings.HasSuffix(s, "}") || strings.HasSuffix(s, ";") {
						p = strings.Replace(outer, "S\n", s+" ", 1)
					} else {
						p = strings.Replace(outer, "S\n", s+";", 1)
					}
				}
				if !emit(Program{fn("var a=h0(),b=h0(),c=h0(),o={p:h0()};" + p), "fn", vec}) {
					return
				}
			}
		}
	}
}

// ---------------- F14: single syntactic forms ----------------

func genForms(c *core.Check, emit func(Program) bool) {
	vec := vectorsOver([]string{"0", "1", "a", "obj", "u", "n", "fun"}, 2)
	pre := "var a=h0(),b=h0();"
	forms := []string{
		// expression statements that begin with a parenthesis for a reason
		"(class{}).x=5;return 1", "(class{static m(){h1(1)}}).m()", "(class{}),h1(2)", "(class A{static p=h1(1)});return typeof A", "(function(){}).x=5;return 2", "(function(){h1(1)})()", "(function(){h1(1)}).call()", "(function f(){}).name;return typeof f", "({}).x=5;return 3", "({p(){h1(2)}}).p()", "({p:h1(1)}).p", "({}),h1(1)", "({a}=({a:b}));return a",
		"(async function(){h1(1)})()", "(async()=>{h1(1)})()", "(function*(){h1(1)})().next()", "(let[0]=1)", "!function(){h1(1)}()", "+function(){h1(1)}()", "void function(){h1(1)}()", "new function(){h1(1)}", "new (class{constructor(){h1(1)}})", "new class{constructor(){h1(1)}}", "(()=>{h1(1)})()", "(a=>h1(a))(b)", "(a,b)=>1;return 1", "(a)=>1;return 1",
		"return (function(){})?.x", "return (class{static x=1}).x++", "return typeof (class{})", "return (class{})+''", "return (function(){return 1})()+1", "return (function(){return 1}())", "return (function(){return this}).call(a)", "return (()=>1)()", "return (()=>({}))().x", "return (a=>a)`x`", "return ({}).toString()", "return {}.toString()", "return ({}+1)", "return ({})[a]", "return ({}.x)",
		// parameters whose default, pattern or rest has an effect of its own (.length and .name of functions are outside the observation)
		"function f(x,y=h1(1)){return x}return f(a)", "var f=(x,y=h1(1))=>x;return f(a)", "function f(x,{p=h1(2)}={}){return x}return f(a)", "function f(x,[y=h1(3)]=[]){return x}return f(a)", "var {p=h1(4)}={};return 1", "var [y=h1(5)]=[];return 1", "function f(x,y=x.p){return 1}return f(a)", "function f(x,{p}){return 1}return f(a,b)", "function f(x,[y]){return 1}return f(a,b)", "function f(x,y=(x=5)){return x}return f(a)", "function f(x,...[y=h1(6)]){return x}return f(a)",
		"function f(x,y=h1(1),z){return x}return f(a)", "function f(x,y=h1(1)){return arguments.length}return [f(a)]", "var o={m(x,y=h1(1)){return x}};return o.m(a)", "class A{m(x,y=h1(1)){return x}}return new A().m(a)", "class A{constructor(x,y=h1(1)){}}new A;return 1", "var f=function(x,y=h1(1)){};return f()", "var f=async(x,y=h1(1))=>x;f();return 1", "function*g(x,y=h1(1)){}g();return 1",
		"var {p}=a;return 1", "var [q]=b;return 1", "var {p:{q}}=a;return 1", "var {}=a;return 1", "var []=a;return 1", "var {...r}=a;return 1", "var [...s]=a;return 1", "let {p}=a;return 1", "const [q]=b;return 1", "for(var {p} of [a]);return 1", "for(var [q] of [b]);return 1", "try{var {p}=a}catch(e){return 2}return 1", "({p:b}=a);return 1", "[b]=a;return 1", "(function({p}){})(a);return 1", "(({p})=>1)(a);return 1",
		// optional chains end at the parentheses
		"return (a?.b)()", "return (a?.b.c).d", "(a?.p).q=1;return a", "return new (a?.b)()", "return (a?.b)?.c", "return (a?.b)`t`", "return (a?.[b])()", "return (a?.())()", "return (a?.b)[b]", "return delete (a?.b).c", "return (a?.p.q).r", "return (a?.p)(b)", "return (a?.p).call(b)", "return a?.b()", "return a?.b.c.d", "return a?.p.q", "return (a?.p)?.q.r", "return (a?.p ?? b).q", "return ((a?.p)).q", "return (a?.p,b).q", "return (b,a?.p).q",
		// class members with literal names
		"class A{static 1=3}return Object.getOwnPropertyNames(A)", "class A{static 'a'=3}return Object.getOwnPropertyNames(A)", "class A{static [a]=1}return Object.getOwnPropertyNames(A)", "class A{static a1=2}return Object.getOwnPropertyNames(A)", "class A{static async*[b](){}}return Object.getOwnPropertyNames(A)", "class A{static get 1(){return 5}}return [A[1],Object.getOwnPropertyNames(A)]", "class A{static set 1(v){}}return Object.getOwnPropertyNames(A)", "class A{get 'x'(){return 1}}return new A().x",
		"class A{static static=1}return A.static", "class A{static get=2}return A.get", "class A{static async=3}return A.async", "class A{get=1;set=2;async=3;static=4}return new A", "class A{static;get;set;async}return Object.keys(new A)", "class A{static\nget\nx(){return 1}}return [new A().x,Object.getOwnPropertyNames(A)]", "class A{1=2}return new A", "class A{'a b'=2}return new A", "class A{1(){return 2}}return new A()[1]()", "class A{static 1(){return 2}}return A[1]()", "class A{static 0x10=1}return A[16]", "class A{static 1e3=1}return A[1000]", "class A{static .5=1}return A[.5]", "class A{static 1n(){return 1}}return A[1]()",
		"class A{static async 1(){}}return Object.getOwnPropertyNames(A)", "class A{static*1(){}}return Object.getOwnPropertyNames(A)", "class A{static get'x'(){return 1}}return A.x", "class A{static'x'=1}return A.x", "class A{static[a]=1;static[b](){}}return Object.getOwnPropertyNames(A)", "class A{static#p=1;static g(){return A.#p}}return A.g()", "class A{'constructor'(){h1(1)}}new A;return 1", "class A{static'prototype2'=1}return A.prototype2",
		"return {1:1}", "return {0x10:1}", "return {1e3:1}", "return {.5:1}", "return {1n:1}", "return {'1':1,1:2}", "return {get 1(){return 1}}", "return {async 1(){}}", "return {*1(){}}", "return {1(){return 1}}[1]()", "return {async:1,get:2,set:3,static:4}", "return {async(){return 1},get(){return 2},set(){return 3}}.get()", "return {get get(){return 1}}.get", "return {'a':1,'a-b':2,'1a':3,'if':4}",
		// built-in calls the minifier rewrites, with an unknown number of arguments
		"return [Math.pow(3,...[a,2]),Math.pow(...[3,2]),Math.trunc(...[1.5]),isNaN(...['x']),Math.abs(...[-2]),Number(...[true])]", "var q=[a,b];return [Math.pow(2,...q),Math.abs(...q),isNaN(...q),Math.trunc(...q)]",
		// a later declaration of a name that an inner function assigns; blocks that hold only a class; statement bodies that must keep their braces
		"function g(){var q=2;late=1;return q}var late;g();return [late,typeof q]", "function g(){var q=2,r=3;late=q;other=r}var late,other=5;g();return [late,other]", "var g=()=>{var q=2;late=1;return q};var late;g();return late",
		"{class A{static x=h1(1)}}return 1", "{class A extends h1(2){}}return 1", "{class A{[h1(3)](){}}}return 1", "{class A{static{h1(4)}}}return 1", "{class A{}}return 1", "if(a){class A{static x=h1(1)}}return 1",
		"for(;;){function ff(){}break}return typeof ff", "with(a||{}){function fw(){}}return typeof fw", "do{function fd(){}}while(0);return typeof fd", "if(a){function fi(){}}return typeof fi", "l:{function fl(){}}return typeof fl", "while(h2()){function fq(){}}return typeof fq", "for(var k in {p:1}){function fk(){}}return typeof fk", "for(;;){class cc{}break}return 1", "for(;;){let lz=1;break}return 1", "if(a){let ly=1}return 1", "if(a){const lc=1}else{class ce{}}return 1",
		// for-init: `in` must stay parenthesised also after a nested statement reset the printer's for-state
		"var x=()=>{for(;;)break},y=(a in {p:1});for(;b;){h1(y);break}return typeof x", "var x=function(){for(var i=0;i<1;i++);},y=(a in {p:1});for(;b;){h1(y);break}return typeof x", "var x={m(){for(;;)break}},y=('p' in x);for(;b;){h1(y);break}return 1", "var x=class{m(){for(;;)break}},y=('m' in x.prototype);for(;b;){h1(y);break}return 1", "var x=`${()=>{for(;;)break}}`,y=(a in {p:1});for(;b;){h1(y);break}return 1",
		// undefined, NaN, Infinity as local names
		"function f(undefined){return undefined}return f(1)", "function f(undefined){return [undefined===void 0,typeof undefined]}return f(1)", "var f=(NaN,Infinity)=>[NaN,Infinity];return f(1,2)", "function f(undefined){if(a===undefined)return 1;return 2}return f(a)", "function f(undefined){return a==undefined}return f(0)", "function f(){var undefined=5;return [undefined,a===undefined]}return f()", "var f=function(undefined){return function(){return undefined}};return f(3)()",
		// __proto__ in object literals
		"var __proto__={q:1};var x={__proto__:__proto__};return [Object.keys(x),x.q]", "var __proto__={q:1};var x={__proto__};return [Object.keys(x),x.q]", "var p={q:1};var x={'__proto__':p};return [Object.keys(x),x.q]", "var p={q:1};var x={['__proto__']:p};return [Object.keys(x),x.q]", "var p={q:1};var x={__proto__:p,__proto__(){}};return 1",
		// declarators that read each other, next to a pattern
		"var p=1,c=p+1,[q]=[2];var z=3;return [p,c,q,z]", "var p=h1(1),c=p+1,{q}={q:2};var z=3;return [p,c,q,z]", "var z;var p=a,c=[p],[q]=c;return [p,c,q,z]", "var p=1,[q]=[p+1],c=q+1;var z=3;return [p,c,q,z]",
		// numeric literals as conditions
		"if(0xb0)h1(1);else h1(2)", "if(0xe0)h1(1);else h1(2)", "if(0xE)h1(1);else h1(2)", "return 0xb?1:2", "return !0xb", "return 0x0b&&a", "return 0xen?1:2", "return 0Xe||a", "while(0xb){h1(1);break}", "for(;0xe;){h1(1);break}", "do{h1(1)}while(!0xb)", "return 0b0?1:2", "return 0o0?1:2", "return 0x0?1:2", "return 0x0n?1:2", "return 0b1?1:2", "return 0o7?1:2", "return 0x00?1:2", "return 00?1:2", "return 08?1:2", "return 0.0e1?1:2", "return .0?1:2", "return 0.?1:2", "return 0_0?1:2", "return 0x0_0?1:2", "return 1_0?1:2", "return 0n?1:2", "return 0e5?1:2", "return 0E0?1:2", "return 0.1e-400?1:2", "return '0'?1:2", "return ' '?1:2", "return ``?1:2", "return `${''}`?1:2", "return -0?1:2", "return +0?1:2", "return ~0?1:2", "return [-0?1:2,!-0,!~-1]",
	}
	// a parenthesised sequence as the left operand of an expression statement: the parentheses may go only when the last
	// element binds at least as tightly as the operator that follows
	for _, in := range []string{"a&&h1(2)", "a||h1(2)", "a??h1(2)", "a?h1(2):h1(4)", "c=h1(2)", "a+h1(2)", "a==h1(2)", "a,h1(2)", "h1(2)", "!a", "a|h1(2)", "a<h1(2)", "a**h1(2)"} {
		for _, out := range []string{"&&h1(3)", "||h1(3)", "??h1(3)", "+h1(3)", "*h1(3)", "==h1(3)", "<h1(3)", " in{p:h1(3)}", " instanceof h1", "**h1(3)", "&h1(3)", "|h1(3)", "?h1(3):h1(5)", ",h1(3)", ".p=h1(3)", "[h1(3)]", "(h1(3))", "`${h1(3)}`", "?.p"} {
			forms = append(forms, "var c={};(h1(1),"+in+")"+out, "var c={};h1(0),(h1(1),"+in+")"+out+",h1(6)", "var c={};for((h1(1),"+in+")"+strings.Replace(out, " in{", " in {", 1)+";;)break")
		}
	}
	forms = append(forms,
		// classes as conditions: evaluating the class runs its extends clause, computed names, static initializers and blocks
		"if(class{static x=h1(1)}){}", "if(class{[h1(1)](){}}){}", "if(class extends(h1(1),Object){}){}", "if(class{static{h1(1)}}){}", "if(class{m(){}}){}", "if(class{static x=h1(1)});else h1(2)", "while(!class{static x=h1(1)});", "class{static x=h1(1)}?h1(2):h1(3)", "if(function(){h1(1)}){}", "if([h1(1)]){}", "if({p:h1(1)}){}",
		// lexical declarations with a pattern in a block of their own
		"{let [q]=b}return 1", "{let {p}=a}return 1", "{const {p=h1(1)}=a||{}}return 1", "{let [q=h1(1)]=[]}return 1", "{let q=b}return 1", "{const q=h1(1),r=h1(2)}return 1", "{let {p:{q}}=a}return 1", "{let [...q]=b}return 1", "if(a){let [q]=b}return 1", "for(;;){let {p}=a;break}return 1",
		// a tagged template is not allowed in an optional chain
		"return a==null?void 0:a`x`", "return a==null?void 0:a.p`x`", "return a===null||a===void 0?void 0:a`x`.q", "return a==null?void 0:a.p.q", "return a==null?void 0:a(b)`x`",
		// let and async as plain names at the start of a for-of head
		"var r=[];for((let)of[a,b])r.push(let);return r", "var r=[];for((async)of[a,b])r.push(async);return r", "var r=[];for((let)in{p:1})r.push(let);return r", "var async=[a];for(async of async);return async", "var async=a;return (async)=>1",
	)
	// expression statements that begin with a parenthesis for a reason, at the very start of a function body and of a script
	starts := []string{
		// string literals as statements: only the leading ones are directives, and none may become one
		`;"use strict";var q=function(){return this}();h1(typeof q)`, `{}"use strict";var q=function(){return this}();h1(typeof q)`, `if(0);"use strict";var q=function(){return this}();h1(typeof q)`, `{"use strict"}var q=function(){return this}();h1(typeof q)`, `;"use strict";for(;;){h1(typeof function(){return this}());break}`, `"use strict";var q=function(){return this}();h1(typeof q)`, `'use strict';h1(typeof function(){return this}())`, `"use\x20strict";var q=function(){return this}();h1(typeof q)`, `("use strict");var q=function(){return this}();h1(typeof q)`, `"a";"use strict";var q=function(){return this}();h1(typeof q)`, `"a";"use strict";h1(typeof function(){return this}())`, `h1(1);"use strict";var q=function(){return this}();h1(typeof q)`, `var q;"use strict";q=function(){return this}();h1(typeof q)`,
		"(class{}).x=5;h1(1)", "(class{static m(){h1(1)}}).m()", "(class{}),h1(2)", "(function(){}).x=5;h1(1)", "(function(){h1(1)})()", "({}).x=5;h1(1)", "({p(){h1(2)}}).p()", "(async function(){h1(1)})()", "(function*(){h1(1)})().next()", "(class{})?.x;h1(1)", "(class{static x=1}).x++;h1(1)", "(function(){})?.x;h1(1)", "({})?.x;h1(1)", "(class{})+h1(1)", "(function(){})+h1(1)", "({})+h1(1)", "(class{})`t`", "(function(){return h1})()`t`", "({a:h1(1)}).a", "({a:h1(1)})", "(class{static p=h1(1)})", "(function(){h1(1)})", "(class{}).name.length;h1(1)", "(class{})[h1(1)]", "(function(){})[h1(1)]", "({})[h1(1)]", "(class{}) instanceof h1;h1(1)", "(function(){}) in {};h1(1)", "(class{})?h1(1):h1(2)", "(function(){})?h1(1):h1(2)", "({})?h1(1):h1(2)", "(class{})&&h1(1)", "(function(){})&&h1(1)", "({})&&h1(1)", "(class{}).x??=h1(1)", "(class A{}).x=h1(1)", "(function f(){}).x=h1(1)", "(async()=>{})().then;h1(1)", "(()=>{}).x=h1(1)", "(()=>{})()", "(a=>a)(h1(1))", "(async a=>a)(h1(1))"}
	for _, p := range starts {
		if !emit(Program{fn(p), "fn", [][]string{{"1"}, {"obj"}}}) {
			return
		}
		if !emit(Program{fn("if(h0()){" + p + "}else " + p), "fn", [][]string{{"1"}, {"0"}}}) {
			return
		}
		if !emit(Program{strings.ReplaceAll(p, "h1", "h0"), "global", [][]string{{"1"}, {"obj"}}}) {
			return
		}
	}
	for _, p := range forms {
		for _, strict := range []string{"", `"use strict";`} {
			if strict != "" && (strings.Contains(p, "let[0]") || strings.Contains(p, "(let)") || strings.Contains(p, "00?") || strings.Contains(p, "08?")) {
				continue
			}
			if !emit(Program{fn(strict + pre + p), "fn", vec}) {
				return
			}
		}
	}
}
