package c01

import (
	"os"
	"strings"

	"verif/internal/core"
)

func families(c *core.Check) []family {
	fs := []family{
		{"F1-operator-nesting", genOperators},
		{"F2-conditional-rewrites", genConditionals},
		{"F4-flow-merging", genFlow},
	}
	fs = append(fs, extraFamilies...)
	if only := os.Getenv("VERIF_C01_FAMILY"); only != "" {
		var sel []family
		for _, f := range fs {
			if strings.Contains(f.name, only) {
				sel = append(sel, f)
			}
		}
		return sel
	}
	return fs
}

// ---------------- F1: operator nesting ----------------

var binOps = []string{"+", "-", "*", "/", "%", "**", "<<", ">>", ">>>", "<", ">", "<=", ">=", "==", "!=", "===", "!==", "&", "|", "^", "&&", "||", "??", "in", "instanceof", ","}
var assignOps = []string{"=", "+=", "-=", "*=", "/=", "%=", "**=", "<<=", ">>=", ">>>=", "&=", "|=", "^=", "&&=", "||=", "??="}
var unOps = []string{"-", "+", "!", "~", "typeof ", "void ", "delete ", "++", "--"}

func genOperators(c *core.Check, emit func(Program) bool) {
	vec3 := vectorsOver(alphaNum, 3)
	pre := "var a=h0(),b=h0(),c=h0();"
	ret := func(e string) Program { return Program{fn(pre + "return " + e), "fn", vec3} }
	// binary x binary, both nestings, explicit parentheses (so the input is always valid and unambiguous)
	for _, o1 := range binOps {
		for _, o2 := range binOps {
			for _, e := range []string{"(a " + o1 + " b) " + o2 + " c", "a " + o1 + " (b " + o2 + " c)"} {
				if !emit(ret("[" + e + ",a,b,c]")) {
					return
				}
			}
		}
	}
	// unary x binary
	for _, u := range unOps {
		for _, o := range binOps {
			var es []string
			switch u {
			case "++", "--":
				es = []string{"(" + u + "a) " + o + " b", "(a" + u + ") " + o + " b", "a " + o + " (" + u + "b)", "a " + o + " (b" + u + ")"}
			case "delete ":
				es = []string{"(delete a.p) " + o + " b", "a " + o + " (delete b.p)", "delete (a " + o + " b)"}
			default:
				es = []string{u + "(a " + o + " b)", "(" + u + "a) " + o + " b", "a " + o + " (" + u + "b)"}
			}
			for _, e := range es {
				if !emit(ret("[" + e + ",a,b]")) {
					return
				}
			}
		}
		for _, u2 := range unOps {
			if u == "++" || u == "--" || u2 == "++" || u2 == "--" || u == "delete " || u2 == "delete " {
				continue
			}
			if !emit(ret(u + "(" + u2 + "a)")) {
				return
			}
			if !emit(ret(u + u2 + "a")) {
				return
			}
		}
	}
	// assignment x binary / conditional / comma
	for _, as := range assignOps {
		for _, o := range binOps {
			for _, e := range []string{"a " + as + " (b " + o + " c)", "(a " + as + " b) " + o + " c", "c " + o + " (a " + as + " b)"} {
				if !emit(ret("[" + e + ",a,b,c]")) {
					return
				}
			}
		}
		for _, e := range []string{"a " + as + " (b?c:1)", "(a " + as + " b)?c:1", "b?(a " + as + " c):1", "b?1:(a " + as + " c)", "a " + as + " (b " + as + " c)", "a " + as + " (b,c)", "(a " + as + " b,c)"} {
			if !emit(ret("[" + e + ",a,b,c]")) {
				return
			}
		}
	}
	// conditional x binary, member/call/new/optional chaining/template/arrow/spread/yield/await
	for _, o := range binOps {
		for _, e := range []string{"(a " + o + " b)?c:1", "a?(b " + o + " c):1", "a?1:(b " + o + " c)", "(a?b:c) " + o + " 1", "1 " + o + " (a?b:c)"} {
			if !emit(ret("[" + e + ",a,b,c]")) {
				return
			}
		}
		for _, e := range []string{"(a " + o + " b).p", "(a " + o + " b)[c]", "(a " + o + " b)()", "new (a " + o + " b)", "new (a " + o + " b)()", "(a " + o + " b)?.p", "(a " + o + " b)`t`", "(()=>a " + o + " b)()", "(()=>(a " + o + " b))()", "h1(a " + o + " b,c)", "h1(...(a " + o + " [b]))", "[...(a " + o + " [b])]", "({p:a " + o + " b})", "({[a " + o + " b]:c})", "`x${a " + o + " b}y`", "(function*(){yield a " + o + " b})().next().value", "(function*(){return (yield a) " + o + " b})().next().value"} {
			if !emit(ret("[" + e + ",a,b,c]")) {
				return
			}
		}
	}
	for _, e := range []string{"(a?b:c)?1:2", "a?(b?1:2):3", "a?1:(b?2:3)", "(a,b)?1:2", "a?(b,c):1", "a?1:(b,c)", "(a?b:c).p", "(a?b:c)()", "new (a?b:c)", "(a,b).p", "(a,b)()", "new (a,b)", "new (a.p)", "new (a.p)()", "new (a())()", "new (a().p)", "(new a).p", "new a.p", "new a().p", "(new a)()", "new (new a)", "(a.p)()", "(a?.p)()", "a?.p()", "a?.[b]", "a?.(b)", "(a?.p).q", "a?.p.q", "(a??b)||c", "a??(b||c)", "(a||b)??c", "a||(b??c)", "(a&&b)??c", "a??(b&&c)",
		"(-a)**b", "-(a**b)", "(a**b)**c", "a**(b**c)", "(+a)**b", "(typeof a)**b", "(await_=a)", "a-(-b)", "a+(+b)", "a-(--b)", "a+(++b)", "(a--)-b", "(a++)+b", "a- -b", "a+ +b", "a<(!--b)", "(a--)>b", "a/(/b/.source)",
		"(function(){return a})()", "(function(){return a}).call(b)", "(()=>{})()", "(()=>({}))()", "(a=>a)(b)", "((a,b)=>a)(b,c)", "(async()=>a)", "(a=b)=>a", "typeof (()=>a)", "(()=>a)?b:c", "(()=>a)||b",
		"({}).p", "({p:a}).p", "({}+a)", "(class{}).name", "(class{static p=a}).p", "({a,b})", "({a}=({a:b}),a)", "([a,b]=[b,a],a)", "(a in b)", "(a instanceof b)",
		// void of expressions with and without effects: nothing that calls, throws or assigns may vanish
		"void (h1(1)+1)", "void (1+h1(2))", "void (h1(1),2)", "void (a in b)", "void (a instanceof b)", "void [h1(1)]", "void {p:h1(1)}", "void (a?h1(1):2)", "void `${h1(1)}`", "void h1`x`", "void -h1(1)", "void (h1(1)||2)", "void (a&&h1(1))", "void (a??h1(1))",
		"void new h1", "void a.p", "void a[h1(1)]", "void typeof h1(1)", "void (h1(1)<h1(2))", "void (a=b)", "void (a+=1)", "void a++", "void (1+2)", "void (a+b)", "void !h1(1)", "void (h1(1)*h1(2)+h1(3))", "void (()=>h1(1))", "void (()=>h1(1))()", "void 0``", "void (a,b)",
		"a?.p?.q", "a?.p?.[b]?.(c)", "a!=null?a.p:void 0", "a==null?void 0:a.p", "a!==null&&a!==void 0?a.p:void 0", "a&&a.p", "a&&a.p&&a.p.q"} {
		if !emit(ret("[" + e + ",a,b,c]")) {
			return
		}
	}
	// `in` inside for-init
	for _, e := range []string{"for(var i=(a in b);c;){h1(i);break}", "for(var i=(a in b)?1:2;c;){h1(i);break}", "for(i=(a in b);c;){h1(i);break}", "for(var i=a||(b in c);;){h1(i);break}", "for(var i=[a in b];;){h1(i);break}", "for(var i=h1(a in b);;){break}", "for(var i=()=>a in b;;){h1(i());break}", "for(let i=(a in b),j;c;){h1(i);break}", "for((a in b)?1:2;c;){h1(1);break}", "for(var i in (a in b)?{p:1}:{q:1})h1(i)", "for(var i of (a,[b]))h1(i)", "for(var i of [(a,b)])h1(i)",
		// `in` below an arrow body, a function, a method, a template or a member bracket inside a for-initializer (also when the
		// initializer is created by merging a preceding declaration into the loop)
		"for(var i=()=>(a in b);;){h1(i());break}", "var f=k=>k in b;for(var i=0;i<1;i++)h1(f(a))", "var f=(k=>k in b),g=1;for(;g;g--)h1(f(a))", "for(var i=function(){return a in b};;){h1(i());break}", "for(var i={m(){return a in b}};;){h1(i.m());break}",
		"for(var i=`${a in b}`;;){h1(i);break}", "for(var i=c[a in b];;){h1(i);break}", "for(var i=((a in b)in c);;){h1(i);break}", "for(var i=(x=>(x in b))(a);;){h1(i);break}", "var f=async k=>k in b;for(var i=0;i<1;i++)h1(typeof f)", "for(var i=k=>{return k in b};;){h1(i(a));break}",
		"for(var i=a?(b in c):0;;){h1(i);break}", "for(var i=!(a in b);;){h1(i);break}", "for(var i=(a in b)+1;;){h1(i);break}", "var g=(a in b);for(;c;){h1(g);break}", "var g=(a in b),k;for(k=0;k<1;k++)h1(g)"} {
		if !emit(Program{fn(pre + e), "fn", vectorsOver([]string{"0", "1", "obj", "a"}, 3)}) {
			return
		}
	}
}

// ---------------- F2: conditional / boolean / nullish rewrites ----------------

var atomsFull = []string{"a", "b", "!a", "!b", "a==null", "a!=null", "a===null||a===undefined", "a!==null&&a!==undefined", "a===undefined", "a===void 0", "null", "undefined", "void 0", "true", "false", "!0", "!1", "0", "1", `""`, `"s"`,
	"a.p", "h1(1)", "h1(a)", "a&&b", "a||b", "a??b", "NaN", "0.0", "1e-400", "0x0", "0n", "[]", "a==b", "a===b", "a<b", "!(a<b)", "typeof a", "-a", "(a=b)", "(a,b)", "Infinity", "-0", "a?.p", "a==0", "!!a", "!(a&&b)", "!(a||b)", "!a&&!b", "!a||!b",
	// calls of one function with different argument shapes: merging c?f(x):f(y) into f(c?x:y) is right for one plain argument only
	"h1(...[a,b])", "h1(b)", "h1(a,b)", "h1()", "h1(...b)", "a.m(b)", "a.m(...[b])"}
var atomsQuick = []string{"a", "b", "!a", "a==null", "null", "void 0", "!1", `""`, "a.p", "h1(a)", "a&&b", "1e-400", "h1(...[a,b])", "h1(b)", "h1()"}

func genConditionals(c *core.Check, emit func(Program) bool) {
	atoms := atomsQuick
	vec := vectorsOver(alphaQuick, 2)
	if c.Thorough() {
		atoms = atomsFull
		vec = vectorsOver([]string{"u", "0", "1", "e", "a", "n", "NaN", "obj", "f"}, 2)
	}
	pre := "var a=h0(),b=h0();"
	templates := []string{
		"return C?X:Y", "if(C)return X;return Y", "if(C)return X;else return Y", "if(C){h2(X)}else{h2(Y)}", "if(C)h2(X)", "if(!(C))h2(X);else h3(Y)", "if(C);else h2(X)",
		"return !(C?X:Y)", "return (C?X:Y)?1:2", "return C&&X", "return C||X", "return C??X", "return !(C&&X)", "return !(C||X)", "if(C&&X)h2(Y)", "if(C||X)h2(Y)",
		"if(C)if(X)h2(Y)", "if(C){if(X)h2(Y)}else h3(1)", "if(C)h2(X);else if(Y)h3(1)", "return C?X:C", "return C?C:X", "return C?!0:X", "return C?X:!1", "return C?!1:!0", "return C?X:X",
		"var d=C?X:Y;return d", "h2(C?X:Y,C)", "return C?(h2(1),X):(h2(1),Y)", "return C?h2(X):h2(Y)", "return C?h2(X,1):h2(Y,1)", "while(C){h2(X);break}", "for(;C;){h2(X);break}", "do{h2(X)}while(0&&(C))", "return typeof(C?X:Y)", "return [C?X:Y,a,b]",
		"if(C){return X}h2(Y)", "if(C){h2(X);return}h3(Y)", "return (C,X)?Y:1", "switch(C){case X:h2(1);break;default:h2(2)}", "if(C)throw X;return Y", "if(C){throw X}else{return Y}",
	}
	for _, t := range templates {
		needY := strings.Contains(t, "Y")
		for _, cnd := range atoms {
			for _, x := range atoms {
				ys := atoms
				if !needY {
					ys = atoms[:1]
				}
				for _, y := range ys {
					body := strings.NewReplacer("C", cnd, "X", x, "Y", y).Replace(t)
					if !emit(Program{fn(pre + body), "fn", vec}) {
						return
					}
				}
			}
		}
	}
	// nullish / optional-chaining shapes with member chains (toNullishExpr, optimizeCondExpr)
	for _, e := range []string{"a==null?b:a", "a!=null?a:b", "a===null||a===undefined?b:a", "a!==null&&a!==undefined?a:b", "a===undefined||a===null?b:a", "a==null?void 0:a.p", "a!=null?a.p:void 0", "a==null?undefined:a.p", "a==null?null:a.p",
		"a===null||a===void 0?void 0:a.p", "a!==void 0&&a!==null?a.p:void 0", "a&&a.p", "a&&a.p&&a.p.q", "a==null?b:a.p", "a.p==null?b:a.p", "a.p!=null?a.p:b", "h1()==null?b:h1()", "a==null?void 0:a[b]", "a==null?void 0:a(b)", "a==null?void 0:a.p(b)",
		"a===null?b:a", "a===undefined?b:a", "a==undefined?b:a", "null==a?b:a", "void 0===a||null===a?b:a", "a?a:b", "a?b:a", "!a?b:a", "a?a.p:b", "a!=null&&a.p", "a==null||a.p", "typeof a==='undefined'?b:a", "a===null||a===undefined||b", "a==null?a:b"} {
		if !emit(Program{fn(pre + "return " + e), "fn", vectorsOver([]string{"u", "n", "0", "e", "obj", "fun", "1", "NaN", "f"}, 2)}) {
			return
		}
	}
}

// ---------------- F4: flow merging ----------------

func genFlow(c *core.Check, emit func(Program) bool) {
	stmts := []string{"h1(1)", "a=1", "return", "return a", "return h1(2)", "throw a", "throw h1(3)", "return undefined", "return void 0", "b=2", "var d=h1(4)", "{}", "", "h2(a,b)", "return a,b", "a=h1(5),b=a", "if(b)return 7", "if(b)h1(8)", "return b?1:2"}
	if !c.Thorough() {
		stmts = stmts[:11]
	}
	loopStmts := []string{"h1(1)", "break", "continue", "return a", "a=h1(2)", "if(b)break", "if(b)continue", "throw 1", "", "b=!b"}
	vec := vectorsOver([]string{"0", "1", "u", "a"}, 2)
	pre := "var a=h0(),b=h0();"
	structures := []string{
		"S1;S2;S3", "if(a)S1;else S2;S3", "if(a)S1;S2;S3", "if(a){S1;S2}S3", "if(a){S1}else{S2;S3}", "if(a){S1;S2}else{S3}", "if(a){if(b)S1;else S2}S3", "if(a){if(b)S1}else S2;S3", "S1;if(a)S2;S3",
		"if(a)S1;else if(b)S2;else S3", "if(a){S1}if(b){S2}S3", "try{S1}catch(e){S2}S3", "try{S1}finally{S2}S3", "try{S1;S2}catch(e){h3(e)}finally{S3}", "try{S1}catch{S2}S3", "switch(a){case 1:S1;case 0:S2;break;default:S3}", "switch(a){case 1:{S1;break}default:S2}S3",
		"l:{S1;if(a)break l;S2}S3", "(function(){S1;S2})();S3", "h3((()=>{S1;S2})());S3", "S1;S2;if(a)S3", "if(a)S1;if(b)S2;S3", "{S1;S2}S3", "if(!a)S1;else S2;S3", "if(a&&b)S1;else S2;S3",
	}
	fill := func(t string, s1, s2, s3 string) string {
		return strings.NewReplacer("S1", s1, "S2", s2, "S3", s3).Replace(t)
	}
	for _, t := range structures {
		for _, s1 := range stmts {
			for _, s2 := range stmts {
				for _, s3 := range stmts {
					if !emit(Program{fn(pre + fill(t, s1, s2, s3)), "fn", vec}) {
						return
					}
				}
			}
		}
	}
	// labelled statements as branches: a break to the branch's own label only leaves the label, not the list around it
	labelStmts := []string{"h1(1)", "break l", "if(b)break l", "return a", "a=h1(2)", "", "throw 1", "break m", "if(b)break m"}
	labelled := []string{
		"m:{if(a)l:{S1;S2}else S3;h1(9)}h1(8)", "m:{if(!a)S3;else l:{S1;S2}h1(9)}h1(8)", "m:{if(a){l:{S1;S2}}else{S3}h1(9)}h1(8)", "m:{l:if(a){S1;S2}else S3;h1(9)}h1(8)", "m:{if(a)l:{S1;S2}h1(9);S3}h1(8)",
		"m:{if(a)l:{S1}else l:{S2}S3;h1(9)}h1(8)", "m:for(;;){if(a)l:{S1;S2}else S3;h1(9);break}h1(8)", "m:{if(a)l:for(;;){S1;S2}else S3;h1(9)}h1(8)", "m:{if(a)l:{S1;S2}else{let q=h1(7);S3}h1(9)}h1(8)", "m:{l:{if(a){S1;S2}else S3}h1(9)}h1(8)",
	}
	for _, t := range labelled {
		for _, s1 := range labelStmts {
			for _, s2 := range labelStmts {
				for _, s3 := range labelStmts {
					if !emit(Program{fn(pre + fill(t, s1, s2, s3)), "fn", vectorsOver([]string{"0", "1"}, 2)}) {
						return
					}
				}
			}
		}
	}
	loops := []string{
		"for(var i=0;i<2;i++){S1;S2}S3", "while(h2()){S1;S2}S3", "do{S1;S2}while(h2());S3", "for(var k in {p:1,q:2}){S1;S2}S3", "for(var k of [1,2]){S1;S2}S3", "for(;;){S1;S2;break}S3", "o:for(var i=0;i<2;i++){for(;;){S1;S2;break o}}S3",
		"for(var i=0;i<2;i++){if(a){S1}else{S2}S3}", "for(var i=0;i<2;i++){if(a){S1;S2}S3}", "while(h2()){if(a)S1;else S2;S3}", "for(var i=0;i<2;i++){switch(a){case 1:S1;S2;default:S3}}", "for(var i=0;i<2;i++){try{S1;S2}finally{S3}}",
	}
	for _, t := range loops {
		for _, s1 := range loopStmts {
			for _, s2 := range loopStmts {
				for _, s3 := range loopStmts {
					if strings.HasPrefix(t, "for(var i=0;i<2;i++){") == false && (s3 == "break" || s3 == "continue" || s3 == "if(b)break" || s3 == "if(b)continue") && strings.HasSuffix(t, "}S3") {
						continue
					}
					if strings.HasSuffix(t, "}S3") && (s3 == "break" || s3 == "continue" || s3 == "if(b)break" || s3 == "if(b)continue") {
						continue
					}
					if !emit(Program{fn(pre + fill(t, s1, s2, s3)), "fn", vectorsOver([]string{"0", "1"}, 4)}) {
						return
					}
				}
			}
		}
	}
}
