// Package c01: JS minification preserves program behaviour.
// Bounded exhaustive program enumeration; V8 executes original and minified text under
// every input vector; the observation (host calls with arguments, completion, globals)
// must be equal.
package c01

import (
	"fmt"
	"sort"
	"strings"
	"sync"

	minify "github.com/tdewolff/minify/v2"
	"github.com/tdewolff/minify/v2/js"
	"verif/internal/core"
	"verif/internal/jsoracle"
)

// Program is one generated case.
type Program struct {
	Text    string
	Mode    string // "fn" or "global"
	Vectors [][]string
}

type config struct {
	keep    bool
	version int
}

func (c config) String() string { return fmt.Sprintf("KeepVarNames=%v Version=%d", c.keep, c.version) }

var configs = []config{{false, 0}, {true, 0}, {false, 2015}, {false, 2019}, {false, 2020}, {false, 2021}, {false, 2022}, {true, 5}}

// Minify returns the distinct outputs with the configurations that produce each.
func Minify(text string) (variants []string, cfgs [][]config, rejected string, panicked string) {
	seen := map[string]int{}
	for _, cf := range configs {
		m := minify.New()
		m.Add("application/javascript", &js.Minifier{KeepVarNames: cf.keep, Version: cf.version})
		var out []byte
		var err error
		if p := core.Recover(func() { out, err = m.Bytes("application/javascript", []byte(text)) }); p != "" {
			return nil, nil, "", p
		}
		if err != nil {
			return nil, nil, err.Error(), ""
		}
		s := string(out)
		if i, ok := seen[s]; ok {
			cfgs[i] = append(cfgs[i], cf)
			continue
		}
		seen[s] = len(variants)
		variants = append(variants, s)
		cfgs = append(cfgs, []config{cf})
	}
	return
}

func vectorsOver(alpha []string, n int) [][]string {
	out := [][]string{{}}
	for i := 0; i < n; i++ {
		var next [][]string
		for _, v := range out {
			for _, a := range alpha {
				next = append(next, append(append([]string{}, v...), a))
			}
		}
		out = next
	}
	return out
}

var alphaQuick = []string{"u", "0", "1", "e", "a", "n"}
var alphaFull = []string{"u", "0", "1", "e", "a", "n", "NaN", "-0", "t", "f", "obj", "arr", "big", "-1"}
var alphaNum = []string{"0", "1", "two", "a", "-1"}

func fn(body string) string { return "function F(h0,h1,h2,h3){" + body + "}" }

type family struct {
	name string
	gen  func(c *core.Check, emit func(Program) bool)
}

type runner struct {
	c       *core.Check
	pool    *jsoracle.Pool
	skipped sync.Map
	mu      sync.Mutex
	skips   map[string]uint64
}

func (r *runner) skip(fam, why string) {
	r.mu.Lock()
	r.skips[fam+": "+why]++
	r.mu.Unlock()
}

// checkProgram minifies and executes one program; failures are recorded on the check.
func (r *runner) checkProgram(fam string, idx uint64, p Program, w *jsoracle.Worker) {
	c := r.c
	variants, cfgs, rejected, panicked := Minify(p.Text)
	if panicked != "" {
		c.Fail(core.Failure{Family: fam, Input: p.Text, Kind: "panic", What: panicked, Order: idx})
		return
	}
	if rejected != "" {
		r.skip(fam, "rejected by the minifier")
		return
	}
	rep, err := w.Run(jsoracle.RunReq{Mode: p.Mode, Orig: p.Text, Variants: variants, Vectors: p.Vectors})
	if err != nil {
		c.Fail(core.Failure{Family: fam, Input: p.Text, Kind: "internal-oracle-error", What: err.Error(), Order: idx})
		return
	}
	if rep.Status == "ok" && len(rep.Mismatches) > 0 {
		// confirm in fresh contexts, one vector at a time (a reused vm context can misbehave: V8 in
		// node 20 stops throwing on strict-mode stores to undeclared globals after many runs)
		var vs [][]string
		seenV := map[int]bool{}
		for _, mm := range rep.Mismatches {
			if mm.Vector < len(p.Vectors) && !seenV[mm.Vector] {
				seenV[mm.Vector] = true
				vs = append(vs, p.Vectors[mm.Vector])
			}
		}
		if len(vs) == 0 {
			vs = [][]string{{}}
		}
		rep2, err2 := w.Run(jsoracle.RunReq{Mode: p.Mode, Orig: p.Text, Variants: variants, Vectors: vs, Fresh: true})
		if err2 == nil {
			r.mu.Lock()
			if len(rep2.Mismatches) == 0 && rep2.Status == "ok" {
				r.skips[fam+": mismatch not confirmed in a fresh context (engine quirk)"]++
			}
			r.mu.Unlock()
			rep = rep2
			p.Vectors = vs
		}
	}
	if rep.Status == "skip" {
		why := rep.Why
		if i := strings.IndexByte(why, ':'); i > 0 {
			why = why[:i]
		}
		r.skip(fam, why)
		return
	}
	n := uint64(len(variants) * len(p.Vectors))
	c.Count(n)
	nt := uint64(0)
	for _, v := range variants {
		if compact(v) != compact(p.Text) {
			nt = 1
		}
	}
	if nt == 1 {
		c.Nontrivial(p.Text)
	}
	c.AddFamily(fam, 1, nt)
	if idx%9973 == 7 {
		c.Sample(map[string]any{"family": fam, "program": p.Text, "minified": variants[0], "vectors": len(p.Vectors)})
	}
	seen := map[int]bool{}
	for _, mm := range rep.Mismatches {
		if seen[mm.Variant] {
			continue
		}
		seen[mm.Variant] = true
		var cs []string
		for _, cf := range cfgs[mm.Variant] {
			cs = append(cs, cf.String())
		}
		kind := "behaviour-differs"
		if op, gp := strings.Split(mm.Orig, " | "), strings.Split(mm.Got, " | "); len(op) == 3 && len(gp) == 3 && op[0] == gp[0] && op[2] == gp[2] && op[1] == "return u" && strings.HasPrefix(gp[1], "return ") {
			kind = "returns-value-instead-of-undefined"
		}
		if mm.Syntax {
			kind = "output-does-not-compile"
		} else if strings.HasPrefix(mm.Got, "TIMEOUT") {
			kind = "output-does-not-terminate"
		}
		vec := ""
		if mm.Vector < len(p.Vectors) {
			vec = strings.Join(p.Vectors[mm.Vector], ",")
		}
		c.Fail(core.Failure{Family: fam, Input: p.Text, Config: strings.Join(cs, "; "), Kind: kind, Order: idx,
			What:  fmt.Sprintf("minified %q under inputs [%s]: original observed %q, minified observed %q", variants[mm.Variant], vec, mm.Orig, mm.Got),
			Extra: map[string]any{"mode": p.Mode, "vectors": p.Vectors, "minified": variants[mm.Variant]}})
	}
}

// compact strips whitespace (a rough "did anything but whitespace change" test).
func compact(s string) string {
	return strings.Map(func(r rune) rune {
		if r == ' ' || r == '\n' || r == '\t' || r == ';' {
			return -1
		}
		return r
	}, s)
}

// Run executes C01.
func Run(c *core.Check) {
	c.Rule = "programs are enumerated exhaustively per family (operator nesting with explicit parentheses over the complete operator set; conditional/boolean/nullish rewrites over a literal and atom alphabet; statement lists with every combination of return/throw/break/continue/expression/declaration in if/else, loops, switch, try; declarations and hoisting; ASI-sensitive adjacency; string/regexp/number literal forms; functions, classes, destructuring, generators, optional chaining), wrapped as function F(h0..h3){…} (or run at top level), minified under 8 configurations (KeepVarNames x Version; outputs deduplicated) and executed by V8 under every input vector of the family (values returned by the host functions); evaluations = program x variant x vector executions; non-trivial = some variant differs from the input beyond whitespace"
	c.Assumptions = []string{"V8 (node 20) as execution engine", "observation = host calls with structurally encoded arguments, completion (returned/thrown value, error class only), final values of created globals and of g0..g3", "programs whose original does not compile or hits TDZ are out of domain (counted as skipped)"}
	pool, err := jsoracle.NewPool(core.Workers())
	if err != nil {
		fmt.Println("BUILD-ERROR: cannot start node workers:", err)
		c.Exhaustive = false
		return
	}
	defer pool.Close()
	r := &runner{c: c, pool: pool, skips: map[string]uint64{}}
	for _, f := range families(c) {
		fam := f
		c.Family(fam.name)
		type job struct {
			idx uint64
			p   Program
		}
		ch := make(chan job, 256)
		var wg sync.WaitGroup
		for i := 0; i < core.Workers(); i++ {
			wg.Add(1)
			go func() {
				defer wg.Done()
				w := pool.Get()
				defer pool.Put(w)
				for j := range ch {
					r.checkProgram(fam.name, j.idx, j.p, w)
				}
			}()
		}
		var idx uint64
		stopped := false
		fam.gen(c, func(p Program) bool {
			if idx%512 == 0 && c.Expired() {
				stopped = true
			}
			if stopped {
				return false
			}
			ch <- job{idx, p}
			idx++
			return true
		})
		close(ch)
		wg.Wait()
		st := c.Family(fam.name)
		st.Bound = fmt.Sprintf("%d programs generated", idx)
		if stopped {
			st.Complete = false
			c.Exhaustive = false
		}
	}
	var sk []string
	for k, v := range r.skips {
		sk = append(sk, fmt.Sprintf("%s: %d", k, v))
	}
	sort.Strings(sk)
	c.Extra["out_of_domain_programs"] = sk
}

// Replay re-executes one failure.
func Replay(f core.Failure) (string, string) {
	pool, err := jsoracle.NewPool(1)
	if err != nil {
		return "replay-error", err.Error()
	}
	defer pool.Close()
	mode := "fn"
	var vectors [][]string
	if ex, ok := f.Extra.(map[string]any); ok {
		if m, ok := ex["mode"].(string); ok {
			mode = m
		}
		if vs, ok := ex["vectors"].([][]string); ok { // in-process (the replay file holds []any)
			vectors = vs
		} else if vs, ok := ex["vectors"].([]any); ok {
			for _, v := range vs {
				var vec []string
				for _, x := range v.([]any) {
					vec = append(vec, x.(string))
				}
				vectors = append(vectors, vec)
			}
		}
	}
	variants, _, rejected, panicked := Minify(f.Input)
	if panicked != "" {
		return "panic", panicked
	}
	if rejected != "" {
		return "", ""
	}
	w := pool.Get()
	rep, err := w.Run(jsoracle.RunReq{Mode: mode, Orig: f.Input, Variants: variants, Vectors: vectors})
	if err != nil {
		return "replay-error", err.Error()
	}
	for _, mm := range rep.Mismatches {
		return "behaviour-differs", fmt.Sprintf("minified %q: original %q, minified %q", variants[mm.Variant], mm.Orig, mm.Got)
	}
	return "", ""
}

// Programs streams the text of every program of every family at the tier of c (each prefixed
// with the family name and a NUL), for checks that reuse the grammar without executing anything.
func Programs(c *core.Check, emit func(s string) bool) {
	for _, f := range families(c) {
		stop := false
		f.gen(c, func(p Program) bool {
			if !emit(f.name + "\x00" + p.Text) {
				stop = true
				return false
			}
			return true
		})
		if stop {
			return
		}
	}
}
