package c01

import (
	"fmt"
	"strings"

	"verif/internal/core"
)

func init() {
	extraFamilies = []family{
		{"F3-statement-lists", genStatements},
		{"F5-declarations", genDeclarations},
		{"F5b-long-declaration-lists", genLongDeclarations},
		{"F6-adjacency-asi", genAdjacency},
		{"F7-literals", genLiterals},
		{"F8-functions-classes-builtins", genFunctions},
		{"F9-top-level-scripts", genTopLevel},
	}
}

var extraFamilies []family

// ---------------- F3: statement lists in contexts ----------------

var stmtForms = []string{
	"h1(a)", "var x=h1(1)", "let y=a", "const z=b", "var {p,q=2}=a||{}", "var [m,n]=[a,b]", "if(a)h1(2)", "if(a)h1(3);else h1(4)", "return a", "return", "throw b",
	"for(var i=0;i<2;i++)h1(i)", "for(var k in {u:1})h1(k)", "for(const v of [a,b])h1(v)", "while(h2())h1(5)", "do h1(6);while(h2())", "switch(a){case 1:h1(7);case 2:h1(8);break;default:h1(9)}",
	"try{h1(a.p)}catch(e){h1(e instanceof TypeError)}finally{h1(10)}", "try{h1(11)}catch{h1(12)}", "{h1(13);let a=1;h1(a)}", "l:for(;;){h1(14);break l}", "l2:{h1(15);if(a)break l2;h1(16)}",
	"if(h1(21)+1){}", "if(h1(22)<h1(23));", "if(a in b){}", "var {dd=h1(24)+1}={}",
	"function g(){return h1(17)}h1(g())", "class C{m(){return h1(18)}}h1(new C().m())", ";", "a=b", "b=h1(19)", "w=a?1:2", "h1(typeof w)", "if(a){h1(20)}else{}", "if(a);else h1(21)", "for(;h2();)h1(22)", "var x", "h1(x)",
}

var contexts = []string{"BODY", "{BODY}", "for(var j=0;j<1;j++){BODY}", "switch(1){case 1:BODY}", "return (()=>{BODY})()", "return ({m(){BODY}}).m()", "if(b){BODY}h1(99)", "try{BODY}finally{h1(98)}"}

func genStatements(c *core.Check, emit func(Program) bool) {
	pre := "var a=h0(),b=h0();"
	vec := vectorsOver([]string{"0", "1", "obj"}, 4)
	forms := stmtForms
	seqLen := 2
	if c.Thorough() {
		seqLen = 3
	}
	seq := core.Sequences{K: len(forms), MaxLen: seqLen}
	n := seq.Count()
	for i := uint64(1); i < n; i++ {
		var parts []string
		for _, k := range seq.At(i, nil) {
			parts = append(parts, forms[k])
		}
		body := strings.Join(parts, ";")
		for ci, ctx := range contexts {
			if len(parts) == 3 && ci >= 4 {
				continue // triples only in the four basic contexts
			}
			for _, strict := range []string{"", `"use strict";`} {
				if strict != "" && strings.Contains(body, "w=a") {
					continue // a strict-mode store to an undeclared global: V8's vm contexts are unreliable there
				}
				if !emit(Program{fn(strict + pre + strings.Replace(ctx, "BODY", body, 1)), "fn", vec}) {
					return
				}
			}
		}
	}
	// with (sloppy only)
	for _, f := range forms {
		if !emit(Program{fn(pre + "with(a||{}){h1(typeof p);" + f + "}"), "fn", vec}) {
			return
		}
	}
}

// ---------------- F5: declarations, hoisting, merging ----------------

func genDeclarations(c *core.Check, emit func(Program) bool) {
	forms := []string{"var x=h1(1)", "var x", "x=h1(2)", "h1(x)", "var y=x", "let z=x;h1(z)", "{var x=5}", "{let x=6;h1(x)}", "for(var x=0;x<1;x++);", "for(var i=0;i<2;i++){var x=i}", "function x(){}", "var f=function(){return x};h1(f())", "h1(typeof x)",
		"var [x,y]=[1,2]", "var {x}=({x:7})", "if(a)var x=8", "for(var x in {k:1});", "for(let x of [9])h1(x)", "h1(x,y)", "var x=1,y=x+1", "y=3", "var y", "var fs=[];for(let i=0;i<2;i++)fs.push(()=>i);h1(fs[0](),fs[1]())", "var gs=[];for(var i=0;i<2;i++)gs.push(()=>i);h1(gs[0](),gs[1]())",
		"x=y=h1(4)", "var x=y=h1(5)", "const k=1;h1(k)", "var {x=1,...r}=a||{};h1(r)", "var [x=1,...s]=a||[];h1(s)", "try{throw 1}catch(x){h1(x)}", "try{throw 1}catch(x){var x=2}", "switch(a){case 0:var x=3}",
		// initializers with effects next to destructuring declarators: the calls keep their order whatever is moved or merged
		"var p=h1(6),[q]=[h1(7)]", "var p2=h1(8),{r2}={r2:h1(9)}", "var u=h1(10),[v]=h1(11)||[],w=h1(12)"}
	n := c.Pick(2, 3)
	seq := core.Sequences{K: len(forms), MaxLen: n}
	vec := vectorsOver([]string{"0", "1", "obj"}, 1)
	for i := uint64(1); i < seq.Count(); i++ {
		var parts []string
		for _, k := range seq.At(i, nil) {
			parts = append(parts, forms[k])
		}
		body := strings.Join(parts, ";")
		if !emit(Program{fn("var a=h0();" + body + ";h1(typeof x,typeof y)"), "fn", vec}) {
			return
		}
		if !emit(Program{fn("var a=h0();(function(){" + body + "})();h1(typeof x,typeof y)"), "fn", vec}) {
			return
		}
	}
}

// long declaration lists: n separate var statements whose initialisers call the host in order and
// read the previous variable, with uninitialised vars before, between and after them. Merging the
// statements must keep the initialisers in source order for every n (list-length thresholds of
// sorting or copying code are inside the range).
func genLongDeclarations(c *core.Check, emit func(Program) bool) {
	for n := 1; n <= c.Pick(24, 40); n++ {
		for pos := 0; pos < 4; pos++ { // where the uninitialised declarations sit: nowhere, first, middle, last
			for _, kw := range []string{"var", "let"} {
				var b strings.Builder
				b.WriteString("var a=h0();")
				if pos == 1 {
					b.WriteString(kw + " u,w;")
				}
				for i := 0; i < n; i++ {
					if pos == 2 && i == n/2 {
						b.WriteString(kw + " u;" + kw + " w;")
					}
					prev := "a"
					if i > 0 {
						prev = fmt.Sprintf("v%d", i-1)
					}
					fmt.Fprintf(&b, "%s v%d=h1(%d,%s);", kw, i, i, prev)
				}
				if pos == 3 {
					b.WriteString(kw + " u;" + kw + " w;")
				}
				if pos == 0 {
					b.WriteString(kw + " u=0,w=0;")
				}
				// u is assigned under a condition only, so its declarator stays without an initialiser
				fmt.Fprintf(&b, "if(a===1){u=v%d}for(w in {k:1});return [u,w]", n-1)
				if !emit(Program{fn(b.String()), "fn", [][]string{{"1"}, {"obj"}}}) {
					return
				}
			}
		}
	}
}

// ---------------- F6: token adjacency and ASI ----------------

func genAdjacency(c *core.Check, emit func(Program) bool) {
	vec := vectorsOver([]string{"1", "two", "a", "fun"}, 2)
	pre := "var a=h0(),b=h0(),r;"
	ends := []string{"a", "a()", "[a]", "(a)", "1", ".5", "1.", "1.5", `"s"`, "`t`", "/r/", "/r/g", "a++", "a--", "r=a", "{}", "function(){}", "()=>{}", "a.p", "a?.p", "this", "null", "1e3", "0x1", "1n", "typeof a", "a in{}", "b--", "+a", "-a", "!a", "void 0", "{p:a}", "class{}", "new a", "a``"}
	begins := []string{"(b)", "[b]", "+b", "-b", "/b/g", "`u`", "++b", "--b", "b", "!b", ".5", "1", `"s"`, "in{}", "instanceof b", "*b", "?.p", ".p", "=>b", "{}", "function g(){}", "typeof b", "b++", "--b>0", "-- >b", "->b", "<!--b", "-->b", "/b", "/=b", "?b:1", ",b", "=b", "&&b", "**b", "``"}
	seps := []string{";", "\n", " ", ""}
	for _, e := range ends {
		for _, b := range begins {
			for _, s := range seps {
				if !emit(Program{fn(pre + "r=" + e + s + b + ";h1(r,a,b)"), "fn", vec}) {
					return
				}
				if !emit(Program{fn(pre + "h1(a,b);" + e + s + b + "\nh1(a,b)"), "fn", vec}) {
					return
				}
			}
		}
	}
	// operator and keyword adjacency the printer special-cases
	exprs := []string{"a+ +b", "a+ ++b", "a- -b", "a- --b", "a++ +b", "a-- -b", "a+ + +b", "a- - -b", "a-- >b", "a< !--b", "a<! --b", "!--a>b", "a+-b", "a-+b", "a/ /b/.test(a)", "a/ /b/g.lastIndex", "a++ / 2", "typeof a", "typeof(a)", "typeof[a]", "typeof-a", "typeof!a", "typeof`t`", `typeof"s"`, "typeof/r/", "void a", "void(a)", "delete a.p", "delete a[b]", "a in b", "a in[b]", `"p"in a`, "1 in a", "a instanceof Object", "a instanceof(b)", "new a", "new a()", "new a(b)", "new(a)(b)", "new a.p", "new(a.p)", "new a[b]", "new new a",
		"1..toString()", "1.0.toString()", "1 .toString()", "1.5.toString()", ".5.toString()", "1e3.toString()", "0x1.toString()", "1n.toString()", "1.toFixed?.(1)", "10..toString(2)", "a?.5:1", "a?.p", "a?.[0]", "a ?.5:b", "a? .5:b", "a?-.5:b", "1-.5", "1- .5", "1+.5", "1+ +.5", "a--.5", "5..p", "5.0.p", "5 .p", "5['p']", "a.in", "a.typeof", "a.if", "a.class", "({in:1}).in", "({if:a,do:b})", "a.void.p", "a.new", "a.delete",
		"(function(){return a})()", "(function(){return(a)})()", "(function(){return[a]})()", "(function(){return-a})()", "(function(){return!a})()", "(function(){return`t`})()", `(function(){return"s"})()`, "(function(){return/r/})()", "(function(){return typeof a})()", "(function(){return void 0})()", "(function(){return{p:a}})()", "(function(){return\na})()", "(function(){return/**/a})()", "(function*(){yield a})().next().value", "(function*(){yield[a]})().next().value", "(function*(){yield-a})().next().value", "(function*(){yield*[a]})().next().value", "(function*(){yield\na})().next().value",
		"(async()=>{await a})()", "(async()=>await(a))()", "(async function(){await[a]})()", "(()=>{throw a})", "(function(){throw-a})", "(function(){throw[a]})", "(function(){throw`t`})", "a?b:a", "a ?b :a", "x=>x", "(x)=>(x)", "async x=>x", "async(x)=>x", "(async)=>async", "async=>async", "[async]", "async.p", "async()", "(get,set,of,as,from,let,static,yield_,await_)=>get", "({get:1,set:2,static:3,async:4,of:5})", "({get p(){return 1}}).p", "({set p(v){}}).p", "({get:1}).get", "({async p(){}}).p", "({*p(){}}).p", "({async*p(){}}).p", "({get [a](){return 1}})", "class A{static p(){}get q(){return 1}set q(v){}async r(){}*s(){}static async*t(){}}",
		"a<b>c", "a<(b>c)", "a<<b", "a>>>b", "a<<=1", "a>>>=1", "a**b", "a**-b", "(-a)**b", "a&&b||a", "a||b&&a", "a??b", "a?.p??b", "a|b||a", "a&b&&a", "a^b", "~a", "~~a", "!~a", "-~a", "+!a", "!+a", "- -a", "+ +a", "-(-a)", "+(+a)", "-(+a)", "- +a", "!(!a)", "!!a", "!(a,b)",
		"a\n++b", "a\n--b", "a\n++\nb", "a++\nb", "a\n(b)", "a\n[b]", "a\n`t`", "a\n/b/g", "a\n+b", "a;\n+b", "a\n-b", "a\n.p", "a\n?.p", "a\n=b", "a\n,b", "a\n?b:1", "a\n&&b", "a\nin b", "a\ninstanceof b", "let\nq", "var\nq", "if(a)\nb", "if(a)b\nelse a", "do a\nwhile(0)", "do a;while(0)b", "do{}while(0)b", "for(;;)\nbreak", "l:\nfor(;;)break l", "a\n++\nb\n--\na",
		"a/*c*/+/*c*/b", "a//c\n+b", "a<!--c\n+b", "a\n-->c\n+b", "/*\n*/-->c\na", "a/* c\n */b", "a=b/*\n*/++a", "a/*\n*/\n++b", "//c\u2028a", "a\u2028+b", "a\u2029b", "a\u00a0+\ufeffb", "a\t+\vb\f", "a\r\n+b", "a\r+b",
	}
	for _, e := range exprs {
		if !emit(Program{fn(pre + "r=(" + e + ");h1(r,a,b)"), "fn", vec}) {
			return
		}
		if !emit(Program{fn(pre + e + ";h1(a,b)"), "fn", vec}) {
			return
		}
		if !emit(Program{fn(pre + "h1(" + e + ",a,b)"), "fn", vec}) {
			return
		}
		if !emit(Program{fn(pre + "if(a)" + e + "\nelse " + e + "\nh1(a,b)"), "fn", vec}) {
			return
		}
	}
}

// ---------------- F7: literals ----------------

func genLiterals(c *core.Check, emit func(Program) bool) {
	none := [][]string{{}}
	// strings
	pieces := []string{"'", `"`, "`", `\\`, `\n`, `\r`, `\0`, `\x0a`, `\x22`, `\x27`, `\x3C`, `\u000A`, `\u{22}`, `\u2028`, " ", "\\\n", "${", "$", "{", "}", "</script>", `<\/script>`, "<!--", "a", `\'`, `\"`, "\\`", `\t`, `\v`, `\b`, `\1`, `\8`, `\a`, "\t", "é", "\u2028", `\u{1F600}`, `\ud83d\ude00`, `\ud83d`, "0", `\00`, `\08`,
		// escapes that decode to a character with a meaning of its own in some quote style
		`\u005C`, `\u{5C}`, `\x5C`, `\134`, `\u0024`, `\x24`, `\44`, `\u007B`, `\x7B`, `\173`, `\u0060`, `\x60`, `\/script>`, `\u003C`,
		// every way a script element can end in HTML: the tag name in any case, followed by >, / or white space
		`<\/SCRIPT>`, `<\/script `, `<\/Script/`, `<\/scripT\n`, `<\/script\t`,
		// legacy octal escapes of characters above U+007F
		`\377`, `\200`}
	n := c.Pick(2, 3)
	seq := core.Sequences{K: len(pieces), MaxLen: n}
	for i := uint64(0); i < seq.Count(); i++ {
		var b strings.Builder
		for _, k := range seq.At(i, nil) {
			b.WriteString(pieces[k])
		}
		s := b.String()
		for _, q := range []string{"'", `"`, "`"} {
			lit := q + s + q
			if !emit(Program{fn("return [" + lit + "," + lit + ".length]"), "fn", none}) {
				return
			}
			if i%7 == 3 {
				if !emit(Program{fn("var a=h0();return [" + lit + "+a+" + lit + ",'x'+" + lit + "," + lit + "+\"y\"+" + lit + ",a+" + lit + "+" + lit + "]"), "fn", [][]string{{"a"}, {"1"}}}) {
					return
				}
			}
		}
	}
	// template literals with substitutions and tags
	for _, t := range []string{"`a${a}b`", "`${a}`", "`${a}${b}`", "`a\\${a}`", "`$${a}`", "`\\n${a}\n`", "`${`${a}`}`", "`${a+`x${b}`}`", "String.raw`a\\n${a}`", "(x=>x.raw[0])`\\x41\\u0041`", "(x=>x[0])`a\\n`", "((x,...v)=>v.length)`${a}${b}`", "`\\``", "`'\"`", "`${'`'}`", "`a`+`b`", "`a`+'b'+\"c\"", "'a'+`${a}`", "`${1}${2}`", "`a${''}b`", "`</script>`", "`<!--`", "`\\u{41}`", "`\\0`"} {
		if !emit(Program{fn("var a=h0(),b=h0();return [" + t + "]"), "fn", vectorsOver([]string{"a", "1", "u"}, 2)}) {
			return
		}
	}
	// regular expressions: compared by matching, never by source
	rp := []string{"a", `\/`, "[/]", `[\]]`, `\d`, `\-`, `[a\-z]`, `[\^]`, `[^a]`, `\.`, ".", `\$`, "$", "^", "(?:a)", "(a)", `\u0041`, `\x41`, "a{1,}", "a{1}", "a*?", `\b`, `\\`, `\(`, `\)`, `\[`, `\{`, `\}`, "[a-z]", `[\d]`, `[\.]`, `[.]`, `[\/]`, `\=`, `\ `, " ", `\"`, `\'`, "[\"']", `\:`, `\,`, `\<`, `\>`, `\!`, `\%`, `\&`, `\@`, `\#`, `\~`, "\\`", `\_`, "|", "(?=a)", "(?!a)", `\1`, `\k<n>`, "(?<n>a)", `\p{L}`, `[\b]`, `\cJ`, `\0`, `\t`, `\n`, "a{2", `\,3}`, ",3}", "}", "{", `a{2\,3}`, `a\{2,3}`, `a{2,3\}`, `[{]`, `\-`, `\]`}
	rn := c.Pick(2, 3)
	rseq := core.Sequences{K: len(rp), MaxLen: rn}
	test := `["a","/","]","-","^",".","$","A","b","\\","az","","aa","(",")","[","{","}","=","\"","'",":",",","<",">","!","%","&","@","#","~","_"," ","d","1","\b","\n","\t","\0","` + "`" + `"]`
	for i := uint64(1); i < rseq.Count(); i++ {
		var b strings.Builder
		for _, k := range rseq.At(i, nil) {
			b.WriteString(rp[k])
		}
		for _, fl := range []string{"", "g", "i", "u", "s"} {
			if fl != "" && i%5 != 1 {
				continue
			}
			re := "/" + b.String() + "/" + fl
			if !emit(Program{fn("var R=" + re + ";return " + test + ".map(function(s){R.lastIndex=0;var m=R.exec(s);return m&&[m.index,m[0]]})"), "fn", none}) {
				return
			}
		}
	}
	// numbers
	nums := []string{"0", "00", "08", "0.0", ".0", "0.", "1.", "1.0", "1.50", "1e3", "1E3", "1e+3", "1e-3", "100", "1000", "10000", "100000", "1000000", "0x10", "0XAB", "0o17", "0O17", "0b11", "0B11", "017", "019", "1_000", "1_0.0_1", "0xfff_f", "1n", "0x1fn", "0n", "100000000000000000000", "1e21", "1e-7", "0.0000001", "0.000001", "123456789012345678901234567890", "9007199254740993", "0.1e1", "5e-324", "1.7976931348623157e308", "1e400", "1e-400", "0xffffffffff", "1000000n", "0b1_1", ".5e1", "5.e1", "011", "0.5", "0.50", "00.5", "1.0e0", "10e-1", "1e0", "1e1", "1e2", "12e1", "0e0", "0.000", "0x0", "0b0", "0o0", "1000000000000000128", "4294967296", "2147483648", "0xFFFFFFFF", "0XfFn", "1e3n", "0xb0", "0xe0", "0xE", "0xb", "0x0e", "0XB", "0xbn", "0x0_0", "0xe_0", "0b0_0", "0b0_1", "0o0_0", "0.0_0", "0xBEEF", "0x0b0e", "0xFFFFFFFFFFFFFFFFn", "0xFFFFFFFFFFFFFFFFFFFFn", "0o7777777777777777777777777n", "0b" + strings.Repeat("1", 70) + "n", "123456789012345678901234567890n", "0xFFFFFFFFFFFFFFFF", "0b" + strings.Repeat("1", 70)}
	// hexadecimal, octal and binary literals of every length around the limits of the conversion to decimal, with the leading
	// digits that decide the number of decimal digits
	for l := 1; l <= 14; l++ {
		for _, d := range []string{"1", "7", "8", "d", "D", "e", "E", "f", "F"} {
			nums = append(nums, "0x"+d+strings.Repeat("F", l-1), "0X"+d+strings.Repeat("0", l-1))
		}
	}
	for l := 18; l <= 24; l++ {
		nums = append(nums, "0o"+strings.Repeat("7", l), "0o1"+strings.Repeat("0", l-1))
	}
	for l := 50; l <= 66; l += 2 {
		nums = append(nums, "0b"+strings.Repeat("1", l), "0b1"+strings.Repeat("0", l-1))
	}
	for _, x := range nums {
		for _, t := range []string{"return [X]", "return [-X]", "return [(X).toString()]", "return [X .toString()]", "return [X+1,X-1,1+X,1-X]", "return [a+X,a-X,a*X]", "return [typeof X]", "return [typeof (X)=='bigint'?String(X):X]", "return [X in [1,2]]", "return {p:X}", "return [X?1:2]", "return [!X,!!X]", "if(X)return 1;return 2", "return [X,X]", "return [X==0,X===0]", "var o={};o[X]=1;return o", "return [[1,2,3][X]]", "return [X .p]", "return [X['toFixed']&&X.toFixed(1)]"} {
			if !emit(Program{fn("var a=h0();" + strings.ReplaceAll(t, "X", x)), "fn", [][]string{{"1"}, {"a"}}}) {
				return
			}
		}
	}
}

// ---------------- F8: functions, classes, objects, builtins ----------------

func genFunctions(c *core.Check, emit func(Program) bool) {
	vec := vectorsOver([]string{"0", "1", "a", "obj", "u", "NaN", "-0", "big", "n", "e", "half", "-1", "s1", "arr"}, 2)
	pre := "var a=h0(),b=h0();"
	progs := []string{
		// parameters: defaults, rest, patterns, unused trailing parameters, arguments
		// a variable captured three and four function levels below its declaration, used on the way down
		"var total=10;function l1(){total++;return function(){total++;return function(s){var local=s*2;return total+local}}}return l1()()(3)",
		"var t=a;return (function(){t=t+'x';return ()=>{h1(t);return function(q){var t2=q;return (z=>[t,t2,z])(b)}}})()()(1)",
		"function f(x,y){return x}return f(a,b)", "function f(x,y){return arguments[1]}return f(a,b)", "function f(x,y,z){return [x,arguments.length]}return f(a,b)", "function f(x=a,y=x){return [x,y]}return f(void 0,b)", "function f(...r){return r}return f(a,b)", "function f(x,...r){return [x,r]}return f(a,b)",
		"function f({p,q=1}={}){return [p,q]}return f(a)", "function f([x,y=2]=[]){return [x,y]}return f(b)", "function f(x,y){y=2;return arguments[1]}return f(a,b)", "function f(x,y){'use strict';y=2;return arguments[1]}return f(a,b)", "function f(x){x=1;return x}return [f(a),a]", "function f(x){var x;return x}return f(a)", "function f(x){var x=2;return x}return f(a)", "function f(x,x2){return x2}return f(a,b)", "var f=function g(){return typeof g};return f()", "var f=function g(n){return n?g(n-1)+1:0};return f(3)",
		"function f(){return this}return f.call(a)===a", "function f(){'use strict';return this}return f.call(a)", "var o={f(){return this===o}};return o.f()", "var o={f:()=>this};return o.f()===this", "return (function(){return (()=>arguments[0])()})(a)", "return (function(){return new.target})()", "function C(){return new.target===C}return [new C instanceof C,C()]",
		"function*g(){var x=yield 1;h1(x);yield*[2,3];return 4}var it=g();return [it.next(),it.next(a),it.next(),it.next(),it.next()]", "function*g(){try{yield 1}finally{h1(9)}}var it=g();it.next();return it.return(a)", "var o={*g(){yield a}};return [...o.g()]", "async function f(){return a}var p=f();return p instanceof Promise",
		// classes
		"class A{constructor(x){this.x=x}get g(){return this.x}set g(v){this.x=v}static s(){return 1}m(){return this.x}}var o=new A(a);o.g=b;return [o.g,o.m(),A.s(),typeof A]", "class A{x=a;static y=b;#p=1;gp(){return this.#p}static #q=2;static gq(){return A.#q}}var o=new A;return [o.x,A.y,o.gp(),A.gq()]",
		"class A{m(){return 1}}class B extends A{m(){return super.m()+1}}return new B().m()", "class A{constructor(){this.v=a}}class B extends A{constructor(){super();this.w=b}}var o=new B;return [o.v,o.w]", "class A{static{h1(1)}}return 1", "class A{['m'+a](){return 1}}return Object.getOwnPropertyNames(A.prototype)", "var A=class B{n(){return typeof B}};return new A().n()", "class A{static m(){return this===A}}return A.m()", "class A{#m(){return 1}static t(o){return #m in o}}return [A.t(new A),A.t({})]",
		"class A{get [a](){return 1}}return Object.getOwnPropertyNames(A.prototype)", "class A{'quoted'(){return 1}1(){return 2}}var o=new A;return [o.quoted(),o[1]()]", "class A{async m(){}*g(){}async*ag(){}static async sm(){}}return Object.getOwnPropertyNames(A.prototype).concat(Object.getOwnPropertyNames(A))",
		// objects
		"var x=a,y=b;return {x,y}", "var x=a;return {x:x}", "var x=a;return {x:x,y:b,'z':1,'a-b':2,1:3,'1':4,[a]:5}", "return {a,b,a}", "return {__proto__:null,p:a}", "return ({__proto__:{q:1}}).q", "var {x:x1,y:{z=1}={}}=a||{};return [x1,z]", "var {x,...r}=a||{};return [x,r]", "var o={p:1};var {p}=o;return p", "var p;({p}={p:a});return p", "var p,q;[p,q]=[a,b];[p,q]=[q,p];return [p,q]", "var o={};({p:o.q,r:o['s']}={p:a,r:b});return o",
		"return {get p(){return a},set p(v){h1(v)}}.p", "var o={p:1,p:2};return o", "return {'use strict':1}", "return [,a,,b,]", "return [a,...[b,a]]", "return {...a,...b}", "return Object.keys({b:1,a:2,1:3})",
		// builtin rewrites
		"return [Math.pow(a,b)]", "return [Math.abs(a)]", "return [Math.trunc(a)]", "return [isNaN(a)]", "return [Number(a)]", "return [String(a)]", "return [Boolean(a)]", "return [Math.pow(a,2),Math.pow(2,a)]", "return [a**b]", "return [Number.MAX_VALUE,Number.MIN_VALUE,Infinity,-Infinity,NaN,undefined]", "return [void 0===undefined,typeof undefined]", "var undefined_=1;return [undefined,Infinity,NaN]", "return [1/0,-1/0,0/0]", "return [!0,!1,!a,!!a]", "return [true,false,true&&a,false||b]",
		"return [a===undefined,a==undefined,a===void 0,typeof a=='undefined',typeof a==='undefined',typeof a!='undefined',void 0==a]", "return [a==null,a!=null,null==a,a===null]", "return [typeof a=='string',typeof a==='number','object'==typeof a]", "return [a===true,a==true,a===false,a==false,a!==true,!a===false]", "return [a==0,a===0,a==\"\",a===\"\",a=='0',a==[]]", "return [a+'',''+a,a+\"\"+b,`${a}`]", "return [+a,-a,+!a,-!a,a-0,a*1,a|0,a>>>0,~~a]",
		"return [parseInt(a),parseFloat(a),Number.parseInt(a)]", "return [Array.isArray(a),a instanceof Array]", "return [a&&a.length,a?a.length:void 0,a==null?void 0:a.length]", "if(a===undefined)return 1;if(a===null)return 2;return 3", "if(a==null)return 1;if(a===0)return 2;return 3", "return a?true:false", "return a?false:true", "return a?1:0", "return a===b?true:false", "return !a?b:a", "return a!==b?a:b", "return a>b?a:b", "return !(a>b)", "return !(a>=b)", "return !(a==b)", "return !(a===b)", "return !(a!=b)", "return !(a&&b)", "return !(a||b)", "return !(!a&&!b)", "return !(!a||!b)", "return !(a<b)&&!(b<a)",
		// closures, scoping
		"var fs=[];for(var i=0;i<3;i++){let j=i;fs.push(()=>j)}return fs.map(f=>f())", "var fs=[];for(let i=0;i<3;i++){fs.push(()=>i)}return fs.map(f=>f())", "var x=1;{let x=2;h1(x)}return x", "var x=1;(function(){var x=2;h1(x)})();return x", "var x=1;function f(){return x}{let x=2;h1(f(),x)}return x", "let x=1;{let x=2;{let x=3;h1(x)}h1(x)}return x", "var r=[];for(var k in {p:1,q:2})r.push(k);for(var k of [3])r.push(k);return r", "try{throw a}catch(e){var e2=e}return e2", "try{throw a}catch({p}){return p}", "try{return 1}finally{h1(2)}", "try{throw 1}catch(e){return 2}finally{h1(3)}", "l:for(var i=0;i<2;i++){for(var j=0;j<2;j++){if(j)continue l;h1(i,j)}}return 1", "switch(a){case b:return 1;case 0:case 1:return 2;default:return 3}", "switch(typeof a){case 'number':return 1;case 'string':return 2}return 3",
		"var i=0;do{i++}while(i<3);return i", "var i=0;while(i<3)i++;return i", "var i=0;for(;;){if(++i>2)break}return i", "for(var i=0,j=10;i<j;i++,j--);return [i,j]", "var s=0;for(var x of [1,2,3]){if(x==2)continue;s+=x}return s", "var o={a:1,b:2},s='';for(var k in o)s+=k;return s", "if(a){var x=1}else{var x=2}return x", "if(a)function ff(){return 1}return typeof ff", "return typeof hoisted;function hoisted(){}", "return hoisted();function hoisted(){return a}", "var v=1;return v;var v=2", "return g1;var g1=a",
		"return eval('1+1')", "return [typeof Symbol(),Symbol.iterator in []]", "return new Date(0).getTime()", "return JSON.stringify({a:[a,b]})", "return [..." + `"ab"` + "]", "return Array.from({length:2},(_, i)=>i*2)", "return [1,2,3].map(x=>x*2).filter(x=>x>2).reduce((s,x)=>s+x,0)", "return (a,b)", "return (h1(1),h1(2),3)", "return a?.p?.q", "return a?.[b]", "return a?.(b)", "a??=1;b||=2;return [a,b]", "a&&=b;return a", "return a??b??1", "return (a||b)&&a", "label:{return 1}", "return new Error('m').message", "try{null.p}catch(e){return e instanceof TypeError}", "try{undefinedVar}catch(e){return e instanceof ReferenceError}", "try{(void 0)()}catch(e){return e.constructor===TypeError}",
	}
	for _, p := range progs {
		for _, strict := range []string{"", `"use strict";`} {
			if strict != "" && (strings.Contains(p, "with(") || strings.Contains(p, "arguments[1]}return f(a,b)") && strings.Contains(p, "y=2")) {
				continue
			}
			if !emit(Program{fn(strict + pre + p), "fn", vec}) {
				return
			}
		}
	}
}

// ---------------- F9: top-level scripts (global scope semantics) ----------------

func genTopLevel(c *core.Check, emit func(Program) bool) {
	vec := vectorsOver([]string{"0", "1", "a"}, 2)
	forms := []string{"var x=h0()", "let y=h0()", "const z=1", "function f(){return x}", "x=2", "w=h0()", "h1(typeof x,typeof y,typeof f,typeof w)", "if(h0())var v=1", "for(var i=0;i<2;i++);", "class K{}", "var f=1", "h1(this===globalThis)", "var e=1,t=2,n=3", "h1(typeof e,typeof t)", "var undefined_", "g0=5", "var g1=6", "h1(g0,g1)", "delete w", "(function(){q=1})()", "(()=>{var x=9;h1(x)})()", "try{h1(nope)}catch(e){h1(1)}", "label:for(;;)break label", "var {p1,p2}={p1:1,p2:2}", "var [e1,e2]=[1,2]", "x++", "`${x}`", "h1(x)",
		// a function that assigns a variable of the script which is declared further down
		"function g(){var b=2;late=1;return b}", "var late", "g()", "h1(typeof late,typeof b)", "function g2(){var b=2,c=3;late2=b;late3=c}g2()", "var late2,late3=7", "h1(typeof late2,late3)",
		"{class A{static x=h0()}}", "{class A extends h0(){}}", "{class A{[h0()](){}}}", "{class A{static{h0()}}}", "{let q=h0()}", "{const q=[h0()]}",
		"let x2=0;if(h0()){throw 1}else{let x2=2;h1(x2)}h1(x2)"}
	n := c.Pick(2, 3)
	seq := core.Sequences{K: len(forms), MaxLen: n}
	for i := uint64(1); i < seq.Count(); i++ {
		var parts []string
		for _, k := range seq.At(i, nil) {
			parts = append(parts, forms[k])
		}
		for _, sep := range []string{";", "\n"} {
			if sep == "\n" && i%4 != 0 {
				continue
			}
			if !emit(Program{strings.Join(parts, sep), "global", vec}) {
				return
			}
		}
	}
	_ = fmt.Sprint
}
