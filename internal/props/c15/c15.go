// Package c15: media type dispatch follows the documented matching rules.
// Explicit-state BFS over registration histories; the transition function is the real
// registry (a fresh minify.M replays the history), the reference is a 30-line model.
package c15

import (
	"bytes"
	"errors"
	"fmt"
	"io"
	"os/exec"
	"regexp"
	"sort"
	"strings"

	minify "github.com/tdewolff/minify/v2"
	"verif/internal/core"
)

type op struct {
	kind string // Add AddFunc AddRegexp AddFuncRegexp AddCmd AddCmdRegexp
	key  string // literal type or pattern
	stub string // A B C D cmd
}

var ops = []op{
	{"Add", "text/html", "A"}, {"AddFunc", "text/html", "B"}, {"Add", "text/css", "A"}, {"AddFunc", "text/css", "B"},
	{"Add", "text/*", "A"}, {"AddFunc", "image/svg+xml", "B"},
	{"AddRegexp", "^text/", "C"}, {"AddFuncRegexp", "^text/", "D"}, {"AddRegexp", "/css$", "C"}, {"AddFuncRegexp", "/css$", "D"},
	{"AddRegexp", ".*", "C"}, {"AddFuncRegexp", "^text/html$", "D"}, {"AddRegexp", "[/+]xml$", "D"},
	{"AddCmd", "text/css", "cmd"}, {"AddCmdRegexp", "^text/h", "cmd"}, {"AddCmd", "text/plain", "cmd"},
	// a pattern without any metacharacter or anchor matches every media type that CONTAINS the text
	{"AddRegexp", "json", "C"}, {"AddFuncRegexp", "text/css", "D"},
	// a literal with capitals: names are compared as they are written, in registrations and in calls
	{"AddFunc", "text/HTML", "B"},
}

func (o op) String() string { return fmt.Sprintf("%s(%q,%s)", o.kind, o.key, o.stub) }

var queries = []string{"text/html", "text/css", "text/plain", "text/html; charset=UTF-8", "text/html;a=b;c=d", " text/html", "text/html ;q=1",
	"text/css; charset=utf-8", "text/*", "*/*", "image/svg+xml", "application/xml", "application/json;x=y", "text/x", "jsonp", "application/ld+json; charset=utf-8", "text/css2",
	// longer than any fixed-size scratch buffer a media type might be copied into (71 bytes; 65 and 64 bytes with parameters)
	"application/vnd.openxmlformats-officedocument.wordprocessingml.document+xml", "text/html; charset=utf-8; boundary=----WebKitFormBoundary7MA4YWxkTrZu", "text/html; charset=utf-8; boundary=----WebKitFormBoundary7MA4YWxkTrZ",
	// capitals in the type, in the subtype and in a parameter
	"text/HTML", "Text/css", "text/HTML; Charset=UTF-8", "TEXT/HTML"}

// call records what a stub saw.
type call struct {
	stub   string
	params string
}

type recorder struct{ calls []call }

func paramString(p map[string]string) string {
	if p == nil {
		return "nil"
	}
	ks := make([]string, 0, len(p))
	for k := range p {
		ks = append(ks, k)
	}
	sort.Strings(ks)
	var b strings.Builder
	for _, k := range ks {
		fmt.Fprintf(&b, "%s=%s;", k, p[k])
	}
	return b.String()
}

func (r *recorder) stub(name string) minify.MinifierFunc {
	return func(_ *minify.M, w io.Writer, rd io.Reader, params map[string]string) error {
		r.calls = append(r.calls, call{name, paramString(params)})
		in, _ := io.ReadAll(rd)
		fmt.Fprintf(w, "<%s:%s>", name, in)
		return nil
	}
}

type stubMinifier struct {
	f minify.MinifierFunc
}

func (s stubMinifier) Minify(m *minify.M, w io.Writer, r io.Reader, p map[string]string) error {
	return s.f(m, w, r, p)
}

func apply(m *minify.M, rec *recorder, o op) {
	switch o.kind {
	case "Add":
		m.Add(o.key, stubMinifier{rec.stub(o.stub)})
	case "AddFunc":
		m.AddFunc(o.key, rec.stub(o.stub))
	case "AddRegexp":
		m.AddRegexp(regexp.MustCompile(o.key), stubMinifier{rec.stub(o.stub)})
	case "AddFuncRegexp":
		m.AddFuncRegexp(regexp.MustCompile(o.key), rec.stub(o.stub))
	case "AddCmd":
		m.AddCmd(o.key, exec.Command("cat"))
	case "AddCmdRegexp":
		m.AddCmdRegexp(regexp.MustCompile(o.key), exec.Command("cat"))
	}
}

// ---- reference model, written from the documentation of minify.M ----

type model struct {
	literal map[string]string // type -> stub
	pattern [][2]string       // (pattern, stub) in registration order
}

func (s model) apply(o op) model {
	n := model{map[string]string{}, append([][2]string{}, s.pattern...)}
	for k, v := range s.literal {
		n.literal[k] = v
	}
	switch o.kind {
	case "Add", "AddFunc", "AddCmd":
		n.literal[o.key] = o.stub // re-registration replaces
	default:
		n.pattern = append(n.pattern, [2]string{o.key, o.stub})
	}
	return n
}

func (s model) key() string {
	ks := make([]string, 0, len(s.literal))
	for k, v := range s.literal {
		ks = append(ks, k+"="+v)
	}
	sort.Strings(ks)
	return strings.Join(ks, ",") + "|" + fmt.Sprint(s.pattern)
}

// refSplit: "type/subtype; k=v; k2=v2" → type/subtype and the map of parameters.
func refSplit(q string) (string, string) {
	q = strings.TrimLeft(q, " ")
	i := strings.IndexByte(q, ';')
	if i < 0 {
		return strings.TrimRight(q, " "), "nil"
	}
	mt := strings.TrimRight(q[:i], " ")
	p := map[string]string{}
	for _, kv := range strings.Split(q[i+1:], ";") {
		k, v, _ := strings.Cut(kv, "=")
		p[strings.TrimSpace(k)] = strings.TrimSpace(v)
	}
	return mt, paramString(p)
}

// lookup returns (matched key, stub) or ("", "") when nothing is registered for q.
func (s model) lookup(mt string) (string, string) {
	if st, ok := s.literal[mt]; ok {
		return mt, st
	}
	for _, p := range s.pattern {
		if regexp.MustCompile(p[0]).MatchString(mt) {
			return p[0], p[1]
		}
	}
	return "", ""
}

// checkState replays hist on ONE fresh registry and compares every query with the model after
// every prefix of the history, the empty one included: the registry has then answered (and
// possibly failed) every query before each further registration, so a lookup result that is
// remembered across registrations (a cache, a memoised "no match") shows up.
func checkState(hist []op, final model) (kind, what string) {
	rec := &recorder{}
	m := minify.New()
	s := model{map[string]string{}, nil}
	if k, w := queryAll(m, rec, s); k != "" {
		return k, "before any registration: " + w
	}
	for i, o := range hist {
		apply(m, rec, o)
		s = s.apply(o)
		if k, w := queryAll(m, rec, s); k != "" {
			if i < len(hist)-1 {
				w = fmt.Sprintf("after the first %d registrations: %s", i+1, w)
			}
			return k, w
		}
	}
	if s.key() != final.key() {
		return "internal-model", "model replay diverged"
	}
	return "", ""
}

// queryAll asks every query of the alphabet through Minify and Match.
func queryAll(m *minify.M, rec *recorder, s model) (kind, what string) {
	for _, q := range queries {
		mt, wantParams := refSplit(q)
		wantKey, wantStub := s.lookup(mt)
		// --- Minify
		rec.calls = nil
		var out bytes.Buffer
		err := m.Minify(q, &out, strings.NewReader("x"))
		switch {
		case wantStub == "":
			if !errors.Is(err, minify.ErrNotExist) {
				return "not-exist-error", fmt.Sprintf("query %q: want ErrNotExist, got err=%v", q, err)
			}
			if out.Len() != 0 || len(rec.calls) != 0 {
				return "not-exist-wrote", fmt.Sprintf("query %q: nothing registered but %q written / %v called", q, out.String(), rec.calls)
			}
		case wantStub == "cmd":
			if err != nil || out.String() != "x" || len(rec.calls) != 0 {
				return "dispatch", fmt.Sprintf("query %q: want command minifier (cat), got out=%q err=%v calls=%v", q, out.String(), err, rec.calls)
			}
		default:
			if err != nil || len(rec.calls) != 1 || rec.calls[0].stub != wantStub || out.String() != "<"+wantStub+":x>" {
				return "dispatch", fmt.Sprintf("query %q: want stub %s, got out=%q err=%v calls=%v", q, wantStub, out.String(), err, rec.calls)
			}
			if rec.calls[0].params != wantParams {
				return "params", fmt.Sprintf("query %q: want params %s, got %s", q, wantParams, rec.calls[0].params)
			}
		}
		// --- Match answers exactly what Minify uses
		rec.calls = nil
		gotKey, gotParams, fn := m.Match(q)
		if wantStub == "" {
			if fn != nil {
				return "match", fmt.Sprintf("Match(%q): want nil minifier, got one (key %q)", q, gotKey)
			}
			continue
		}
		if fn == nil {
			return "match", fmt.Sprintf("Match(%q): want %s via %q, got nil", q, wantStub, wantKey)
		}
		if gotKey != wantKey {
			return "match-key", fmt.Sprintf("Match(%q): want matched key %q, got %q", q, wantKey, gotKey)
		}
		if paramString(gotParams) != wantParams {
			return "match-params", fmt.Sprintf("Match(%q): want params %s, got %s", q, wantParams, paramString(gotParams))
		}
		out.Reset()
		err = fn(m, &out, strings.NewReader("y"), gotParams)
		if wantStub == "cmd" {
			if err != nil || out.String() != "y" {
				return "match-fn", fmt.Sprintf("Match(%q) returned a function that is not the command minifier: out=%q err=%v", q, out.String(), err)
			}
		} else if err != nil || out.String() != "<"+wantStub+":y>" {
			return "match-fn", fmt.Sprintf("Match(%q) returned a function that is not stub %s: out=%q err=%v", q, wantStub, out.String(), err)
		}
	}
	return "", ""
}

func histString(h []op) string {
	s := make([]string, len(h))
	for i, o := range h {
		s[i] = o.String()
	}
	return strings.Join(s, " ; ")
}

// Run executes C15.
func Run(c *core.Check) {
	depth := c.Pick(3, 4)
	c.Rule = fmt.Sprintf("breadth-first search over all registration histories of length <=%d over %d operations (literal/func/regexp/command registrations with overlapping keys); states are deduplicated on the reference model's canonical form (literal map + ordered pattern list); every transition replays the whole history on a fresh real registry and asks all %d media-type queries through Minify and Match after every prefix of it (so every query has been answered, or refused, before each further registration); non-trivial = state in which at least one query is served by a minifier", depth, len(ops), len(queries))
	c.Assumptions = []string{"reference model of M written from the doc comments of minify.go", "queries restricted to documented media-type forms"}
	type node struct {
		hist []op
		s    model
	}
	init := node{nil, model{map[string]string{}, nil}}
	seen := map[string]bool{init.s.key(): true}
	frontier := []node{init}
	states, transitions, validated := 1, 0, 0
	if k, w := checkState(nil, init.s); k != "" {
		c.Fail(core.Failure{Family: "registry-bfs", Input: "", Kind: k, What: w})
	}
	for d := 0; d < depth; d++ {
		type job struct {
			n node
			o op
		}
		var jobs []job
		for _, n := range frontier {
			for _, o := range ops {
				jobs = append(jobs, job{n, o})
			}
		}
		results := make([]struct{ kind, what string }, len(jobs))
		c.ParallelRange("registry-bfs", uint64(len(jobs)), func(i uint64) {
			j := jobs[i]
			h := append(append([]op{}, j.n.hist...), j.o)
			k, w := checkState(h, j.n.s.apply(j.o))
			results[i].kind, results[i].what = k, w
		})
		var next []node
		for i, j := range jobs {
			transitions++
			validated++
			h := append(append([]op{}, j.n.hist...), j.o)
			s := j.n.s.apply(j.o)
			c.Count(uint64(2 * len(queries) * (len(h) + 1)))
			if results[i].kind != "" {
				c.Fail(core.Failure{Family: "registry-bfs", Input: histString(h), Kind: results[i].kind, What: results[i].what, Order: uint64(transitions)})
			}
			k := s.key()
			if !seen[k] {
				seen[k] = true
				states++
				next = append(next, node{h, s})
				c.Nontrivial(k)
				if states%97 == 3 {
					c.Sample(map[string]any{"history": histString(h), "model_state": k})
				}
			}
		}
		frontier = next
	}
	c.Extra["states"] = states
	c.Extra["transitions"] = transitions
	c.Extra["traces_validated_against_impl"] = validated
	c.Extra["depth"] = depth
	c.Extra["queries_per_state"] = len(queries)
}

// Replay re-executes a recorded history.
func Replay(f core.Failure) (string, string) {
	var hist []op
	s := model{map[string]string{}, nil}
	if f.Input != "" {
		for _, part := range strings.Split(f.Input, " ; ") {
			found := false
			for _, o := range ops {
				if o.String() == part {
					hist = append(hist, o)
					s = s.apply(o)
					found = true
				}
			}
			if !found {
				return "replay-error", "unknown op " + part
			}
		}
	}
	return checkState(hist, s)
}
