package c10

import (
	"bufio"
	"bytes"
	"fmt"
	"math"
	"os"
	"os/exec"
	"path/filepath"
	"runtime"
	"strconv"
	"strings"
	"sync"
	"syscall"
	"time"

	minify "github.com/tdewolff/minify/v2"
	"verif/internal/core"
)

type ladder struct {
	name, typ      string
	pre, unit, suf string
	close          string // repeated n times after suf (nesting)
}

var ladders = []ladder{
	{"js parens", "application/javascript", "x=", "(", "1", ")"}, {"js brackets", "application/javascript", "x=", "[", "1", "]"}, {"js braces", "application/javascript", "", "{", "a()", "}"},
	{"js not", "application/javascript", "x=", "!", "a", ""}, {"js neg", "application/javascript", "x=", "- ", "a", ""}, {"js ternary", "application/javascript", "x=", "a?", "b", ":c"}, {"js arrow", "application/javascript", "x=", "a=>", "b", ""},
	{"js string concat", "application/javascript", "x='a'", "+'b'", "", ""}, {"js var decls", "application/javascript", "", "var a=1;", "", ""}, {"js comma", "application/javascript", "x=1", ",a()", "", ""}, {"js if-else chain", "application/javascript", "", "if(a)b();else ", "c()", ""},
	{"js template nesting", "application/javascript", "x=", "`${", "1", "}`"}, {"js member chain", "application/javascript", "x=a", ".b", "", ""}, {"js call chain", "application/javascript", "a", "()", "", ""}, {"js binary chain", "application/javascript", "x=a", "+a", "", ""},
	{"html nested div", "text/html", "", "<div>", "x", "</div>"}, {"html nested b", "text/html", "", "<b>", "x", ""}, {"html siblings", "text/html", "", "<p>a b</p> ", "", ""}, {"html svg", "text/html", "", "<svg>", "", "</svg>"}, {"html attrs", "text/html", "<a", " x=y", ">", ""},
	{"html entities", "text/html", "", "&amp;&#38;", "", ""}, {"html comments", "text/html", "", "<!--x-->", "", ""}, {"html text spaces", "text/html", "a", "  b", "", ""}, {"html unclosed lt", "text/html", "", "<", "", ""},
	{"json arrays", "application/json", "", "[", "1", "]"}, {"json objects", "application/json", "", "{\"a\":", "1", "}"}, {"json list", "application/json", "[1", ",1000", "]", ""}, {"json string", "application/json", "\"", "ab\\n", "\"", ""},
	{"css calc nesting", "text/css", "a{b:", "calc(", "1px", ")"}, {"css blocks", "text/css", "", "@media x{", "a{b:c}", "}"}, {"css rules", "text/css", "", "a{b:c}", "", ""}, {"css font commas", "text/css", "a{font:12px a", ",b", "}", ""}, {"css background layers", "text/css", "a{background:url(x)", ",url(y)", "}", ""},
	{"css selectors", "text/css", "a", ",b", "{c:d}", ""}, {"css declarations", "text/css", "a{", "b:c;", "}", ""}, {"css url nesting", "text/css", "a{b:", "url(", "x", ")"}, {"css values", "text/css", "a{margin:0", " 1px", "}", ""}, {"css unicode-range", "text/css", "a{unicode-range:U+1", ",U+2", "}", ""},
	// comma-separated value lists of every property with list handling of its own (each layer written so that the per-layer rewrite fires)
	{"css box-shadow layers", "text/css", "a{box-shadow:1px 1px 0 0 red", ",1px 1px 0 0 red", "}", ""}, {"css text-shadow layers", "text/css", "a{text-shadow:1px 1px 0 red", ",1px 1px 0 red", "}", ""},
	{"css transition list", "text/css", "a{transition:all 0s ease 0s", ",color 0.10s linear 0s", "}", ""}, {"css font-family list", "text/css", "a{font-family:\"A B\"", ",\"C D\"", "}", ""},
	{"css background-position list", "text/css", "a{background-position:left top", ",right 10% bottom 20%", "}", ""}, {"css grid areas", "text/css", "a{grid-template-areas:\"a b\"", " \"c d\"", "}", ""},
	{"css transform functions", "text/css", "a{transform:translate(0px,0px)", " rotate(0deg)", "}", ""}, {"css margin values", "text/css", "a{margin:0px", " 0px", "}", ""}, {"css important decls", "text/css", "a{", "b:c!important;", "}", ""},
	{"css filter list", "text/css", "a{filter:blur(0px)", " drop-shadow(0 0 0 red)", "}", ""}, {"css will-change list", "text/css", "a{will-change:a", ",b", "}", ""},
	{"svg path commands", "image/svg+xml", "<svg><path d=\"M0 0", "L1 1", "\"/></svg>", ""}, {"svg nested g", "image/svg+xml", "<svg>", "<g>", "", "</g>"}, {"svg attrs", "image/svg+xml", "<svg", " x=\"1\"", "/>", ""}, {"svg path numbers", "image/svg+xml", "<svg><path d=\"M0 0l", "1 ", "\"/></svg>", ""},
	{"xml nested", "text/xml", "", "<a>", "x", "</a>"}, {"xml siblings", "text/xml", "<r>", "<a> b </a>", "</r>", ""}, {"xml cdata", "text/xml", "<r>", "<![CDATA[x]]>", "</r>", ""}, {"xml attrs", "text/xml", "<a", " b=\"c\"", "/>", ""},
}

func (l ladder) build(n int) []byte {
	var b strings.Builder
	b.WriteString(l.pre)
	for i := 0; i < n; i++ {
		b.WriteString(l.unit)
	}
	b.WriteString(l.suf)
	for i := 0; i < n; i++ {
		b.WriteString(l.close)
	}
	return []byte(b.String())
}

func measure(m *minify.M, typ string, in []byte) (alloc uint64, dur time.Duration, panicked string) {
	var a, b runtime.MemStats
	runtime.GC()
	runtime.ReadMemStats(&a)
	t := time.Now()
	c0 := cpuSeconds()
	panicked = core.Recover(func() { m.Bytes(typ, in) })
	lastCPU = cpuSeconds() - c0
	dur = time.Since(t)
	runtime.ReadMemStats(&b)
	return b.TotalAlloc - a.TotalAlloc, dur, panicked
}

// lastCPU is the processor time (user+system, whole process) the last measure() call took.
var lastCPU float64

func cpuSeconds() float64 {
	var ru syscall.Rusage
	if syscall.Getrusage(syscall.RUSAGE_SELF, &ru) != nil {
		return 0
	}
	return float64(ru.Utime.Sec+ru.Stime.Sec) + float64(ru.Utime.Usec+ru.Stime.Usec)/1e6
}

// Cost that hides inside memmove (splicing a slice in a loop, re-copying a growing buffer) is
// executed by no Go code block and allocates nothing, so neither deterministic measure sees it.
// For it there is a throughput floor with a wide margin: at the largest n a ladder input must be
// processed at >= floorBytesPerSecond of PROCESSOR time (not wall time; the ladders run one at a
// time), and at least floorMinSeconds are always granted. Linear code runs at 2-50 MB/s here.
const floorBytesPerSecond, floorMinSeconds = 50e3, 4.0

var ladderBin string

func buildLadderBin() error {
	ladderBin = filepath.Join(core.Root, "bin", "ladderbin")
	cmd := exec.Command("go", "build", "-cover", "-covermode=count", "-coverpkg=verif/cmd/ladderbin,github.com/tdewolff/minify/v2/...,github.com/tdewolff/parse/v2/...", "-o", ladderBin, "./cmd/ladderbin")
	cmd.Dir = core.Root
	if out, err := cmd.CombinedOutput(); err != nil {
		return fmt.Errorf("%v: %s", err, out)
	}
	return nil
}

// work runs the instrumented binary once and returns the sum of all coverage block counters.
func work(l ladder, n int) (uint64, error) {
	dir, err := os.MkdirTemp("", "verif-ladder-")
	if err != nil {
		return 0, err
	}
	defer os.RemoveAll(dir)
	cmd := exec.Command(ladderBin, l.typ, l.pre, l.unit, l.suf, l.close, strconv.Itoa(n))
	cmd.Env = append(os.Environ(), "GOCOVERDIR="+dir, "GOMAXPROCS=1")
	if out, err := cmd.CombinedOutput(); err != nil {
		return 0, fmt.Errorf("ladderbin: %v: %s", err, out)
	}
	txt := filepath.Join(dir, "c.txt")
	if out, err := exec.Command("go", "tool", "covdata", "textfmt", "-i="+dir, "-o="+txt).CombinedOutput(); err != nil {
		return 0, fmt.Errorf("covdata: %v: %s", err, out)
	}
	b, err := os.ReadFile(txt)
	if err != nil {
		return 0, err
	}
	var sum uint64
	sc := bufio.NewScanner(bytes.NewReader(b))
	sc.Buffer(make([]byte, 1<<20), 1<<20)
	for sc.Scan() {
		f := strings.Fields(sc.Text())
		if len(f) == 3 {
			if v, err := strconv.ParseUint(f[2], 10, 64); err == nil {
				sum += v
			}
		}
	}
	return sum, nil
}

// runWorkLadders: deterministic growth check. For the four largest sizes of every ladder the
// instrumented binary is run; executed-block counts may at most triple when n doubles.
func runWorkLadders(c *core.Check, maxN int) {
	if err := buildLadderBin(); err != nil {
		c.Extra["work_ladders"] = "SKIPPED: " + err.Error()
		c.Exhaustive = false
		return
	}
	type res struct {
		N    int    `json:"n"`
		Work uint64 `json:"executed_blocks"`
	}
	report := make([][]res, len(ladders))
	var wg sync.WaitGroup
	sem := make(chan struct{}, core.Workers())
	var mu sync.Mutex
	for li := range ladders {
		wg.Add(1)
		go func(li int) {
			defer wg.Done()
			sem <- struct{}{}
			defer func() { <-sem }()
			l := ladders[li]
			var rows []res
			for n := maxN / 8; n <= maxN; n *= 2 {
				w, err := work(l, n)
				if err != nil {
					mu.Lock()
					c.Fail(core.Failure{Family: "work-ladders", Input: l.name, Kind: "internal-ladder-error", What: err.Error()})
					mu.Unlock()
					return
				}
				rows = append(rows, res{n, w})
			}
			mu.Lock()
			report[li] = rows
			c.Count(uint64(len(rows)))
			c.AddFamily("work-ladders", uint64(len(rows)), uint64(len(rows)))
			mu.Unlock()
			bad := 0
			for i := 1; i < len(rows); i++ {
				if float64(rows[i].Work) > 3.0*float64(rows[i-1].Work) {
					bad++
				}
			}
			if bad == len(rows)-1 && len(rows) >= 4 {
				c.Fail(core.Failure{Family: "work-ladders", Input: fmt.Sprintf("%s: %q + %q x n + %q + %q x n", l.name, l.pre, l.unit, l.suf, l.close), Config: l.typ, Kind: "superlinear-work",
					What: fmt.Sprintf("the number of executed code blocks more than triples every time n doubles (quadratic or worse): %v", rows)})
			}
		}(li)
	}
	wg.Wait()
	rep := map[string][]res{}
	for li, l := range ladders {
		rep[l.name] = report[li]
	}
	c.Extra["work_ladders"] = rep
}

// runLadders: the ladders run one at a time (the allocation counter is process-wide).
func runLadders(c *core.Check, track func(string, func())) {
	maxN := 1 << c.Pick(14, 17)
	m := regs["default"]()
	type row struct {
		N     int     `json:"n"`
		Alloc uint64  `json:"alloc_bytes"`
		Ms    float64 `json:"wall_ms"`
	}
	report := map[string][]row{}
	for _, l := range ladders {
		var rows []row
		for n := 1; n <= maxN; n *= 2 {
			in := l.build(n)
			var alloc uint64
			var dur time.Duration
			var pan string
			track(fmt.Sprintf("ladder %s n=%d", l.name, n), func() { alloc, dur, pan = measure(m, l.typ, in) })
			c.Count(1)
			c.Nontrivial("ladder", l.name, fmt.Sprint(n))
			c.AddFamily("ladders", 1, 1)
			if pan != "" {
				c.Fail(core.Failure{Family: "ladders", Input: fmt.Sprintf("%s: %q + %q x n + %q + %q x n", l.name, l.pre, l.unit, l.suf, l.close), Config: fmt.Sprintf("%s n=%d", l.typ, n), Kind: "panic", What: pan})
				break
			}
			rows = append(rows, row{n, alloc, float64(dur.Microseconds()) / 1000})
			if budget := math.Max(floorMinSeconds, float64(len(in))/floorBytesPerSecond); lastCPU > budget {
				c.Fail(core.Failure{Family: "ladders", Input: fmt.Sprintf("%s: %q + %q x n + %q + %q x n", l.name, l.pre, l.unit, l.suf, l.close), Config: fmt.Sprintf("%s n=%d", l.typ, n), Kind: "throughput-below-floor",
					What: fmt.Sprintf("%d bytes took %.1f s of processor time (%.0f bytes/s; the floor is %.0f bytes/s and %.0f s): the time is not proportional to the input size", len(in), lastCPU, float64(len(in))/lastCPU, floorBytesPerSecond, floorMinSeconds)})
				break
			}
		}
		report[l.name] = rows
		// growth: for the three largest doublings allocated bytes may at most triple (+ a constant)
		k := len(rows)
		if k >= 5 {
			bad := 0
			for i := k - 3; i < k; i++ {
				if float64(rows[i].Alloc) > 3.0*float64(rows[i-1].Alloc)+1e6 {
					bad++
				}
			}
			if bad == 3 {
				c.Fail(core.Failure{Family: "ladders", Input: fmt.Sprintf("%s: %q + %q x n + %q + %q x n", l.name, l.pre, l.unit, l.suf, l.close), Config: l.typ, Kind: "superlinear-memory", What: fmt.Sprintf("allocated bytes more than triple on each of the last three doublings of n: %v", rows[k-4:])})
			}
		}
	}
	c.Extra["ladders"] = report
	runWorkLadders(c, 1<<c.Pick(12, 15))
}
