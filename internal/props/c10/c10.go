// Package c10: minifiers are total — no panic, no hang, input handed back on error.
package c10

import (
	"bytes"
	"fmt"
	"os"
	"strings"
	"sync"
	"sync/atomic"
	"time"

	minify "github.com/tdewolff/minify/v2"
	"github.com/tdewolff/minify/v2/css"
	"github.com/tdewolff/minify/v2/html"
	"github.com/tdewolff/minify/v2/js"
	mjson "github.com/tdewolff/minify/v2/json"
	"github.com/tdewolff/minify/v2/svg"
	"github.com/tdewolff/minify/v2/xml"
	"verif/internal/core"
	"verif/internal/files"
	"verif/internal/props/c01"
)

type cfg struct {
	name string
	typ  string
	m    func() *minify.M
}

func reg(adds ...func(m *minify.M)) func() *minify.M {
	return func() *minify.M {
		m := minify.New()
		for _, a := range adds {
			a(m)
		}
		return m
	}
}

func all(h *html.Minifier, c *css.Minifier, j *js.Minifier, jn *mjson.Minifier, s *svg.Minifier, x *xml.Minifier) func() *minify.M {
	return reg(func(m *minify.M) {
		m.Add("text/html", h)
		m.Add("text/css", c)
		m.Add("application/javascript", j)
		m.Add("application/json", jn)
		m.Add("image/svg+xml", s)
		m.Add("text/xml", x)
	})
}

var maxInt = int(^uint(0) >> 1)

// configurations: default, everything non-default, extreme precisions
var regs = map[string]func() *minify.M{
	"default": all(&html.Minifier{}, &css.Minifier{}, &js.Minifier{}, &mjson.Minifier{}, &svg.Minifier{}, &xml.Minifier{}),
	"all-keep": all(&html.Minifier{KeepComments: true, KeepConditionalComments: false, KeepSpecialComments: true, KeepDefaultAttrVals: true, KeepDocumentTags: true, KeepEndTags: true, KeepQuotes: true, KeepWhitespace: true, TemplateDelims: [2]string{"{{", "}}"}},
		&css.Minifier{KeepCSS2: true, Precision: 1, Inline: true}, &js.Minifier{KeepVarNames: true, Version: 5, Precision: 1}, &mjson.Minifier{KeepNumbers: true, Precision: 1}, &svg.Minifier{KeepComments: true, Precision: 1, Inline: true}, &xml.Minifier{KeepWhitespace: true}),
	"precision-17":      all(&html.Minifier{TemplateDelims: [2]string{"<%", "%>"}}, &css.Minifier{Precision: 17}, &js.Minifier{Precision: 17, Version: 2015}, &mjson.Minifier{Precision: 17}, &svg.Minifier{Precision: 17}, &xml.Minifier{}),
	"precision-extreme": all(&html.Minifier{TemplateDelims: [2]string{"<?", "?>"}}, &css.Minifier{Precision: maxInt}, &js.Minifier{Precision: 1000, Version: 2022}, &mjson.Minifier{Precision: -1}, &svg.Minifier{Precision: maxInt}, &xml.Minifier{}),
}
var regNames = []string{"default", "all-keep", "precision-17", "precision-extreme"}

var alphabets = map[string][]string{
	"text/html":              {"<", ">", "/", "!", "-", "=", "\"", "'", "&", ";", "#", "a", "p", " ", "\x00", "\x80", "\xc3", "?", "%", "<script>", "</script", "<!--", "-->", "<svg>", "<style>", "<![CDATA[", "]]>", "{{", "}}", "<p ", "<a href=", "&amp", "&#", "\n", "<pre>", "<textarea>", "<math>", "style=", "onclick=", "data:"},
	"text/css":               {"a", "{", "}", ":", ";", "(", ")", "\"", "'", "/", "*", "@", "#", ".", ",", "-", "+", "\\", " ", "0", "e", "%", "!", "url(", "calc(", "rgb(", "U+", "\n", "/*", "*/", "!important", "@media", "--x", "px", "font:", "margin:", "background:", "\x00", "\x80", "<!--"},
	"application/javascript": {"a", "0", "(", ")", "[", "]", "{", "}", ";", ",", ".", "=", "+", "-", "*", "/", "\"", "'", "`", "\\", "$", "<", ">", "!", "?", ":", "=>", " ", "\n", "function ", "return ", "var ", "class ", "if", "for", "${", "async ", "yield ", "let ", "\x00", "\x80", " ", "#", "@", "/*", "//", "in ", "of ", "new ", "...", "?.", "??", "**", "++", "case ", "else ", "try", "catch", "import ", "export ", "static ", "get ", "0x", "1e", "n", "_"},
	"application/json":       {"{", "}", "[", "]", ":", ",", "\"", "\\", "0", "-", ".", "e", "true", "null", " ", "1", "\n", "\x00", "\x80", "a", "+", "E", "\\u", "false"},
	"image/svg+xml":          {"<", ">", "/", "!", "?", "-", "=", "\"", "'", "&", ";", "a", " ", "[", "]", "<![CDATA[", "]]>", "<svg", "<path d=\"", "M", "0", "z", "A", ".", "e", ",", "<style>", "</style>", "style=\"", "<!--", "-->", "<?xml", "?>", "<!DOCTYPE", "fill=\"", "#", "viewBox=\"", "<metadata>", "xlink:href=", "\x00", "\x80", "<foreignObject>", "<defs/>", "1e9", "-", "L", "c", "<defs", "</defs>", "<metadata", "contentStyleType=\"", "<x:y"},
	"text/xml":               {"<", ">", "/", "!", "?", "-", "=", "\"", "'", "&", ";", "a", " ", "[", "]", "<![CDATA[", "]]>", "<a", "</a>", "<!--", "-->", "<?xml", "?>", "<!DOCTYPE", "&amp;", "&#", "x", "\n", "\x00", "\x80", "\t"},
}

var running sync.Map // worker id -> *runInfo

type runInfo struct {
	start time.Time
	desc  string
}

// CheckBytes runs one input through Bytes and String under one registry.
func CheckBytes(m *minify.M, typ string, in []byte) (kind, what string) {
	orig := append([]byte{}, in...)
	arg := append(make([]byte, 0, len(in)+8), in...) // spare capacity: parse.NewInput writes a NUL behind the data and must restore it
	guard := arg[len(in) : len(in)+8]
	for i := range guard {
		guard[i] = 0xA5 // the caller's bytes behind the slice (another slice of the same array may hold them)
	}
	var out []byte
	var err error
	if p := core.Recover(func() { out, err = m.Bytes(typ, arg) }); p != "" {
		return "panic", "Bytes: " + p
	}
	for i := range guard {
		if guard[i] != 0xA5 {
			return "caller-slice-mutated", fmt.Sprintf("Bytes left byte %d behind the end of the caller's slice (within its capacity) as %#x instead of restoring it", i, guard[i])
		}
	}
	if err != nil {
		if !bytes.Equal(out, orig) {
			return "original-not-returned", fmt.Sprintf("Bytes returned error %q together with %q, not the original", err, trunc(out))
		}
		if !bytes.Equal(arg, orig) {
			return "caller-slice-mutated", fmt.Sprintf("Bytes returned error %q and left the caller's slice as %q", err, trunc(arg))
		}
	}
	if !bytes.Equal(arg[:len(in)], orig) && err != nil {
		return "caller-slice-mutated", "caller slice changed"
	}
	var sout string
	var serr error
	if p := core.Recover(func() { sout, serr = m.String(typ, string(orig)) }); p != "" {
		return "panic", "String: " + p
	}
	if serr != nil && sout != string(orig) {
		return "original-not-returned", fmt.Sprintf("String returned error %q together with %q", serr, trunc([]byte(sout)))
	}
	if (err == nil) != (serr == nil) || err == nil && sout != string(out) {
		return "bytes-string-disagree", fmt.Sprintf("Bytes → %q,%v; String → %q,%v", trunc(out), err, trunc([]byte(sout)), serr)
	}
	return "", ""
}

func trunc(b []byte) string {
	if len(b) > 120 {
		return string(b[:120]) + "…"
	}
	return string(b)
}

// Run executes C10.
func Run(c *core.Check) {
	c.Rule = "(i) every string of <=L symbols over a structural alphabet per media type (24-64 symbols incl. multi-byte ones such as <script>, <![CDATA[, url(, ${, and the bytes NUL, 0x80, 0xC3) and every byte string of length <=2 over all 256 values, for each of the six minifiers under 4 registries (default, all options non-default, precision 17, extreme precisions) through Bytes and String; the helpers Number/Decimal/Mediatype/DataURI on every string of <=4 symbols over their alphabets with precisions -1,0,1,17,1000,MaxInt; (ii) every truncation and every one-byte deletion of every corpus and benchmark file up to the size bound; (iii) nesting/repetition ladders unit^n for n = 1,2,4,… with a deterministic growth bound on allocated bytes. Oracle: no panic, returns within the watchdog, on error the original data is returned and the caller's slice is unchanged, Bytes and String agree. Non-trivial = the minifier returned an error or changed the input"
	c.Assumptions = []string{"a case that runs longer than 60 s on an input of a few bytes (120 s for files) counts as non-terminating", "growth is measured on allocated bytes (runtime.MemStats.TotalAlloc), wall time is recorded only"}
	// watchdog
	var violated atomic.Bool
	stop := make(chan struct{})
	go func() {
		t := time.NewTicker(2 * time.Second)
		defer t.Stop()
		for {
			select {
			case <-stop:
				return
			case <-t.C:
				running.Range(func(k, v any) bool {
					ri := v.(*runInfo)
					if time.Since(ri.start) > 120*time.Second && !violated.Load() {
						violated.Store(true)
						c.Fail(core.Failure{Family: "watchdog", Input: ri.desc, Kind: "does-not-terminate", What: "the call has been running for more than 120 s"})
						c.Exhaustive = false
						os.Exit(c.Finish())
					}
					return true
				})
			}
		}
	}()
	defer close(stop)
	var wid atomic.Int64
	track := func(desc string, fn func()) {
		id := wid.Add(1)
		running.Store(id, &runInfo{time.Now(), desc})
		fn()
		running.Delete(id)
	}

	L := c.Pick(3, 4)
	for _, typ := range []string{"text/html", "text/css", "application/javascript", "application/json", "image/svg+xml", "text/xml"} {
		al := alphabets[typ]
		l := L
		if len(al) > 50 && l > 3 {
			l = 3
		}
		seq := core.Sequences{K: len(al), MaxLen: l}
		fam := "structural-strings " + typ
		c.Family(fam).Bound = fmt.Sprintf("all sequences of <=%d of %d symbols x %d registries", l, len(al), len(regNames))
		ms := map[string]*minify.M{}
		for _, rn := range regNames {
			ms[rn] = regs[rn]()
		}
		c.ParallelRange(fam, seq.Count(), func(i uint64) {
			var b strings.Builder
			for _, k := range seq.At(i, nil) {
				b.WriteString(al[k])
			}
			in := []byte(b.String())
			var nt uint64
			for _, rn := range regNames {
				var kind, what string
				track(fmt.Sprintf("%s %s %q", typ, rn, in), func() { kind, what = CheckBytes(ms[rn], typ, in) })
				c.Count(1)
				var out []byte
				var err error
				core.Recover(func() { out, err = ms[rn].Bytes(typ, append([]byte{}, in...)) })
				if err != nil || !bytes.Equal(out, in) {
					nt++
					c.Nontrivial(typ, rn, string(in))
				}
				if kind != "" {
					c.Fail(core.Failure{Family: fam, Input: string(in), Config: typ + " " + rn, Kind: kind, What: what, Order: i})
				}
			}
			c.AddFamily(fam, uint64(len(regNames)), nt)
			if i%70001 == 13 {
				c.Sample(map[string]any{"type": typ, "input": string(in)})
			}
		})
		// all byte strings of length <= 2
		fam2 := "bytes<=2 " + typ
		c.ParallelRange(fam2, 1+256+65536, func(i uint64) {
			var in []byte
			switch {
			case i == 0:
			case i <= 256:
				in = []byte{byte(i - 1)}
			default:
				in = []byte{byte((i - 257) >> 8), byte(i - 257)}
			}
			kind, what := CheckBytes(ms["default"], typ, in)
			c.Count(1)
			c.AddFamily(fam2, 1, 0)
			if kind != "" {
				c.Fail(core.Failure{Family: fam2, Input: string(in), Config: typ + " default", Kind: kind, What: what, Order: i})
			}
		})
	}
	// CSS declarations: every property with a branch of its own in the property rewriter x every sequence of <=3 value symbols,
	// closed and cut off by the end of the input (strings, functions and blocks left open)
	{
		props := []string{"font", "font-family", "font-weight", "url", "src", "margin", "padding", "border-width", "border", "border-top", "outline", "background", "background-size", "background-repeat", "background-position", "box-shadow", "-ms-filter", "filter", "color", "background-color", "border-color", "border-left-color", "text-decoration-color", "caret-color", "fill", "column-rule", "text-shadow", "text-decoration", "text-emphasis", "flex", "flex-basis", "order", "flex-grow", "flex-shrink", "unicode-range", "transition", "grid-area", "z-index", "--x", "content"}
		vals := []string{"0", "1px", "'", "\"", "(", ")", ",", "/", " ", "local(", "url(", "rgb(", "#fff", "a", "!important", "-", ".5", "%", "\\", "calc(", "var(--x)", ";", "}", "\x00", "format(", "U+0-7F", "none", "bold", "red", "left", "1e3", "auto"}
		n := c.Pick(2, 3)
		seq := core.Sequences{K: len(vals), MaxLen: n}
		dfam := "css-declarations"
		c.Family(dfam).Bound = fmt.Sprintf("%d properties x all sequences of <=%d of %d value symbols x {rule, unclosed rule, style attribute}", len(props), n, len(vals))
		mdef := regs["default"]()
		c.ParallelRange(dfam, uint64(len(props))*seq.Count(), func(i uint64) {
			p := props[i%uint64(len(props))]
			var b strings.Builder
			for _, k := range seq.At(i/uint64(len(props)), nil) {
				b.WriteString(vals[k])
			}
			for vi, in := range []string{"a{" + p + ":" + b.String() + "}", "a{" + p + ":" + b.String(), "<p style=\"" + strings.ReplaceAll(p+":"+b.String(), "\"", "&quot;") + "\">"} {
				typ := "text/css"
				if vi == 2 {
					typ = "text/html"
				}
				var kind, what string
				track(fmt.Sprintf("%s default %q", typ, in), func() { kind, what = CheckBytes(mdef, typ, []byte(in)) })
				c.Count(1)
				c.AddFamily(dfam, 1, 1)
				if kind != "" {
					c.Fail(core.Failure{Family: dfam, Input: in, Config: typ + " default", Kind: kind, What: what, Order: i})
				}
			}
		})
	}
	// syntactically valid programs: the complete program grammar of C01 at this tier (products of two or three constructs per
	// rewrite rule). Every rewrite of the JS minifier is reached with operands of every shape (calls without arguments, empty
	// lists, missing branches); only totality is decided here, behaviour is C01's business
	gfam := "generated-js-programs"
	c.Family(gfam).Bound = "every program of the C01 families at this tier x default and all-options-non-default registry, as a script and (every 16th) inside an HTML onclick attribute"
	gm := map[string]*minify.M{"default": regs["default"](), regNames[1]: regs[regNames[1]]()}
	c.ParallelStream(gfam, func(emit func(string) bool) { c01.Programs(c, emit) }, func(idx uint64, s string) {
		text := s[strings.IndexByte(s, 0)+1:]
		for rn, m := range gm {
			var kind, what string
			track(fmt.Sprintf("application/javascript %s %q", rn, text), func() { kind, what = CheckBytes(m, "application/javascript", []byte(text)) })
			c.Count(1)
			c.AddFamily(gfam, 1, 1)
			if kind != "" {
				c.Fail(core.Failure{Family: gfam, Input: text, Config: "application/javascript " + rn, Kind: kind, What: what, Order: idx})
			}
		}
		if idx%16 == 3 && !strings.ContainsAny(text, "\"&<") {
			in := "<p onclick=\"" + text + "\">x</p>"
			kind, what := CheckBytes(gm["default"], "text/html", []byte(in))
			c.Count(1)
			c.AddFamily(gfam, 1, 1)
			if kind != "" {
				c.Fail(core.Failure{Family: gfam, Input: in, Config: "text/html default", Kind: kind, What: what, Order: idx})
			}
		}
	})
	runHelpers(c)
	runFiles(c, track)
	runLadders(c, track)
}

func runHelpers(c *core.Check) {
	numAl := []string{"0", "1", "9", "5", ".", "e", "E", "+", "-", "a", " ", "00", "\x00"}
	seq := core.Sequences{K: len(numAl), MaxLen: c.Pick(4, 5)}
	precs := []int{-1, 0, 1, 17, 1000, maxInt}
	c.ParallelRange("helpers Number/Decimal", seq.Count(), func(i uint64) {
		var b strings.Builder
		for _, k := range seq.At(i, nil) {
			b.WriteString(numAl[k])
		}
		in := b.String()
		for _, p := range precs {
			for _, fn := range []string{"Number", "Decimal"} {
				buf := append(make([]byte, 0, len(in)), in...)
				if pm := core.Recover(func() {
					if fn == "Number" {
						minify.Number(buf, p)
					} else {
						minify.Decimal(buf, p)
					}
				}); pm != "" {
					c.Fail(core.Failure{Family: "helpers Number/Decimal", Input: in, Config: fmt.Sprintf("%s prec=%d", fn, p), Kind: "panic", What: pm, Order: i})
				}
				c.Count(1)
			}
		}
		c.AddFamily("helpers Number/Decimal", uint64(2*len(precs)), 0)
		c.Nontrivial("num", in)
	})
	mtAl := []string{"text", "/", "html", ";", " ", "charset", "=", "\"", "utf-8", "\x00", "\x80", ",", "data:", "base64", "%", "%4", "+", "A", "=="}
	seq2 := core.Sequences{K: len(mtAl), MaxLen: c.Pick(4, 5)}
	m := regs["default"]()
	c.ParallelRange("helpers Mediatype/DataURI", seq2.Count(), func(i uint64) {
		var b strings.Builder
		for _, k := range seq2.At(i, nil) {
			b.WriteString(mtAl[k])
		}
		in := b.String()
		if pm := core.Recover(func() { minify.Mediatype([]byte(in)) }); pm != "" {
			c.Fail(core.Failure{Family: "helpers Mediatype/DataURI", Input: in, Config: "Mediatype", Kind: "panic", What: pm, Order: i})
		}
		for _, pre := range []string{"", "data:", "data:text/css,", "data:;base64,"} {
			if pm := core.Recover(func() { minify.DataURI(m, []byte(pre+in)) }); pm != "" {
				c.Fail(core.Failure{Family: "helpers Mediatype/DataURI", Input: pre + in, Config: "DataURI", Kind: "panic", What: pm, Order: i})
			}
		}
		c.Count(5)
		c.AddFamily("helpers Mediatype/DataURI", 5, 0)
		c.Nontrivial("mt", in)
	})
	for _, name := range []string{"number", "decimal", "mediatype", "data-uri", "svg-pathdata"} {
		for _, b := range files.Helper(name) {
			for _, p := range precs {
				if pm := core.Recover(func() {
					switch name {
					case "number":
						minify.Number(append([]byte{}, b...), p)
					case "decimal":
						minify.Decimal(append([]byte{}, b...), p)
					case "mediatype":
						minify.Mediatype(append([]byte{}, b...))
					case "data-uri":
						minify.DataURI(m, append([]byte{}, b...))
					case "svg-pathdata":
						svg.NewPathData(&svg.Minifier{Precision: p}).ShortenPathData(append([]byte{}, b...))
					}
				}); pm != "" {
					c.Fail(core.Failure{Family: "helper corpora", Input: string(b), Config: fmt.Sprintf("%s prec=%d", name, p), Kind: "panic", What: pm})
				}
				c.Count(1)
			}
		}
	}
}

func runFiles(c *core.Check, track func(string, func())) {
	limit := c.Pick(3000, 150000)
	type job struct {
		f    files.File
		kind string // "whole", "prefix", "delete"
		pos  int
	}
	var jobs []job
	for _, f := range files.All() {
		jobs = append(jobs, job{f, "whole", 0})
		if len(f.Data) <= limit {
			step := 1
			if len(f.Data) > 20000 {
				step = 7 // large files: every 7th position (recorded as the bound)
			}
			for p := 0; p < len(f.Data); p += step {
				jobs = append(jobs, job{f, "prefix", p}, job{f, "delete", p})
			}
		}
	}
	fam := "corpus truncations and deletions"
	c.Family(fam).Bound = fmt.Sprintf("%d jobs: every file whole; files <= %d bytes: every prefix and every one-byte deletion (every 7th position above 20 kB)", len(jobs), limit)
	m := regs["default"]()
	m2 := regs["all-keep"]()
	c.ParallelRange(fam, uint64(len(jobs)), func(i uint64) {
		j := jobs[i]
		var in []byte
		switch j.kind {
		case "whole":
			in = j.f.Data
		case "prefix":
			in = j.f.Data[:j.pos]
		case "delete":
			in = append(append([]byte{}, j.f.Data[:j.pos]...), j.f.Data[j.pos+1:]...)
		}
		desc := fmt.Sprintf("%s %s@%d", j.f.Short(), j.kind, j.pos)
		for ri, mm := range []*minify.M{m, m2} {
			if ri == 1 && j.kind != "whole" && i%5 != 0 {
				continue
			}
			var kind, what string
			track(desc, func() { kind, what = CheckBytes(mm, j.f.Type, in) })
			c.Count(1)
			if kind != "" {
				c.Fail(core.Failure{Family: fam, Input: desc, Config: j.f.Type + " " + []string{"default", "all-keep"}[ri], Kind: kind, What: what, Order: i})
			}
		}
		c.AddFamily(fam, 1, 1)
		c.Nontrivial("file", desc)
	})
}
