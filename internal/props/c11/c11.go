// Package c11: embedded resources are minified exactly as their own minifier would.
// Hosts x payloads x registries; the commutation law is checked by decoding: the host output
// is parsed by an independent parser, the embedded value is extracted and compared with what
// the registered (recording stub or real) minifier produced for exactly that payload.
package c11

import (
	"bytes"
	"errors"
	"fmt"
	"io"
	"sort"
	"strings"
	"unicode/utf8"

	minify "github.com/tdewolff/minify/v2"
	"github.com/tdewolff/minify/v2/css"
	"github.com/tdewolff/minify/v2/html"
	"github.com/tdewolff/minify/v2/js"
	mjson "github.com/tdewolff/minify/v2/json"
	"github.com/tdewolff/minify/v2/svg"
	"github.com/tdewolff/parse/v2"
	xhtml "golang.org/x/net/html"
	"verif/internal/core"
	"verif/internal/oracle/xmlinfo"
	c18 "verif/internal/props/c18"
)

// ---------- recording stubs ----------

type call struct {
	mt     string
	params string
	in     string
	out    string
}

type recorder struct {
	calls []call
	mode  string // "marker", "nasty:<text>", "fail", "fail-pos"
}

var errStub = errors.New("stub failure")

func paramString(p map[string]string) string {
	var ks []string
	for k := range p {
		ks = append(ks, k)
	}
	sort.Strings(ks)
	var b strings.Builder
	for _, k := range ks {
		fmt.Fprintf(&b, "%s=%s;", k, p[k])
	}
	return b.String()
}

func marker(mt, in string) string {
	h := uint32(2166136261)
	for i := 0; i < len(in); i++ {
		h = (h ^ uint32(in[i])) * 16777619
	}
	return fmt.Sprintf("Z%xq%dz", h, len(in))
}

func (r *recorder) stub(mt string) minify.MinifierFunc {
	return func(_ *minify.M, w io.Writer, rd io.Reader, params map[string]string) error {
		b, _ := io.ReadAll(rd)
		c := call{mt: mt, params: paramString(params), in: string(b)}
		switch {
		case r.mode == "fail":
			r.calls = append(r.calls, c)
			return errStub
		case r.mode == "fail-scribble":
			// a minifier that works in place (as the bundled ones do: they rewrite the buffer behind their reader),
			// has written part of its output and then fails
			r.calls = append(r.calls, c)
			w.Write([]byte("Zpartial"))
			if bb, ok := rd.(interface{ Bytes() []byte }); ok {
				under := bb.Bytes()
				for i := range under {
					under[i] = 'X'
				}
			}
			return errStub
		case r.mode == "fail-pos":
			r.calls = append(r.calls, c)
			return parse.NewError(bytes.NewReader(b), 0, "stub parse error")
		case strings.HasPrefix(r.mode, "nasty:"):
			c.out = r.mode[6:]
		default:
			c.out = marker(mt, string(b))
		}
		r.calls = append(r.calls, c)
		w.Write([]byte(c.out))
		return nil
	}
}

// ---------- hosts ----------

type host struct {
	via      string // media type of an intermediate real minifier that must be registered too (html > svg > style)
	direct   bool   // the host minifier is called directly, not through the registry (the resource has the host's own media type)
	name     string
	hostType string
	build    func(payload string) string
	// expected registry key, parameters, and the pre-processing of the payload the docs allow
	wantType   string
	wantParams string
	pre        func(string) string
	// extract the embedded value from the host output; ok=false if absent
	extract func(out string) (string, bool)
	rawText bool // payload sits in a raw-text element: it cannot contain its own end tag
	attr    bool
	encode  func(string) string // how the payload must be written into the host input
	dataURI bool
}

func ident(s string) string { return s }

const pad = "                              /*pad*/"

func attrEscape(s string) string {
	return strings.NewReplacer("&", "&amp;", "\"", "&quot;").Replace(s)
}

func xmlTextEscape(s string) string {
	return strings.NewReplacer("&", "&amp;", "<", "&lt;", "]]>", "]]&gt;").Replace(s)
}

func xmlAttrEscape(s string) string {
	return strings.NewReplacer("&", "&amp;", "<", "&lt;", "\"", "&quot;").Replace(s)
}

// xmlAttrNorm: XML attribute-value normalisation turns literal tab/newline into a space.
func xmlAttrNorm(s string) string {
	return strings.TrimSpace(strings.NewReplacer("\n", " ", "\t", " ", "\r", " ").Replace(s))
}

func htmlElemText(tag string) func(string) (string, bool) {
	return func(out string) (string, bool) {
		doc, err := xhtml.Parse(strings.NewReader(out))
		if err != nil {
			return "", false
		}
		var res string
		found := false
		var walk func(n *xhtml.Node)
		walk = func(n *xhtml.Node) {
			if n.Type == xhtml.ElementNode && n.Data == tag && !found {
				found = true
				var b strings.Builder
				for c := n.FirstChild; c != nil; c = c.NextSibling {
					if c.Type == xhtml.TextNode {
						b.WriteString(c.Data)
					}
				}
				res = b.String()
			}
			for c := n.FirstChild; c != nil; c = c.NextSibling {
				walk(c)
			}
		}
		walk(doc)
		return res, found
	}
}

// htmlLastElemText extracts the text of the LAST element with that name.
func htmlLastElemText(tag string) func(string) (string, bool) {
	return func(out string) (string, bool) {
		doc, err := xhtml.Parse(strings.NewReader(out))
		if err != nil {
			return "", false
		}
		var res string
		found := false
		var walk func(n *xhtml.Node)
		walk = func(n *xhtml.Node) {
			if n.Type == xhtml.ElementNode && n.Data == tag {
				found = true
				var b strings.Builder
				for c := n.FirstChild; c != nil; c = c.NextSibling {
					if c.Type == xhtml.TextNode {
						b.WriteString(c.Data)
					}
				}
				res = b.String()
			}
			for c := n.FirstChild; c != nil; c = c.NextSibling {
				walk(c)
			}
		}
		walk(doc)
		return res, found
	}
}

func htmlAttr(tag, attr string) func(string) (string, bool) {
	return func(out string) (string, bool) {
		doc, err := xhtml.Parse(strings.NewReader(out))
		if err != nil {
			return "", false
		}
		var res string
		found := false
		var walk func(n *xhtml.Node)
		walk = func(n *xhtml.Node) {
			if n.Type == xhtml.ElementNode && n.Data == tag {
				for _, a := range n.Attr {
					if a.Key == attr && !found {
						res, found = a.Val, true
					}
				}
			}
			for c := n.FirstChild; c != nil; c = c.NextSibling {
				walk(c)
			}
		}
		walk(doc)
		return res, found
	}
}

// svgStyleText extracts the content of the first style element (text and CDATA, decoded).
func svgStyleText(out string) (string, bool) {
	items, err := xmlinfo.Tokenize(out)
	if err != nil {
		return "", false
	}
	in := false
	found := false
	var b strings.Builder
	for _, it := range items {
		switch {
		case (it.Kind == xmlinfo.Start || it.Kind == xmlinfo.Empty) && it.Name == "style":
			in, found = it.Kind == xmlinfo.Start, true
		case it.Kind == xmlinfo.End && it.Name == "style":
			return b.String(), true
		case in && it.Kind == xmlinfo.Text:
			for _, c := range xmlinfo.Decode(it.Raw) {
				b.WriteRune(c.R)
			}
		case in && it.Kind == xmlinfo.CData:
			b.WriteString(it.Raw)
		}
	}
	return b.String(), found
}

func svgAttr(tag, attr string) func(string) (string, bool) {
	return func(out string) (string, bool) {
		items, err := xmlinfo.Tokenize(out)
		if err != nil {
			return "", false
		}
		for _, it := range items {
			if it.Name == tag {
				for _, a := range it.Attrs {
					if a.Name == attr {
						return xmlinfo.NormalizeAttr(a.Raw), true
					}
				}
			}
		}
		return "", false
	}
}

func dataURIPayload(get func(string) (string, bool)) func(string) (string, bool) {
	return func(out string) (string, bool) {
		v, ok := get(out)
		if !ok {
			return "", false
		}
		d, err := c18.Decode(strings.TrimSpace(v), false)
		if err != nil {
			return "", false
		}
		return string(d.Payload()), true
	}
}

func cssURL(out string) (string, bool) {
	i := strings.Index(out, "url(")
	if i < 0 {
		return "", false
	}
	rest := out[i+4:]
	j := strings.LastIndex(rest, ")")
	if j < 0 {
		return "", false
	}
	v := strings.TrimSpace(rest[:j])
	if len(v) >= 2 && (v[0] == '"' || v[0] == '\'') && v[len(v)-1] == v[0] {
		q := v[0]
		v = v[1 : len(v)-1]
		for k := 0; k < len(v); k++ {
			if v[k] == '\\' {
				k++
			} else if v[k] == q {
				return "", false // the string ends here: the rest is not part of the URL
			}
		}
		v = strings.NewReplacer(`\"`, `"`, `\'`, `'`, `\\`, `\`).Replace(v)
	} else if strings.ContainsAny(v, "\"'() \t\n") {
		return "", false // an unquoted url() may not contain quotes, parentheses or white space (CSS Syntax: bad-url token)
	}
	return v, true
}

func jsPre(s string) string {
	s = strings.TrimSpace(s)
	if len(s) >= 11 && strings.EqualFold(s[:11], "javascript:") {
		s = s[11:]
	}
	return s
}

func pctEncode(s string) string {
	var b strings.Builder
	for i := 0; i < len(s); i++ {
		c := s[i]
		if c >= 'a' && c <= 'z' || c >= 'A' && c <= 'Z' || c >= '0' && c <= '9' || strings.IndexByte("-._~", c) >= 0 {
			b.WriteByte(c)
		} else {
			fmt.Fprintf(&b, "%%%02X", c)
		}
	}
	return b.String()
}

var hosts = []host{
	{name: "html script", hostType: "text/html", build: func(p string) string { return "<script>" + p + "</script>" }, wantType: "application/javascript", pre: ident, extract: htmlElemText("script"), rawText: true},
	{name: "html script type=text/javascript", hostType: "text/html", build: func(p string) string { return "<script type=\"text/javascript\">" + p + "</script>" }, wantType: "text/javascript", pre: ident, extract: htmlElemText("script"), rawText: true},
	// media types compare case-insensitively (RFC 2045 5.1): the minifier itself treats this spelling as the JavaScript default
	{name: "html script type=Text/JavaScript", hostType: "text/html", build: func(p string) string { return "<script type=\"Text/JavaScript\">" + p + "</script>" }, wantType: "text/javascript", pre: ident, extract: htmlElemText("script"), rawText: true},
	{name: "html script type=module", hostType: "text/html", build: func(p string) string { return "<script type=module>" + p + "</script>" }, wantType: "module", pre: ident, extract: htmlElemText("script"), rawText: true},
	{name: "html script type=application/ld+json", hostType: "text/html", build: func(p string) string { return "<script type=\"application/ld+json\">" + p + "</script>" }, wantType: "application/ld+json", pre: ident, extract: htmlElemText("script"), rawText: true},
	{name: "html script type=text/x-tmpl;a=b", hostType: "text/html", build: func(p string) string { return "<script type=\"text/x-tmpl; a=b\">" + p + "</script>" }, wantType: "text/x-tmpl", wantParams: "a=b;", pre: ident, extract: htmlElemText("script"), rawText: true},
	{name: "html style", hostType: "text/html", build: func(p string) string { return "<style>" + p + "</style>" }, wantType: "text/css", pre: ident, extract: htmlElemText("style"), rawText: true},
	{name: "html style type=text/css", hostType: "text/html", build: func(p string) string { return "<style type=\"text/css\">" + p + "</style>" }, wantType: "text/css", pre: ident, extract: htmlElemText("style"), rawText: true},
	// per-element state must not leak: an earlier typed raw-text element WITHOUT content, then an untyped one
	{name: "html style after empty typed script", hostType: "text/html", build: func(p string) string { return "<script type=module src=a.js></script><style>" + p + "</style>" }, wantType: "text/css", pre: ident, extract: htmlLastElemText("style"), rawText: true},
	{name: "html script after empty ld+json script", hostType: "text/html", build: func(p string) string {
		return "<script type=\"application/ld+json\" src=x></script><script>" + p + "</script>"
	}, wantType: "application/javascript", pre: ident, extract: htmlLastElemText("script"), rawText: true},
	{name: "html script after empty unknown-typed style", hostType: "text/html", build: func(p string) string { return "<style type=\"text/x-unknown\"></style><script>" + p + "</script>" }, wantType: "application/javascript", pre: ident, extract: htmlLastElemText("script"), rawText: true},
	// an earlier typed raw-text element WITH content, then a raw-text element of the other kind that has attributes but no type
	{name: "html attributed script after typed style", hostType: "text/html", build: func(p string) string {
		return "<style type=\"text/css\">a{color:red}</style><script id=m>" + p + "</script>"
	}, wantType: "application/javascript", pre: ident, extract: htmlLastElemText("script"), rawText: true},
	{name: "html attributed style after typed script", hostType: "text/html", build: func(p string) string {
		return "<script type=\"text/javascript\">f()</script><style media=print>" + p + "</style>"
	}, wantType: "text/css", pre: ident, extract: htmlLastElemText("style"), rawText: true},
	// two dispatched attributes on ONE element: scratch state must not leak from the first into the second
	{name: "html onclick= after style= on the same element", hostType: "text/html", build: func(p string) string {
		return "<p style=\"color:red\" onclick=\"" + attrEscape(p) + "\">x</p>"
	}, wantType: "application/javascript", wantParams: "inline=1;", pre: jsPre, extract: htmlAttr("p", "onclick"), attr: true},
	{name: "html style= after onmouseover= on the same element", hostType: "text/html", build: func(p string) string {
		return "<p onmouseover=\"f()\" style=\"" + attrEscape(p) + "\">x</p>"
	}, wantType: "text/css", wantParams: "inline=1;", pre: strings.TrimSpace, extract: htmlAttr("p", "style"), attr: true},
	{name: "html style= attribute", hostType: "text/html", build: func(p string) string { return "<p style=\"" + attrEscape(p) + "\">x</p>" }, wantType: "text/css", wantParams: "inline=1;", pre: strings.TrimSpace, extract: htmlAttr("p", "style"), attr: true},
	{name: "html onclick= attribute", hostType: "text/html", build: func(p string) string { return "<p onclick=\"" + attrEscape(p) + "\">x</p>" }, wantType: "application/javascript", wantParams: "inline=1;", pre: jsPre, extract: htmlAttr("p", "onclick"), attr: true},
	{name: "html onload=javascript:", hostType: "text/html", build: func(p string) string { return "<p onload=\" JavaScript:" + attrEscape(p) + "\">x</p>" }, wantType: "application/javascript", wantParams: "inline=1;", pre: func(p string) string { return jsPre(" JavaScript:" + p) }, extract: htmlAttr("p", "onload"), attr: true},
	{name: "html href=data:text/css", hostType: "text/html", build: func(p string) string { return "<a href=\"data:text/css," + pctEncode(p+pad) + "\">x</a>" }, wantType: "text/css", pre: func(p string) string { return p + pad }, dataURI: true, extract: dataURIPayload(htmlAttr("a", "href")), attr: true},
	{name: "html img src=data:image/svg+xml;base64", hostType: "text/html", build: func(p string) string { return "<img src=\"data:image/svg+xml;base64," + b64(p+pad) + "\">" }, wantType: "image/svg+xml", pre: func(p string) string { return p + pad }, dataURI: true, extract: dataURIPayload(htmlAttr("img", "src")), attr: true},
	// an SVG inside HTML: the SVG minifier runs in inline mode, its style element is still a whole style sheet
	{name: "html inline svg style element", via: "image/svg+xml", hostType: "text/html", build: func(p string) string { return "<p>x</p><svg><style>" + xmlTextEscape(p) + "</style><g/></svg>" }, wantType: "text/css", pre: strings.TrimSpace, extract: svgStyleText},
	{name: "html inline svg style= attribute", via: "image/svg+xml", hostType: "text/html", build: func(p string) string { return "<p>x</p><svg><g style=\"" + xmlAttrEscape(p) + "\"/></svg>" }, wantType: "text/css", wantParams: "inline=1;", pre: xmlAttrNorm, extract: svgAttr("g", "style"), attr: true},
	// non-ASCII text on the line of the resource: an error of the embedded minifier is reported at a character position
	{name: "html script after non-ASCII text", hostType: "text/html", build: func(p string) string { return "<p>" + nonASCII + "</p><script>" + p + "</script>" }, wantType: "application/javascript", pre: ident, extract: htmlElemText("script"), rawText: true},
	{name: "html onclick= after non-ASCII attribute", hostType: "text/html", build: func(p string) string {
		return "<button title=\"" + nonASCII + "\" onclick=\"" + attrEscape(p) + "\">x</button>"
	}, wantType: "application/javascript", wantParams: "inline=1;", pre: jsPre, extract: htmlAttr("button", "onclick"), attr: true},
	{name: "svg style element after non-ASCII title", hostType: "image/svg+xml", build: func(p string) string {
		return "<svg><title>" + nonASCII + "</title><style>" + xmlTextEscape(p) + "</style><g/></svg>"
	}, wantType: "text/css", pre: strings.TrimSpace, extract: svgStyleText},
	// the style element names its own language (SVG 1.1 6.2: the type attribute of style overrides contentStyleType)
	{name: "svg style element type=text/x-foo", hostType: "image/svg+xml", build: func(p string) string { return "<svg><style type=\"text/x-foo\">" + xmlTextEscape(p) + "</style><g/></svg>" }, wantType: "text/x-foo", pre: strings.TrimSpace, extract: svgStyleText},
	{name: "svg style element", hostType: "image/svg+xml", build: func(p string) string { return "<svg><style>" + xmlTextEscape(p) + "</style><g/></svg>" }, wantType: "text/css", pre: strings.TrimSpace, extract: svgStyleText},
	{name: "svg style CDATA", hostType: "image/svg+xml", build: func(p string) string { return "<svg><style><![CDATA[" + p + "]]></style><g/></svg>" }, wantType: "text/css", pre: ident, extract: svgStyleText},
	{name: "svg style= attribute", hostType: "image/svg+xml", build: func(p string) string { return "<svg><g style=\"" + xmlAttrEscape(p) + "\"/></svg>" }, wantType: "text/css", wantParams: "inline=1;", pre: xmlAttrNorm, extract: svgAttr("g", "style"), attr: true},
	{name: "css single-quoted url(data:image/svg+xml)", hostType: "text/css", build: func(p string) string { return "a{b:url('data:image/svg+xml," + pctEncode(p+pad) + "')}" }, wantType: "image/svg+xml", pre: func(p string) string { return p + pad }, dataURI: true, extract: dataURIPayload(cssURL), attr: true},
	{name: "css unquoted url(data:image/svg+xml)", hostType: "text/css", build: func(p string) string { return "a{b:url(data:image/svg+xml," + pctEncode(p+pad) + ")}" }, wantType: "image/svg+xml", pre: func(p string) string { return p + pad }, dataURI: true, extract: dataURIPayload(cssURL), attr: true},
	{name: "html style= with unquoted url(data:image/svg+xml)", hostType: "text/html", via: "text/css", build: func(p string) string {
		return "<p style=\"b:url(data:image/svg+xml," + pctEncode(p+pad) + ")\">x</p>"
	}, wantType: "image/svg+xml", pre: func(p string) string { return p + pad }, dataURI: true, extract: dataURIPayload(func(out string) (string, bool) {
		v, ok := htmlAttr("p", "style")(out)
		if !ok {
			return "", false
		}
		return cssURL(v)
	}), attr: true},
	// the content of an iframe is a document of its own, dispatched as text/html
	{name: "html iframe content", hostType: "text/html", direct: true, build: func(p string) string { return "<iframe src=x>" + p + "</iframe>" }, wantType: "text/html", pre: ident, extract: htmlElemText("iframe"), rawText: true},
	{name: "css url(data:image/svg+xml)", hostType: "text/css", build: func(p string) string { return "a{b:url(\"data:image/svg+xml," + pctEncode(p+pad) + "\")}" }, wantType: "image/svg+xml", pre: func(p string) string { return p + pad }, dataURI: true, extract: dataURIPayload(cssURL), attr: true},
}

const nonASCII = "Schließen – café menü ÄÖÜ äöü éèêë ñ ø å 日本語 テキスト" // 60 bytes more than characters

func b64(s string) string {
	const tbl = "ABCDEFGHIJKLMNOPQRSTUVWXYZabcdefghijklmnopqrstuvwxyz0123456789+/"
	var b strings.Builder
	bs := []byte(s)
	for i := 0; i < len(bs); i += 3 {
		var v uint32
		n := 0
		for j := 0; j < 3; j++ {
			v <<= 8
			if i+j < len(bs) {
				v |= uint32(bs[i+j])
				n++
			}
		}
		for j := 0; j < 4; j++ {
			if j <= n {
				b.WriteByte(tbl[v>>(18-6*uint(j))&63])
			} else {
				b.WriteByte('=')
			}
		}
	}
	return b.String()
}

var payloads = []string{"a", "a b", " a ", "a{b:c}", "x=1", "a  b", "a\nb", "a'b", "a\"b", "a&b", "a<b", "a>b", "]]>", "a&amp;b", "a%20b", "</b>", "<!--a-->", "a;b", "a{color : red }", "var  x = 1 ;", "{\"a\" : 1 }", "a+b", "a,b", "é", "a\tb", "'", "\"", "\"'", "a=\"b\"", "url(x)"}
var nasties = []string{"\"", "'", "a b", "<", "&amp;", ">", "a\"b'c", "]]>", "&", " x ", "a=b", "`", "\"\"''", "f(x)", ")", "it's(", "\\"}

// CheckOne runs one (host, payload, registry mode) case.
func CheckOne(h host, payload, mode string) (kind, what, out string) {
	if h.rawText && (strings.Contains(strings.ToLower(payload), "</") || strings.Contains(payload, "<!--")) {
		return "skip", "", ""
	}
	if strings.Contains(h.name, "CDATA") && strings.Contains(payload, "]]>") {
		return "skip", "", ""
	}
	rec := &recorder{mode: mode}
	m := minify.New()
	switch h.hostType {
	case "text/html":
		if !h.direct {
			m.Add("text/html", &html.Minifier{})
		}
	case "image/svg+xml":
		m.Add("image/svg+xml", &svg.Minifier{})
	case "text/css":
		m.Add("text/css", &css.Minifier{})
	}
	if h.via == "image/svg+xml" {
		m.Add("image/svg+xml", &svg.Minifier{})
	}
	if h.via == "text/css" {
		m.Add("text/css", &css.Minifier{})
	}
	stubbed := mode != "unregistered" && mode != "real"
	if stubbed {
		if !(h.hostType == "text/css" && h.wantType == "text/css") {
			m.AddFunc(h.wantType, rec.stub(h.wantType))
		}
	}
	if mode == "real" {
		if h.hostType != "text/css" {
			m.Add("text/css", &css.Minifier{})
		}
		m.AddRegexp(jsRe, &js.Minifier{})
		m.AddRegexp(jsonRe, &mjson.Minifier{})
		if h.hostType != "image/svg+xml" && h.via != "image/svg+xml" {
			m.Add("image/svg+xml", &svg.Minifier{})
		}
	}
	doc := h.build(payload)
	var res []byte
	var err error
	call := func() { res, err = m.Bytes(h.hostType, []byte(doc)) }
	if h.direct {
		call = func() {
			var b bytes.Buffer
			err = (&html.Minifier{}).Minify(m, &b, strings.NewReader(doc), nil)
			res = b.Bytes()
			if err != nil {
				res = []byte(doc)
			}
		}
	}
	if p := core.Recover(call); p != "" {
		return "panic", p, ""
	}
	out = string(res)
	pre := h.pre(payload)
	switch {
	case mode == "fail" || mode == "fail-pos" || mode == "fail-scribble":
		if len(rec.calls) == 0 {
			return "", "", out // resource empty after pre-processing: nothing to minify
		}
		if err == nil && mode == "fail-scribble" {
			// where the error is not reported (data: URIs, a recorded finding) the resource is at least handed on
			// as it was: neither the partial output nor the buffer the failing minifier worked in may show
			if got, ok := h.extract(out); !ok || norm(got, h) != norm(pre, h) {
				return "corrupted-on-error", fmt.Sprintf("the embedded minifier failed after writing part of its output and rewriting its input buffer; the outer call returned nil and the resource %q became %q (host output %q)", pre, got, out), out
			}
		}
		if err == nil {
			return "error-swallowed", fmt.Sprintf("the embedded minifier failed but the outer call returned nil and %q", out), out
		}
		if mode == "fail-pos" {
			var pe *parse.Error
			if errors.As(err, &pe) {
				lines := strings.Count(doc, "\n") + 1
				if pe.Line < 1 || pe.Line > lines {
					return "error-position", fmt.Sprintf("error position line %d column %d lies outside the host document (%d lines)", pe.Line, pe.Column, lines), out
				}
				// columns count characters: the position may not lie behind the end of its line
				if ls := strings.Split(doc, "\n"); pe.Line <= len(ls) && pe.Column > utf8.RuneCountInString(ls[pe.Line-1])+1 {
					return "error-position", fmt.Sprintf("error position line %d column %d lies behind the end of that line (%d characters)", pe.Line, pe.Column, utf8.RuneCountInString(ls[pe.Line-1])), out
				}
				// the stub fails at the first byte of what it was given: the position lies at or before the end of the resource
				if mark := h.build("\x01"); strings.Count(mark, "\x01") == 1 && !strings.Contains(doc[:strings.Index(mark, "\x01")], "\n") && pe.Line == 1 {
					start := utf8.RuneCountInString(mark[:strings.Index(mark, "\x01")])
					end := utf8.RuneCountInString(doc) - (utf8.RuneCountInString(mark) - 1 - start)
					// (it may lie before the resource: at the start of the attribute value or of the CDATA section that holds it)
					if pe.Column > end+2 {
						return "error-position", fmt.Sprintf("error position column %d lies behind the embedded resource (characters %d..%d of the line)", pe.Column, start+1, end), out
					}
				}
			}
		}
		return "", "", out
	case err != nil:
		if mode == "real" {
			if _, e2 := m.Bytes(typeWithParams(h), []byte(pre)); e2 != nil {
				return "", "", out // the resource is not valid in its language: the outer call reports it
			}
		}
		return "unexpected-error", err.Error(), out
	}
	got, ok := h.extract(out)
	switch mode {
	case "unregistered":
		if !ok && pre != "" {
			return "embedded-lost", fmt.Sprintf("no embedded value found in %q", out), out
		}
		if norm(got, h) != norm(pre, h) {
			return "unregistered-changed", fmt.Sprintf("no minifier is registered for %s but the embedded bytes %q became %q (host output %q)", h.wantType, pre, got, out), out
		}
	case "real":
		exp, err := m.Bytes(typeWithParams(h), []byte(pre))
		if err != nil {
			return "", "", out // the payload is not valid for its language: the error case
		}
		if !ok && len(exp) > 0 {
			return "embedded-lost", fmt.Sprintf("no embedded value found in %q (expected %q)", out, exp), out
		}
		if (h.attr || strings.HasPrefix(h.name, "svg style")) && strings.TrimSpace(got) == strings.TrimSpace(string(exp)) {
			return "", "", out
		}
		if got != string(exp) {
			return "not-commuting", fmt.Sprintf("embedded value is %q, the %s minifier alone gives %q for %q (host output %q)", got, h.wantType, exp, pre, out), out
		}
	default: // marker and nasty stubs
		if pre == "" && len(rec.calls) == 0 {
			return "", "", out
		}
		if len(rec.calls) != 1 {
			return "stub-calls", fmt.Sprintf("the stub for %s was called %d times (payload %q, host output %q)", h.wantType, len(rec.calls), pre, out), out
		}
		cl := rec.calls[0]
		if cl.in != pre {
			if strings.ContainsAny(pre, "&<") && (strings.Contains(cl.in, "&amp;") || strings.Contains(cl.in, "&lt;")) {
				return "resource-not-entity-decoded", fmt.Sprintf("the embedded minifier received %q, the resource is %q (the character references &amp; / &lt; were not decoded)", cl.in, pre), out
			}
			return "stub-input", fmt.Sprintf("the embedded minifier received %q, the resource is %q", cl.in, pre), out
		}
		if cl.params != h.wantParams {
			return "stub-params", fmt.Sprintf("the embedded minifier received parameters %q, expected %q", cl.params, h.wantParams), out
		}
		if !ok && cl.out != "" {
			if strings.ContainsAny(cl.out, "&<") || strings.Contains(cl.out, "]]>") {
				return "output-not-re-escaped", fmt.Sprintf("the embedded minifier wrote %q; the host output %q cannot be parsed / does not contain it", cl.out, out), out
			}
			return "embedded-lost", fmt.Sprintf("no embedded value found in %q (stub wrote %q)", out, cl.out), out
		}
		want := cl.out
		if h.attr || strings.HasPrefix(h.name, "svg style") {
			// attribute values and SVG text may be trimmed by the host (documented)
			if strings.TrimSpace(got) == strings.TrimSpace(want) {
				return "", "", out
			}
		}
		if got != want {
			if !ok || strings.ContainsAny(want, "&<") || strings.Contains(want, "]]>") {
				return "output-not-re-escaped", fmt.Sprintf("the embedded minifier wrote %q but the host output %q decodes to %q (found=%v)", want, out, got, ok), out
			}
			return "re-escaping", fmt.Sprintf("the embedded minifier wrote %q but the host output %q decodes to %q", want, out, got), out
		}
	}
	return "", "", out
}

func typeWithParams(h host) string {
	if h.wantParams == "" {
		return h.wantType
	}
	return h.wantType + ";" + strings.TrimSuffix(strings.ReplaceAll(h.wantParams, ";", ";"), ";")
}

// norm: what passing through unchanged may still do — trimming in attribute and SVG contexts.
func norm(s string, h host) string {
	if h.attr || h.hostType == "image/svg+xml" {
		return strings.Join(strings.Fields(s), " ")
	}
	return s
}

// Run executes C11.
func Run(c *core.Check) {
	c.Rule = fmt.Sprintf("%d hosts (HTML script with 6 type attributes incl. one in mixed case, style, style=, on*= with and without javascript:, data: URIs percent- and base64-encoded; SVG style element text/CDATA and style=; CSS url(data:…)) x %d payloads (incl. ones that need re-escaping: quotes of both kinds, <, >, &, ]]>, white space, newlines) x registry modes: recording stub (marker output), %d nasty stub outputs, failing stub, failing stub with parse position, failing stub that has written partial output and overwritten the buffer behind its reader, nothing registered, the real minifiers; non-trivial = the host output differs from the host input", len(hosts), len(payloads), len(nasties))
	c.Assumptions = []string{"x/net/html, the own XML reader and the own RFC 2397 decoder extract the embedded value from the host output", "documented pre-processing: trimming of attribute values, removal of a javascript: prefix, entity decoding"}
	modes := []string{"marker", "fail", "fail-pos", "fail-scribble", "unregistered", "real"}
	for _, n := range nasties {
		modes = append(modes, "nasty:"+n)
	}
	type cs struct {
		h    host
		p, m string
	}
	var cases []cs
	for _, h := range hosts {
		for _, p := range payloads {
			for _, m := range modes {
				cases = append(cases, cs{h, p, m})
			}
		}
	}
	c.Family("hosts-x-payloads-x-registries").Bound = fmt.Sprintf("%d cases", len(cases))
	c.ParallelRange("hosts-x-payloads-x-registries", uint64(len(cases)), func(i uint64) {
		x := cases[i]
		kind, what, out := CheckOne(x.h, x.p, x.m)
		if kind == "skip" {
			return
		}
		c.Count(1)
		nt := uint64(0)
		if out != x.h.build(x.p) {
			nt = 1
			c.Nontrivial(x.h.name, x.p, x.m)
		}
		c.AddFamily("hosts-x-payloads-x-registries", 1, nt)
		if kind != "" {
			c.Fail(core.Failure{Family: x.h.name, Input: x.p, Config: "registry=" + x.m, Kind: kind, What: what, Order: i})
		}
		if i%977 == 3 {
			c.Sample(map[string]any{"host": x.h.name, "payload": x.p, "registry": x.m, "host_input": x.h.build(x.p), "host_output": out})
		}
	})
}

// Replay re-executes one failure.
func Replay(f core.Failure) (string, string) {
	for _, h := range hosts {
		if h.name == f.Family {
			k, w, _ := CheckOne(h, f.Input, strings.TrimPrefix(f.Config, "registry="))
			return k, w
		}
	}
	return "replay-error", "unknown host"
}
