package c11

import "regexp"

var jsRe = regexp.MustCompile("^(application|text)/(x-)?(java|ecma)script$|^module$")
var jsonRe = regexp.MustCompile("[/+]json$")
