// Package c18: data URI and media type helpers preserve what they encode.
package c18

import (
	"bytes"
	"encoding/base64"
	"errors"
	"fmt"
	"io"
	"strings"

	minify "github.com/tdewolff/minify/v2"
	"github.com/tdewolff/minify/v2/css"
	"github.com/tdewolff/minify/v2/svg"
	"verif/internal/core"
)

// ---------- own RFC 2397 decoder ----------

type decoded struct {
	mediatype string // normalised: lower case, no whitespace, defaults removed
	lookup    string // media type as written (whitespace removed, default filled in) for the registry lookup
	payload   []byte
	base64    bool
}

func isHex(c byte) bool {
	return c >= '0' && c <= '9' || c >= 'a' && c <= 'f' || c >= 'A' && c <= 'F'
}

func unhex(c byte) byte {
	switch {
	case c <= '9':
		return c - '0'
	case c <= 'F':
		return c - 'A' + 10
	}
	return c - 'a' + 10
}

// pctDecode decodes %XX; strict=true fails on a malformed escape.
func pctDecode(s string, strict bool) ([]byte, bool) {
	out := make([]byte, 0, len(s))
	for i := 0; i < len(s); i++ {
		if s[i] == '%' {
			if i+2 < len(s)+0 && isHex(s[i+1]) && isHex(s[i+2]) || i+2 == len(s)-0 && false {
				out = append(out, unhex(s[i+1])<<4|unhex(s[i+2]))
				i += 2
				continue
			}
			if i+2 <= len(s)-1+0 && false {
			}
			if strict {
				return nil, false
			}
		}
		out = append(out, s[i])
	}
	return out, true
}

// normMediatype: case- and whitespace-insensitive form with the droppable defaults removed.
// Quoted strings are opaque: their bytes are kept as they are (case and white space inside them
// are part of the parameter value) and a ; inside them does not separate parameters.
func normMediatype(mt string) string {
	var parts []string
	var b strings.Builder
	for i := 0; i < len(mt); i++ {
		c := mt[i]
		switch {
		case c == '"':
			b.WriteByte(c)
			for i++; i < len(mt); i++ {
				b.WriteByte(mt[i])
				if mt[i] == '\\' && i+1 < len(mt) {
					i++
					b.WriteByte(mt[i])
				} else if mt[i] == '"' {
					break
				}
			}
		case c == ';':
			parts = append(parts, b.String())
			b.Reset()
		case c == ' ' || c == '\t' || c == '\n' || c == '\r':
		case c >= 'A' && c <= 'Z':
			b.WriteByte(c + 'a' - 'A')
		default:
			b.WriteByte(c)
		}
	}
	parts = append(parts, b.String())
	typ := parts[0]
	if typ == "" {
		typ = "text/plain"
	}
	var params []string
	for _, p := range parts[1:] {
		if p == "charset=us-ascii" || p == "" {
			continue
		}
		params = append(params, p)
	}
	if len(params) == 0 {
		return typ
	}
	return typ + ";" + strings.Join(params, ";")
}

// Payload returns the decoded bytes.
func (d decoded) Payload() []byte { return d.payload }

// Mediatype returns the normalised media type.
func (d decoded) Mediatype() string { return d.mediatype }

var errNotDataURI = errors.New("not a data URI")

// Decode is the reference decoder. strict rejects malformed percent escapes and base64.
func Decode(uri string, strict bool) (decoded, error) {
	var d decoded
	if len(uri) < 5 || !strings.EqualFold(uri[:5], "data:") {
		return d, errNotDataURI
	}
	rest := uri[5:]
	comma := strings.IndexByte(rest, ',')
	if comma < 0 {
		return d, errNotDataURI
	}
	head, data := rest[:comma], rest[comma+1:]
	trim := strings.TrimRight(head, " \t")
	if i := strings.LastIndexByte(trim, ';'); i >= 0 && strings.EqualFold(strings.TrimSpace(trim[i+1:]), "base64") {
		d.base64 = true
		head = trim[:i]
	}
	d.mediatype = normMediatype(head)
	d.lookup = strings.Map(func(r rune) rune {
		if r == ' ' || r == '\t' {
			return -1
		}
		return r
	}, head)
	if d.lookup == "" || d.lookup[0] == ';' {
		d.lookup = "text/plain" + d.lookup
	}
	if d.base64 {
		p, err := base64.StdEncoding.DecodeString(data)
		if err != nil {
			return d, err
		}
		d.payload = p
		return d, nil
	}
	p, ok := pctDecode(data, strict)
	if !ok {
		return d, errors.New("malformed percent escape")
	}
	d.payload = p
	return d, nil
}

// mustEncode: bytes that cannot appear literally in a data URI payload whatever the host.
func mustEncode(c byte) bool { return c <= 0x20 || c >= 0x7F || c == '#' || c == '%' }

// strictKeep: RFC 3986 characters that may appear literally (unreserved, sub-delims, ':' '@' '/' '?').
func strictKeep(c byte) bool {
	return c >= 'a' && c <= 'z' || c >= 'A' && c <= 'Z' || c >= '0' && c <= '9' || strings.IndexByte("-._~!$&'()*+,;=:@/?", c) >= 0
}

func pctEncode(p []byte, need func(byte) bool) string {
	var b strings.Builder
	for _, c := range p {
		if need(c) {
			fmt.Fprintf(&b, "%%%02X", c)
		} else {
			b.WriteByte(c)
		}
	}
	return b.String()
}

// htmlSafeEncode: everything RFC 3986 does not allow literally, and '&' (ambiguous with
// character references when the URI sits in an attribute value). An input whose payload
// escapes all of these (or is base64) is "validly encoded" for the never-longer clause.
func htmlSafeEncode(c byte) bool { return !strictKeep(c) || c == '&' }

func isValidEnc(ei int, p []byte) bool {
	if ei == 4 {
		return false
	}
	if ei >= 2 {
		return true
	}
	for _, c := range p {
		if htmlSafeEncode(c) && !(ei == 0 && mustEncode(c)) && !(ei == 1 && c != '&') {
			return false
		}
	}
	return true
}

// ---------- registries ----------

type registry struct {
	name string
	m    *minify.M
}

func upperStub(_ *minify.M, w io.Writer, r io.Reader, _ map[string]string) error {
	b, _ := io.ReadAll(r)
	for i, c := range b {
		if c >= 'a' && c <= 'z' {
			b[i] = c - 'a' + 'A'
		}
	}
	w.Write(b)
	_, err := w.Write(nil)
	return err
}

func shrinkStub(_ *minify.M, w io.Writer, r io.Reader, _ map[string]string) error {
	b, _ := io.ReadAll(r)
	w.Write(bytes.ReplaceAll(b, []byte(" "), nil))
	return nil
}

func failStub(_ *minify.M, w io.Writer, r io.Reader, _ map[string]string) error {
	io.ReadAll(r)
	w.Write([]byte("garbage"))
	return errors.New("stub failure")
}

// scribbleFailStub behaves like a real minifier that fails late: it has already rewritten part
// of its input buffer in place (as minify.Number, parse.ToLower, ... do) when it returns an error.
func scribbleFailStub(_ *minify.M, w io.Writer, r io.Reader, _ map[string]string) error {
	if br, ok := r.(interface{ Bytes() []byte }); ok {
		b := br.Bytes()
		for i := range b {
			if i%2 == 0 {
				b[i] = '#'
			}
		}
	}
	io.ReadAll(r)
	w.Write([]byte("half"))
	return errors.New("stub failure after rewriting the input in place")
}

func registries() []registry {
	none := minify.New()
	real := minify.New()
	real.Add("text/css", &css.Minifier{})
	real.Add("image/svg+xml", &svg.Minifier{})
	stub := minify.New()
	stub.AddFunc("text/plain", upperStub)
	stub.AddFunc("text/css", shrinkStub)
	stub.AddFunc("application/octet-stream", upperStub)
	stub.AddFunc("image/svg+xml", shrinkStub)
	fail := minify.New()
	fail.AddFunc("text/plain", failStub)
	fail.AddFunc("text/css", failStub)
	fail.AddFunc("image/svg+xml", failStub)
	fail.AddFunc("application/octet-stream", failStub)
	scribble := minify.New()
	scribble.AddFunc("text/plain", scribbleFailStub)
	scribble.AddFunc("text/css", scribbleFailStub)
	scribble.AddFunc("image/svg+xml", scribbleFailStub)
	scribble.AddFunc("application/octet-stream", scribbleFailStub)
	return []registry{{"none", none}, {"real-css-svg", real}, {"stub", stub}, {"failing-stub", fail}, {"failing-stub-that-rewrote-its-input", scribble}}
}

const guard = 16

// CheckOne runs DataURI on one input under one registry.
// wellFormed: the input is validly encoded (strict rules apply: equality of decoded content and length).
func CheckOne(reg registry, in string, wellFormed, validEnc bool) (kind, what, out string) {
	kind, what, out = checkOne(reg, in, wellFormed, validEnc, false)
	if kind != "" {
		return
	}
	// the same call on a slice WITH spare capacity: the dependency's parse.Input then works in
	// the caller's buffer instead of a copy, so every in-place rewrite of the embedded minifier
	// reaches the bytes DataURI may hand back
	if k2, w2, o2 := checkOne(reg, in, wellFormed, validEnc, true); k2 != "" {
		return k2 + ":with-spare-capacity", w2, o2
	} else if o2 != out {
		return "capacity-dependent", fmt.Sprintf("result %q for a slice with cap==len, %q for one with spare capacity", out, o2), o2
	}
	return
}

func checkOne(reg registry, in string, wellFormed, validEnc, roomy bool) (kind, what, out string) {
	buf := make([]byte, guard+len(in)+guard)
	for i := range buf {
		buf[i] = 0xAA
	}
	copy(buf[guard:], in)
	arg := buf[guard : guard+len(in) : guard+len(in)] // cap == len: the statement does not forbid use of spare capacity
	if roomy {
		arg = append(make([]byte, 0, len(in)+64), in...)
	}
	var res []byte
	if p := core.Recover(func() { res = minify.DataURI(reg.m, arg) }); p != "" {
		return "panic", p, ""
	}
	out = string(res)
	for i := 0; i < guard; i++ {
		if buf[i] != 0xAA || buf[guard+len(in)+i] != 0xAA {
			return "out-of-bounds-write", fmt.Sprintf("guard byte %d around the argument slice changed", i), out
		}
	}
	din, errIn := Decode(in, false)
	if !wellFormed {
		// malformed variants: RFC 2397 gives them no meaning; only demand totality and that the
		// result is the input or something that decodes.
		if _, err := Decode(out, false); out != in && err != nil {
			return "malformed-garbage", fmt.Sprintf("malformed input turned into undecodable %q", out), out
		}
		return "", "", out
	}
	if errIn != nil {
		// not decodable by the reference: the helper must hand the input back
		if out != in {
			return "malformed-changed", fmt.Sprintf("undecodable input was changed to %q", out), out
		}
		return "", "", out
	}
	dout, errOut := Decode(out, true)
	if errOut != nil {
		if !wellFormed && out == in {
			return "", "", out
		}
		return "output-undecodable", fmt.Sprintf("output %q does not decode: %v", out, errOut), out
	}
	if dout.mediatype != din.mediatype {
		return "mediatype", fmt.Sprintf("output %q has media type %q, input %q", out, dout.mediatype, din.mediatype), out
	}
	// expected payload: what the registered minifier produces for the decoded payload
	// (the registry is consulted with the media type as written: matching is case-sensitive, C15)
	exp, err := reg.m.Bytes(din.lookup, append([]byte{}, din.payload...))
	if err != nil {
		exp = din.payload
	}
	if !bytes.Equal(dout.payload, exp) {
		if !wellFormed && out == in {
			return "", "", out
		}
		// handing the input back is fine when no valid encoding of the minified payload is shorter than it
		if out == in {
			best := len(";base64") + base64.StdEncoding.EncodedLen(len(exp))
			if l := len(pctEncode(exp, htmlSafeEncode)); l < best {
				best = l
			}
			hdr := strings.TrimPrefix(din.mediatype, "text/plain")
			if len(in) <= len("data:,")+len(hdr)+best {
				return "", "", out
			}
		}
		return "payload", fmt.Sprintf("output %q decodes to %q, expected %q (input payload %q)", out, dout.payload, exp, din.payload), out
	}
	// encoding validity of the output payload part
	data := out[strings.IndexByte(out, ',')+1:]
	if !dout.base64 {
		for i := 0; i < len(data); i++ {
			if mustEncode(data[i]) && !(data[i] == '%' && i+2 < len(data) && isHex(data[i+1]) && isHex(data[i+2])) {
				if out == in {
					break // the input handed back unchanged: the helper did not produce this encoding
				}
				return "invalid-encoding", fmt.Sprintf("output %q contains raw byte 0x%02X in its payload", out, data[i]), out
			}
		}
	}
	if validEnc {
		if len(out) > len(in) {
			return "longer", fmt.Sprintf("output %q (%d bytes) is longer than the validly encoded input (%d bytes)", out, len(out), len(in)), out
		}
		// shorter-encoding rule, both directions, each against a bound that cannot raise a false alarm
		b64len := len(";base64") + base64.StdEncoding.EncodedLen(len(exp))
		if !dout.base64 && out != in {
			if len(data) > b64len {
				return "not-shorter-encoding", fmt.Sprintf("output %q percent-encodes in %d bytes, base64 would take %d", out, len(data), b64len), out
			}
		}
		if dout.base64 && out != in {
			strictLen := len(pctEncode(exp, htmlSafeEncode))
			if strictLen < b64len-0 && strictLen < len(data)+len(";base64") {
				return "not-shorter-encoding", fmt.Sprintf("output %q uses base64 (%d bytes) although strict RFC 3986 percent-encoding takes %d", out, len(data)+7, strictLen), out
			}
		}
	}
	return "", "", out
}

var headers = []string{"", "text/plain", "TEXT/Plain", "text/css", "image/svg+xml", "application/octet-stream", ";charset=us-ascii", ";charset=US-ASCII", ";charset=utf-8",
	"text/plain;charset=us-ascii", "text/plain;charset=utf-8", "text/css;charset=us-ascii", "text/css;a=b", "text/plain;a=b;charset=us-ascii", "text/plain;charset=us-ascii;a=b",
	"text/plain;charset=us-asciix", "text/plainx", "text/css;charset=US-ASCII;charset=us-ascii", "Image/SVG+xml;a=B",
	// quoted parameter values: a ; inside them does not start a parameter, their case and white space are kept
	`text/css;x="a;charset=us-ascii;b"`, `text/css;x="q";charset=us-ascii`, `text/css;x="a\";charset=us-ascii;b"`, `text/css;charset=us-ascii;x="A; B"`, `text/plain;x="text/plain;charset=us-ascii"`}

var headersSloppy = []string{" text/plain ", "text/plain ; a = b ", "text/css ;charset=us-ascii", " ; charset=utf-8"}

var alpha = []string{"a", " ", "%", "+", "/", "=", ",", ";", "<", ">", "\"", "#", "\x00", "\x7F", "\x80", "\xFF", "b{c:d}", "&", "'", "a  b"}

func encodings(payload []byte) []string {
	b64 := base64.StdEncoding.EncodeToString(payload)
	return []string{
		"," + pctEncode(payload, mustEncode),
		"," + pctEncode(payload, func(c byte) bool { return !strictKeep(c) }),
		"," + pctEncode(payload, func(byte) bool { return true }),
		";base64," + b64,
		// sloppy but common: everything printable left raw (spaces, quotes, <, >), as hand-written
		// `url("data:image/svg+xml,<svg ...>")`; not validly encoded, but it decodes
		"," + pctEncode(payload, func(c byte) bool { return c < 0x20 || c >= 0x7F || c == '%' || c == '#' }),
	}
}

// encoding index 0 (minimal percent-encoding) leaves characters raw that RFC 3986 does not
// allow in a URI (", <, >, \, ^, `, {, |, }); such input is decodable but not "validly
// encoded", so the never-longer clause is only applied to encodings 1..3.
func runPayloads(c *core.Check, regs []registry, name string, hdrs []string, n uint64, payloadAt func(i uint64) []byte) {
	st := c.Family(name)
	st.Bound = fmt.Sprintf("%d payloads x %d headers x 5 encodings x %d registries", n, len(hdrs), len(regs))
	c.ParallelRange(name, n, func(i uint64) {
		p := payloadAt(i)
		var cases, nt uint64
		for _, h := range hdrs {
			for ei, e := range encodings(p) {
				in := "data:" + h + e
				for _, reg := range regs {
					kind, what, out := CheckOne(reg, in, true, isValidEnc(ei, p))
					cases++
					if out != in {
						nt++
						c.Nontrivial(reg.name, in)
					}
					if kind != "" {
						c.Fail(core.Failure{Family: name, Input: in, Config: "registry=" + reg.name, Kind: kind, What: what, Order: i})
					}
					if i%7919 == 11 && ei == 0 && reg.name == "real-css-svg" && h == "text/css" {
						c.Sample(map[string]any{"in": in, "registry": reg.name, "out": out})
					}
				}
			}
		}
		c.Count(cases)
		c.AddFamily(name, cases, nt)
	})
}

// ---------- Mediatype ----------

func refMediatype(s string) string {
	var b strings.Builder
	inStr := false
	for i := 0; i < len(s); i++ {
		c := s[i]
		if c == '"' {
			inStr = !inStr
		} else if !inStr {
			if c == ' ' || c == '\t' || c == '\n' || c == '\r' || c == '\f' {
				continue
			}
			if c >= 'A' && c <= 'Z' {
				c += 'a' - 'A'
			}
		}
		b.WriteByte(c)
	}
	return b.String()
}

var mtTokens = []string{"text", "/", "HTML", ";", " ", "\t", "charset", "=", `"A b"`, `"x;Y"`, "UTF-8", `""`}

// CheckMediatype runs the Mediatype helper on one string.
func CheckMediatype(in string) (kind, what, out string) {
	buf := make([]byte, guard+len(in)+guard)
	for i := range buf {
		buf[i] = 0xAA
	}
	copy(buf[guard:], in)
	var res []byte
	if p := core.Recover(func() { res = minify.Mediatype(buf[guard : guard+len(in) : guard+len(in)]) }); p != "" {
		return "panic", p, ""
	}
	out = string(res)
	for i := 0; i < guard; i++ {
		if buf[i] != 0xAA || buf[guard+len(in)+i] != 0xAA {
			return "out-of-bounds-write", "guard byte changed", out
		}
	}
	if want := refMediatype(in); out != want {
		return "mediatype-helper", fmt.Sprintf("Mediatype(%q) = %q, reference %q", in, out, want), out
	}
	return "", "", out
}

// Run executes C18.
func Run(c *core.Check) {
	c.Rule = "DataURI: every payload of length <=2 over all 256 byte values and of length <=L over a 20-symbol structural alphabet, encoded five ways (minimal percent, RFC 3986 strict percent, full percent, padded base64, and sloppy: printable characters raw), under a list of media-type headers and five registries (none, real css+svg, stubs, failing stubs, failing stubs that have rewritten their input in place); plus malformed variants. Mediatype: every sequence of <=N tokens over a 12-token alphabet incl. quoted strings (balanced quotes only: an unterminated quote has no defined inside/outside), and every single byte and 576 byte pairs in three contexts. Non-trivial = output differs from input; distinct = distinct (registry,input)"
	c.Assumptions = []string{"own RFC 2397 decoder", "expected payload = registry.Bytes(mediatype, decoded payload)", "percent-encoding validity: controls, space, non-ASCII, '#', '%' must be escaped"}
	regs := registries()
	// (a) all byte strings of length <= 2, two headers
	runPayloads(c, regs, "bytes-len<=2", []string{"", "text/css"}, 1+256+65536, func(i uint64) []byte {
		switch {
		case i == 0:
			return nil
		case i <= 256:
			return []byte{byte(i - 1)}
		}
		i -= 257
		return []byte{byte(i >> 8), byte(i)}
	})
	// (b) structural alphabet, all headers for short payloads
	seqS := core.Sequences{K: len(alpha), MaxLen: 2}
	runPayloads(c, regs, "structural-len<=2-all-headers", headers, seqS.Count(), func(i uint64) []byte {
		var b []byte
		for _, k := range seqS.At(i, nil) {
			b = append(b, alpha[k]...)
		}
		return b
	})
	seqL := core.Sequences{K: len(alpha), MaxLen: c.Pick(3, 4)}
	runPayloads(c, regs, "structural-long", []string{"text/css", "image/svg+xml;charset=utf-8", ""}, seqL.Count(), func(i uint64) []byte {
		var b []byte
		for _, k := range seqL.At(i, nil) {
			b = append(b, alpha[k]...)
		}
		return b
	})
	// (c) realistic payloads
	real := []string{"a { color : red }", "<svg xmlns=\"http://www.w3.org/2000/svg\"><path d=\"M 10 10 L 20 20\"/></svg>", "a{b:url(x y)}", "body{margin:0px 0px 0px 0px}", strings.Repeat("\xff\x00", 40), strings.Repeat("a b", 30), "<svg><rect width='10px' height='+5'/></svg>", "a+b", "1 + 1",
		"<svg viewBox=\"0 0 10 10.0\"><path d=\"M0 0L10 10z\" fill=\"#FF0000\" stroke=\"#00FF00\"/></svg>", "A { COLOR : #FF0000 ; MARGIN : 0PX }", "a{b:c}  ", "<svg><text> a  b </text></svg>",
		// no '#' or '%': the sloppy encoding of these contains no escape at all
		"<svg viewBox=\"0 0 10 10.0\"><path d=\"M0 0 L10 10 z\" fill=\"red\"/></svg>", "<svg><rect x=\"0.50\" y=\"1.0\" width=\"10.00\"/></svg>", "A { COLOR : RED ; MARGIN : 0PX 0PX }"}
	runPayloads(c, regs, "realistic", append(append([]string{}, headers...), headersSloppy...), uint64(len(real)), func(i uint64) []byte { return []byte(real[i]) })
	// (d) malformed variants: not well-formed, lenient rules
	mal := []string{"data:", "data:,", "data", "data:text/css", "data:;base64", "data:;base64,!!!!", "data:;base64,YQ", "data:;base64,YQ=", "data:;base64,YQ==", "data:;base64,YQ==x", "data:,%", "data:,%4", "data:,%zz", "data:,%41",
		"data:,a%", "data:,%4g", "dat:,a", "DATA:,a", "data: ; base64 ,YQ==", "data:text/css ; base64,YQ==", "data:;base64;a=b,YQ==", "data:base64,YQ==", "data:,a b", "data:,a#b", "data:,\xff", "data:text/css,a{b:c}#frag", "data:;base64,", "data:;;,a", "data:=,a", "data:,;base64,a"}
	for _, in := range mal {
		for _, reg := range regs {
			kind, what, out := CheckOne(reg, in, false, false)
			c.Count(1)
			c.AddFamily("malformed", 1, 0)
			if out != in {
				c.Nontrivial(reg.name, in)
			}
			if kind != "" {
				c.Fail(core.Failure{Family: "malformed", Input: in, Config: "registry=" + reg.name, Kind: kind, What: what})
			}
		}
	}
	// (e') Mediatype on every byte: `text/x` B `;a=b`, `a="` B `"` and B alone for all 256 byte values
	// and all pairs of the 24 bytes that some notion of white space, case or quoting could touch
	special := []byte{' ', '\t', '\n', '\r', '\f', '\v', 0x85, 0xA0, 0xC2, 0xC3, 0xE3, 0x80, 'A', 'Z', 'a', '"', '\'', ';', '=', '/', 0, 0x7F, 0xFF, '\\'}
	var mtBytes []string
	for b := 0; b < 256; b++ {
		mtBytes = append(mtBytes, string([]byte{byte(b)}))
	}
	for _, x := range special {
		for _, y := range special {
			mtBytes = append(mtBytes, string([]byte{x, y}))
		}
	}
	c.Family("mediatype-bytes").Bound = fmt.Sprintf("%d byte strings x 3 contexts", len(mtBytes))
	c.ParallelRange("mediatype-bytes", uint64(len(mtBytes)), func(i uint64) {
		for _, ctx := range []string{"%s", "text/x%s;a=b", "t/p;a=\"%s\";c"} {
			if strings.Contains(ctx, "\"") && strings.Contains(mtBytes[i], "\"") {
				continue // would unbalance the quotes
			}
			in := strings.Replace(ctx, "%s", mtBytes[i], 1)
			if strings.Count(in, "\"")%2 == 1 {
				continue // an unterminated quoted string has no defined inside/outside
			}
			kind, what, out := CheckMediatype(in)
			c.Count(1)
			nt := uint64(0)
			if out != in {
				nt = 1
				c.Nontrivial("Mediatype", in)
			}
			c.AddFamily("mediatype-bytes", 1, nt)
			if kind != "" {
				c.Fail(core.Failure{Family: "mediatype-helper", Input: in, Kind: kind, What: what, Order: i})
			}
		}
	})
	// (e) Mediatype helper
	seqM := core.Sequences{K: len(mtTokens), MaxLen: c.Pick(5, 7)}
	c.Family("mediatype-helper").Bound = fmt.Sprintf("all sequences of <=%d tokens over %d tokens", seqM.MaxLen, seqM.K)
	c.ParallelRange("mediatype-helper", seqM.Count(), func(i uint64) {
		var b strings.Builder
		for _, k := range seqM.At(i, nil) {
			b.WriteString(mtTokens[k])
		}
		in := b.String()
		kind, what, out := CheckMediatype(in)
		c.Count(1)
		nt := uint64(0)
		if out != in {
			nt = 1
			c.Nontrivial("Mediatype", in)
		}
		c.AddFamily("mediatype-helper", 1, nt)
		if kind != "" {
			c.Fail(core.Failure{Family: "mediatype-helper", Input: in, Kind: kind, What: what, Order: i})
		}
		if i%99991 == 5 {
			c.Sample(map[string]any{"Mediatype_in": in, "out": out})
		}
	})
}

// Replay re-executes one failure.
func Replay(f core.Failure) (string, string) {
	if f.Family == "mediatype-helper" {
		k, w, _ := CheckMediatype(f.Input)
		return k, w
	}
	for _, reg := range registries() {
		if "registry="+reg.name == f.Config {
			k, w, _ := CheckOne(reg, f.Input, f.Family != "malformed", f.Family != "malformed" && f.Kind == "longer")
			return k, w
		}
	}
	return "replay-error", "unknown registry"
}

// Debug prints the verdict for one input under every registry (development aid).
func Debug(in string) {
	for _, reg := range registries() {
		k, w, out := CheckOne(reg, in, true, false)
		fmt.Printf("%s: kind=%q what=%s out=%q\n", reg.name, k, w, out)
	}
}
