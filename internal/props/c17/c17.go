// Package c17: built-in replacement tables agree with the standards. Every entry of every
// table is enumerated (finite), directly and through the public minifier.
package c17

import (
	"bytes"
	"fmt"
	"go/ast"
	"go/parser"
	"go/token"
	stdhtml "html"
	"os"
	"path/filepath"
	"regexp"
	"sort"
	"strings"

	minify "github.com/tdewolff/minify/v2"
	"github.com/tdewolff/minify/v2/css"
	mhtml "github.com/tdewolff/minify/v2/html"
	msvg "github.com/tdewolff/minify/v2/svg"
	mxml "github.com/tdewolff/minify/v2/xml"
	xhtml "golang.org/x/net/html"
	"verif/internal/core"
	"verif/internal/oracle/csscolor"
)

// ---- reference lists written from the standards (HTML Living Standard, CSS Values 4) ----

var booleanStd = set("allowfullscreen async autofocus autoplay checked controls default defer disabled formnovalidate inert ismap itemscope loop multiple muted nomodule novalidate open playsinline readonly required reversed selected shadowrootclonable shadowrootdelegatesfocus shadowrootserializable " +
	"compact declare nohref noresize noshade nowrap truespeed typemustmatch scoped seamless sortable allowpaymentrequest") // not `hidden`: it is an enumerated attribute (hidden, until-found) in the Living Standard
var urlStd = set("action cite data formaction href itemid manifest poster src background longdesc profile usemap classid codebase icon xmlns ping archive itemtype")
var rawStd = set("script style textarea title iframe xmp noembed noframes plaintext svg math") // svg/math: foreign content handed to its own minifier as one unit
var boundaryStd = set("address article aside blockquote body center dd details dialog dir div dl dt fieldset figcaption figure footer form h1 h2 h3 h4 h5 h6 header hgroup hr html legend li listing main menu nav ol optgroup option p plaintext pre search section summary table ul xmp " +
	"caption col colgroup tbody td tfoot th thead tr br " + // table parts, line break
	"head title style script noembed noframes template datalist param source track link meta base area noscript") // not rendered
var lengthAngleUnits = set("px mm q cm in pt pc ch em ex rem vh vw vmin vmax vi vb lh rlh cap ic rex rch svh lvh dvh svw lvw dvw cqw cqh cqi cqb cqmin cqmax deg grad rad turn")
var jsMimeStd = set("application/ecmascript application/javascript application/x-ecmascript application/x-javascript text/ecmascript text/javascript text/javascript1.0 text/javascript1.1 text/javascript1.2 text/javascript1.3 text/javascript1.4 text/javascript1.5 text/jscript text/livescript text/x-ecmascript text/x-javascript")
var svgColorAttrs = set("color fill stroke stop-color flood-color lighting-color solid-color")

func set(s string) map[string]bool {
	m := map[string]bool{}
	for _, f := range strings.Fields(s) {
		m[f] = true
	}
	return m
}

// ---- source extraction of unexported tables ----

var hashComment = regexp.MustCompile(`(?m)^\t(\w+)\s+Hash = 0x[0-9a-f]+ // (\S+)$`)

func hashNames(dir string) map[string]string {
	b, _ := os.ReadFile(filepath.Join(core.Repo, dir, "hash.go"))
	m := map[string]string{}
	for _, x := range hashComment.FindAllStringSubmatch(string(b), -1) {
		m[x[1]] = x[2]
	}
	return m
}

// mapEntries parses `var name = map[...]...{Key: value, …}` and returns key text → value text.
func mapEntries(file, name string) (map[string]string, error) {
	fset := token.NewFileSet()
	f, err := parser.ParseFile(fset, filepath.Join(core.Repo, file), nil, 0)
	if err != nil {
		return nil, err
	}
	src, _ := os.ReadFile(filepath.Join(core.Repo, file))
	text := func(n ast.Node) string {
		return string(src[fset.Position(n.Pos()).Offset:fset.Position(n.End()).Offset])
	}
	out := map[string]string{}
	found := false
	ast.Inspect(f, func(n ast.Node) bool {
		vs, ok := n.(*ast.ValueSpec)
		if !ok || len(vs.Names) != 1 || vs.Names[0].Name != name || len(vs.Values) != 1 {
			return true
		}
		cl, ok := vs.Values[0].(*ast.CompositeLit)
		if !ok {
			return true
		}
		found = true
		for _, e := range cl.Elts {
			if kv, ok := e.(*ast.KeyValueExpr); ok {
				out[strings.Trim(text(kv.Key), `"`)] = text(kv.Value)
			}
		}
		return false
	})
	if !found {
		return nil, fmt.Errorf("table %s not found in %s (renamed? extend /verif/internal/props/c17)", name, file)
	}
	return out, nil
}

type checker struct {
	c *core.Check
	n uint64
}

func (k *checker) entry(table, key, cfg string, ok bool, what string) {
	k.c.Count(1)
	k.c.Nontrivial(table, key, cfg)
	k.c.AddFamily(table, 1, 1)
	k.n++
	if !ok {
		k.c.Fail(core.Failure{Family: table, Input: key, Config: cfg, Kind: "table-entry", What: what, Order: k.n})
	}
}

func htmlOnly() *minify.M {
	m := minify.New()
	m.Add("text/html", &mhtml.Minifier{})
	return m
}

func parseFrag(s string) (text string, attr string, ok bool) {
	ctx := &xhtml.Node{Type: xhtml.ElementNode, Data: "body", DataAtom: 0}
	nodes, err := xhtml.ParseFragment(strings.NewReader(s), ctx)
	if err != nil {
		return "", "", false
	}
	var tb strings.Builder
	var walk func(n *xhtml.Node)
	walk = func(n *xhtml.Node) {
		if n.Type == xhtml.TextNode {
			tb.WriteString(n.Data)
		}
		for _, a := range n.Attr {
			if a.Key == "title" {
				attr = a.Val
			}
		}
		for c := n.FirstChild; c != nil; c = c.NextSibling {
			walk(c)
		}
	}
	for _, n := range nodes {
		walk(n)
	}
	return tb.String(), attr, true
}

// Run executes C17.
func Run(c *core.Check) {
	c.Rule = "every entry of html.EntitiesMap/TextRevEntitiesMap, xml.EntitiesMap/TextRevEntitiesMap, css.ShortenColorHex/ShortenColorName (exported) and of tagMap, attrMap, jsMimetypes, optionalZeroDimension, svg colorAttrMap (read from the source with go/parser) is compared with reference lists written from the standards and with the Go standard library's entity table; every entity is additionally put through the public minifier in text and in an attribute value followed by each of `;`, `=`, letter, digit, space, end, and every element/attribute name of the hash tables is probed behaviourally (boolean minimisation, URL shortening, white-space removal next to the element). Distinct non-trivial = table entries and probes"
	c.Assumptions = []string{"Go html.UnescapeString and golang.org/x/net/html as entity references", "CSS Color 4 named-colour table and the HTML Standard's attribute/element lists as written in /verif/internal/props/c17 and /verif/internal/oracle/csscolor"}
	k := &checker{c: c}
	// 1. HTML entities, directly
	for name, repl := range mhtml.EntitiesMap {
		want := stdhtml.UnescapeString("&" + name + ";")
		got := stdhtml.UnescapeString(string(repl))
		k.entry("html.EntitiesMap", name, "direct", want == got && want != "&"+name+";", fmt.Sprintf("&%s; means %q but its replacement %q means %q", name, want, repl, got))
	}
	for ch, repl := range mhtml.TextRevEntitiesMap {
		k.entry("html.TextRevEntitiesMap", string(ch), "direct", stdhtml.UnescapeString(string(repl)) == string(ch), fmt.Sprintf("%q → %q", ch, repl))
	}
	for name, repl := range mxml.EntitiesMap {
		want := map[string]string{"lt": "<", "gt": ">", "amp": "&", "apos": "'", "quot": "\""}[name]
		k.entry("xml.EntitiesMap", name, "direct", want != "" && string(repl) == want, fmt.Sprintf("&%s; → %q, XML predefines %q", name, repl, want))
	}
	for ch, repl := range mxml.TextRevEntitiesMap {
		k.entry("xml.TextRevEntitiesMap", string(ch), "direct", stdhtml.UnescapeString(string(repl)) == string(ch), fmt.Sprintf("%q → %q", ch, repl))
	}
	// 2. HTML entities through the public minifier, text and attribute, every follower
	var names []string
	for name := range mhtml.EntitiesMap {
		names = append(names, name)
	}
	sort.Strings(names)
	followers := []string{";", ";=", ";a", ";1", "; ", "=", "a", "1", " ", "", ";;", ";&"}
	c.ParallelRange("html-entities-through-minifier", uint64(len(names)*len(followers)), func(i uint64) {
		name, f := names[i/uint64(len(followers))], followers[i%uint64(len(followers))]
		ref := "&" + name + f
		for _, doc := range []string{"<p>x" + ref + "y</p>", "<a title=\"x" + ref + "y\">t</a>", "<a title='" + ref + "'>t</a>", "<p>" + ref + "</p>"} {
			out, err := htmlOnly().String("text/html", doc)
			c.Count(1)
			if err != nil {
				c.Fail(core.Failure{Family: "html-entities-through-minifier", Input: doc, Kind: "error", What: err.Error(), Order: i})
				continue
			}
			it, ia, _ := parseFrag(doc)
			ot, oa, _ := parseFrag(out)
			if out != doc {
				c.Nontrivial("entity-doc", doc)
			}
			c.AddFamily("html-entities-through-minifier", 1, 1)
			if it != ot || ia != oa {
				c.Fail(core.Failure{Family: "html-entities-through-minifier", Input: doc, Kind: "entity-decodes-differently", What: fmt.Sprintf("output %q: text %q / attribute %q became text %q / attribute %q", out, it, ia, ot, oa), Order: i})
			}
		}
	})
	// 3. colours
	for hex, name := range css.ShortenColorHex {
		v, ok := csscolor.Named[string(name)]
		want, ok2 := csscolor.ParseSimple(hex)
		k.entry("css.ShortenColorHex", hex, "direct", ok && ok2 && v == want, fmt.Sprintf("%s → %q: keyword known=%v value %06x, hex value %06x", hex, name, ok, v, want))
	}
	for h, hex := range css.ShortenColorName {
		name := h.String()
		v, ok := csscolor.Named[name]
		want, ok2 := csscolor.ParseSimple(string(hex))
		k.entry("css.ShortenColorName", name, "direct", ok && ok2 && v == want, fmt.Sprintf("%q → %s: is a CSS colour keyword=%v (value %06x), replacement value %06x", name, hex, ok, v, want))
	}
	// through the CSS and SVG minifiers
	mc := minify.New()
	mc.Add("text/css", &css.Minifier{})
	mc.Add("image/svg+xml", &msvg.Minifier{})
	var colours []string
	for n := range csscolor.Named {
		colours = append(colours, n)
	}
	sort.Strings(colours)
	for _, n := range colours {
		hex := fmt.Sprintf("#%06x", csscolor.Named[n])
		for _, in := range []string{n, strings.ToUpper(n), hex, strings.ToUpper(hex)} {
			out, err := mc.String("text/css", "a{color:"+in+"}")
			val := strings.TrimSuffix(strings.TrimPrefix(out, "a{color:"), "}")
			got, ok := csscolor.ParseSimple(val)
			k.entry("colours-through-css", in, "css", err == nil && ok && got == csscolor.Named[n], fmt.Sprintf("a{color:%s} → %q (value %06x, expected %06x)", in, out, got, csscolor.Named[n]))
			out2, err := mc.String("image/svg+xml", `<svg><rect fill="`+in+`"/></svg>`)
			m := regexp.MustCompile(`fill="?([^"/> ]+)`).FindStringSubmatch(out2)
			var got2 uint32
			ok2 := false
			if m != nil {
				got2, ok2 = csscolor.ParseSimple(m[1])
			}
			k.entry("colours-through-svg", in, "svg", err == nil && ok2 && got2 == csscolor.Named[n], fmt.Sprintf("fill=%s → %q", in, out2))
		}
	}
	// 4. trait tables from the source
	hn := hashNames("html")
	lower := func(k string) string {
		if s, ok := hn[k]; ok {
			return s
		}
		return strings.ToLower(strings.ReplaceAll(k, "_", "-"))
	}
	if attrs, err := mapEntries("html/table.go", "attrMap"); err != nil {
		c.Fail(core.Failure{Family: "attrMap", Input: "html/table.go", Kind: "internal-table-not-found", What: err.Error()})
	} else {
		for key, val := range attrs {
			a := lower(key)
			if strings.Contains(val, "booleanAttr") {
				k.entry("attrMap.boolean", a, "source", booleanStd[a], fmt.Sprintf("attribute %q is treated as boolean but the HTML Standard does not define it as a boolean attribute", a))
			}
			if strings.Contains(val, "urlAttr") {
				k.entry("attrMap.url", a, "source", urlStd[a], fmt.Sprintf("attribute %q is treated as URL-valued but the HTML Standard does not define it so", a))
			}
		}
	}
	if tags, err := mapEntries("html/table.go", "tagMap"); err != nil {
		c.Fail(core.Failure{Family: "tagMap", Input: "html/table.go", Kind: "internal-table-not-found", What: err.Error()})
	} else {
		for key, val := range tags {
			t := lower(key)
			if strings.Contains(val, "rawTag") {
				k.entry("tagMap.raw", t, "source", rawStd[t], fmt.Sprintf("element %q is treated as raw text but is neither a raw-text nor an escapable-raw-text element", t))
			}
			if strings.Contains(val, "blockTag") {
				k.entry("tagMap.block", t, "source", boundaryStd[t], fmt.Sprintf("white space is dropped next to <%s>, which is neither block-level, a table part, a line break nor unrendered", t))
			}
		}
	}
	if m, err := mapEntries("html/table.go", "jsMimetypes"); err == nil {
		for key := range m {
			k.entry("jsMimetypes", key, "source", jsMimeStd[key], fmt.Sprintf("%q is not a JavaScript MIME type of the HTML Standard", key))
		}
	} else {
		c.Fail(core.Failure{Family: "jsMimetypes", Input: "html/table.go", Kind: "internal-table-not-found", What: err.Error()})
	}
	if m, err := mapEntries("css/table.go", "optionalZeroDimension"); err == nil {
		for key := range m {
			k.entry("optionalZeroDimension", key, "source", lengthAngleUnits[key], fmt.Sprintf("unit %q is dropped from zero values but is neither a length nor an angle unit", key))
		}
	} else {
		c.Fail(core.Failure{Family: "optionalZeroDimension", Input: "css/table.go", Kind: "internal-table-not-found", What: err.Error()})
	}
	sn := hashNames("svg")
	if m, err := mapEntries("svg/table.go", "colorAttrMap"); err == nil {
		for key := range m {
			a := sn[key]
			if a == "" {
				a = strings.ToLower(strings.ReplaceAll(key, "_", "-"))
			}
			k.entry("svg.colorAttrMap", a, "source", svgColorAttrs[a], fmt.Sprintf("SVG attribute %q is rewritten as a colour but does not take a colour", a))
		}
	} else {
		c.Fail(core.Failure{Family: "svg.colorAttrMap", Input: "svg/table.go", Kind: "internal-table-not-found", What: err.Error()})
	}
	// 5. behavioural probes over every name of the hash table and of the reference lists
	probeNames := map[string]bool{}
	for _, n := range hn {
		probeNames[n] = true
	}
	for _, l := range []map[string]bool{booleanStd, urlStd, boundaryStd, rawStd} {
		for n := range l {
			probeNames[n] = true
		}
	}
	var pn []string
	for n := range probeNames {
		if regexp.MustCompile(`^[a-z][a-z0-9-]*$`).MatchString(n) {
			pn = append(pn, n)
		}
	}
	sort.Strings(pn)
	mu := minify.New()
	mu.Add("text/html", &mhtml.Minifier{})
	for _, n := range pn {
		// boolean: <input n="n"> loses its value only for boolean attributes
		out, _ := mu.String("text/html", `<input `+n+`="`+n+`" data-z=1>`)
		if strings.Contains(out, "<input "+n+" ") || strings.Contains(out, "<input "+n+">") {
			k.entry("probe.boolean", n, "api", booleanStd[n], fmt.Sprintf("<input %s=%q> → %q: the value is dropped as for a boolean attribute, which %q is not", n, n, out, n))
		} else {
			k.entry("probe.boolean", n, "api", true, "")
		}
		// raw text: the first text inside the element is copied as it is (no reference decoded, no white space collapsed);
		// noscript is not in the list: its content is tokenized as markup by the minifier's lexer (and by a parser without scripting)
		if n != "html" && n != "head" && n != "body" && n != "frameset" && n != "frame" && n != "template" && n != "pre" && n != "listing" {
			doc := "<div><" + n + ">a  &amp;lpar;  b<i> c</i></" + n + "></div>"
			if out, err := mu.String("text/html", doc); err == nil {
				k.entry("probe.raw", n, "api", !strings.Contains(out, "a  &amp;lpar;  b") || rawStd[n], fmt.Sprintf("%q → %q: the text is copied unprocessed as for a raw-text element, which <%s> is not", doc, out, n))
			}
		}
		// block boundary: white space next to the element disappears
		void := map[string]bool{"br": true, "hr": true, "img": true, "input": true, "col": true, "area": true, "base": true, "link": true, "meta": true, "param": true, "source": true, "track": true, "wbr": true, "embed": true}
		doc := "<div>a <" + n + ">b</" + n + "> c</div>"
		if void[n] {
			doc = "<div>a <" + n + "> c</div>"
		}
		if n == "html" || n == "head" || n == "body" || n == "title" || n == "textarea" || n == "script" || n == "style" || n == "svg" || n == "math" || n == "iframe" || n == "select" || n == "plaintext" || n == "xmp" || n == "noscript" || n == "template" || n == "frameset" || n == "frame" {
			continue
		}
		out, err := mu.String("text/html", doc)
		if err == nil && (strings.Contains(out, "a<"+n) || strings.Contains(out, n+">c") && !strings.Contains(out, "> c")) {
			k.entry("probe.boundary", n, "api", boundaryStd[n], fmt.Sprintf("%q → %q: white space next to <%s> is removed although it is neither block-level, a table part, a line break nor unrendered", doc, out, n))
		} else {
			k.entry("probe.boundary", n, "api", true, "")
		}
	}
	// replaced elements and form controls render even when they are empty: the white space on
	// both sides of an EMPTY one is significant (the probe above always puts text inside)
	for _, n := range []string{"audio controls", "button", "canvas", "embed", "img", "input", "meter", "object data=x", "progress", "video src=x", "video controls"} {
		name := strings.Fields(n)[0]
		doc := "<div>a <" + n + "></" + name + "> c</div>"
		if name == "embed" || name == "img" || name == "input" {
			doc = "<div>a <" + n + "> c</div>"
		}
		out, err := mu.String("text/html", doc)
		lost := err == nil && (strings.Contains(out, "a<"+name) || !strings.Contains(out, "> c"))
		k.entry("probe.empty-replaced-element", n, "api", !lost, fmt.Sprintf("%q → %q: white space next to the empty replaced element <%s> is removed", doc, out, name))
	}
	c.Sample(map[string]any{"table": "html.EntitiesMap", "entry": "AElig → " + string(mhtml.EntitiesMap["AElig"])})
	c.Sample(map[string]any{"table": "css.ShortenColorHex", "entry": "#000080 → " + string(css.ShortenColorHex["#000080"])})
}

// Replay re-runs the whole (small, finite) check and reports whether the entry still fails.
func Replay(f core.Failure) (string, string) {
	c := core.New("C17", "quick", "exploration")
	Run(c)
	for _, g := range c.Failures() {
		if g.Family == f.Family && g.Input == f.Input && g.Config == f.Config {
			return g.Kind, g.What
		}
	}
	return "", "C17 is finite: re-run ./run.sh C17 quick"
}

var _ = bytes.Equal
