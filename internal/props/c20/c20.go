// Package c20: killing the CLI at any instant never loses the user's only copy.
// Exhaustive crash-point enumeration on the real binary under the ptrace supervisor.
package c20

import (
	"bytes"
	"fmt"
	"os"
	"sort"
	"strings"
	"verif/internal/corpus"
	"verif/internal/vsrun"

	"verif/internal/clitree"
	"verif/internal/core"
	"verif/internal/ptsup"
)

// History is one invocation on one initial tree.
type History struct {
	Name string
	Tree clitree.Tree
	Args []string
}

// inputFiles: the initial regular files that the invocation names as inputs (arguments that
// are files, files under argument directories, and the targets of input symlinks). A
// pre-existing output file that is not an input is meant to be overwritten.
func (h History) inputFiles() map[string]bool {
	in := map[string]bool{}
	var args []string
	for i := 0; i < len(h.Args); i++ {
		a := h.Args[i]
		if a == "-o" || a == "--type" || a == "-p" {
			i++
			continue
		}
		if strings.HasPrefix(a, "-") {
			continue
		}
		args = append(args, strings.TrimSuffix(a, "/"))
	}
	for p, n := range h.Tree {
		if n.Dir {
			continue
		}
		for _, a := range args {
			if p == a || strings.HasPrefix(p, a+"/") {
				in[p] = true
				in[resolve(h.Tree, p)] = true
			}
		}
	}
	return in
}

func rep(s string, n int) []byte { return bytes.Repeat([]byte(s), n)[:n] }

func cssOf(n int) []byte {
	if n == 0 {
		return nil
	}
	return rep("a { color : red ; } \n", n)
}

var samples = map[string]string{
	"css": "a { color : red ; margin : 0px }\n", "js": "var a = 1 ;\nfunction f ( x ) { return x + a ; }\n", "html": "<p> hello   world </p>\n<p>x</p>\n",
	"json": "{ \"a\" : [ 1 , 2 ] }\n", "svg": "<svg> <path d=\"M 10 10 L 20 20\"/> </svg>\n", "xml": "<a> <b> c </b> </a>\n",
}

func histories(thorough bool) []History {
	var hs []History
	for _, ext := range []string{"css", "js", "html", "json", "svg", "xml"} {
		f := "f." + ext
		hs = append(hs, History{"in-place " + ext, clitree.Tree{f: {Data: []byte(samples[ext])}, "other.txt": {Data: []byte("keep")}}, []string{"-o", f, f}})
	}
	sizes := []int{0, 1, 4095, 65537}
	if thorough {
		sizes = append(sizes, 1<<20)
	}
	for _, n := range sizes {
		hs = append(hs, History{fmt.Sprintf("in-place css %d bytes", n), clitree.Tree{"s.css": {Data: cssOf(n)}}, []string{"-o", "s.css", "s.css"}})
	}
	hs = append(hs,
		History{"in-place failing js", clitree.Tree{"bad.js": {Data: []byte("var a = ( 1 ;\n")}}, []string{"-o", "bad.js", "bad.js"}},
		History{"in-place via symlink", clitree.Tree{"real.css": {Data: []byte(samples["css"])}, "link.css": {Link: "real.css"}}, []string{"-o", "link.css", "link.css"}},
		History{"symlink input onto its target", clitree.Tree{"real.css": {Data: []byte(samples["css"])}, "link.css": {Link: "real.css"}}, []string{"-o", "real.css", "link.css"}},
		History{"in-place via hard link", clitree.Tree{"a.css": {Data: []byte(samples["css"])}, "b.css": {Hard: "a.css"}}, []string{"-o", "a.css", "b.css"}},
		History{"in-place mode 0600", clitree.Tree{"p.css": {Data: []byte(samples["css"]), Mode: 0o600}}, []string{"-o", "p.css", "p.css"}},
		History{"separate output file", clitree.Tree{"s.css": {Data: []byte(samples["css"])}}, []string{"-o", "out.css", "s.css"}},
		History{"separate output over existing file", clitree.Tree{"s.css": {Data: []byte(samples["css"])}, "out.css": {Data: []byte("old{}")}}, []string{"-o", "out.css", "s.css"}},
		History{"output directory", clitree.Tree{"s.css": {Data: []byte(samples["css"])}}, []string{"-o", "out/", "s.css"}},
		History{"mirror -r", clitree.Tree{"src/a.css": {Data: []byte(samples["css"])}, "src/sub/b.js": {Data: []byte(samples["js"])}, "src/c.txt": {Data: []byte("t")}}, []string{"-v", "-r", "-o", "out/", "src"}},
		History{"in-place directory -r", clitree.Tree{"src/a.css": {Data: []byte(samples["css"])}, "src/sub/b.js": {Data: []byte(samples["js"])}, "src/c.txt": {Data: []byte("t")}}, []string{"-v", "-r", "-o", ".", "src"}},
		History{"bundle onto first input", clitree.Tree{"a.js": {Data: []byte("var a = 1 ;\n")}, "b.js": {Data: []byte("var b = 2 ;\n")}, "c.js": {Data: []byte("f ( a , b ) ;\n")}}, []string{"-b", "-o", "a.js", "a.js", "b.js", "c.js"}},
		History{"bundle onto last input", clitree.Tree{"a.js": {Data: []byte("var a = 1 ;\n")}, "b.js": {Data: []byte("var b = 2 ;\n")}, "c.js": {Data: []byte("f ( a , b ) ;\n")}}, []string{"-b", "-o", "c.js", "a.js", "b.js", "c.js"}},
		History{"bundle to new file", clitree.Tree{"a.js": {Data: []byte("var a = 1 ;\n")}, "b.js": {Data: []byte("var b = 2 ;\n")}}, []string{"-b", "-o", "all.js", "a.js", "b.js"}},
		History{"sync -s", clitree.Tree{"src/a.css": {Data: []byte(samples["css"])}, "src/c.txt": {Data: []byte("copied verbatim")}, "src/sub/d.bin": {Data: []byte{0, 1, 2}}}, []string{"-v", "-r", "-s", "-o", "out/", "src"}},
		History{"sync -s in place", clitree.Tree{"src/a.css": {Data: []byte(samples["css"])}, "src/c.txt": {Data: []byte("copied verbatim")}}, []string{"-v", "-r", "-s", "-o", ".", "src"}},
		// the same files under two spellings: source directory and output directory are the same directory, reached through a symbolic link
		History{"sync -s onto itself through a directory link", clitree.Tree{"src/a.css": {Data: []byte(samples["css"])}, "src/logo.bin": {Data: []byte("\x89PNG not minified, only copied")}, "alias": {Link: "src"}}, []string{"-v", "-r", "-s", "-o", "alias/", "src/"}},
		History{"mirror -r onto itself through a directory link", clitree.Tree{"src/a.css": {Data: []byte(samples["css"])}, "src/b.js": {Data: []byte(samples["js"])}, "alias": {Link: "src"}}, []string{"-v", "-r", "-o", "alias/", "src/"}},
		History{"preserve all", clitree.Tree{"s.css": {Data: []byte(samples["css"]), Mode: 0o640}}, []string{"-p", "all", "-o", "s.css", "s.css"}},
		History{"preserve none", clitree.Tree{"s.css": {Data: []byte(samples["css"]), Mode: 0o640}}, []string{"--preserve=", "-o", "s.css", "s.css"}},
		History{"two files in place sequential", clitree.Tree{"a.css": {Data: []byte(samples["css"])}, "b.css": {Data: []byte("b { x : y }\n")}}, []string{"-v", "-o", ".", "a.css", "b.css"}},
		// a sibling that already has the backup's name and holds something else
		History{"in-place with a stale sibling .bak", clitree.Tree{"s.css": {Data: []byte(samples["css"])}, "s.css.bak": {Data: []byte("older { version : 1 }\n")}}, []string{"-o", "s.css", "s.css"}},
		// fails only after the parser has rewritten part of its input in place
		History{"in-place failing html", clitree.Tree{"bad.html": {Data: []byte("<P CLASS=x> x   y </P><SCRIPT>var a = ( 1 ;</SCRIPT>\n")}}, []string{"-o", "bad.html", "bad.html"}},
		// an input that merely has the name a backup of the destination would have
		History{"input named like the backup of the output", clitree.Tree{"out.js.bak": {Data: []byte("var a = 1 ;\n")}}, []string{"--type", "js", "-o", "out.js", "out.js.bak"}},
		// two inputs that map to the same destination, which is one of them
		History{"two inputs onto one of them", clitree.Tree{"x.js": {Data: []byte("var top = 1 ;\n")}, "sub/x.js": {Data: []byte("var sub = 2 ;\n")}}, []string{"-v", "-o", ".", "sub/x.js", "x.js"}},
		History{"two inputs with the same name into a directory", clitree.Tree{"a/x.js": {Data: []byte("var top = 1 ;\n")}, "b/x.js": {Data: []byte("var sub = 2 ;\n")}}, []string{"-v", "-o", "out/", "a/x.js", "b/x.js"}},
		History{"type override in place", clitree.Tree{"data.txt": {Data: []byte(samples["json"])}}, []string{"--type", "json", "-o", "data.txt", "data.txt"}},
	)
	return hs
}

type outcome struct {
	ops   []ptsup.Op
	final clitree.Snap
	exit  int
}

// runOnce builds the tree, runs the CLI in the given mode, snapshots and removes the scratch tree.
func runOnce(cli string, h History, mode ptsup.Mode) (*ptsup.Result, clitree.Snap, error) {
	root := clitree.NewRoot()
	defer os.RemoveAll(root)
	if err := h.Tree.Build(root); err != nil {
		return nil, nil, err
	}
	res, err := ptsup.Run(append([]string{cli}, h.Args...), root, root, nil, nil, mode)
	if err != nil {
		return nil, nil, err
	}
	return res, clitree.Snapshot(root), nil
}

func opsString(ops []ptsup.Op) string {
	s := make([]string, len(ops))
	for i, o := range ops {
		s[i] = o.String()
	}
	return strings.Join(s, " ; ")
}

// sameOps compares the first n operations (name and paths).
func sameOps(a, b []ptsup.Op, n int) bool {
	if len(a) < n || len(b) < n {
		return false
	}
	for i := 0; i < n; i++ {
		if a[i].Name != b[i].Name || a[i].Path != b[i].Path || a[i].Path2 != b[i].Path2 {
			return false
		}
	}
	return true
}

// resolve follows symlinks of the initial tree to the regular-file path.
func resolve(t clitree.Tree, p string) string {
	// a leading directory that is a symbolic link (src reached as alias/...)
	for i := 0; i < 8; i++ {
		k := strings.IndexByte(p, '/')
		if k < 0 {
			break
		}
		if n, ok := t[p[:k]]; ok && n.Link != "" {
			p = n.Link + p[k:]
			continue
		}
		break
	}
	for i := 0; i < 8; i++ {
		n, ok := t[p]
		if !ok || n.Link == "" {
			break
		}
		p = n.Link
	}
	if n, ok := t[p]; ok && n.Hard != "" {
		return n.Hard
	}
	return p
}

// invariant checks the crash-state invariant of B7 for one disk state.
func invariant(h History, initial, final, now clitree.Snap, written map[string]bool) []string {
	var v []string
	inputs := h.inputFiles()
	var paths []string
	for p := range initial {
		paths = append(paths, p)
	}
	sort.Strings(paths)
	for _, p := range paths {
		o, isFile := initial.Content(p)
		if !isFile {
			// symlinks/dirs: a symlink that is only read must keep its target
			if strings.HasPrefix(initial[p], "link:") && !written[p] && now[p] != initial[p] && now[p] != final[p] {
				v = append(v, fmt.Sprintf("symlink %s changed from %q to %q", p, initial[p], now[p]))
			}
			continue
		}
		cur, _ := now.Content(p)
		_, curIs := now.Content(p)
		if !written[p] {
			if !curIs || !bytes.Equal(cur, o) {
				v = append(v, fmt.Sprintf("file %s is only read by this invocation but its content changed (now %s)", p, describe(now, p)))
			}
			continue
		}
		if !inputs[p] {
			continue // an output path that already existed: overwriting it is the point of the invocation
		}
		n, nIs := final.Content(p)
		bak, bakIs := now.Content(p + ".bak")
		switch {
		case curIs && bytes.Equal(cur, o):
		case bakIs && bytes.Equal(bak, o):
		case curIs && nIs && bytes.Equal(cur, n):
		default:
			// hard links / symlink aliases: the original may survive under the alias's .bak
			alias := false
			for q := range now {
				if strings.HasSuffix(q, ".bak") {
					if b, ok := now.Content(q); ok && bytes.Equal(b, o) {
						alias = true
					}
				}
			}
			if alias {
				continue
			}
			v = append(v, fmt.Sprintf("file %s: neither it (%s) nor %s.bak (%s) holds the complete original (%d bytes), and it does not hold the complete new output", p, describe(now, p), p, describe(now, p+".bak"), len(o)))
		}
	}
	return v
}

func describe(s clitree.Snap, p string) string {
	b, ok := s.Content(p)
	if !ok {
		if e, ok := s[p]; ok {
			return e
		}
		return "absent"
	}
	if len(b) > 40 {
		return fmt.Sprintf("%d bytes %q…", len(b), b[:40])
	}
	return fmt.Sprintf("%d bytes %q", len(b), b)
}

type job struct {
	h    History
	mode ptsup.Mode
}

// Run executes C20.
func Run(c *core.Check) {
	c.Rule = "for each history (invocation of the real cmd/minify binary on a small tree: in-place for every media type and sizes 0 B..64 KiB+1 (thorough 1 MiB), failing minification, symlink/hard-link aliases, separate output, directory mirror, in-place directory, bundles onto an input, sync, preserve variants): a trace run records the N file-mutating system calls; then for EVERY k in 1..N a fresh tree is built and the process is killed right before operation k executes, and every write/copy operation is additionally torn at 1, n/2 and n-1 bytes; quick makes every write fail with ENOSPC, thorough every operation with ENOSPC/EIO/EACCES. The disk state left behind must satisfy: every file written by the invocation holds its complete original, or <name>.bak does, or it holds the complete new output; files only read are unchanged. Concurrent tasks: the tool is rebuilt with package os routed through a shim (go build -overlay) and 1, 2 (thorough 3) tasks from 7 kinds (in place css/js, separate output, sync copy, bundle onto an input, failing minification, in place through a link) run the real minify(Task) concurrently; every interleaving of their file system operations up to the preemption bound is explored, the invariant is evaluated before every disk-changing operation (torn writes included) and the final tree must equal the sequential one. Non-trivial = a crash state that differs from both the initial and the final tree"
	c.Assumptions = []string{"process kill only (page cache survives); kills inside system calls other than write are equivalent to before/after", "expected new output = content after an undisturbed run (its correctness is C19's business)", "ptrace histories run tasks sequentially (-v or a single task); the worker pool is covered by the concurrent-tasks family: real minify(Task) bodies under the controlled scheduler, preemption-bounded; the channel that hands tasks to workers is not modelled (any assignment of tasks to workers is an interleaving of task bodies)"}
	defer clitree.Cleanup()
	cli, err := clitree.CLI()
	if err != nil {
		fmt.Fprintln(os.Stderr, "BUILD-ERROR:", err)
		os.Exit(2)
	}
	hs := histories(c.Thorough())
	type refT struct {
		res     *ptsup.Result
		initial clitree.Snap
		final   clitree.Snap
		written map[string]bool
	}
	refs := make([]*refT, len(hs))
	var jobs []struct {
		hi   int
		mode ptsup.Mode
	}
	for i, h := range hs {
		root := clitree.NewRoot()
		h.Tree.Build(root)
		initial := clitree.Snapshot(root)
		os.RemoveAll(root)
		res, final, err := runOnce(cli, h, ptsup.Mode{Kind: "trace"})
		if err != nil {
			c.Fail(core.Failure{Family: "trace", Input: h.Name, Kind: "internal-supervisor-error", What: err.Error()})
			continue
		}
		// determinism of the reference trace
		res2, _, _ := runOnce(cli, h, ptsup.Mode{Kind: "trace"})
		if res2 == nil || len(res2.Ops) != len(res.Ops) || !sameOps(res.Ops, res2.Ops, len(res.Ops)) {
			c.Fail(core.Failure{Family: "trace", Input: h.Name, Kind: "internal-nondeterministic-trace", What: "two undisturbed runs gave different operation sequences: " + opsString(res.Ops)})
			continue
		}
		written := map[string]bool{}
		for _, o := range res.Ops {
			if o.Path != "" {
				written[o.Path] = true
				written[resolve(h.Tree, o.Path)] = true
			}
			if o.Path2 != "" {
				written[o.Path2] = true
			}
		}
		// the undisturbed run itself: an input file that was written must end up as its original or as
		// the library's output for it (bundles, whose output is a concatenation, are C19's business)
		if !contains(h.Args, "-b") {
			ins := h.inputFiles()
			for p := range initial {
				o, isFile := initial.Content(p)
				if !isFile || !ins[p] || !written[p] {
					continue
				}
				got, ok := final.Content(p)
				if ok && (bytes.Equal(got, o) || isLibraryOutput(o, got)) {
					continue
				}
				c.Fail(core.Failure{Family: "trace", Input: h.Name + ": minify " + strings.Join(h.Args, " "), Kind: "final-content-lost", What: fmt.Sprintf("after an undisturbed run %s holds %s: neither its original (%d bytes) nor the library's output for it", p, describe(final, p), len(o))})
			}
		}
		refs[i] = &refT{res, initial, final, written}
		c.Count(2)
		c.Sample(map[string]any{"history": h.Name, "args": strings.Join(h.Args, " "), "mutating_ops": opsString(res.Ops)})
		for k := 1; k <= len(res.Ops); k++ {
			jobs = append(jobs, struct {
				hi   int
				mode ptsup.Mode
			}{i, ptsup.Mode{Kind: "kill", K: k}})
			o := res.Ops[k-1]
			if (o.Name == "write" || o.Name == "copy") && o.Len > 1 {
				seen := map[int]bool{}
				tears := []int{1, o.Len / 2, o.Len - 1}
				if o.Name == "copy" {
					tears = []int{1, 7} // the length argument of copy_file_range is a maximum, not the file size
				}
				for _, j := range tears {
					if j > 0 && j < o.Len && !seen[j] {
						seen[j] = true
						jobs = append(jobs, struct {
							hi   int
							mode ptsup.Mode
						}{i, ptsup.Mode{Kind: "tear", K: k, TearLen: j}})
					}
				}
			}
			if !c.Thorough() && (o.Name == "write" || o.Name == "copy") {
				// quick: every write fails with ENOSPC (the error most likely to hit a write and nothing else)
				jobs = append(jobs, struct {
					hi   int
					mode ptsup.Mode
				}{i, ptsup.Mode{Kind: "fail", K: k, Errno: 28}})
			}
			if c.Thorough() {
				for _, e := range []int{28, 5, 13} {
					jobs = append(jobs, struct {
						hi   int
						mode ptsup.Mode
					}{i, ptsup.Mode{Kind: "fail", K: k, Errno: e}})
				}
			}
		}
	}
	c.Family("crash-points").Bound = fmt.Sprintf("%d histories, every mutating system call boundary + torn writes", len(hs))
	states := map[string]bool{}
	c.ParallelRange("crash-points", uint64(len(jobs)), func(i uint64) {
		j := jobs[i]
		h, ref := hs[j.hi], refs[j.hi]
		res, now, err := runOnce(cli, h, j.mode)
		c.Count(1)
		cfg := fmt.Sprintf("%s@%d", j.mode.Kind, j.mode.K)
		if j.mode.Kind == "tear" {
			cfg += fmt.Sprintf(",%d", j.mode.TearLen)
		}
		if j.mode.Kind == "fail" {
			cfg += fmt.Sprintf(",errno=%d", j.mode.Errno)
		}
		cfg += " op=" + ref.res.Ops[j.mode.K-1].String()
		if err != nil {
			c.Fail(core.Failure{Family: "crash-points", Input: h.Name, Config: cfg, Kind: "internal-supervisor-error", What: err.Error()})
			return
		}
		if !res.Reached || !sameOps(ref.res.Ops, res.Ops, j.mode.K) {
			c.Fail(core.Failure{Family: "crash-points", Input: h.Name, Config: cfg, Kind: "internal-nondeterministic-trace", What: "the first k-1 operations differ from the reference trace: " + opsString(res.Ops)})
			return
		}
		nontrivial := fmt.Sprint(now) != fmt.Sprint(ref.initial) && fmt.Sprint(now) != fmt.Sprint(ref.final)
		c.AddFamily("crash-points", 1, 0)
		if nontrivial {
			c.Nontrivial(h.Name, fmt.Sprint(now))
		}
		_ = states
		if v := invariant(h, ref.initial, ref.final, now, ref.written); len(v) > 0 {
			kind := "content-lost"
			if j.mode.Kind == "fail" {
				kind = "content-lost-after-io-error"
			}
			if strings.Contains(v[0], "only read") {
				kind = "read-only-file-modified"
			}
			c.Fail(core.Failure{Family: "crash-points", Input: h.Name + ": minify " + strings.Join(h.Args, " "), Config: cfg, Kind: kind, What: strings.Join(v, "; ") + " | operations so far: " + opsString(res.Ops), Order: i})
		}
	})
	// the worker pool: the tool's own minify(Task) for 2 (thorough 3) tasks at a time under the
	// controlled scheduler, every file system operation a scheduling point, the same invariant
	// at every disk-changing operation of every interleaving
	vsrun.ExploreCLI(c, "concurrent-tasks")
}

func Replay(f core.Failure) (string, string) {
	return "replay-unsupported", "re-run ./run.sh C20 quick: the history name and kill index in the replay file identify the crash point"
}

func contains(l []string, x string) bool {
	for _, y := range l {
		if y == x {
			return true
		}
	}
	return false
}

// isLibraryOutput: got is what some registered minifier makes of orig.
func isLibraryOutput(orig, got []byte) bool {
	for _, t := range corpus.Types {
		if out, err := corpus.Registry().Bytes(t, append([]byte{}, orig...)); err == nil && bytes.Equal(out, got) {
			return true
		}
	}
	return false
}
