// Package c13: a shared minifier registry is safe and deterministic under concurrency.
package c13

import (
	"bytes"
	"crypto/sha256"
	"encoding/hex"
	"errors"
	"fmt"
	"os"
	"os/exec"
	"path/filepath"
	"strings"
	"syscall"
	"time"

	minify "github.com/tdewolff/minify/v2"
	"github.com/tdewolff/minify/v2/js"
	"verif/internal/calls"
	"verif/internal/core"
	"verif/internal/corpus"
	"verif/internal/vsrun"
)

// Digest is the cross-process determinism probe: a hash over the outputs of the corpus and
// of the call alphabet (printed by `vcheck digest`).
func Digest() string {
	h := sha256.New()
	m := corpus.Registry()
	for _, d := range append(append([]corpus.Doc{}, corpus.Valid...), corpus.Failing...) {
		out, err := m.Bytes(d.Type, []byte(d.Text))
		fmt.Fprintf(h, "%s\x00%s\x00%v\x00", d.Type, out, err)
	}
	sh := calls.New()
	for _, c := range calls.Alphabet {
		fmt.Fprintf(h, "%s\x00", c.Run(sh.M))
	}
	for _, c := range calls.DefaultAlphabet {
		fmt.Fprintf(h, "%s\x00", c.Run(nil))
	}
	return hex.EncodeToString(h.Sum(nil))
}

func racePass(c *core.Check) {
	bin := filepath.Join(core.Root, "bin", "freeharness-race")
	cmd := exec.Command("go", "build", "-race", "-o", bin, "./cmd/freeharness")
	cmd.Dir = core.Root
	cmd.Env = append(os.Environ(), "CGO_ENABLED=1")
	if out, err := cmd.CombinedOutput(); err != nil {
		// the race detector needs cgo; if it cannot be built the pass is skipped and says so
		c.Extra["race_pass"] = "SKIPPED: -race build failed: " + strings.TrimSpace(string(out))
		c.Exhaustive = false
		return
	}
	iters := c.Pick(100, 400)
	runs := 0
	for _, procs := range []int{1, 4, 16} {
		cmd := exec.Command(bin, "8", fmt.Sprint(iters), fmt.Sprint(procs), fmt.Sprint(c.Seed))
		cmd.Env = append(os.Environ(), "GORACE=halt_on_error=0 exitcode=66")
		var out bytes.Buffer
		cmd.Stdout, cmd.Stderr = &out, &out
		err := runStallWatched(cmd, 40*time.Second)
		if err == errStalled {
			c.Fail(core.Failure{Family: "free-race-pass", Input: fmt.Sprintf("8 goroutines x %d iterations, GOMAXPROCS=%d", iters, procs), Kind: "deadlock", What: "the free-running harness stopped consuming processor time for 40 s with calls still pending (all goroutines blocked): " + tailStr(out.String())})
			continue
		}
		runs += 3 * 8 * iters
		c.Count(uint64(3 * 8 * iters))
		text := out.String()
		if strings.Contains(text, "WARNING: DATA RACE") {
			i := strings.Index(text, "WARNING: DATA RACE")
			rep := text[i:]
			if len(rep) > 2500 {
				rep = rep[:2500]
			}
			c.Fail(core.Failure{Family: "free-race-pass", Input: fmt.Sprintf("8 goroutines x %d iterations, GOMAXPROCS=%d", iters, procs), Kind: "data-race", What: rep})
		} else if strings.Contains(text, "MISMATCH") {
			i := strings.Index(text, "MISMATCH")
			rep := text[i:]
			if len(rep) > 1500 {
				rep = rep[:1500]
			}
			c.Fail(core.Failure{Family: "free-race-pass", Input: fmt.Sprintf("8 goroutines x %d iterations, GOMAXPROCS=%d", iters, procs), Kind: "concurrent-result-differs", What: rep})
		} else if err != nil {
			c.Fail(core.Failure{Family: "free-race-pass", Input: fmt.Sprintf("GOMAXPROCS=%d", procs), Kind: "free-run-crash", What: err.Error() + ": " + tailStr(text)})
		}
	}
	c.Extra["race_pass"] = fmt.Sprintf("free-running -race build of the same call alphabet: 8 goroutines x %d iterations x 3 registries (shared option structs with non-default options, with zero options, minify.Default) at GOMAXPROCS 1,4,16 = %d calls (sampling companion, not exhaustive)", iters, runs)
}

var errStalled = errors.New("stalled")

// runStallWatched runs the command and kills it when it has consumed no processor time at all for the given span while still
// alive: a process whose goroutines all wait for each other. (Processor time, not wall time: a slow machine delays the harness
// but does not stop its clock of consumed time.) SIGQUIT first, so that the Go runtime prints the goroutine stacks.
func runStallWatched(cmd *exec.Cmd, span time.Duration) error {
	if err := cmd.Start(); err != nil {
		return err
	}
	done := make(chan error, 1)
	go func() { done <- cmd.Wait() }()
	cpu := func() int64 {
		b, err := os.ReadFile(fmt.Sprintf("/proc/%d/stat", cmd.Process.Pid))
		if err != nil {
			return -1
		}
		f := strings.Fields(string(b[bytes.LastIndexByte(b, ')')+1:]))
		if len(f) < 14 {
			return -1
		}
		var u, k int64
		fmt.Sscan(f[11], &u)
		fmt.Sscan(f[12], &k)
		return u + k // clock ticks of user and system time
	}
	var hist []int64 // one sample per second
	t := time.NewTicker(time.Second)
	defer t.Stop()
	for {
		select {
		case err := <-done:
			return err
		case <-t.C:
			hist = append(hist, cpu())
			n := int(span / time.Second)
			// fewer than 3 clock ticks (30 ms) of processor time in the whole span: only the runtime's idle bookkeeping is left
			if len(hist) > n && hist[len(hist)-1] >= 0 && hist[len(hist)-1]-hist[len(hist)-1-n] < 3 {
				cmd.Process.Signal(syscall.SIGQUIT)
				select {
				case <-done:
				case <-time.After(5 * time.Second):
					cmd.Process.Kill()
					<-done
				}
				return errStalled
			}
		}
	}
}

func tailStr(s string) string {
	if len(s) > 1500 {
		return s[len(s)-1500:]
	}
	return s
}

// historyIndependence: B's output after A in the same process/registry equals B's output alone.
func historyIndependence(c *core.Check) {
	docs := append(append([]corpus.Doc{}, corpus.Valid...), corpus.Failing...)
	alone := make([]string, len(docs))
	for i, d := range docs {
		out, err := corpus.Registry().Bytes(d.Type, []byte(d.Text))
		alone[i] = fmt.Sprintf("%s|%v", out, err)
	}
	n := uint64(len(docs) * len(docs))
	c.Family("history-independence").Bound = fmt.Sprintf("all %d ordered pairs of corpus documents, default registry and shared-option registry", n)
	c.ParallelRange("history-independence", n, func(i uint64) {
		a, b := docs[i/uint64(len(docs))], docs[i%uint64(len(docs))]
		m := corpus.Registry()
		ra, _ := m.Bytes(a.Type, []byte(a.Text))
		kept := string(ra)
		out, err := m.Bytes(b.Type, []byte(b.Text))
		c.Count(1)
		c.AddFamily("history-independence", 1, 1)
		if string(ra) != kept {
			// the slice handed out by the first call must stay the caller's: no pooled or shared output buffer
			c.Fail(core.Failure{Family: "history-independence", Input: a.Text + " ⟶ " + b.Text, Config: a.Type + " then " + b.Type, Kind: "earlier-result-overwritten", What: fmt.Sprintf("the result of the first Bytes call was %q; after the second call the same slice reads %q", kept, ra)})
		}
		if got := fmt.Sprintf("%s|%v", out, err); got != alone[i%uint64(len(docs))] {
			c.Fail(core.Failure{Family: "history-independence", Input: a.Text + " ⟶ " + b.Text, Config: a.Type + " then " + b.Type, Kind: "state-survives-call", What: fmt.Sprintf("after minifying A, B gives %q; alone it gives %q", got, alone[i%uint64(len(docs))])})
		}
	})
	// the same call repeated: 24 repetitions of documents with many names per declaration, rule, element or object (whatever
	// order a hash table, a sort of equal keys or a pooled buffer could influence) give the same bytes every time
	many := []corpus.Doc{
		{Type: "application/javascript", Text: "var first=1;for(var [key,value,third,fourth,fifth] of Object.entries(o)){use(key,value,third,fourth,fifth)}var last=2;"},
		{Type: "application/javascript", Text: "var first=1;for(var {alpha,beta,gamma,delta,epsilon} of list){use(alpha,beta,gamma,delta,epsilon)}var last=2;"},
		{Type: "application/javascript", Text: "function f(){var first=1;for(var {alpha,beta,gamma,delta,epsilon} in list){with(o)use(alpha,beta,gamma,delta,epsilon)}var last=2;return eval('x')}"},
		{Type: "application/javascript", Text: "function g(p1,p2,p3){var {a1,a2,a3,a4,a5}=p1,[b1,b2,b3,b4,b5]=p2;if(p3){var c1=a1+b1,c2=a2+b2}for(var d1 in p3)for(var [e1,e2,e3] of p3[d1])h(a3,a4,a5,b3,b4,b5,c1,c2,e1,e2,e3)}"},
		{Type: "text/css", Text: "a{margin:1px;margin-top:2px;padding:0 0 0 0;border:1px solid red;border-color:blue;background:url(a.png) no-repeat 0 0;font:12px/1 a,b,c}b,c,d,e,f{color:red}c,b,a{color:red}@media x{a{b:c}}@media x{d{e:f}}"},
		{Type: "text/html", Text: "<p id=i class=\"e d c b a\" style=\"z:1;y:2;x:3\" data-e=5 data-d=4 data-c=3 data-b=2 data-a=1 hidden title=t lang=en dir=ltr>x<input type=text value=v name=n disabled checked readonly required>"},
		{Type: "image/svg+xml", Text: "<svg xmlns=\"http://www.w3.org/2000/svg\" xmlns:a=\"u:a\" xmlns:b=\"u:b\" a:x=\"1\" b:y=\"2\" width=\"1\" height=\"2\" viewBox=\"0 0 1 2\"><g fill=\"red\" stroke=\"blue\" style=\"c:1;b:2;a:3\"/></svg>"},
		{Type: "application/json", Text: "{\"e\":1,\"d\":2,\"c\":3,\"b\":4,\"a\":5,\"a\":6}"},
		{Type: "text/xml", Text: "<r e=\"1\" d=\"2\" c=\"3\" b=\"4\" a=\"5\" xmlns:q=\"u\" q:z=\"6\"><x/><x/></r>"},
	}
	c.Family("repeat-determinism").Bound = fmt.Sprintf("%d documents with many names per construct x 2 registries (fresh per call, one shared) x name keeping off/on x 24 repetitions", len(many))
	for _, d := range many {
		for _, keep := range []bool{false, true} {
			shared := corpus.Registry()
			if keep {
				shared.Add("application/javascript", &js.Minifier{KeepVarNames: true})
			}
			var first [2]string
			for rep := 0; rep < 24; rep++ {
				fresh := corpus.Registry()
				if keep {
					fresh.Add("application/javascript", &js.Minifier{KeepVarNames: true})
				}
				for ri, m := range []*minify.M{fresh, shared} {
					out, err := m.Bytes(d.Type, []byte(d.Text))
					got := fmt.Sprintf("%s|%v", out, err)
					c.Count(1)
					c.AddFamily("repeat-determinism", 1, 1)
					if rep == 0 {
						first[ri] = got
					} else if got != first[ri] {
						c.Fail(core.Failure{Family: "repeat-determinism", Input: d.Text, Config: fmt.Sprintf("%s KeepVarNames=%v registry=%d", d.Type, keep, ri), Kind: "repeat-differs", What: fmt.Sprintf("repetition %d gives %q, the first call gave %q", rep, got, first[ri])})
					}
				}
			}
			if first[0] != first[1] {
				c.Fail(core.Failure{Family: "repeat-determinism", Input: d.Text, Config: d.Type, Kind: "repeat-differs", What: fmt.Sprintf("a fresh registry gives %q, a registry that has served other calls gives %q", first[0], first[1])})
			}
		}
	}
	// external commands registered with AddCmd: the placeholders $in and $out of the registered command are filled in per call;
	// every sequence of <=3 calls with different inputs over the four ways a command can take its input and deliver its output
	// must give each call its own input back
	{
		mk := func() *minify.M {
			m := minify.New()
			m.AddCmd("x/pipe", exec.Command("cat"))
			m.AddCmd("x/in", exec.Command("cat", "$in"))
			m.AddCmd("x/out", exec.Command("sh", "-c", "cat > $out"))
			m.AddCmd("x/inout", exec.Command("cp", "$in.txt", "$out.txt"))
			return m
		}
		types := []string{"x/pipe", "x/in", "x/out", "x/inout"}
		inputs := []string{"first", "second one", "3"}
		seq := core.Sequences{K: len(types) * len(inputs), MaxLen: 3}
		c.Family("command-minifiers").Bound = fmt.Sprintf("all sequences of <=3 calls over %d command kinds x %d inputs on one registry", len(types), len(inputs))
		for i := uint64(1); i < seq.Count(); i++ {
			m := mk()
			var hist []string
			for _, k := range seq.At(i, nil) {
				typ, in := types[k/len(inputs)], inputs[k%len(inputs)]
				out, err := m.String(typ, in)
				hist = append(hist, typ+":"+in)
				c.Count(1)
				c.AddFamily("command-minifiers", 1, 0)
				if err != nil || out != in {
					c.Fail(core.Failure{Family: "command-minifiers", Input: strings.Join(hist, " ; "), Kind: "state-survives-call", What: fmt.Sprintf("call %d (%s with input %q) returned %q, %v", len(hist), typ, in, out, err)})
					break
				}
			}
		}
	}
	// repeated calls through the shared-option registry: k-th repetition equals the first
	sh := calls.New()
	first := make([]string, len(calls.Alphabet))
	for rep := 0; rep < 3; rep++ {
		for i, cl := range calls.Alphabet {
			if strings.HasPrefix(cl.Name, "Reader") || strings.HasPrefix(cl.Name, "Writer") {
				continue // Reader/Writer need goroutines; covered by the scheduler harness
			}
			got := cl.Run(sh.M)
			c.Count(1)
			if rep == 0 {
				first[i] = got
			} else if got != first[i] {
				c.Fail(core.Failure{Family: "history-independence", Input: cl.Name, Kind: "repeat-differs", What: fmt.Sprintf("repetition %d gives %q, the first call gave %q", rep, got, first[i])})
			}
		}
	}
}

// sharedStateWrites: a call that writes to a registered option struct (any field, exported or
// not: scratch buffers kept "to save allocations", lazily built tables, flags) creates state
// shared between concurrent calls. This is decided deterministically, without any scheduling:
// every call of the alphabet runs alone on a fresh shared registry, and a deep snapshot of all
// option structs must be identical before and after it.
func sharedStateWrites(c *core.Check) {
	n := 0
	for _, mk := range []struct {
		name string
		f    func() *calls.Shared
	}{{"non-default options", calls.New}, {"zero options", calls.NewPlain}} {
		for _, cl := range calls.Alphabet {
			if strings.HasPrefix(cl.Name, "Reader") || strings.HasPrefix(cl.Name, "Writer") {
				continue // need the goroutines of the wrappers; their minifier calls are the same as Minify's
			}
			sh := mk.f()
			before := sh.Snapshot()
			cl.Run(sh.M)
			n++
			c.Count(1)
			if after := sh.Snapshot(); after != before {
				c.Fail(core.Failure{Family: "shared-state-writes", Input: cl.Name, Config: mk.name, Kind: "option-struct-written", What: fmt.Sprintf("a single call changed a registered option struct: before %s, after %s", before, after)})
			}
		}
	}
	c.Family("shared-state-writes").Bound = fmt.Sprintf("%d calls x 2 kinds of shared option structs, deep snapshot incl. unexported fields", n/2)
	c.AddFamily("shared-state-writes", uint64(n), uint64(n))
}

func crossProcess(c *core.Check) {
	self, _ := os.Executable()
	var digests []string
	for _, procs := range []string{"1", "16", "4"} {
		cmd := exec.Command(self, "digest", "x")
		cmd.Env = append(os.Environ(), "GOMAXPROCS="+procs)
		out, err := cmd.Output()
		if err != nil {
			c.Fail(core.Failure{Family: "cross-process", Input: "GOMAXPROCS=" + procs, Kind: "digest-crash", What: err.Error()})
			continue
		}
		lines := strings.Split(strings.TrimSpace(string(out)), "\n")
		digests = append(digests, lines[len(lines)-1])
		c.Count(1)
	}
	for _, d := range digests {
		if d != digests[0] || d != Digest() {
			c.Fail(core.Failure{Family: "cross-process", Input: strings.Join(digests, ","), Kind: "nondeterministic-output", What: "the output digest of the corpus differs between processes / GOMAXPROCS settings"})
			break
		}
	}
	c.Extra["cross_process_digests"] = digests
}

// Run executes C13.
func Run(c *core.Check) {
	// command minifiers create temporary files: they go to a directory of this run, which is removed at the end whatever the
	// tree under test does with them
	if scratch, err := os.MkdirTemp("", "verif-cmd-"); err == nil {
		old := os.Getenv("TMPDIR")
		os.Setenv("TMPDIR", scratch)
		defer func() { os.Setenv("TMPDIR", old); os.RemoveAll(scratch) }()
	}
	c.Rule = "every multiset of N=2 (thorough: also N=3) calls from an 11-call alphabet (Minify/Bytes/String/Reader/Writer/Match over all media types, documents whose embedded content re-enters the registry, shared non-default option structs) and of the 5-call alphabet on the package-level minify.Default registry, all interleavings at every synchronisation operation up to the preemption bound; oracle: each call returns its sequential result, no deadlock, no call ever finds a lock held by another call, option structs unchanged; every call alone leaves every field (also unexported ones) of the registered option structs untouched. Companions (reported separately, sampling): free-running -race pass, history independence over all ordered pairs of corpus documents, cross-process digest"
	c.Assumptions = []string{"cooperative scheduler preempts only at hooked operations; data races in windows without synchronisation are only found by the sampling -race companion", "map iteration order is sampled by repeated processes, not enumerated"}
	vsrun.Explore(c, "c13")
	vsrun.Conform(c)
	sharedStateWrites(c)
	racePass(c)
	historyIndependence(c)
	crossProcess(c)
}

func Replay(f core.Failure) (string, string) {
	return "replay-unsupported", "re-run ./run.sh C13 quick (schedule and scenario are in the replay file)"
}
