// Package c16: options only restrict minification and are honoured.
// Full products of options per minifier on small generated inputs, one "kept construct"
// oracle per option; ECMAScript version gates checked with acorn; precision with the C08
// tolerance; CLI flags against the library fields.
package c16

import (
	"bytes"
	"fmt"
	"os"
	"os/exec"
	"regexp"
	"strings"
	"sync"

	minify "github.com/tdewolff/minify/v2"
	"github.com/tdewolff/minify/v2/css"
	"github.com/tdewolff/minify/v2/html"
	"github.com/tdewolff/minify/v2/js"
	mjson "github.com/tdewolff/minify/v2/json"
	"github.com/tdewolff/minify/v2/svg"
	"github.com/tdewolff/minify/v2/xml"
	xhtml "golang.org/x/net/html"
	"verif/internal/clitree"
	"verif/internal/core"
	"verif/internal/jsoracle"
	"verif/internal/numref"
	c08 "verif/internal/props/c08"
)

// ---------------- HTML: 2^7 option combinations x 4 delimiter sets ----------------

var unquotedAttr = regexp.MustCompile(`(?i)\s([a-z][a-z0-9-]*)=([a-z0-9_.-]+)(?:\s|/?>|$)`)

var htmlPieces = []string{`<p id="a" title=b lang=en>q</p>`, `<i class=k>i</i>`, `<input type="radio" value="on"><input type="text" value="">`, `<p>a</p>`, `<ul><li>x</li><li>y</li></ul>`, `<!-- c -->`, `<!--[if IE]><p>i</p><![endif]-->`, `<!--#include virtual="f" -->`, `<input type="text" value="v" disabled="disabled">`, `<a href="u" class='c d' title=t>t</a>`, ` `, `text `, ` more`,
	`<table><tr><td>1</td><td>2</td></tr></table>`, `<script type="text/javascript">x</script>`, `<b> x </b>`, `<form method="get" action="">f</form>`, `<span> s </span> <em>e</em>`, `<style type="text/css">s{}</style>`, `<td colspan="1">c</td>`, `<option selected="selected">o</option>`, `<dl><dt>t</dt><dd>d</dd></dl>`, "\n",
	// every element whose end tag is omissible appears at least once (KeepEndTags)
	`<select><optgroup label="l"><option>1</option></optgroup><optgroup label="m"><option>2</option></optgroup></select>`,
	`<table><thead><tr><th>h</th></tr></thead><tbody><tr><td>1</td></tr></tbody><tfoot><tr><td>f</td></tr></tfoot></table>`,
	`<ruby>a<rb>b</rb><rt>c</rt><rtc>d</rtc><rp>e</rp></ruby>`}

var delimSets = [][2]string{{"", ""}, {"{{", "}}"}, {"<%", "%>"}, {"<?", "?>"}}

type htmlOpts struct {
	bits   int
	delims int
}

func (o htmlOpts) minifier() *html.Minifier {
	return &html.Minifier{KeepComments: o.bits&1 != 0, KeepSpecialComments: o.bits&2 != 0, KeepDefaultAttrVals: o.bits&4 != 0, KeepDocumentTags: o.bits&8 != 0, KeepEndTags: o.bits&16 != 0, KeepQuotes: o.bits&32 != 0, KeepWhitespace: o.bits&64 != 0, TemplateDelims: delimSets[o.delims]}
}

func (o htmlOpts) String() string {
	names := []string{"KeepComments", "KeepSpecialComments", "KeepDefaultAttrVals", "KeepDocumentTags", "KeepEndTags", "KeepQuotes", "KeepWhitespace"}
	var s []string
	for i, n := range names {
		if o.bits>>i&1 == 1 {
			s = append(s, n)
		}
	}
	return fmt.Sprintf("html{%s} delims=%s%s", strings.Join(s, ","), delimSets[o.delims][0], delimSets[o.delims][1])
}

type tok struct {
	typ   xhtml.TokenType
	name  string
	raw   string
	data  string
	attrs []xhtml.Attribute
}

func tokens(s string) []tok {
	z := xhtml.NewTokenizer(strings.NewReader(s))
	var out []tok
	for {
		tt := z.Next()
		if tt == xhtml.ErrorToken {
			return out
		}
		raw := string(z.Raw())
		t := z.Token()
		out = append(out, tok{tt, t.Data, raw, t.Data, t.Attr})
	}
}

var quotedAttr = regexp.MustCompile(`([a-zA-Z-]+)\s*=\s*["']`)

func checkHTML(in, out string, o htmlOpts) (kind, what string) {
	it, ot := tokens(in), tokens(out)
	pick := func(ts []tok, f func(tok) (string, bool)) []string {
		var r []string
		for _, t := range ts {
			if s, ok := f(t); ok {
				r = append(r, s)
			}
		}
		return r
	}
	subseq := func(a, b []string) bool { // a is a subsequence of b
		j := 0
		for _, x := range b {
			if j < len(a) && a[j] == x {
				j++
			}
		}
		return j == len(a)
	}
	if o.bits&16 != 0 { // KeepEndTags
		f := func(t tok) (string, bool) {
			return t.name, t.typ == xhtml.EndTagToken && t.name != "html" && t.name != "head" && t.name != "body"
		}
		if a, b := pick(it, f), pick(ot, f); !subseq(a, b) {
			return "KeepEndTags", fmt.Sprintf("end tags of the input %v, of the output %v", a, b)
		}
	}
	if o.bits&8 != 0 { // KeepDocumentTags
		f := func(t tok) (string, bool) {
			return fmt.Sprint(t.typ, t.name), (t.typ == xhtml.StartTagToken || t.typ == xhtml.EndTagToken) && (t.name == "html" || t.name == "head" || t.name == "body")
		}
		if a, b := pick(it, f), pick(ot, f); !subseq(a, b) {
			return "KeepDocumentTags", fmt.Sprintf("document tags of the input %v, of the output %v", a, b)
		}
	}
	starts := func(ts []tok) []tok {
		var r []tok
		for _, t := range ts {
			if t.typ == xhtml.StartTagToken || t.typ == xhtml.SelfClosingTagToken {
				r = append(r, t)
			}
		}
		return r
	}
	if o.bits&32 != 0 || o.bits&4 != 0 {
		a, b := starts(it), starts(ot)
		// align start tags by name in order (document tags may vanish)
		j := 0
		for _, x := range a {
			for j < len(b) && b[j].name != x.name {
				j++
			}
			if j >= len(b) {
				break
			}
			y := b[j]
			j++
			if o.bits&4 != 0 { // KeepDefaultAttrVals: same attribute names
				var an, bn []string
				for _, at := range x.attrs {
					// dropping an attribute whose value is empty is a different rewrite (C03), not
					// governed by this option
					if strings.TrimSpace(at.Val) != "" {
						an = append(an, at.Key)
					}
				}
				for _, at := range y.attrs {
					bn = append(bn, at.Key)
				}
				if !subseq(an, bn) {
					return "KeepDefaultAttrVals", fmt.Sprintf("<%s> has attributes %v in the input and %v in the output", x.name, an, bn)
				}
			}
			if o.bits&32 != 0 { // KeepQuotes
				for _, m := range quotedAttr.FindAllStringSubmatch(x.raw, -1) {
					n := strings.ToLower(m[1])
					present := false
					for _, at := range y.attrs {
						if at.Key == n {
							present = true
						}
					}
					// a boolean attribute minimised to its bare name has no value left to quote
					hasValue := regexp.MustCompile(`(?i)\b` + regexp.QuoteMeta(n) + `\s*=`).MatchString(y.raw)
					if present && hasValue && !regexp.MustCompile(`(?i)\b`+regexp.QuoteMeta(n)+`\s*=\s*["']`).MatchString(y.raw) {
						return "KeepQuotes", fmt.Sprintf("attribute %s is quoted in %q but not in %q", n, x.raw, y.raw)
					}
				}
				// and the other way round: the option preserves the author's spelling, an attribute written without quotes whose
				// value needs none does not acquire any
				for _, m := range unquotedAttr.FindAllStringSubmatch(x.raw, -1) {
					n := strings.ToLower(m[1])
					if regexp.MustCompile(`(?i)\s` + regexp.QuoteMeta(n) + `\s*=\s*["']` + regexp.QuoteMeta(m[2]) + `["']`).MatchString(y.raw) {
						return "KeepQuotes", fmt.Sprintf("attribute %s is written without quotes in %q and with quotes in %q", n, x.raw, y.raw)
					}
				}
			}
		}
	}
	comments := func(ts []tok, special bool) []string {
		var r []string
		for _, t := range ts {
			if t.typ == xhtml.CommentToken {
				sp := strings.HasPrefix(t.data, "[if ") || strings.HasPrefix(t.data, "#")
				if !special || sp {
					d := t.data
					if sp && strings.HasPrefix(d, "[if ") {
						d = d[:strings.IndexByte(d, ']')+1] // the content of a conditional comment is minified as HTML
					}
					r = append(r, d)
				}
			}
		}
		return r
	}
	if o.bits&1 != 0 {
		if a, b := comments(it, false), comments(ot, false); strings.Join(a, "\x00") != strings.Join(b, "\x00") {
			return "KeepComments", fmt.Sprintf("comments of the input %q, of the output %q", a, b)
		}
	} else if o.bits&2 != 0 {
		if a, b := comments(it, true), comments(ot, true); strings.Join(a, "\x00") != strings.Join(b, "\x00") {
			return "KeepSpecialComments", fmt.Sprintf("special comments of the input %q, of the output %q", a, b)
		}
	}
	if o.bits&64 != 0 { // KeepWhitespace: white space between a tag and inline content never disappears entirely
		type tx struct {
			lead, trail bool
			words       string
		}
		// strict: only white space that has a tag (not the fragment edge) as its neighbour counts
		texts := func(ts []tok, strict bool) []tx {
			var r []tx
			for i, t := range ts {
				if t.typ == xhtml.TextToken && strings.TrimSpace(t.data) != "" {
					lead, trail := t.data != strings.TrimLeft(t.data, " \n\t"), t.data != strings.TrimRight(t.data, " \n\t")
					if strict {
						isTag := func(j int) bool {
							return j >= 0 && j < len(ts) && (ts[j].typ == xhtml.StartTagToken || ts[j].typ == xhtml.EndTagToken || ts[j].typ == xhtml.SelfClosingTagToken)
						}
						lead = lead && isTag(i-1)
						trail = trail && isTag(i+1)
					}
					r = append(r, tx{lead, trail, strings.Join(strings.Fields(t.data), " ")})
				}
			}
			return r
		}
		a, b := texts(it, true), texts(ot, false)
		if len(a) == len(b) {
			for i := range a {
				if a[i].words == b[i].words && (a[i].lead && !b[i].lead || a[i].trail && !b[i].trail) {
					return "KeepWhitespace", fmt.Sprintf("text %q lost the white space next to a tag (input lead/trail %v/%v, output %v/%v)", a[i].words, a[i].lead, a[i].trail, b[i].lead, b[i].trail)
				}
			}
		}
	}
	if d := delimSets[o.delims]; d[0] != "" {
		spans := func(s string) []string {
			var r []string
			for {
				i := strings.Index(s, d[0])
				if i < 0 {
					return r
				}
				j := strings.Index(s[i:], d[1])
				if j < 0 {
					return r
				}
				r = append(r, s[i:i+j+len(d[1])])
				s = s[i+j+len(d[1]):]
			}
		}
		if a, b := spans(in), spans(out); strings.Join(a, "\x00") != strings.Join(b, "\x00") {
			return "TemplateDelims", fmt.Sprintf("template spans %q became %q", a, b)
		}
	}
	return "", ""
}

func runHTML(c *core.Check) {
	n := c.Pick(2, 3)
	seq := core.Sequences{K: len(htmlPieces), MaxLen: n}
	tmpl := []string{"", "{{ a  b }}", "<% a  b %>", "<? a  b ?>"}
	fam := "html-options"
	c.Family(fam).Bound = fmt.Sprintf("all sequences of <=%d of %d pieces, wrapped with/without document tags x 128 option combinations x 4 delimiter sets", n, len(htmlPieces))
	c.ParallelRange(fam, seq.Count()*2, func(i uint64) {
		var b strings.Builder
		for _, k := range seq.At(i/2, nil) {
			b.WriteString(htmlPieces[k])
		}
		body := b.String()
		for d := 0; d < 4; d++ {
			doc := body + tmpl[d]
			if i%2 == 1 {
				doc = "<!doctype html><html><head><title>t</title></head><body>" + doc + "</body></html>"
			}
			for bits := 0; bits < 128; bits++ {
				o := htmlOpts{bits, d}
				m := minify.New()
				m.Add("text/html", o.minifier())
				out, err := m.String("text/html", doc)
				c.Count(1)
				if err != nil {
					c.Fail(core.Failure{Family: fam, Input: doc, Config: o.String(), Kind: "error", What: err.Error(), Order: i})
					continue
				}
				if out != doc {
					c.Nontrivial(doc, o.String())
				}
				if kind, what := checkHTML(doc, out, o); kind != "" {
					c.Fail(core.Failure{Family: fam, Input: doc, Config: o.String(), Kind: "option-not-honoured:" + kind, What: what + fmt.Sprintf(" | output %q", out), Order: i})
				}
			}
		}
		c.AddFamily(fam, 512, 512)
		if i%997 == 5 {
			c.Sample(map[string]any{"html": body})
		}
	})
}

// ---------------- JS: Version gates ----------------

var versions = []int{5, 2015, 2016, 2017, 2018, 2019, 2020, 2021, 2022}

var jsPrograms = []string{
	"var a=x!=null?x:y", "var a=x===null||x===undefined?y:x", "var a=x==null?void 0:x.p", "var a=x!=null?x.p:void 0", "var a=x&&x.p&&x.p.q", "var a=Math.pow(x,y)", "var a=Math.pow(x,2)", "var s='a\\nb'", "var s='a\\nb\\nc\\nd\\ne'", "var s=\"it's\"+'\"q\"'",
	"try{f()}catch(e){g()}", "try{f()}catch(e){}", "a=a||b", "a=a&&b", "a=a??b", "a||(a=b)", "if(!a)a=b", "a=a?a:b", "var o={a:a,b:b}", "var o={f:function(){return 1}}", "var f=function(x){return x*2}", "function f(a,b){return a+b}", "var a=[1,2,3].map(function(x){return x})",
	"var a=x===undefined?1:2", "var a=typeof x==='undefined'", "if(a){b()}else{c()}", "for(var i=0;i<n;i++){f(i)}", "var a=x*x*x", "var n=1000000", "var n=0.000001", "var b=!0,c=!1", "var u=void 0", "var a=x?x:y", "a=a+1", "a=a*2", "var r=/a\\/b/", "label:for(;;){break label}",
	"class A{constructor(){this.x=1}}", "var a=`t${x}`", "var f=x=>x", "var {p,q}=o", "async function f(){await g()}", "var a=x**y", "var o={...p}", "var a=x?.p", "var a=x??y", "a||=b", "var n=1_000", "class B{x=1;#y=2}", "var a=10n",
	"if(x==null){y()}", "if(x===null||x===undefined){y()}", "var a=x!==null&&x!==undefined?x:y", "var a=x!=null&&x.p", "var a=(x!==null&&x!==void 0)?x.p.q:void 0", "function f(){if(a)return 1;else return 2}", "var s='a'+'b'+c+'d'", "var s='\\x41\\u0042'", "var a=Number(x),b=String(y)", "var a=x===true||x===false",
	// strings for which the backtick form is the shortest, with each escape that has a rule of its own in the quote choice
	"log(\"line1\\0\\nline2\\n\")", "var s='a\\0\"\\'b'", "var s='\\0\\n\\n'", "var s=\"a\\x00\\nb\\n'\\\"\"", "var s='\\u0000\\n\\n'", "var s='$\\n\\n{'", "var s='\\\\\\n\\n'", "var s='\\1\\n\\n'", "var s='a\\\nb\\n\\n'",
}

func leastVersion(w *jsoracle.Worker, text string) int {
	for _, v := range versions {
		if rep, err := w.Parse(jsoracle.ParseReq{Text: text, EcmaVersion: v, SourceType: "script"}); err == nil && rep.OK {
			return v
		}
	}
	return 0
}

func runJS(c *core.Check, pool *jsoracle.Pool) {
	fam := "js-version"
	c.Family(fam).Bound = fmt.Sprintf("%d programs (every rewrite that introduces newer syntax, and newer syntax in the input) x KeepVarNames x %d target versions", len(jsPrograms), len(versions)+1)
	var wg sync.WaitGroup
	for pi := range jsPrograms {
		wg.Add(1)
		go func(pi int) {
			defer wg.Done()
			w := pool.Get()
			defer pool.Put(w)
			text := jsPrograms[pi]
			lin := leastVersion(w, text)
			if lin == 0 {
				return
			}
			for _, keep := range []bool{false, true} {
				for _, v := range append([]int{0}, versions...) {
					m := minify.New()
					m.Add("application/javascript", &js.Minifier{Version: v, KeepVarNames: keep})
					out, err := m.String("application/javascript", text)
					c.Count(1)
					c.AddFamily(fam, 1, 1)
					c.Nontrivial(text, fmt.Sprint(v, keep))
					if err != nil {
						continue
					}
					target := v
					if target == 0 {
						target = 2022
					}
					if target < lin {
						target = lin
					}
					rep, err := w.Parse(jsoracle.ParseReq{Text: out, EcmaVersion: target, SourceType: "script"})
					if err == nil && !rep.OK {
						c.Fail(core.Failure{Family: fam, Input: text, Config: fmt.Sprintf("Version=%d KeepVarNames=%v", v, keep), Kind: "syntax-newer-than-version", What: fmt.Sprintf("output %q does not parse as ES%d (the input needs ES%d): %s", out, target, lin, rep.Error), Order: uint64(pi)})
					}
				}
			}
		}(pi)
	}
	wg.Wait()
}

// ---------------- CSS KeepCSS2, precision (CSS, SVG, JSON, JS) ----------------

var numberLex = []string{"0", "1", "10", "100", "1000", "10000", "1000000", "0.5", ".5", "0.05", "0.001", "0.0001", "0.00001", "1.5", "12.345678", "99.5", "99.95", "0.999", "123456789", "1e3", "1E-3", "1.5e10", "-0.50", "+7.0", "0.0", "3.14159265358979", "2.5e-7", "999999", "0.123456789012345678"}
var precisions = []int{0, 1, 2, 3, 5, 8, 17}

var exponent = regexp.MustCompile(`\d[eE][-+]?\d`)
var hex48 = regexp.MustCompile(`#[0-9a-fA-F]{4}\b|#[0-9a-fA-F]{8}\b`)

func numbersIn(s string) []string {
	return regexp.MustCompile(`[-+]?(\d+\.?\d*|\.\d+)([eE][-+]?\d+)?`).FindAllString(s, -1)
}

func withinPrecision(in, out string, prec int, decimal bool) (bool, string) {
	a, ok1 := numref.Parse(in)
	b, ok2 := numref.Parse(out)
	if !ok1 || !ok2 {
		return false, "not a number"
	}
	fn := "Number"
	if decimal {
		fn = "Decimal"
	}
	_ = fn
	if prec <= 0 || a.IsZero() {
		if a.Equal(b) {
			return true, ""
		}
		return false, fmt.Sprintf("%s is not %s", out, in)
	}
	// same tolerance as C08: half a unit of the prec-th significant digit
	k, _, _ := c08.Tolerance(in, out, prec, decimal)
	if k != "" {
		return false, fmt.Sprintf("%s is more than half a unit of digit %d away from %s", out, prec, in)
	}
	return true, ""
}

func runNumbers(c *core.Check) {
	fam := "precision-and-css2"
	c.Family(fam).Bound = fmt.Sprintf("%d number lexemes x %d precisions x hosts (css dimension, css in function, svg attribute, svg path, json, js) x KeepCSS2 / KeepNumbers", len(numberLex), len(precisions))
	for _, n := range numberLex {
		for _, p := range precisions {
			type host struct {
				name, typ, doc string
				m              minify.Minifier
				decimal        bool
			}
			hosts := []host{
				{"css", "text/css", "a{width:" + n + "px}", &css.Minifier{Precision: p}, false},
				{"css-keepcss2", "text/css", "a{width:" + n + "px}", &css.Minifier{Precision: p, KeepCSS2: true}, true},
				{"css-function", "text/css", "a{transform:translate(" + n + "px)}", &css.Minifier{Precision: p}, false},
				{"svg-attr", "image/svg+xml", `<svg><rect width="` + n + `"/></svg>`, &svg.Minifier{Precision: p}, false},
				{"json", "application/json", "[" + strings.TrimPrefix(strings.TrimPrefix(fixJSON(n), "+"), "") + "]", &mjson.Minifier{Precision: p}, false},
				{"json-keepnumbers", "application/json", "[" + fixJSON(n) + "]", &mjson.Minifier{Precision: p, KeepNumbers: true}, false},
				{"js", "application/javascript", "x=" + strings.TrimPrefix(n, "+"), &js.Minifier{Precision: p}, false},
			}
			for _, h := range hosts {
				m := minify.New()
				m.Add(h.typ, h.m)
				out, err := m.String(h.typ, h.doc)
				c.Count(1)
				c.AddFamily(fam, 1, 1)
				c.Nontrivial(h.name, n, fmt.Sprint(p))
				if err != nil {
					continue
				}
				cfg := fmt.Sprintf("%s precision=%d", h.name, p)
				ins, outs := numbersIn(h.doc), numbersIn(out)
				if h.name == "json-keepnumbers" {
					if len(outs) != 1 || outs[0] != ins[0] {
						c.Fail(core.Failure{Family: fam, Input: h.doc, Config: cfg, Kind: "option-not-honoured:KeepNumbers", What: fmt.Sprintf("number lexeme %q became %q", ins, outs)})
					}
					continue
				}
				if len(outs) != 1 {
					c.Fail(core.Failure{Family: fam, Input: h.doc, Config: cfg, Kind: "number-lost", What: fmt.Sprintf("output %q", out)})
					continue
				}
				if ok, why := withinPrecision(ins[0], outs[0], p, h.decimal); !ok {
					c.Fail(core.Failure{Family: fam, Input: h.doc, Config: cfg, Kind: "precision", What: why + fmt.Sprintf(" | output %q", out)})
				}
				if h.name == "css-keepcss2" && exponent.MatchString(out) && !exponent.MatchString(h.doc) {
					c.Fail(core.Failure{Family: fam, Input: h.doc, Config: cfg, Kind: "option-not-honoured:KeepCSS2", What: fmt.Sprintf("exponent notation in %q", out)})
				}
			}
		}
	}
	// KeepCSS2: colours never become 4/8-digit hex, numbers never get exponents
	for _, v := range []string{"rgba(255,0,0,.5)", "rgba(0,0,0,0)", "rgb(0 0 0 / 50%)", "hsla(0,100%,50%,.2)", "transparent", "#ff000080", "rgba(255,255,255,1)", "1000000px", "0.000001px", "100000%", "rgba(17,34,51,.4)"} {
		doc := "a{color:" + v + ";width:" + v + "}"
		m := minify.New()
		m.Add("text/css", &css.Minifier{KeepCSS2: true})
		out, err := m.String("text/css", doc)
		c.Count(1)
		if err != nil {
			continue
		}
		if hex48.MatchString(out) && !hex48.MatchString(doc) || exponent.MatchString(out) && !exponent.MatchString(doc) {
			c.Fail(core.Failure{Family: fam, Input: doc, Config: "css KeepCSS2", Kind: "option-not-honoured:KeepCSS2", What: fmt.Sprintf("CSS3-only syntax in %q", out)})
		}
	}
	// SVG KeepComments / XML KeepWhitespace quick probes (their semantic oracles are C05/C06)
	// every sequence of <=3 pieces: comments at document level, between siblings, as the only content of
	// an element, next to white space and text
	svgPieces := []string{"<!-- c -->", "<g/>", "<g><!--d--></g>", "<g> <!-- e --> </g>", "<text>t<!--f-->u</text>", " ", "<defs>\n<!-- g -->\n</defs>", "<g><!--h--><path d=\"M0 0\"/></g>"}
	seq := core.Sequences{K: len(svgPieces), MaxLen: 3}
	for i := uint64(1); i < seq.Count(); i++ {
		var b strings.Builder
		b.WriteString("<svg>")
		for _, k := range seq.At(i, nil) {
			b.WriteString(svgPieces[k])
		}
		b.WriteString("</svg>")
		doc := b.String()
		want := strings.Count(doc, "<!--")
		for _, keep := range []bool{false, true} {
			m := minify.New()
			m.Add("image/svg+xml", &svg.Minifier{KeepComments: keep})
			out, _ := m.String("image/svg+xml", doc)
			n := strings.Count(out, "<!--")
			c.Count(1)
			if out != doc {
				c.Nontrivial("svg-keepcomments", doc, fmt.Sprint(keep))
			}
			if keep && n != want || !keep && n != 0 {
				c.Fail(core.Failure{Family: fam, Input: doc, Config: fmt.Sprintf("svg KeepComments=%v", keep), Kind: "option-not-honoured:KeepComments", What: fmt.Sprintf("output %q has %d of %d comments", out, n, want)})
			}
		}
	}
}

func fixJSON(n string) string {
	n = strings.TrimPrefix(n, "+")
	if strings.HasPrefix(n, ".") {
		n = "0" + n
	}
	if strings.HasPrefix(n, "-.") {
		n = "-0" + n[1:]
	}
	return n
}

// ---------------- CLI flags ≡ library fields ----------------

type flagCase struct {
	flag, file, content string
	typ                 string
	lib                 func() minify.Minifier
}

func runCLI(c *core.Check) {
	cli, err := clitree.CLI()
	if err != nil {
		fmt.Fprintln(os.Stderr, "BUILD-ERROR:", err)
		os.Exit(2)
	}
	defer clitree.Cleanup()
	h := `<!doctype html><html><head></head><body><!-- c --><!--[if IE]>x<![endif]--><p class="a" id='b'>x  <b> y </b></p><input type="text"></body></html>`
	cases := []flagCase{
		{"--css-precision=2", "a.css", "a{width:1.23456px}", "text/css", func() minify.Minifier { return &css.Minifier{Precision: 2} }},
		{"--html-keep-comments", "a.html", h, "text/html", func() minify.Minifier { return &html.Minifier{KeepComments: true} }},
		{"--html-keep-special-comments", "a.html", h, "text/html", func() minify.Minifier { return &html.Minifier{KeepSpecialComments: true} }},
		{"--html-keep-default-attrvals", "a.html", h, "text/html", func() minify.Minifier { return &html.Minifier{KeepDefaultAttrVals: true} }},
		{"--html-keep-document-tags", "a.html", h, "text/html", func() minify.Minifier { return &html.Minifier{KeepDocumentTags: true} }},
		{"--html-keep-end-tags", "a.html", h, "text/html", func() minify.Minifier { return &html.Minifier{KeepEndTags: true} }},
		{"--html-keep-whitespace", "a.html", h, "text/html", func() minify.Minifier { return &html.Minifier{KeepWhitespace: true} }},
		{"--html-keep-quotes", "a.html", h, "text/html", func() minify.Minifier { return &html.Minifier{KeepQuotes: true} }},
		{"--js-precision=2", "a.js", "x=1.23456", "application/javascript", func() minify.Minifier { return &js.Minifier{Precision: 2} }},
		{"--js-keep-var-names", "a.js", "function f(abc){return abc}", "application/javascript", func() minify.Minifier { return &js.Minifier{KeepVarNames: true} }},
		{"--js-version=2019", "a.js", "x=a!=null?a:b", "application/javascript", func() minify.Minifier { return &js.Minifier{Version: 2019} }},
		{"--json-precision=2", "a.json", "[1.23456]", "application/json", func() minify.Minifier { return &mjson.Minifier{Precision: 2} }},
		{"--json-keep-numbers", "a.json", "[1.0,1e3]", "application/json", func() minify.Minifier { return &mjson.Minifier{KeepNumbers: true} }},
		{"--svg-keep-comments", "a.svg", "<svg><!--c--><g/></svg>", "image/svg+xml", func() minify.Minifier { return &svg.Minifier{KeepComments: true} }},
		{"--svg-precision=2", "a.svg", `<svg><rect width="1.23456"/></svg>`, "image/svg+xml", func() minify.Minifier { return &svg.Minifier{Precision: 2} }},
		// the template types are served by copies of the HTML minifier: the flags must reach them too
		{"--html-keep-end-tags", "a.php", h, "application/x-httpd-php", func() minify.Minifier {
			return &html.Minifier{KeepEndTags: true, TemplateDelims: [2]string{"<?", "?>"}}
		}},
		{"--html-keep-comments", "a.asp", h, "text/asp", func() minify.Minifier {
			return &html.Minifier{KeepComments: true, TemplateDelims: [2]string{"<%", "%>"}}
		}},
		{"--html-keep-quotes", "a.tmpl", h, "text/x-go-template", func() minify.Minifier { return &html.Minifier{KeepQuotes: true, TemplateDelims: [2]string{"{{", "}}"}} }},
		{"--html-keep-document-tags", "a.mustache", h, "text/x-mustache-template", func() minify.Minifier {
			return &html.Minifier{KeepDocumentTags: true, TemplateDelims: [2]string{"{{", "}}"}}
		}},
		{"--html-keep-default-attrvals", "a.ejs", h, "text/x-ejs-template", func() minify.Minifier {
			return &html.Minifier{KeepDefaultAttrVals: true, TemplateDelims: [2]string{"<%", "%>"}}
		}},
		{"--html-keep-whitespace", "a.handlebars", h, "text/x-handlebars-template", func() minify.Minifier {
			return &html.Minifier{KeepWhitespace: true, TemplateDelims: [2]string{"{{", "}}"}}
		}},
		{"--xml-keep-whitespace", "a.xml", "<a> <b> c </b> </a>", "text/xml", func() minify.Minifier { return &xml.Minifier{KeepWhitespace: true} }},
		{"", "a.css", "a{width:1.23456px}", "text/css", func() minify.Minifier { return &css.Minifier{} }},
		{"", "a.html", h, "text/html", func() minify.Minifier { return &html.Minifier{} }},
		{"", "a.js", "function f(abc){return abc}", "application/javascript", func() minify.Minifier { return &js.Minifier{} }},
	}
	for _, fc := range cases {
		root := clitree.NewRoot()
		os.WriteFile(root+"/"+fc.file, []byte(fc.content), 0o644)
		args := []string{fc.file}
		if fc.flag != "" {
			args = []string{fc.flag, fc.file}
		}
		cmd := exec.Command(cli, args...)
		cmd.Dir = root
		var so, se bytes.Buffer
		cmd.Stdout, cmd.Stderr = &so, &se
		err := cmd.Run()
		os.RemoveAll(root)
		m := minify.New()
		m.Add(fc.typ, fc.lib())
		want, _ := m.String(fc.typ, fc.content)
		got := regexp.MustCompile(`(?m)^\(.*\) - .*\n`).ReplaceAllString(so.String(), "")
		got = strings.TrimPrefix(got, "DEPRECATED: KeepConditionalComments is replaced by KeepSpecialComments\n")
		c.Count(1)
		c.AddFamily("cli-flags", 1, 1)
		c.Nontrivial("cli", fc.flag, fc.file)
		if err != nil || got != want {
			c.Fail(core.Failure{Family: "cli-flags", Input: "minify " + strings.Join(args, " ") + " # " + fc.content, Config: fc.flag, Kind: "cli-flag-differs-from-library", What: fmt.Sprintf("CLI wrote %q (err %v, stderr %q), the library with the corresponding field gives %q", got, err, se.String(), want)})
		}
	}
}

// Run executes C16.
func Run(c *core.Check) {
	c.Rule = "HTML: every sequence of <=2 (thorough <=3) of 23 document pieces (optional end tags, comments, conditional and SSI comments, default attribute values, quoted attributes, inline white space, raw text) with and without document tags x all 128 combinations of the 7 Keep options x 4 template delimiter sets, with one kept-construct oracle per enabled option on the raw token stream (x/net tokenizer); JS: 69 programs (every rewrite that introduces newer syntax, newer syntax already in the input) x KeepVarNames x target versions 0,5,2015..2022, output parsed by acorn at max(target, least version accepting the input); numbers: 29 lexemes x 7 precisions x 7 hosts with the C08 tolerance, KeepCSS2 (no exponents, no 4/8-digit hex), KeepNumbers; SVG KeepComments; each CLI flag against the library field"
	c.Assumptions = []string{"acorn's ecmaVersion gating as the definition of 'syntax newer than version V'", "the semantic guarantees under option combinations are checked by C01 (8 configurations), C03 (9 option sets), C04 (KeepCSS2 x inline), C06/C07 (both settings)"}
	pool, err := jsoracle.NewPool(core.Workers())
	if err != nil {
		fmt.Println("BUILD-ERROR: cannot start node workers:", err)
		c.Exhaustive = false
		return
	}
	defer pool.Close()
	runHTML(c)
	runJS(c, pool)
	runNumbers(c)
	runCLI(c)
}

func Replay(f core.Failure) (string, string) {
	return "replay-unsupported", "re-run ./run.sh C16 quick; the replay file holds input and option set"
}
