// Package c02: JS identifier shortening is capture-free and leaves public names alone.
// Scope shapes with instrumented bindings are executed by V8 (every declaration carries a
// distinct constant, every use site logs the value it sees, closures are called later);
// the output is parsed by acorn for the static clauses.
package c02

import (
	"fmt"
	"sort"
	"strings"
	"sync"

	minify "github.com/tdewolff/minify/v2"
	"github.com/tdewolff/minify/v2/js"
	"verif/internal/core"
	"verif/internal/jsoracle"
)

type prog struct {
	text   string
	mode   string
	static bool // also run the acorn clauses
	module bool
	vers   []int // target versions besides the default (0)
}

func minifyJS(text string, keep bool, mt string, version int) (string, string, string) {
	m := minify.New()
	m.Add(mt, &js.Minifier{KeepVarNames: keep, Version: version})
	var out []byte
	var err error
	if p := core.Recover(func() { out, err = m.Bytes(mt, []byte(text)) }); p != "" {
		return "", "", p
	}
	if err != nil {
		return "", err.Error(), ""
	}
	return string(out), "", ""
}

// ---- scope shapes ----

type scopeKind struct {
	name string
	wrap func(id int, body, param string) string
}

var scopeKinds = []scopeKind{
	{"function", func(id int, b, p string) string { return fmt.Sprintf("(function f%d(%s){%s})(9%d);", id, p, b, id) }},
	{"arrow", func(id int, b, p string) string { return fmt.Sprintf("((%s)=>{%s})(9%d);", p, b, id) }},
	{"method", func(id int, b, p string) string {
		return fmt.Sprintf("var ob%d={m(%s){%s}};ob%d.m(9%d);", id, p, b, id, id)
	}},
	{"class-method", func(id int, b, p string) string { return fmt.Sprintf("new (class{m(%s){%s}})().m(9%d);", p, b, id) }},
	{"block", func(id int, b, p string) string { return "{" + b + "}" }},
	{"for", func(id int, b, p string) string { return fmt.Sprintf("for(let i%d=0;i%d<1;i%d++){%s}", id, id, id, b) }},
	{"for-of", func(id int, b, p string) string {
		return fmt.Sprintf("for(const w%d of [8%d]){h1('w%d',w%d);%s}", id, id, id, id, b)
	}},
	{"switch", func(id int, b, p string) string { return "switch(1){case 1:" + b + "}" }},
	{"catch", func(id int, b, p string) string {
		return fmt.Sprintf("try{throw 7%d}catch(c%d){h1('c%d',c%d);%s}", id, id, id, id, b)
	}},
	{"finally", func(id int, b, p string) string { return "try{}finally{" + b + "}" }},
	{"generator", func(id int, b, p string) string { return fmt.Sprintf("(function*(%s){%s})(9%d).next();", p, b, id) }},
	{"if", func(id int, b, p string) string { return "if(h0()){" + b + "}" }},
	// the else block after a branch that ends in return: the minifier removes the else and moves the block's statements (and
	// with them its let/const/class/function declarations) into the surrounding scope
	{"else-after-return", func(id int, b, p string) string { return "if(typeof h0!='function'){return}else{" + b + "}" }},
	// a class static initialisation block is a scope of its own (a var scope, like a function body)
	{"static-block", func(id int, b, p string) string { return fmt.Sprintf("class K%d{static{%s}}", id, b) }},
}

func isFuncScope(k string) bool {
	switch k {
	case "function", "arrow", "method", "class-method", "generator":
		return true
	}
	return false
}

// declaration kinds: %N name, %K constant
var declKinds = []string{"var %N=%K", "let %N=%K", "const %N=%K", "function %N(){return %K}", "var {%N}={%N:%K}", "class %N{static v(){return %K}}", "PARAM", "var [%N]=[%K]", "var %N;%N=%K"}

// name schemes: distinct names, the same name at every level (shadowing), names equal to the renamer's first picks
var nameSchemes = [][]string{{"va", "vb", "vc"}, {"x", "x", "x"}, {"e", "t", "n"}, {"t", "e", "t"}}

func build(kinds []int, decls []int, scheme []string) string {
	var rec func(level int) string
	rec = func(level int) string {
		if level == len(kinds) {
			return ""
		}
		k := scopeKinds[kinds[level]]
		name := scheme[level]
		cst := fmt.Sprint(100*(level+1) + 11)
		d := declKinds[decls[level]]
		param := ""
		decl := ""
		if d == "PARAM" {
			if isFuncScope(k.name) {
				param = name + "=" + cst
			} else {
				decl = "let " + name + "=" + cst
			}
		} else {
			decl = strings.NewReplacer("%N", name, "%K", cst).Replace(d)
		}
		var uses strings.Builder
		for l := 0; l <= level; l++ {
			fmt.Fprintf(&uses, "h1('u%d.%d',typeof %s=='function'&&%s.v?%s.v():typeof %s=='function'?%s():%s);", level, l, scheme[l], scheme[l], scheme[l], scheme[l], scheme[l], scheme[l])
		}
		uses.WriteString("h1('g',e0,t0,g0);")
		body := decl + ";" + uses.String() + fmt.Sprintf("fs.push(()=>typeof %s=='function'?1:%s);", name, name) + rec(level+1) + uses.String()
		return k.wrap(level, body, param)
	}
	return "function F(h0,h1,h2,h3){var fs=[];" + rec(0) + "for(var q of fs)h1('c',q())}"
}

func runProgram(c *core.Check, w *jsoracle.Worker, fam string, idx uint64, p prog, skips map[string]uint64, mu *sync.Mutex) {
	var variants []string
	var names []string
	for _, ver := range append([]int{0}, p.vers...) {
		for _, keep := range []bool{false, true} {
			out, rej, pan := minifyJS(p.text, keep, map[bool]string{false: "application/javascript", true: "module"}[p.module], ver)
			if pan != "" {
				c.Fail(core.Failure{Family: fam, Input: p.text, Kind: "panic", What: pan, Order: idx})
				return
			}
			if rej != "" {
				mu.Lock()
				skips[fam+": rejected by the minifier"]++
				mu.Unlock()
				return
			}
			variants = append(variants, out)
			if ver == 0 {
				names = append(names, fmt.Sprintf("KeepVarNames=%v", keep))
			} else {
				names = append(names, fmt.Sprintf("KeepVarNames=%v Version=%d", keep, ver))
			}
		}
	}
	c.Count(uint64(len(variants)))
	if variants[0] != variants[1] {
		c.Nontrivial(p.text)
		c.AddFamily(fam, 1, 1)
	} else {
		c.AddFamily(fam, 1, 0)
	}
	if idx%4001 == 5 {
		c.Sample(map[string]any{"family": fam, "program": p.text, "renamed": variants[0]})
	}
	if !p.module {
		vec := [][]string{{"1"}, {"0"}}
		rep, err := w.Run(jsoracle.RunReq{Mode: p.mode, Orig: p.text, Variants: variants, Vectors: vec})
		if err == nil && rep.Status == "ok" && len(rep.Mismatches) > 0 {
			rep, err = w.Run(jsoracle.RunReq{Mode: p.mode, Orig: p.text, Variants: variants, Vectors: vec, Fresh: true})
		}
		if err != nil {
			c.Fail(core.Failure{Family: fam, Input: p.text, Kind: "internal-oracle-error", What: err.Error(), Order: idx})
			return
		}
		if rep.Status == "skip" {
			mu.Lock()
			skips[fam+": "+strings.SplitN(rep.Why, ":", 2)[0]]++
			mu.Unlock()
			return
		}
		seen := map[int]bool{}
		for _, mm := range rep.Mismatches {
			if seen[mm.Variant] {
				continue
			}
			seen[mm.Variant] = true
			kind := "resolution-changed"
			if mm.Syntax {
				kind = "output-does-not-compile"
			}
			c.Fail(core.Failure{Family: fam, Input: p.text, Config: names[mm.Variant], Kind: kind, Order: idx,
				What: fmt.Sprintf("minified %q: original observed %q, minified observed %q", variants[mm.Variant], mm.Orig, mm.Got)})
		}
	}
	if p.static {
		staticClauses(c, w, fam, idx, p, variants)
	}
}

func multiset(xs []string) map[string]int {
	m := map[string]int{}
	for _, x := range xs {
		m[x]++
	}
	return m
}

func sameSet(a, b []string) bool {
	x, y := multiset(a), multiset(b)
	if len(x) != len(y) {
		return false
	}
	for k := range x {
		if _, ok := y[k]; !ok {
			return false
		}
	}
	return true
}

func sorted(xs []string) []string {
	m := multiset(xs)
	var out []string
	for k := range m {
		out = append(out, k)
	}
	sort.Strings(out)
	return out
}

// staticClauses: the output parses in sloppy and strict mode; property names, labels,
// top-level declarations, import/export names are those of the input; with KeepVarNames no
// identifier appears that the input does not have.
func staticClauses(c *core.Check, w *jsoracle.Worker, fam string, idx uint64, p prog, variants []string) {
	st := "script"
	if p.module {
		st = "module"
	}
	in, err := w.Parse(jsoracle.ParseReq{Text: p.text, SourceType: st, Info: true})
	if err != nil || !in.OK {
		return
	}
	for vi, v := range variants {
		cfg := fmt.Sprintf("KeepVarNames=%v", vi == 1)
		out, err := w.Parse(jsoracle.ParseReq{Text: v, SourceType: st, Info: true})
		if err != nil {
			continue
		}
		if !out.OK {
			c.Fail(core.Failure{Family: fam, Input: p.text, Config: cfg, Kind: "output-does-not-parse", What: fmt.Sprintf("acorn rejects %q: %s", v, out.Error), Order: idx})
			continue
		}
		if !p.module && !strings.Contains(p.text, "with(") {
			if strict, err := w.Parse(jsoracle.ParseReq{Text: v, SourceType: st, Strict: true}); err == nil && !strict.OK {
				if ins, _ := w.Parse(jsoracle.ParseReq{Text: p.text, SourceType: st, Strict: true}); ins.OK {
					c.Fail(core.Failure{Family: fam, Input: p.text, Config: cfg, Kind: "reserved-word-produced", What: fmt.Sprintf("output %q does not parse in strict mode (%s) although the input does", v, strict.Error), Order: idx})
				}
			}
		}
		check := func(what string, a, b []string) {
			if !sameSet(a, b) {
				c.Fail(core.Failure{Family: fam, Input: p.text, Config: cfg, Kind: "public-name-changed:" + what, What: fmt.Sprintf("%s of the input %v, of the output %q: %v", what, sorted(a), v, sorted(b)), Order: idx})
			}
		}
		check("labels", in.Info.Labels, out.Info.Labels)
		check("top-level declarations", in.Info.TopDecls, out.Info.TopDecls)
		check("import names", in.Info.Imports, out.Info.Imports)
		check("export names", in.Info.Exports, out.Info.Exports)
		// property names: the output may lose quoted ones that became identifiers and vice versa; compare as sets of names incl. string keys is out of reach here → identifiers used as property names must be a subset of the input's identifier+string universe
		inProps := multiset(in.Info.Props)
		for _, q := range out.Info.Props {
			if inProps[q] == 0 && !strings.Contains(p.text, "'"+q+"'") && !strings.Contains(p.text, "\""+q+"\"") {
				c.Fail(core.Failure{Family: fam, Input: p.text, Config: cfg, Kind: "public-name-changed:property", What: fmt.Sprintf("property name %q appears in the output %q but not in the input", q, v), Order: idx})
				break
			}
		}
		if vi == 1 {
			inIds := multiset(append(append([]string{}, in.Info.Idents...), in.Info.Props...))
			for _, q := range out.Info.Idents {
				if inIds[q] == 0 && q != "undefined" && q != "Infinity" && q != "NaN" {
					c.Fail(core.Failure{Family: fam, Input: p.text, Config: cfg, Kind: "name-kept-violated", What: fmt.Sprintf("with KeepVarNames identifier %q appears in the output %q but not in the input", q, v), Order: idx})
					break
				}
			}
		}
	}
}

// ---- families ----

func genShapes(c *core.Check, emit func(prog) bool) {
	depth := c.Pick(2, 3)
	nk := len(scopeKinds)
	nd := len(declKinds)
	if depth == 3 {
		nd = 5
	}
	var rec func(kinds, decls []int) bool
	rec = func(kinds, decls []int) bool {
		if len(kinds) > 0 {
			for _, sc := range nameSchemes {
				if !emit(prog{"e0=1;t0=2;" + "", "fn", false, false, nil}) && false {
					return false
				}
				text := build(kinds, decls, sc)
				text = strings.Replace(text, "var fs=[];", "var fs=[];e0=5;t0=6;", 1)
				if !emit(prog{text, "fn", len(kinds) == 1, false, nil}) {
					return false
				}
			}
		}
		if len(kinds) == depth {
			return true
		}
		for k := 0; k < nk; k++ {
			for d := 0; d < nd; d++ {
				if scopeKinds[k].name == "static-block" && len(kinds) > 0 && scopeKinds[kinds[len(kinds)-1]].name == "else-after-return" {
					continue // a class declaration moved out of its block: same mechanism as the listed else-block finding, nothing new
				}
				if scopeKinds[k].name == "else-after-return" && strings.HasPrefix(declKinds[d], "function ") {
					continue // a block-level function whose block is dissolved: Annex B name clashes are outside the domain
				}
				if !rec(append(append([]int{}, kinds...), k), append(append([]int{}, decls...), d)) {
					return false
				}
			}
		}
		return true
	}
	rec(nil, nil)
}

// var hoisting: several `var` statements of one function are merged into one declaration, which
// may sit inside a nested block that has block-scoped bindings of its own; the merged names
// must stay distinct from every let/const/catch binding of the blocks they pass through.
func genVarHoisting(c *core.Check, emit func(prog) bool) {
	blocks := []string{"if(h0()){B}", "{B}", "for(let i0=0;i0<1;i0++){B}", "try{B}catch(c0){h1('c0',c0)}", "try{throw 5}catch(c0){h1('c0',c0);B}", "switch(1){case 1:B}", "for(const w0 of [8]){h1('w0',w0);B}", "while(h0()){B;break}", "{let z0=71;{B}h1('z0',z0)}", "if(h0()){const y0=72;if(h0()){B}h1('y0',y0)}"}
	for pre := 0; pre <= 3; pre++ {
		for bi, blk := range blocks {
			for lets := 0; lets <= 2; lets++ {
				for m := 1; m <= 3; m++ {
					for post := 0; post <= 1; post++ {
						for use := 0; use < 1<<pre; use++ { // which of the function-level vars are also referenced inside the block
							var fn, inner strings.Builder
							fn.WriteString("function F(h0,h1){")
							var outer []string
							for i := 0; i < pre; i++ {
								fmt.Fprintf(&fn, "var p%d=%d;", i, 11+i)
								outer = append(outer, fmt.Sprintf("p%d", i))
							}
							var names []string
							for i := 0; i < lets; i++ {
								fmt.Fprintf(&inner, "%s k%d=%d;", []string{"let", "const"}[i%2], i, 21+i)
								names = append(names, fmt.Sprintf("k%d", i))
							}
							inner.WriteString("var ")
							for i := 0; i < m; i++ {
								if i > 0 {
									inner.WriteString(",")
								}
								fmt.Fprintf(&inner, "a%d=%d", i, 31+i)
								names = append(names, fmt.Sprintf("a%d", i))
							}
							inner.WriteString(";")
							for i, o := range outer {
								if use>>i&1 == 1 {
									names = append(names, o)
								}
							}
							// h0 is referenced inside the block as well: a block binding can then not simply reuse its name
							fmt.Fprintf(&inner, "h1('in',typeof h0,%s);fs.push(()=>[%s])", strings.Join(names, ","), strings.Join(names, ","))
							fn.WriteString("var fs=[];")
							fn.WriteString(strings.Replace(blk, "B", inner.String(), 1))
							all := append([]string{}, outer...)
							for i := 0; i < m; i++ {
								all = append(all, fmt.Sprintf("a%d", i))
							}
							for i := 0; i < post; i++ {
								fmt.Fprintf(&fn, "var r%d=%d;", i, 41+i)
								all = append(all, fmt.Sprintf("r%d", i))
							}
							// no further var in the tail: a for-of binding would be the least used function-level name and shield the others
							fmt.Fprintf(&fn, "h1('out',%s);fs.forEach(function(f){h1('c',f())})}", strings.Join(all, ","))
							_ = bi
							if !emit(prog{fn.String(), "fn", false, false, nil}) {
								return
							}
						}
					}
				}
			}
		}
	}
}

// deep capture: a variable declared at level 0 and used d function levels below it, with every
// subset of the intermediate levels using it too (before or after the nested function is
// created), nested functions of three kinds, and the innermost function having a parameter and
// a local of its own. Link chains of the scope analysis are d hops long here.
func genDeepCapture(c *core.Check, emit func(prog) bool) {
	kinds := [][2]string{{"function(P){", "}"}, {"(P)=>{", "}"}, {"function named_L(P){", "}"}}
	open := func(k [2]string, l int) string {
		return strings.ReplaceAll(strings.ReplaceAll(k[0], "_L", fmt.Sprint(l)), "P", fmt.Sprintf("p%d", l))
	}
	var body func(l, d, mask int, k [2]string, after bool) string
	body = func(l, d, mask int, k [2]string, after bool) string {
		if l == d {
			return fmt.Sprintf("var local=p%d*2;h1('in',total,other,local,p%d);return total+local;", d, d)
		}
		use := ""
		if mask>>(l-1)&1 == 1 {
			use = fmt.Sprintf("total++;h1('l%d',total,other,p%d);", l, l)
		}
		inner := "(" + open(k, l+1) + body(l+1, d, mask, k, after) + k[1] + ")"
		if after {
			return fmt.Sprintf("var f%d=%s;%sreturn f%d(%d);", l, inner, use, l, l+1)
		}
		return fmt.Sprintf("%sreturn %s(%d);", use, inner, l+1)
	}
	for d := 2; d <= c.Pick(5, 7); d++ {
		for mask := 0; mask < 1<<(d-1); mask++ { // which intermediate levels use the captured variables
			for _, k := range kinds {
				for _, after := range []bool{false, true} {
					text := "function F(h0,h1){var total=10,other=h0();return (" + open(k, 1) + body(1, d, mask, k, after) + k[1] + ")(1)}"
					if !emit(prog{text, "fn", false, false, nil}) {
						return
					}
				}
			}
		}
	}
}

// free variables named like the names the renamer hands out first; locals must avoid them
func genFreeNames(c *core.Check, emit func(prog) bool) {
	first := []string{"e", "t", "n", "s", "o", "i", "a", "r", "l", "c", "u", "d", "h", "p", "f", "m", "g", "y", "b", "v", "w", "k", "x", "q", "z", "j", "_", "$", "ee", "te", "ne", "se"}
	for n := 1; n <= 12; n++ {
		for fi := 0; fi+2 < len(first); fi++ {
			free := first[fi : fi+3]
			var b strings.Builder
			b.WriteString("function F(h0,h1,h2,h3){")
			for _, f := range free {
				fmt.Fprintf(&b, "%s=%q;", f, "G"+f)
			}
			b.WriteString("return (function(){")
			for i := 0; i < n; i++ {
				fmt.Fprintf(&b, "var L%d=%d;", i, i)
			}
			b.WriteString("return [")
			for i := 0; i < n; i++ {
				fmt.Fprintf(&b, "L%d,", i)
			}
			for _, f := range free {
				fmt.Fprintf(&b, "%s,", f)
			}
			b.WriteString("(()=>{var I=1;return [I,")
			for _, f := range free {
				fmt.Fprintf(&b, "%s,", f)
			}
			b.WriteString("L0]})()]})()}")
			if !emit(prog{b.String(), "fn", false, false, nil}) {
				return
			}
		}
	}
}

// N bindings in one scope for many N: generated names run through every one- and two-letter name
func genLargeScopes(c *core.Check, emit func(prog) bool) {
	var ns []int
	if c.Thorough() {
		for n := 1; n <= 3700; n++ {
			ns = append(ns, n)
		}
	} else {
		for n := 1; n <= 130; n++ {
			ns = append(ns, n)
		}
		for n := 131; n <= 3700; n += 83 {
			ns = append(ns, n)
		}
		for _, b := range []int{54, 54 + 54*64, 54 + 54*64 - 1, 3700} {
			for d := -2; d <= 2; d++ {
				if b+d > 130 {
					ns = append(ns, b+d)
				}
			}
		}
	}
	for _, n := range ns {
		for variant := 0; variant < 3; variant++ {
			// variant 2: the last declared (and so last named) variables have one-character source names, as loop counters
			// and already minified code do: their generated names are longer than the names they replace
			short := []string{"i", "j", "k", "x", "y", "z", "u", "v", "w", "p", "q", "r", "m", "l", "g", "c", "d", "b", "o", "A"}
			name := func(i int) string {
				if variant == 2 && n-i <= len(short) {
					return short[n-i-1]
				}
				return fmt.Sprintf("V%d", i)
			}
			if variant == 2 && n < 50 {
				continue
			}
			var b strings.Builder
			b.WriteString("function F(h0,h1,h2,h3){")
			if variant == 1 {
				b.WriteString("as=-1;of=-2;ee=-3;te=-4;it=-5;")
			}
			b.WriteString("var s=0;")
			for i := 0; i < n; i++ {
				fmt.Fprintf(&b, "var %s=%d;", name(i), i+1)
			}
			for i := 0; i < n; i++ {
				if i%100 == 0 {
					if i > 0 {
						b.WriteString("0;")
					}
					b.WriteString("s+=") // chunks: the parser limits expression nesting
				}
				fmt.Fprintf(&b, "%s*%d+", name(i), i%7+1)
			}
			b.WriteString("0;")
			if variant == 1 {
				b.WriteString("return [s,as,of,ee,te,it]}")
			} else {
				b.WriteString("return s}")
			}
			if !emit(prog{b.String(), "fn", n <= 130, false, nil}) {
				return
			}
		}
	}
}

// with: inside a function that contains a with statement no local may be renamed, because the
// object of the with statement could have a property of the new name. The object here HAS a
// property for each of the renamer's first picks, holding a sentinel: a local that is renamed
// anyway resolves to the sentinel inside the with body. Every lexical scope kind holding the
// local x every kind of statement minified before it (the renamer's "do not rename" state is
// saved and restored around nested functions).
func genWith(c *core.Check, emit func(prog) bool) {
	wobj := "var wobj={e:'E',t:'T',n:'N',i:'I',o:'O',a:'A',r:'R',s:'S',l:'L',c:'C',u:'U',d:'D',h:'H',p:'P',f:'F',m:'M'};"
	before := []string{"", "var inc=v=>v+1;h1(inc(1));", "var sq=v=>{return v*v};h1(sq(2));", "var fe=function(v){return v-1};h1(fe(3));", "h1([1,2].map(x=>x*2));", "{let blk=4;h1(blk)}", "class K{m(v){return v}}h1(new K().m(5));",
		"var ob={m(v){return v+2}};h1(ob.m(6));", "h1((()=>7)());", "var gen=function*(){yield 8};h1(gen().next().value);", "var af=async v=>v;h1(typeof af);"}
	scopes := []string{
		"for(let item of [11,12])with(wobj)h1(item,e)",
		"for(let idx=0;idx<1;idx++){with(wobj){h1(idx,t)}}",
		"try{throw 13}catch(error){with(wobj)h1(error,n)}",
		"{let total=14;with(wobj)h1(total,i)}",
		"{const fixed=15;with(wobj){h1(fixed,o)}}",
		"var plain=16;with(wobj)h1(plain,a)",
		"(function(param){with(wobj)h1(param,r)})(17)",
		"(param2=>{with(wobj)h1(param2,s)})(18)",
		"with(wobj){let inner=19;h1(inner,l)}",
		"with(wobj){(function(deep){h1(deep,c)})(20)}",
		"switch(1){case 1:let sw=21;with(wobj)h1(sw,u)}",
		"class C2{m(cm){with(wobj)h1(cm,d)}}new C2().m(22)",
		// methods, getters and setters of object literals are sloppy code and may hold a with statement; nothing of the
		// enclosing function is referenced inside these with bodies (the result goes to a global)
		"var om={m(mp){with(wobj)g1=[mp,e]}};om.m(23)",
		"var og={get g(){var gl=24;with(wobj)g1=[gl,t];return 1}};h1(og.g)",
		"var os={set s(sv){with(wobj)g1=[sv,n]}};os.s=25",
		"var oa={async m(am){with(wobj)g1=[am,i]}};oa.m(26)",
		"var og2={*g(gm){with(wobj)g1=[gm,o]}};og2.g(27).next()",
		"var oc={['k'+1](cp){var cl=cp+1;with(wobj){g1=[cp,cl,a]}}};oc.k1(28)",
	}
	for _, b := range before {
		for _, sc := range scopes {
			if strings.HasPrefix(sc, "class") {
				continue // class bodies are strict: no with
			}
			for _, tail := range []string{"", b} {
				if !emit(prog{"function F(h0,h1){" + wobj + b + sc + ";" + tail + "}", "fn", false, false, nil}) {
					return
				}
			}
		}
	}
}

// single programs: name resolution corners that no product family reaches
func genCorners(c *core.Check, emit func(prog) bool) {
	for _, t := range []string{
		// the name of a class expression is bound inside the class only
		"function F(h0,h1){var y=class Foo{m(){return typeof Foo}};var Foo=3;h1(new y().m(),Foo)}",
		"function F(h0,h1){var Foo=3;var y=class Foo{static s(){return typeof Foo}};h1(y.s(),Foo)}",
		"function F(h0,h1){var y=function Foo(){return typeof Foo};var Foo=3;h1(y(),Foo)}",
		// a function that keeps its names because of with: hoisted vars meet the let of a block
		"function F(h0,h1){var o={};with(o){}{let x=1;var a=2,b=3,c=4;h1(x,a)}var x=3;h1(x,b,c)}",
		"function F(h0,h1){var o={};{let x=1;var a=2,b=3,c=4;h1(x,a)}var x=3;with(o)h1(x,b,c)}",
		// built-in names that are locals of an enclosing scope
		"function F(h0,h1){(function(Math){h1((function(){return Math.abs(-2)})())})({abs:function(){return 'mine'}})}",
		"function F(h0,h1){var Math={abs:function(){return 'mine'},pow:function(){return 'mine'},trunc:function(){return 'mine'}};{h1(Math.abs(-2),Math.pow(2,3),Math.trunc(1.5))}}",
		"function F(h0,h1){(function(isNaN){h1((function(y){return isNaN(y)})(5))})(function(){return 'mine'})}",
		"function F(h0,h1){(function(undefined,Infinity,NaN){h1((function(){return [undefined,Infinity,NaN]})())})(1,2,3)}",
		"function F(h0,h1){var Number=function(){return 'mine'},String=function(){return 'mine'},Boolean=function(){return 'mine'};(function(){h1(Number(1),String(2),Boolean(3))})()}",
	} {
		if !emit(prog{text: t, mode: "fn"}) {
			return
		}
	}
}

// catch parameters: used and unused, named like the renamer's first picks, under targets that keep or drop an unused binding
func genCatch(c *core.Check, emit func(prog) bool) {
	params := [][]string{{"fallback"}, {"fallback", "second"}, {"fallback", "second", "third"}}
	cps := []string{"e", "t", "n", "r", "i", "o", "err"}
	handlers := []string{"res.push(USE)", "let hl=USE;res.push(hl)", "const hc=[USE];res.push(hc)", "res.push((()=>[USE])())", "res.push(function(){return [USE]}())", "var hv=USE;res.push(hv)", "{let hb=USE;res.push(hb)}", "res.push(USE,typeof CP)", "res.push(USE,CP instanceof TypeError)", "for(let hi of [USE])res.push(hi)", "try{null.x}catch(CP2){res.push(USE)}", "try{null.x}catch{res.push(USE)}"}
	bindings := []string{"catch(CP)", "catch({message:CP})", "catch([CP])", "catch"}
	for _, ps := range params {
		for _, cp := range cps {
			for _, h := range handlers {
				for _, b := range bindings {
					if b == "catch" && strings.Contains(h, "CP ") || b == "catch" && strings.Contains(h, "typeof CP") {
						continue
					}
					use := strings.Join(ps, ",")
					var args []string
					for i := range ps {
						args = append(args, fmt.Sprint(41+i))
					}
					body := strings.NewReplacer("USE", use, "CP2", cp+"2", "CP", cp).Replace("try{null.x}" + b + "{" + h + "}")
					text := "function F(h0,h1){var res=[];(function(" + use + "){" + body + "})(" + strings.Join(args, ",") + ");h1(res)}"
					if !emit(prog{text: text, mode: "fn", vers: []int{2018, 5}}) {
						return
					}
				}
			}
		}
	}
}

// public names: properties, labels, top-level declarations, import/export, with
func genPublic(c *core.Check, emit func(prog) bool) {
	scripts := []string{
		"var top1=1,top2=2;function topF(a1){var loc=a1;return loc+top1}class TopC{meth(p1){return p1}}h1(topF(top2),new TopC().meth(3))",
		"let tl=1;const tc=2;{let inner=3;h1(tl,tc,inner)}",
		"function F(h0,h1){var obj={prop1:1,'prop-2':2,prop3(){return this.prop1}};lab:for(var idx=0;idx<2;idx++){if(idx)break lab;h1(obj.prop1,obj['prop-2'],obj.prop3())}}",
		"function F(h0,h1){var wobj={wp:1};var outer=2;with(wobj){var inw=wp+outer;h1(inw)}return inw}",
		"function F(h0,h1){function inner(arg){with(arg){return val}}return inner({val:5})}",
		"function F(h0,h1){var {a:alias,b:{c:deep}}={a:1,b:{c:2}};h1(alias,deep);var short1=3,o={short1};h1(o.short1)}",
		"function F(h0,h1){var {short2}={short2:4};h1(short2);({short2}={short2:5});h1(short2)}",
		"function F(h0,h1){class K{#priv=1;static sp=2;get g(){return this.#priv}}h1(new K().g,K.sp)}",
		"function F(h0,h1){try{undefinedGlobal1}catch(err1){h1(err1 instanceof ReferenceError)}h1(typeof undefinedGlobal2)}",
		"function F(h0,h1){var f=function named(n){return n?named(n-1):0};h1(f(2),typeof named)}",
		"function F(h0,h1){var args=function(){return arguments.length}(1,2);h1(args)}",
		"function F(h0,h1){var evalr=eval('1+1');h1(evalr)}",
		"function F(h0,h1){var loc=1;return eval('loc')}",
		"function F(h0,h1){var loc=1;return new Function('return typeof loc')()}",
		"function F(h0,h1){var outerv=h0();return ({m(){return [outerv]}}).m()}",
		"function F(h0,h1){var outerv=h0();h1(({m(){return {p:outerv}}}).m())}",
		"function F(h0,h1){var outerv=h0();return [({m(){return outerv}}).m(),(()=>[outerv])(),(function(){return [outerv]})()]}",
	}
	for _, s := range scripts {
		mode := "global"
		if strings.HasPrefix(s, "function F(") {
			mode = "fn"
		}
		if strings.Contains(s, "eval('loc')") {
			continue // direct eval reaching local names: outside the domain
		}
		if !emit(prog{s, mode, true, false, nil}) {
			return
		}
	}
	modules := []string{
		"import def,{imp1,imp2 as loc2} from 'm';import * as ns from 'n';export const ex1=imp1;export function exf(arg){var inner=arg;return inner+loc2}export default class ExC{}export {ex1 as renamed};var priv=def;export {priv}",
		"export let a=1,b=2;let hidden=a+b;export {hidden as visible}",
		// every form of import and export declaration, also the ones without bindings (a module is imported for its effects)
		"import 'x'", "import {} from 'x'", "import d from 'x';d()", "import * as n from 'x';n.f()", "import d,{a} from 'x';d(a)", "import d,* as n from 'x';d(n)", "import {a as b} from 'x';b()", "import {default as d} from 'x';d()", "import {'s t' as st} from 'x';st()",
		"export {}", "export {} from 'x'", "export * from 'x'", "export * as n from 'x'", "export {a} from 'x'", "export {a as b} from 'x'", "export {default} from 'x'", "export {default as d} from 'x'", "export {a as default} from 'x'", "var q=1;export {q as 's t'}",
		"export default 1", "export default function(){}", "export default function f(){}", "export default class{}", "export default class C{}", "export default (function(){})()", "export default (class{}).name", "export default {a:1}", "export default [1]", "export default a=>a", "export default async function(){}", "export default function*(){}",
		"export var a=1", "export let a=1", "export const a=1,b=2", "export function f(){}", "export class C{}", "export async function f(){}", "export function*g(){}", "export const {a,b:[c]}={a:1,b:[2]}", "var a=1,b=2;export {a,b}", "var a=1;export {a};export {a as b}",
		"import a from 'x';export {a}", "import {a} from 'x';export default a", "import('x')", "var p=import('x');export {p}", "import.meta.url", "export {a as b,a as c} from 'x'", "import {a} from 'x';import {b} from 'x';a(b)", "import 'x';import 'y';import 'x'",
	}
	for _, s := range modules {
		if !emit(prog{s, "global", true, true, nil}) {
			return
		}
	}
}

// Run executes C02.
func Run(c *core.Check) {
	c.Rule = "scope shapes: every chain of <=2 (thorough <=3) nested scopes over 14 scope kinds (function, arrow, method, class method, generator, block, for, for-of, switch, catch, finally, if, else block after a returning branch, class static block) x 9 declaration kinds per scope (var/let/const/function/class/parameter default/object and array patterns/separate assignment) x 4 naming schemes (distinct, shadowing, names equal to the renamer's first picks); every declaration has its own constant, every use site logs what it resolves to before and after the inner scope, closures are called at the end; var hoisting: 0-3 function-level var statements x 10 block shapes (if, block, for, try, catch, switch, for-of, while, nested) x 0-2 let/const x a var with 1-3 declarators in the block x 0-1 later var x every subset of the outer names used inside the block; deep capture: a variable used 2-5 (thorough 7) function levels below its declaration x every subset of intermediate levels using it x 3 function kinds x use before/after the nested function is created; catch parameters: 3 parameter lists x 7 catch parameter names (the renamer's first picks) x 12 handler bodies x 4 binding forms, also for targets ES2018 and ES5 (which keep an unused binding); with: 18 scope kinds (also object-literal methods, getters, setters) holding a local inside a function with a with statement whose object has a sentinel property for each of the renamer's first picks x 11 kinds of statement minified before it; free-variable families with globals named like generated names; one scope with N bindings for N up to 3700 (all N in thorough) with and without two-letter globals; public-name programs (properties, labels, top-level declarations, with, imports/exports) checked statically with acorn. Executed for KeepVarNames off and on. Non-trivial = renamed output differs from the name-keeping output"
	c.Assumptions = []string{"V8 as engine and acorn 8.16 as parser (both from node 20)", "direct eval / Function reaching local names is outside the domain"}
	pool, err := jsoracle.NewPool(core.Workers())
	if err != nil {
		fmt.Println("BUILD-ERROR: cannot start node workers:", err)
		c.Exhaustive = false
		return
	}
	defer pool.Close()
	skips := map[string]uint64{}
	var mu sync.Mutex
	fams := []struct {
		name string
		gen  func(*core.Check, func(prog) bool)
	}{{"scope-shapes", genShapes}, {"var-hoisting", genVarHoisting}, {"deep-capture", genDeepCapture}, {"with-capture", genWith}, {"catch-parameters", genCatch}, {"corner-programs", genCorners}, {"free-names", genFreeNames}, {"large-scopes", genLargeScopes}, {"public-names", genPublic}}
	for _, f := range fams {
		fam := f
		type job struct {
			idx uint64
			p   prog
		}
		ch := make(chan job, 256)
		var wg sync.WaitGroup
		for i := 0; i < core.Workers(); i++ {
			wg.Add(1)
			go func() {
				defer wg.Done()
				w := pool.Get()
				defer pool.Put(w)
				for j := range ch {
					runProgram(c, w, fam.name, j.idx, j.p, skips, &mu)
				}
			}()
		}
		var idx uint64
		stopped := false
		fam.gen(c, func(p prog) bool {
			if p.text == "e0=1;t0=2;" {
				return true
			}
			if idx%256 == 0 && c.Expired() {
				stopped = true
			}
			if stopped {
				return false
			}
			ch <- job{idx, p}
			idx++
			return true
		})
		close(ch)
		wg.Wait()
		st := c.Family(fam.name)
		st.Bound = fmt.Sprintf("%d programs", idx)
		if stopped {
			st.Complete = false
			c.Exhaustive = false
		}
	}
	var sk []string
	for k, v := range skips {
		sk = append(sk, fmt.Sprintf("%s: %d", k, v))
	}
	sort.Strings(sk)
	c.Extra["out_of_domain_programs"] = sk
}

// Replay re-executes one failure.
func Replay(f core.Failure) (string, string) {
	pool, err := jsoracle.NewPool(1)
	if err != nil {
		return "replay-error", err.Error()
	}
	defer pool.Close()
	keep := strings.Contains(f.Config, "true")
	ver := 0
	if i := strings.Index(f.Config, "Version="); i >= 0 {
		fmt.Sscanf(f.Config[i:], "Version=%d", &ver)
	}
	out, rej, pan := minifyJS(f.Input, keep, "application/javascript", ver)
	if pan != "" {
		return "panic", pan
	}
	if rej != "" {
		return "", ""
	}
	mode := "fn"
	if !strings.HasPrefix(f.Input, "function F(") {
		mode = "global"
	}
	rep, err := pool.Get().Run(jsoracle.RunReq{Mode: mode, Orig: f.Input, Variants: []string{out}, Vectors: [][]string{{"1"}, {"0"}}, Fresh: true})
	if err != nil {
		return "replay-error", err.Error()
	}
	for _, mm := range rep.Mismatches {
		return f.Kind, fmt.Sprintf("minified %q: original %q, minified %q", out, mm.Orig, mm.Got)
	}
	return "", ""
}
