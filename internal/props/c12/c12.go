// Package c12: all entry points produce the same bytes for any chunking of the stream.
// Schedule exploration of the real wrapper code of minify.go (overlay build).
package c12

import (
	"verif/internal/core"
	"verif/internal/vsrun"
)

func Run(c *core.Check) {
	c.Rule = "scenarios = (entry point Writer/Reader/ResponseWriter/Middleware/MiddlewareWithError) x media type x every partition of a short input into consecutive chunks (all compositions for <=4-byte inputs, <=2 (quick) / <=3 (thorough) pieces plus inserted empty chunks for 7-16 byte inputs) x consumer read sizes / header variants; for each scenario every interleaving of producer, minifier goroutine and consumer at every synchronisation operation of the rewritten minify.go (before and after each operation) up to the preemption bound, cut at already-visited global states; evaluations = executions; a scenario counts as non-trivial when the minifier rewrote its input (output differs from input)"
	c.Assumptions = []string{"vsync.Pipe is a model of io.Pipe, validated by exhaustive exploration vs free runs of the real io.Pipe (traces_validated_against_impl)", "preemption only at hooked synchronisation operations; unsynchronised accesses are the business of the free-running -race pass (C13)", "state key = per-thread progress + observation log + shim object states"}
	vsrun.Explore(c, "c12")
	vsrun.Conform(c)
	_, ov, _ := vsrun.Build()
	c.Extra["overlay_rewritten_files"] = ov.Rewritten
	c.Extra["overlay_hooks"] = ov.Hooks
}

func Replay(f core.Failure) (string, string) {
	return "replay-unsupported", "re-run ./run.sh C12 quick; schedules are listed in the replay file (scenario + choice list) and are re-executed by the harness with `bin/vsharness replay`"
}
