package c04

import (
	"fmt"
	"os"
	"sort"
	"strconv"
	"strings"
	"sync"
	"sync/atomic"

	"verif/internal/core"
	"verif/internal/oracle/cssval"
)

// valueFamily enumerates every sequence of at most N components over the property's own
// value alphabet (one terminal per shortcut visible in minifyProperty), restricted to the
// sequences the oracle's grammar accepts as a valid value of the property.
type valueFamily struct {
	name   string
	props  []string
	alpha  []string
	qLen   int // quick bound
	tLen   int // thorough bound
	always bool
}

var lenAlpha = []string{"0", "0px", "1px", "2px", "0%", "10%", "auto", "0.0em", "-1px", "1PX", "1.0px", "calc(1px)"}
var colAlpha = []string{"red", "#f00", "#FF0000", "currentcolor", "transparent", "rgb(0,0,0)", "blue", "#000", "rgba(0,0,0,0)", "black", "CurrentColor"}
var lineAlpha = []string{"none", "solid", "dotted", "hidden", "medium", "thin", "0", "0px", "1px", "currentcolor", "red", "#ff0000", "transparent", "rgb(255,0,0)", "black", "#000", "invert", "auto", "CURRENTCOLOR", "None"}

var valueFamilies = []valueFamily{
	{name: "margin", props: []string{"margin"}, alpha: lenAlpha, qLen: 3, tLen: 4},
	{name: "padding+border-width", props: []string{"padding", "border-width"}, alpha: []string{"0", "0px", "1px", "2px", "0%", "5%", "1e0px", "0in", "thin", "medium", "thick"}, qLen: 3, tLen: 4},
	{name: "border-style", props: []string{"border-style"}, alpha: []string{"none", "solid", "dotted", "hidden"}, qLen: 4, tLen: 4},
	{name: "border-color", props: []string{"border-color"}, alpha: colAlpha, qLen: 3, tLen: 4},
	{name: "border", props: []string{"border", "outline", "column-rule"}, alpha: lineAlpha, qLen: 3, tLen: 3},
	{name: "border-side", props: []string{"border-top", "border-right", "border-bottom", "border-left"}, alpha: lineAlpha, qLen: 2, tLen: 3},
	{name: "font", props: []string{"font"}, alpha: []string{"normal", "bold", "italic", "400", "700", "small-caps", "condensed", "12px", "0", "medium", "larger", "100%", "/", "1.5", "20px", "\"A B\"", "'c'", "a", "b", "serif", "\"serif\"", ",", "-apple-system", "inherit", "Bold", "caption"}, qLen: 4, tLen: 4},
	{name: "font-long", props: []string{"font"}, alpha: []string{"normal", "bold", "italic", "400", "700", "small-caps", "condensed", "12px", "0", "medium", "/", "1.5", "20px", "\"A B\"", "a", "serif", ","}, qLen: 0, tLen: 5},
	{name: "font-family", props: []string{"font-family"}, alpha: []string{"a", "B", "\"a\"", "'a b'", "\"A B\"", "\"a  b\"", "serif", "\"serif\"", "\"inherit\"", "\"1a\"", "\"a-b c\"", ",", "\"\"", "'it\\'s'", "-x", "\"-x\"", "\" a\"", "\"monospace\"", "Sans-Serif"}, qLen: 3, tLen: 5},
	{name: "font-weight", props: []string{"font-weight"}, alpha: []string{"normal", "bold", "bolder", "lighter", "400", "700", "100", "1", "1000", "400.0", "4e2", "initial", "inherit", "NORMAL", "Bold", "550.5"}, qLen: 1, tLen: 1},
	{name: "flex", props: []string{"flex", "-webkit-flex"}, alpha: []string{"0", "1", "2", "0px", "0%", "10px", "10%", "auto", "none", "initial", "content", "0.0", "1.0", "0em", "calc(1px)", ".5", "Auto", "10", "12", "1.5", "100", "01"}, qLen: 3, tLen: 3},
	{name: "flex-longhands", props: []string{"flex-basis", "flex-grow", "flex-shrink", "order"}, alpha: []string{"0", "1", "2", "0px", "0%", "10px", "10%", "auto", "initial", "content", "0.0em", "inherit", "calc(0px)", "1.0", ".5", "-1", "1e0", "Initial", "unset"}, qLen: 1, tLen: 1},
	{name: "integer-properties", props: []string{"order", "z-index", "column-count", "orphans", "widows", "grid-row-start"}, alpha: []string{"0", "1", "2", "10", "100", "1000", "10000", "1000000", "-1000", "+1000", "+1", "01", "auto", "inherit", "initial", "1e3", "1.0", "Auto"}, qLen: 1, tLen: 1},
	{name: "box-shadow", props: []string{"box-shadow"}, alpha: []string{"none", "initial", "inset", "0", "0px", "1px", "2px", "0em", "-1px", "red", "#000", "rgba(0,0,0,.5)", "currentcolor", ",", "calc(1px)", "0.0px"}, qLen: 4, tLen: 5},
	{name: "text-shadow", props: []string{"text-shadow"}, alpha: []string{"none", "0", "0px", "1px", "2px", "red", "#ff0000", "rgb(0,0,0)", "currentcolor", ",", "black"}, qLen: 4, tLen: 5},
	{name: "text-decoration", props: []string{"text-decoration"}, alpha: []string{"none", "underline", "overline", "line-through", "solid", "wavy", "dotted", "currentcolor", "red", "#ff0000", "transparent", "blink", "initial", "black", "Solid"}, qLen: 3, tLen: 4},
	{name: "text-emphasis", props: []string{"text-emphasis"}, alpha: []string{"none", "filled", "open", "dot", "circle", "sesame", "\"x\"", "currentcolor", "red", "#f00", "transparent", "black"}, qLen: 3, tLen: 4},
	{name: "background-position", props: []string{"background-position"}, alpha: []string{"left", "right", "top", "bottom", "center", "0", "10%", "20%", "50%", "100%", "5px", "0px", "0%", ",", "LEFT", "10.5%", "99.9%"}, qLen: 4, tLen: 5},
	{name: "background-size", props: []string{"background-size"}, alpha: []string{"auto", "cover", "contain", "0", "10px", "50%", "100%", "0px", ",", "Auto"}, qLen: 4, tLen: 5},
	{name: "background-repeat", props: []string{"background-repeat"}, alpha: []string{"repeat", "no-repeat", "space", "round", "repeat-x", "repeat-y", ",", "Repeat"}, qLen: 4, tLen: 5},
	{name: "background", props: []string{"background"}, alpha: bgAlpha, qLen: 3, tLen: 4},
	{name: "background-reduced", props: []string{"background"}, alpha: bgReduced, qLen: 4, tLen: 5},
	{name: "unicode-range", props: []string{"unicode-range"}, alpha: []string{"U+0", "U+7F", "u+0-7f", "U+80-FF", "U+4??", "U+0-10FFFF", "U+??????", "U+0025-00FF", "U+100-1FF", "U+1??", "U+41", "U+42", "U+40-45", "U+10????", "U+000041", "u+a-c", "U+1e3", "U+F??", "U+0-FFFF", "U+10000-10FFFF"}, qLen: 3, tLen: 4},
	{name: "color-properties", props: colorProps, alpha: []string{"currentcolor", "transparent", "initial", "inherit", "red", "#f00", "#ff0000", "#FF0000FF", "rgb(255,0,0)", "rgba(0,0,0,0)", "hsl(0,100%,50%)", "black", "#000", "#000000", "white", "#ffffff00", "#00000000", "auto", "none", "invert", "CurrentColor", "Transparent", "fuchsia", "magenta", "#f0f", "grey", "gray", "#808080"}, qLen: 1, tLen: 1},
}

var colorProps = []string{"color", "background-color", "border-color", "border-top-color", "border-right-color", "border-bottom-color", "border-left-color",
	"text-decoration-color", "text-emphasis-color", "caret-color", "outline-color", "fill", "stroke", "column-rule-color"}

var bgAlpha = []string{"none", "url(a)", "transparent", "red", "#0000", "#00000000", "rgba(0,0,0,0)", "scroll", "fixed", "repeat", "no-repeat", "repeat-x", "space",
	"padding-box", "border-box", "content-box", "left", "right", "top", "bottom", "center", "0", "0%", "10%", "50%", "100%", "5px", "/", "auto", "cover", "linear-gradient(red,blue)", "black", "#fff", ","}

var bgReduced = []string{"none", "red", "repeat", "no-repeat", "padding-box", "border-box", "right", "bottom", "center", "0", "10%", "5px", "/", "auto", ",", "url(a)"}

// unicode-range entries are always separated by commas.
func joinValue(fam *valueFamily, idx []int, variant uint64) string {
	var b strings.Builder
	if fam.name == "unicode-range" {
		for i, k := range idx {
			if i > 0 {
				if variant&1 == 0 {
					b.WriteString(", ")
				} else {
					b.WriteString(",")
				}
			}
			b.WriteString(fam.alpha[k])
		}
		return b.String()
	}
	for i, k := range idx {
		t := fam.alpha[k]
		if i > 0 {
			prev := fam.alpha[idx[i-1]]
			sep := (t == "," || t == "/" || prev == "," || prev == "/")
			switch {
			case !sep:
				b.WriteByte(' ')
			case variant&1 == 0 && (prev == "," || t == "/" || prev == "/"):
				b.WriteByte(' ') // "a, b" and "x / y" in one variant, compact in the other
			}
		}
		b.WriteString(t)
	}
	return b.String()
}

func wrap(decl string, cfg Config) string {
	if cfg.Inline {
		return decl
	}
	return "a{" + decl + "}"
}

// checkDecl runs one declaration under all four configurations.
func checkDecl(c *core.Check, family, decl string, order uint64) (cases, nontrivial uint64) {
	for _, cfg := range allConfigs {
		in := wrap(decl, cfg)
		kind, what, out := CheckOne(in, cfg)
		cases++
		if kind == "rejected" {
			noteRejected(family)
			continue
		}
		if out != in {
			nontrivial++
			c.Nontrivial(in, cfg.String())
		}
		if kind != "" {
			fail(c, core.Failure{Family: family, Input: in, Config: cfg.String(), Kind: kind, What: what, Order: order})
		}
	}
	return
}

// rejected counts, per family, the inputs the minifier returned an error for (outside the
// domain of the property).
var rejected sync.Map

func noteRejected(family string) {
	v, _ := rejected.LoadOrStore(family, new(atomic.Uint64))
	v.(*atomic.Uint64).Add(1)
}

func rejectedCounts() map[string]uint64 {
	out := map[string]uint64{}
	rejected.Range(func(k, v any) bool {
		out[k.(string)] = v.(*atomic.Uint64).Load()
		return true
	})
	return out
}

func runValueFamily(c *core.Check, fam *valueFamily) {
	name := "value/" + fam.name
	maxLen := c.Pick(fam.qLen, fam.tLen)
	if maxLen == 0 {
		return
	}
	seq := core.Sequences{K: len(fam.alpha), MaxLen: maxLen}
	n := seq.Count()
	var invalid, valid atomic.Uint64
	st := c.Family(name)
	c.ParallelRange(name, n*uint64(len(fam.props)), func(i uint64) {
		prop := fam.props[i/n]
		idx := seq.At(i%n, nil)
		if len(idx) == 0 {
			return
		}
		val := joinValue(fam, idx, i%n)
		if _, ok := cssval.Interpret(prop, cssval.ParseComps(val)); !ok {
			invalid.Add(1)
			return
		}
		valid.Add(1)
		cases, nt := checkDecl(c, name, prop+":"+val, i)
		c.Count(cases)
		c.AddFamily(name, cases, nt)
		if i%4 == 1 {
			// every fourth value also with a priority, which each rewrite must carry along
			cases, nt := checkDecl(c, name, prop+":"+val+"!important", i)
			c.Count(cases)
			c.AddFamily(name, cases, nt)
		}
		if i%7919 == 13 {
			out, _, _ := Minify("a{"+prop+":"+val+"}", Config{})
			c.Sample(map[string]any{"in": "a{" + prop + ":" + val + "}", "out": out})
		}
	})
	st.Bound = fmt.Sprintf("properties %v: every sequence of <=%d components over %d terminals; %d valid values x 4 configurations, %d sequences outside the oracle's grammar skipped",
		fam.props, maxLen, len(fam.alpha), valid.Load(), invalid.Load())
}

// failures are collected per (family, kind); each group keeps its groupCap simplest cases
// (smallest enumeration order), so that a frequent class cannot exhaust the framework's
// global failure limit and hide the classes of later families. Dropped cases are counted.
var groupCap = func() int {
	if n, err := strconv.Atoi(os.Getenv("VERIF_C04_GROUPCAP")); err == nil && n > 0 {
		return n // development aid for classifying a single family without the cap
	}
	return 1500
}()

type failGroup struct {
	items   []core.Failure // unordered, at most groupCap; worst is the index of the largest
	dropped uint64
}

var (
	failMu     sync.Mutex
	failGroups = map[[2]string]*failGroup{}
)

func failLess(a, b *core.Failure) bool {
	if a.Order != b.Order {
		return a.Order < b.Order
	}
	if len(a.Input) != len(b.Input) {
		return len(a.Input) < len(b.Input)
	}
	if a.Input != b.Input {
		return a.Input < b.Input
	}
	return a.Config < b.Config
}

func fail(c *core.Check, f core.Failure) {
	if c.Known(f) {
		return // listed cases are counted per class and never take one of the groupCap places
	}
	failMu.Lock()
	defer failMu.Unlock()
	k := [2]string{f.Family, f.Kind}
	g := failGroups[k]
	if g == nil {
		g = &failGroup{}
		failGroups[k] = g
	}
	if len(g.items) < groupCap {
		g.items = append(g.items, f)
		return
	}
	g.dropped++
	w := 0
	for i := range g.items {
		if failLess(&g.items[w], &g.items[i]) {
			w = i
		}
	}
	if failLess(&f, &g.items[w]) {
		g.items[w] = f
	}
}

// flushFailures hands the retained failures to the framework.
func flushFailures(c *core.Check) {
	failMu.Lock()
	defer failMu.Unlock()
	dropped := map[string]uint64{}
	var all []core.Failure
	for k, g := range failGroups {
		all = append(all, g.items...)
		if g.dropped > 0 {
			dropped[k[0]+" "+k[1]] = g.dropped
		}
	}
	// a total order, so that the framework's stable sort yields the same report every run
	sort.Slice(all, func(i, j int) bool {
		a, b := &all[i], &all[j]
		if a.Family != b.Family {
			return a.Family < b.Family
		}
		if a.Order != b.Order || a.Input != b.Input || a.Config != b.Config {
			return failLess(a, b)
		}
		return a.Kind < b.Kind
	})
	for _, f := range all {
		c.FailUnlisted(f)
	}
	failGroups = map[[2]string]*failGroup{}
	c.Extra["failing_cases_not_listed_over_group_cap"] = dropped
}
