package c04

import (
	"fmt"
	"sort"
	"strings"
	"sync/atomic"

	"verif/internal/core"
	"verif/internal/oracle/cssval"
)

// ---------- generic token rewriting: numbers, dimensions, percentages ----------

var numberNotations = []string{"0", "0.0", ".5", "0.50", "1e3", "1E-2", "+.0", "-0", "10.0e-1", "100", "1000", "0.001", "+5", "-.50", "1.0", "00.5", "1e+2", "1.5e3",
	"123456789", "0.000001", "1e-7", "1e21", "99.5", "-0.0", "0e0", "0e5", "5e-1", "1000000", "1.5e10", "1.0e10", "2.50e-20", "0.0e0"}

// every unit of optionalZeroDimension, time/angle/resolution/frequency units, the percentage,
// no unit, mixed case and a non-existing unit
var units = []string{"", "%", "px", "mm", "q", "cm", "in", "pt", "pc", "ch", "em", "ex", "rem", "vh", "vw", "vmin", "vmax", "deg", "grad", "rad", "turn",
	"s", "ms", "dpi", "dpcm", "dppx", "hz", "khz", "fr", "x", "PX", "Em", "Q", "foo", "vi"}

var numberContexts = []string{
	"width:%s", "x:%s", "margin:1px %s", "margin:%s auto", "line-height:%s", "transition-delay:%s", "z-index:%s", "opacity:%s", "grid-template-columns:%s 1fr",
	"rotate:%s", "font-style:oblique %s", "top:%s!important", "image-resolution:%s", "word-spacing:%s",
	"width:calc(%s + 1px)", "width:calc(1px + %s)", "width:calc(2*%s)", "width:calc(1px - %s)", "transform:translate(%s)", "transform:translate(1px,%s)", "transform:rotate(%s)",
	"width:var(--a,%s)", "color:rgb(%s 0 0)", "width:min(%s,1px)", "x:f(g(%s))", "x:f(%s)", "width:hypot(%s,1px)", "background:linear-gradient(%s,red,blue)", "filter:blur(%s)", "transform:translate( %s , %s )",
}

func runNumbers(c *core.Check) {
	name := "tokens/numbers"
	p := core.Product{len(numberNotations), len(units), len(numberContexts)}
	st := c.Family(name)
	st.Bound = fmt.Sprintf("%d number notations x %d units x %d contexts (top level and inside functions) x 4 configurations", len(numberNotations), len(units), len(numberContexts))
	c.ParallelRange(name, p.Size(), func(i uint64) {
		d := p.Decode(i, nil)
		tok := numberNotations[d[0]] + units[d[1]]
		decl := strings.ReplaceAll(numberContexts[d[2]], "%s", tok)
		cases, nt := checkDecl(c, name, decl, i)
		c.Count(cases)
		c.AddFamily(name, cases, nt)
		if i%4999 == 7 {
			out, _, _ := Minify("a{"+decl+"}", Config{})
			c.Sample(map[string]any{"in": "a{" + decl + "}", "out": out})
		}
	})
}

// ---------- colours ----------

var colorContexts = []string{"color:%s", "x:%s", "background:%s", "border:1px solid %s", "box-shadow:0 0 %s", "background:linear-gradient(%s,red)", "outline:%s dotted"}

// checkColorValues runs every spelling in every context; spellings that are not a colour
// of the oracle's grammar are skipped (counted) unless keepInvalid.
func runSpellings(c *core.Check, name string, contexts []string, n uint64, at func(i uint64) string, keepInvalid bool, bound string) {
	var invalid, valid atomic.Uint64
	st := c.Family(name)
	c.ParallelRange(name, n, func(i uint64) {
		v := at(i)
		if !keepInvalid {
			cs := cssval.ParseComps(v)
			if len(cs) != 1 {
				invalid.Add(1)
				return
			}
			if _, ok := cssval.ColorOf(&cs[0]); !ok {
				invalid.Add(1)
				return
			}
		}
		valid.Add(1)
		for _, ctx := range contexts {
			cases, nt := checkDecl(c, name, strings.ReplaceAll(ctx, "%s", v), i)
			c.Count(cases)
			c.AddFamily(name, cases, nt)
		}
		if i%3001 == 5 {
			in := "a{" + strings.ReplaceAll(contexts[0], "%s", v) + "}"
			out, _, _ := Minify(in, Config{})
			c.Sample(map[string]any{"in": in, "out": out})
		}
	})
	st.Bound = fmt.Sprintf("%s; %d spellings x %d contexts x 4 configurations, %d spellings outside the oracle's grammar skipped", bound, valid.Load(), len(contexts), invalid.Load())
}

var rgbComp = []string{"0", "255", "128", "127.5", "300", "-5", "0%", "100%", "50%", "20%", "33.3%", "120%", "1e2", ".5", "51", "40%", "60%", "80%"}
var rgbCompQuickG = []string{"0", "255", "50%", "20%", "127.5", "40%"}
var rgbCompQuickB = []string{"0", "100%", "51", "40%", "60%"}
var alphaComp = []string{"", "1", "0", ".5", "0.5", "50%", "100%", "0%", "2", "-1", ".05", ".005", "5%", "1.0", "0.0", "99%", ".995", "1e-1"}

type colorSyntax struct{ fn, sep, asep string }

var colorSyntaxes = []colorSyntax{{"rgb", ",", ","}, {"rgba", ", ", ", "}, {"rgb", " ", " / "}, {"rgba", " ", "/"}, {"RGB", ",", ","}}

func colorCall(fn string, a, b, cc, al string, sy colorSyntax) string {
	s := fn + "(" + a + sy.sep + b + sy.sep + cc
	if al != "" {
		s += sy.asep + al
	}
	return s + ")"
}

func runColors(c *core.Check) {
	// rgb()/rgba()
	g, b, al0, ctx := rgbCompQuickG, rgbCompQuickB, alphaComp[:9], []string{"color:%s", "background:%s"}
	if c.Thorough() {
		g, b, al0, ctx = rgbComp[:12], rgbComp[:12], alphaComp, []string{"color:%s", "x:%s", "background:%s"}
	}
	p := core.Product{len(colorSyntaxes), len(al0), len(b), len(g), len(rgbComp)}
	if only("tokens/rgb") {
		runSpellings(c, "tokens/rgb", ctx, p.Size(), func(i uint64) string {
			d := p.Decode(i, nil)
			sy := colorSyntaxes[d[0]]
			return colorCall(sy.fn, rgbComp[d[4]], g[d[3]], b[d[2]], al0[d[1]], sy)
		}, false, fmt.Sprintf("rgb()/rgba(): %d x %d x %d channel spellings x %d alpha spellings x %d syntaxes", len(rgbComp), len(g), len(b), len(al0), len(colorSyntaxes)))
	}
	// hsl()/hsla()
	hue := []string{"0", "120", "360", "-120", "480", "60.5", "120deg", "0.5turn", "1e2", "200grad", "30", "210", "0.0"}
	sat := []string{"0%", "100%", "50%", "120%", "50", "33.3%", "-5%", "75%"}
	lig := []string{"0%", "50%", "100%", "25%", "50", "12.5%", "110%", "75%"}
	al := []string{"", "1", ".5", "50%", "0", "100%", "0.50"}
	hs := []colorSyntax{{"hsl", ",", ","}, {"hsla", ", ", ", "}, {"hsl", " ", " / "}, {"hsla", " ", "/"}, {"HSL", ",", ","}}
	hctx := []string{"color:%s", "x:%s", "border:1px solid %s"}
	if !c.Thorough() {
		hue, sat, lig, al, hctx = hue[:8], sat[:6], lig[:6], al[:4], hctx[:2]
	}
	ph := core.Product{len(hs), len(al), len(lig), len(sat), len(hue)}
	if only("tokens/hsl") {
		runSpellings(c, "tokens/hsl", hctx, ph.Size(), func(i uint64) string {
			d := ph.Decode(i, nil)
			sy := hs[d[0]]
			return colorCall(sy.fn, hue[d[4]], sat[d[3]], lig[d[2]], al[d[1]], sy)
		}, false, fmt.Sprintf("hsl()/hsla(): %d hues x %d x %d x %d alpha spellings x %d syntaxes", len(hue), len(sat), len(lig), len(al), len(hs)))
	}
	// hex colours
	if only("tokens/hex") {
		hex := hexSpellings(c.Thorough())
		xctx := []string{"color:%s", "background:%s", "x:%s", "border:1px solid %s"}
		if !c.Thorough() {
			xctx = xctx[:2]
		}
		runSpellings(c, "tokens/hex", xctx, uint64(len(hex)), func(i uint64) string { return hex[i] }, false,
			"hex colours: every #rgb in both cases, #rgba/#rrggbb/#rrggbbaa over digit grids, every named colour's hex with alpha variants")
	}
	// keywords
	if only("tokens/color-keywords") {
		kws := colorKeywords()
		runSpellings(c, "tokens/color-keywords", colorContexts, uint64(len(kws)), func(i uint64) string { return kws[i] }, true,
			"every CSS Color 4 keyword in lower, upper and title case, transparent, currentcolor, system colours and non-CSS look-alikes")
	}
}

func hexSpellings(thorough bool) []string {
	seen := map[string]bool{}
	var out []string
	add := func(s string) {
		if !seen[s] {
			seen[s] = true
			out = append(out, s)
		}
	}
	const digits = "0123456789abcdef"
	for i := 0; i < 4096; i++ {
		s := "#" + string([]byte{digits[i>>8], digits[i>>4&15], digits[i&15]})
		add(s)
		add(strings.ToUpper(s))
	}
	grid := "08cfF7"
	for a := 0; a < 16; a++ {
		for _, r := range grid {
			for _, g := range grid {
				for _, b := range grid {
					add("#" + string(r) + string(g) + string(b) + string(digits[a]))
				}
			}
		}
	}
	pairs := []string{"00", "80", "ff", "FF", "c0", "12", "a5", "2a", "Ff"}
	alphas := []string{"", "ff", "FF", "00", "80", "cc", "0f", "f0", "fF"}
	for _, r := range pairs {
		for _, g := range pairs {
			for _, b := range pairs {
				for ai, a := range alphas {
					if ai > 3 && !thorough && (r != g || g != b) {
						continue
					}
					add("#" + r + g + b + a)
				}
			}
		}
	}
	names := make([]string, 0, len(cssval.NamedColors))
	for n := range cssval.NamedColors {
		names = append(names, n)
	}
	sort.Strings(names)
	for _, n := range names {
		h := fmt.Sprintf("#%06x", cssval.NamedColors[n])
		for _, a := range alphas {
			add(h + a)
			add(strings.ToUpper(h + a))
		}
	}
	return out
}

func colorKeywords() []string {
	names := make([]string, 0, len(cssval.NamedColors))
	for n := range cssval.NamedColors {
		names = append(names, n)
	}
	sort.Strings(names)
	var out []string
	for _, n := range names {
		out = append(out, n, strings.ToUpper(n), strings.ToUpper(n[:1])+n[1:])
	}
	// not CSS colours: must be passed through
	out = append(out, "transparent", "Transparent", "currentcolor", "currentColor", "canvas", "buttonface", "lightslateblue", "LightSlateBlue", "lightgoldenrod", "violetred",
		"navyblue", "darkgray1", "reddish")
	return out
}

// ---------- strings ----------

var stringPieces = []string{"a", " ", "\\\"", "\\'", "\\\n", "\\\r\n", "\\\\", "\\41 ", "é", ";", "}", "/*", "Q", "\\a ", "  ", "\\\r", "\\\f", ")"}

var stringDeclContexts = []string{"content:%s", "font-family:%s", "background:url(%s)", "--x:%s", "quotes:%s %s", "x:f(%s)", "src:local(%s)", "background:url( %s ) no-repeat"}
var stringSheetContexts = []string{"a[b=%s]{c:d}", "@import %s;", "@import %s screen;", "a{content:%s}b{c:d}", "@font-face{font-family:%s}", "a[b=%s i]{c:d}", "@charset %s;"}

func runStrings(c *core.Check) {
	name := "tokens/strings"
	seq := core.Sequences{K: len(stringPieces), MaxLen: c.Pick(2, 3)}
	st := c.Family(name)
	st.Bound = fmt.Sprintf("every sequence of <=%d pieces over %d string pieces (escaped quotes, line continuations, escapes), both quote characters, %d declaration contexts x 4 configurations + %d stylesheet contexts x 2", seq.MaxLen, len(stringPieces), len(stringDeclContexts), len(stringSheetContexts))
	c.ParallelRange(name, seq.Count()*2, func(i uint64) {
		q := "\""
		if i&1 == 1 {
			q = "'"
		}
		var b strings.Builder
		b.WriteString(q)
		for _, k := range seq.At(i/2, nil) {
			p := stringPieces[k]
			if p == "Q" { // the other quote character, unescaped
				if q == "\"" {
					p = "'"
				} else {
					p = "\""
				}
			}
			b.WriteString(p)
		}
		b.WriteString(q)
		s := b.String()
		var cases, nt uint64
		for _, ctx := range stringDeclContexts {
			a, n := checkDecl(c, name, strings.ReplaceAll(ctx, "%s", s), i)
			cases += a
			nt += n
		}
		for _, ctx := range stringSheetContexts {
			a, n := checkSheet(c, name, strings.ReplaceAll(ctx, "%s", s), i)
			cases += a
			nt += n
		}
		c.Count(cases)
		c.AddFamily(name, cases, nt)
		if i%1013 == 3 {
			in := "a{content:" + s + "}"
			out, _, _ := Minify(in, Config{})
			c.Sample(map[string]any{"in": in, "out": out})
		}
	})
}

// checkSheet runs one stylesheet with KeepCSS2 off and on.
func checkSheet(c *core.Check, family, in string, order uint64) (cases, nontrivial uint64) {
	for _, cfg := range allConfigs[:2] {
		kind, what, out := CheckOne(in, cfg)
		cases++
		if kind == "rejected" {
			noteRejected(family)
			continue
		}
		if out != in {
			nontrivial++
			c.Nontrivial(in, cfg.String())
		}
		if kind != "" {
			fail(c, core.Failure{Family: family, Input: in, Config: cfg.String(), Kind: kind, What: what, Order: order})
		}
	}
	return
}

// ---------- URLs ----------

var urlPieces = []string{"a", "/", " ", "(", ")", "\"", "'", "\\)", "%20", ";", "#", "é", ".png", "\\ ", "\\\n", "?b=c", "{", "\\(", "\t", ","}

var urlForms = []string{"url(%s)", "url( %s )", "url(\"%s\")", "url('%s')", "url( \"%s\" )", "URL(%s)", "url( '%s')"}

var urlDeclContexts = []string{"background:%s", "background-image:%s", "src:%s", "x:%s", "cursor:%s,auto", "background:%s no-repeat", "src:%s format(\"woff\"),%s", "list-style:square %s", "mask:%s 0 0"}
var urlSheetContexts = []string{"@import %s;", "@import %s print;", "@font-face{src:%s}", "@namespace svg %s;"}

var dataURIs = []string{"data:image/png;base64,iVBORw0KGgo=", "data:text/plain,a%20b", "data:,a", "data:image/svg+xml;charset=utf-8,%3Csvg%3E%3C/svg%3E",
	"data:text/plain;charset=us-ascii,ab", "data:;base64,YWJj", "DATA:text/plain,ab", "data:image/gif;base64,R0lGODlhAQABAAAAACw=", "data:text/plain;base64,YSBi", "data:application/octet-stream,%00%FF",
	"data:text/x-foo;a=b,(x)", "data:image/svg+xml,<svg xmlns='http://www.w3.org/2000/svg'/>"}

func urlPayload(pieces []int, prefix string, form string) (string, bool) {
	var b strings.Builder
	b.WriteString(prefix)
	quoted := strings.ContainsAny(form, "\"'")
	dq := strings.Contains(form, "\"")
	for _, k := range pieces {
		p := urlPieces[k]
		switch {
		case quoted && dq && p == "\"", quoted && !dq && p == "'":
			p = "\\" + p
		case !quoted && (p == "\\\n" || p == ")" || p == "\"" || p == "'"):
			// a line continuation only exists inside strings; a raw ")" ends the URL and
			// leaves a stray token, a raw quote starts an unterminated string: those are
			// malformed declarations (structure family), not URLs
			return "", false
		}
		b.WriteString(p)
	}
	return b.String(), true
}

func runURLs(c *core.Check) {
	name := "tokens/urls"
	// quick: <=2 pieces over all pieces; thorough: additionally 3 pieces over the first 12
	seq := core.Sequences{K: len(urlPieces), MaxLen: 2}
	seq3 := core.Sequences{K: 12, MaxLen: 3}
	n2 := seq.Count()
	total := n2
	if c.Thorough() {
		total += seq3.Count() - core.Sequences{K: 12, MaxLen: 2}.Count()
	}
	piecesAt := func(j uint64) []int {
		if j < n2 {
			return seq.At(j, nil)
		}
		return seq3.At(j-n2+core.Sequences{K: 12, MaxLen: 2}.Count(), nil)
	}
	prefixes := []string{"", "long/path/to/"}
	urlDeclContexts, urlSheetContexts := urlDeclContexts, urlSheetContexts
	if !c.Thorough() {
		urlDeclContexts, urlSheetContexts = urlDeclContexts[:5], urlSheetContexts[:2]
	}
	p := core.Product{len(urlForms), len(prefixes)}
	st := c.Family(name)
	st.Bound = fmt.Sprintf("every sequence of <=2 pieces over %d URL pieces (space, parens, quotes, escapes) [thorough: and of 3 pieces over the first 12], short and long, in %d url() forms, %d declaration contexts x 4 configurations + %d stylesheet contexts x 2; %d data: URLs", len(urlPieces), len(urlForms), len(urlDeclContexts), len(urlSheetContexts), len(dataURIs))
	run := func(i uint64, u string) {
		var cases, nt uint64
		for _, ctx := range urlDeclContexts {
			a, n := checkDecl(c, name, strings.ReplaceAll(ctx, "%s", u), i)
			cases += a
			nt += n
		}
		for _, ctx := range urlSheetContexts {
			a, n := checkSheet(c, name, strings.ReplaceAll(ctx, "%s", u), i)
			cases += a
			nt += n
		}
		c.Count(cases)
		c.AddFamily(name, cases, nt)
	}
	c.ParallelRange(name, total*p.Size(), func(i uint64) {
		d := p.Decode(i%p.Size(), nil)
		form := urlForms[d[0]]
		payload, ok := urlPayload(piecesAt(i/p.Size()), prefixes[d[1]], form)
		if !ok {
			return
		}
		u := strings.ReplaceAll(form, "%s", payload)
		run(i, u)
		if i%2003 == 9 {
			in := "a{background:" + u + "}"
			out, _, _ := Minify(in, Config{})
			c.Sample(map[string]any{"in": in, "out": out})
		}
	})
	for i, d := range dataURIs {
		for _, form := range urlForms {
			if !strings.ContainsAny(form, "\"'") && strings.ContainsAny(d, " '()\"") {
				continue
			}
			if strings.Contains(form, "'") && strings.Contains(d, "'") {
				continue
			}
			run(uint64(i), strings.ReplaceAll(form, "%s", d))
		}
	}
}

// ---------- miscellaneous declarations ----------

var miscDecls = []string{
	"filter:progid:DXImageTransform.Microsoft.Alpha(Opacity=50)", "-ms-filter:\"progid:DXImageTransform.Microsoft.Alpha(Opacity=50)\"", "-ms-filter:'progid:DXImageTransform.Microsoft.Alpha(Opacity=5)'",
	"filter:progid:DXImageTransform.Microsoft.Alpha(opacity=50)", "filter:progid:DXImageTransform.Microsoft.gradient(startColorstr='#000000', endColorstr='#ffffff')", "filter:alpha(opacity=50)",
	"-ms-filter:\"alpha(opacity=50)\"", "filter:blur(0px)", "filter:none", "FILTER : progid:DXImageTransform.Microsoft.Alpha(Opacity=0)",
	"z-index:1", "z-index:1.0", "z-index:01", "z-index:+1", "z-index:-0", "z-index:1e1", "counter-increment:a 1.0", "counter-reset:a 0", "orphans:2.0", "widows:02",
	"color:red!important", "color:red ! important", "color:red !IMPORTANT", "color:red!Important", "margin:0px!important", "margin:0px 0px !important", "color:red! important", "color: red !ie",
	"background-color:transparent!important", "font-weight:bold!important", "flex:0 1 auto!important", "border-color:currentcolor!important",
	"color:RED", "COLOR:red", "Color:Red", "margin : 0px ; ", "margin:0px;", "margin:;", "margin:", "margin: ", "width:+0px", "width:-0px", "width:0e0px",
	"src:local(\"A B\")", "src:local(\"a\")", "src:local(a)", "src:local(\"1a\")", "src:url(a) format(\"woff\"), local(\"B\")",
	"transition:all 0s ease 0s", "transition:opacity 0.30s ease-in-out 0ms", "animation:a 1s 0s", "margin:var(--a) var(--b) var(--a)", "margin:var(--a) 0px", "padding:var(--a,0px) 0px", "border:var(--b) solid",
	"width:calc( 1px + 2px )", "width:calc(1px+2px)", "width:calc(var(--a) + var(--b))", "width:calc(var(--a) - 1px)", "width:calc(1px + -2px)", "width:calc((1px + 2px)*3)",
	"margin:calc(1px) calc(1px)", "margin:calc(1px)calc(2px)", "background:url(a)no-repeat", "grid-area:1 / 2 / 3 / 4", "grid-template-areas:\"a b\" \"c d\"", "aspect-ratio:16 / 9", "aspect-ratio:16/9",
	"font:12px/1.0 a", "font:12px / 1.5 a", "font:italic 12px a,b", "font:inherit", "font:caption", "font:12px var(--f)", "font-family:var(--f),\"A B\"",
	"color:rgb(255 0 0 / 50%)", "color:rgb(none 0 0)", "color:rgb(calc(1) 0 0)", "color:hsl(120deg 100% 50%)", "color:hsl(1rad 100% 50%)", "color:color-mix(in srgb,red,blue)", "color:#12345", "color:#1234567",
	"background-position:0 0,left top", "background-position:left 0 top 0", "background-position:left 10px top", "background-position:center left", "background-position:right 0 bottom 0",
	"background:url(a) 0 0/auto auto repeat scroll padding-box border-box transparent", "background:0 0/50% 50%", "background:0 0/10px 10px", "background:0 0 / 0 0", "background:url(a) left top / 100% 100%",
	"background:url(a),url(b) 0 0,none", "background:#fff url(a) no-repeat right 5px top 5px", "background:red,blue", "background:0 0,0 0", "background:none,none",
	"box-shadow:0 0 0 0 red,inset 0 0 0 0", "box-shadow:0 0 0 1px", "box-shadow:inset 0 0 0 0 #000", "text-shadow:0 0 0 red", "outline:0", "outline:none", "border:0", "border:none", "border:0 none",
	"unicode-range:U+0-10FFFF", "unicode-range:u+0-7f , U+80-ff", "unicode-range:U+110000", "unicode-range:U+1???????", "unicode-range:initial", "unicode-range:U+26", "unicode-range:U+0-7F,U+0-7F",
	"*zoom:1", "_height:1px", "*width:0.50px", "width:1px\\9", "color:red\\9", "width:expression(1+1)", "behavior:url(a.htc)", "-moz-binding:url(\"a.xml#b\")",
}

func runMisc(c *core.Check) {
	name := "tokens/misc-declarations"
	st := c.Family(name)
	st.Bound = fmt.Sprintf("%d hand-written declarations (IE filters, integer properties, !important spellings, var(), calc(), vendor hacks), each also with !important in two spellings, x 4 configurations", len(miscDecls))
	for i, d := range miscDecls {
		cases, nt := checkDecl(c, name, d, uint64(i))
		c.Count(cases)
		c.AddFamily(name, cases, nt)
		if !strings.Contains(d, "!") && !strings.HasSuffix(strings.TrimSpace(d), ";") && !strings.HasSuffix(strings.TrimSpace(d), ":") && !strings.Contains(d, "\\9") {
			// every rewrite must carry the priority along
			for j, imp := range []string{"!important", " ! IMPORTANT"} {
				cases, nt := checkDecl(c, name, d+imp, uint64(len(miscDecls)*(j+1)+i))
				c.Count(cases)
				c.AddFamily(name, cases, nt)
			}
		}
	}
}

func runExtra(c *core.Check) {
	if only("tokens/numbers") {
		runNumbers(c)
	}
	runColors(c)
	if only("tokens/strings") {
		runStrings(c)
	}
	if only("tokens/urls") {
		runURLs(c)
	}
	if only("tokens/misc") {
		runMisc(c)
	}
	runStructure(c)
}
