package c04

import (
	"fmt"
	"strings"

	"verif/internal/core"
)

// ---------- rule lists ----------

var ruleItems = []string{
	"a{color:red}",
	"A B , c>D{margin:0 ; padding:0}",
	"a{b:c;}",
	"a{b:c;;d:e}",
	"a{}",
	"a { b : c ; d : e }\n",
	"@media screen and (min-width:100px){a{b:c}}",
	"@media (max-width: 10px) { A { b : c } }",
	"@MEDIA Screen , print and ( orientation : landscape ){a{b:c}}",
	"@media not all and (monochrome){}",
	"@supports (display:grid) and (not (display:flex)){a{b:c}}",
	"@supports not ( display : grid ) { a { b : c } }",
	"@font-face{font-family:\"A\";src:url(a.woff)}",
	"@font-face { font-family : A B ; font-weight : bold ; unicode-range : U+0-7F , U+80-FF }",
	"@import url(a.css);",
	"@import \"a.css\" screen;",
	"@import url(\"a.css\") print , screen;",
	"@import url( a.css ) ;",
	"@import 'a.css'",
	"@charset \"utf-8\";",
	"@keyframes K{from{a:b}50%{a:c}TO{a:d}}",
	"@-webkit-keyframes k { 0% , 50.0% { a : b } 100% { a : c } }",
	"@media screen{@media (x:y){a{b:c}}}",
	"@supports (a:b){@media screen{a{b:c}}b{c:d}}",
	"@media screen{@font-face{font-family:a}}",
	"@media print{a{b:c}@import url(x.css);}",
	"/* c */",
	"/*! keep  me */",
	"a{/*x*/b:c/*y*/}",
	"a{b:c/**/d}",
	"a{--x:{a:b};--y: 1  2 ;c:d}",
	"a{--x:;--Y: ;--z:[ a , b ]}",
	"a{--x:calc( 1px + 2px )!important;--y:0.50px 0px #FF0000}",
	"a{color red;b:c}",
	"a{:b;c:d}",
	"a{b:c!important}",
	"a{b:c ! important;d:e !IMPORTANT}",
	"a{b: c!ie;d:e}",
	"a{b:c;d}",
	"a{b:{c:d};e:f}",
	"@foo{a:b/**/c}",
	"a{&:hover{b:c}}",
	"a{b:c}}",
	"@page :first{margin:1in}",
	"@page{margin:0px;@top-left{content:\"a\"}}",
	"@foo bar{ a b ; c }",
	"@foo;",
	"@layer a , b;",
	"@namespace svg url(http://www.w3.org/2000/svg);",
	"<!--",
	"-->",
	"a{b:c}<!-- b{c:d} -->",
	"a,b{}",
	"a{b:c);d:e}",
	"a{b:c];d:e}",
}

func runRuleLists(c *core.Check) {
	name := "structure/rule-lists"
	maxLen := 3
	n := len(ruleItems)
	if !c.Thorough() {
		n = 30 // the first 30 items in lists of <=3; every item alone and in pairs
	}
	seq := core.Sequences{K: n, MaxLen: maxLen}
	st := c.Family(name)
	st.Bound = fmt.Sprintf("every list of <=%d items over the first %d of %d rule items (+ every pair over all items), joined directly and with newlines, KeepCSS2 off/on", maxLen, n, len(ruleItems))
	runList := func(i uint64, idx []int, sep string) {
		var b strings.Builder
		for j, k := range idx {
			if j > 0 {
				b.WriteString(sep)
			}
			b.WriteString(ruleItems[k])
		}
		cases, nt := checkSheet(c, name, b.String(), i)
		c.Count(cases)
		c.AddFamily(name, cases, nt)
		if i%9973 == 11 {
			out, _, _ := Minify(b.String(), Config{})
			c.Sample(map[string]any{"in": b.String(), "out": out})
		}
	}
	c.ParallelRange(name, seq.Count(), func(i uint64) {
		idx := seq.At(i, nil)
		sep := ""
		if i&1 == 1 {
			sep = "\n"
		}
		runList(i, idx, sep)
	})
	if n < len(ruleItems) {
		all := core.Sequences{K: len(ruleItems), MaxLen: 2}
		c.ParallelRange(name, all.Count(), func(i uint64) {
			idx := all.At(i, nil)
			small := true
			for _, k := range idx {
				if k >= n {
					small = false
				}
			}
			if small {
				return
			}
			runList(seq.Count()+i, idx, " ")
		})
	}
}

// ---------- inline declaration lists ----------

var declItems = []string{"a:b", "A : B", "color red", "--x:{a:b}", "b:c!important", "b:c ! important", ":b", "/*c*/", "", "margin:0px", "*zoom:1", "--y: ", "color:#FF0000", "b:c d", "x:f( 1 , 2 )", "b:c}", "@media x{a{b:c}}", "b:\"x;y\"", "b:c;", "{a:b}", "b:(c;d)"}

func runDeclLists(c *core.Check) {
	name := "structure/declaration-lists"
	seq := core.Sequences{K: len(declItems), MaxLen: c.Pick(3, 4)}
	seps := []string{";", " ; ", ";\n"}
	st := c.Family(name)
	st.Bound = fmt.Sprintf("every list of <=%d items over %d declaration items (valid, malformed, custom properties, comments, empty), 3 separator styles, with and without trailing semicolon; inline mode and inside a{...}, KeepCSS2 off/on", seq.MaxLen, len(declItems))
	c.ParallelRange(name, seq.Count(), func(i uint64) {
		idx := seq.At(i, nil)
		sep := seps[i%3]
		var b strings.Builder
		for j, k := range idx {
			if j > 0 {
				b.WriteString(sep)
			}
			b.WriteString(declItems[k])
		}
		if i%2 == 1 {
			b.WriteString(sep)
		}
		cases, nt := checkDecl(c, name, b.String(), i)
		c.Count(cases)
		c.AddFamily(name, cases, nt)
	})
}

// ---------- selectors ----------

var compounds = []string{"a", "A", "DIV", "*", ".c", ".C", "#i", "#I", "[x]", "[x=y]", "[x=\"y\"]", "[x='y z']", "[x=\"y\" i]", "[x=y I]", "[x=\"y\" s]", "[x='y' S]", "[x=y s]", "[X|=\"a-b\"]", "[ x ~= 'Y' ]", "[x=\"1a\"]", "[x=\"\"]",
	":hover", ":HOVER", "::before", ":not(.C)", ":Not( A , .b )", ":nth-child(2n + 1)", ":nth-child( odd )", ":nth-child(-n+3)", ":nth-of-type( 2N - 1 )", ":lang(EN)", "::part(Foo)", ":is(a > B)", "svg|A", "SVG|a", "*|A", "[x=\"a\\\"b\"]", "[x=\"-\"]", "[x=\"--a\"]", "[data-X=\"Y\"]"}

var compoundsSmall = []string{"a", "A", ".C", "#I", "[x=\"y\"]", "[x=y I]", ":HOVER", ":not(.C)", ":nth-child(2n + 1)", "*"}

var combinators = []string{" ", ">", " > ", "+", " + ", "~", " ~ ", ",", " , ", "", "  ", "\n", " >", "+ "}
var combinatorsSmall = []string{" ", ">", " + ", ",", ""}

func runSelectors(c *core.Check) {
	name := "structure/selectors"
	three := compoundsSmall
	threeComb := combinatorsSmall
	if c.Thorough() {
		three, threeComb = compounds[:24], combinators[:9]
	}
	n1 := uint64(len(compounds))
	n2 := n1 * uint64(len(combinators)) * n1
	p3 := core.Product{len(three), len(threeComb), len(three), len(threeComb), len(three)}
	st := c.Family(name)
	st.Bound = fmt.Sprintf("every selector of 1 and 2 compounds over %d compounds x %d combinators, every selector of 3 compounds over %d compounds x %d combinators; as style rule and inside @media, KeepCSS2 off/on", len(compounds), len(combinators), len(three), len(threeComb))
	c.ParallelRange(name, n1+n2+p3.Size(), func(i uint64) {
		var sel string
		switch {
		case i < n1:
			sel = compounds[i]
		case i < n1+n2:
			j := i - n1
			a := j % n1
			j /= n1
			k := j % uint64(len(combinators))
			b := j / uint64(len(combinators))
			sel = compounds[a] + combinators[k] + compounds[b]
		default:
			d := p3.Decode(i-n1-n2, nil)
			sel = three[d[0]] + threeComb[d[1]] + three[d[2]] + threeComb[d[3]] + three[d[4]]
		}
		in := sel + "{b:c}"
		if i%3 == 1 {
			in = sel + " { b : c }"
		} else if i%3 == 2 {
			in = "@media screen{" + sel + "{b:c}}"
		}
		cases, nt := checkSheet(c, name, in, i)
		c.Count(cases)
		c.AddFamily(name, cases, nt)
		if i%7717 == 3 {
			out, _, _ := Minify(in, Config{})
			c.Sample(map[string]any{"in": in, "out": out})
		}
	})
}

// ---------- at-rule preludes ----------

var mqPieces = []string{"screen", "PRINT", "and", "not", "only", ",", "(min-width:100px)", "( max-width : 0.50em )", "(orientation:landscape)", "(color)", "(400px<=width<=700px)", "( width >= 600px )", "(min-resolution:2dppx)", "(aspect-ratio:16/9)", "( aspect-ratio : 16 / 9 )", "or"}

func runPreludes(c *core.Check) {
	name := "structure/at-preludes"
	seq := core.Sequences{K: len(mqPieces), MaxLen: c.Pick(3, 4)}
	forms := []string{"@media %s{a{b:c}}", "@media %s {}", "@import url(a.css) %s;", "@supports %s{a{b:c}}", "@container %s{a{b:c}}"}
	st := c.Family(name)
	st.Bound = fmt.Sprintf("every sequence of <=%d pieces over %d media-query pieces (single spaces and double spaces), %d at-rule forms, KeepCSS2 off/on", seq.MaxLen, len(mqPieces), len(forms))
	c.ParallelRange(name, seq.Count(), func(i uint64) {
		idx := seq.At(i, nil)
		sep := " "
		if i%2 == 1 {
			sep = "  "
		}
		var parts []string
		for _, k := range idx {
			parts = append(parts, mqPieces[k])
		}
		q := strings.Join(parts, sep)
		var cases, nt uint64
		for _, f := range forms {
			a, n := checkSheet(c, name, strings.ReplaceAll(f, "%s", q), i)
			cases += a
			nt += n
		}
		c.Count(cases)
		c.AddFamily(name, cases, nt)
	})
}

// inputs that end inside an open construct, and stray tokens between rules
var eofInputs = []string{"a{b:c(;d:e}", "a{b:c(", "a{b:\"x", "a{b:url(x", "a{b:c[d", "@media screen{a{b:c(}", "a{b:c;/* x", "a{b:'x\\", "@import url(x.css", "@media (a", "a[b", "a{--x:{", "a{b:c(d(e", "a:not(",
	";", "a;", ";a{b:c}", "a{b:c};", "a{b:c};b{c:d}", "a{b:c}}", "}", "a{b:c}}b{c:d}", "a{b:c})", "]a{b:c}", "@charset \"utf-8\"", "a{b:c}@import url(x.css)"}

func runEOF(c *core.Check) {
	name := "structure/unclosed-and-stray"
	st := c.Family(name)
	st.Bound = fmt.Sprintf("%d hand-written stylesheets that end inside an open string, function, block or comment, or have stray tokens between rules; alone and after a{b:c}", len(eofInputs))
	for i, in := range eofInputs {
		for _, pre := range []string{"", "a{b:c}", "a{b:c}\n"} {
			cases, nt := checkSheet(c, name, pre+in, uint64(i))
			c.Count(cases)
			c.AddFamily(name, cases, nt)
		}
	}
}

// state that survives from one declaration to the next (nesting counters, scratch buffers, caches) shows only after many
// declarations: each unit repeated N times around the usual limits, then a probe rule whose values sit on the paths that
// depend on normalised tokens (a leading zero that is not a zero, lengths next to keywords, colours, lists)
var manyUnits = []string{"a{z-index:1}", "a{order:2}", "a{margin:0}", "a{color:red}", "a{--x:1}", "a{width:calc(1px + 2px)}", "a{grid-row:1}", "a{background:url(x.png)}", "@media x{a{b:c}}", "a{font:12px a}", "a{counter-reset:c 1}", "a{transform:rotate(0deg)}", "a{flex:1 1 0%}", "a{box-shadow:0 0 0 red}"}
var manyProbes = []string{".t{flex-basis:0.5em;flex:1 1 0.25rem}", ".t{box-shadow:1px 1px 2px 0.5px red}", ".t{background-position:0.5% 10px}", ".t{margin:0.5px 0.0px;color:#ff0000}", ".t{width:calc( 1px + 0.50px );z-index:010}", ".t{font:italic 0.5em/1.50 a , b}"}

func runAfterMany(c *core.Check) {
	name := "structure/after-many-declarations"
	counts := []int{99, 100, 101, 257}
	if c.Thorough() {
		counts = []int{1, 31, 32, 33, 63, 64, 65, 99, 100, 101, 127, 128, 129, 255, 256, 257, 1000, 1025}
	}
	st := c.Family(name)
	st.Bound = fmt.Sprintf("%d repeated units x %d repetition counts x %d probe rules (as rules of one sheet, and as declarations of one rule)", len(manyUnits), len(counts), len(manyProbes))
	k := uint64(0)
	for _, u := range manyUnits {
		for _, n := range counts {
			for _, pr := range manyProbes {
				in := strings.Repeat(u, n) + pr
				cases, nt := checkSheet(c, name, in, k)
				c.Count(cases)
				c.AddFamily(name, cases, nt)
				k++
				if strings.HasPrefix(u, "a{") {
					// the same declarations inside one rule
					d := strings.TrimSuffix(strings.TrimPrefix(u, "a{"), "}")
					in = "a{" + strings.Repeat(d+";", n) + strings.TrimSuffix(strings.TrimPrefix(pr, ".t{"), "}") + "}"
					cases, nt = checkSheet(c, name, in, k)
					c.Count(cases)
					c.AddFamily(name, cases, nt)
					k++
				}
			}
		}
	}
}

func runStructure(c *core.Check) {
	if only("structure/after-many") {
		runAfterMany(c)
	}
	if only("structure/rule-lists") {
		runRuleLists(c)
	}
	if only("structure/unclosed") {
		runEOF(c)
	}
	if only("structure/declaration-lists") {
		runDeclLists(c)
	}
	if only("structure/selectors") {
		runSelectors(c)
	}
	if only("structure/at-preludes") {
		runPreludes(c)
	}
}
