// Package c04: CSS minification preserves the cascade input.
package c04

import (
	"bytes"
	"fmt"
	"os"
	"strings"

	minify "github.com/tdewolff/minify/v2"
	mcss "github.com/tdewolff/minify/v2/css"
	"verif/internal/core"
	"verif/internal/oracle/cssval"
)

// Config is one configuration of the minifier.
type Config struct {
	Inline   bool
	KeepCSS2 bool
}

func (c Config) String() string { return fmt.Sprintf("inline=%v KeepCSS2=%v", c.Inline, c.KeepCSS2) }

// ParseConfig is the inverse of Config.String.
func ParseConfig(s string) Config {
	return Config{Inline: strings.Contains(s, "inline=true"), KeepCSS2: strings.Contains(s, "KeepCSS2=true")}
}

var allConfigs = []Config{{false, false}, {false, true}, {true, false}, {true, true}}

// Minify runs the code under test on a private copy of the input.
func Minify(in string, cfg Config) (out string, err error, panicked string) {
	m := minify.New()
	o := &mcss.Minifier{KeepCSS2: cfg.KeepCSS2}
	var w bytes.Buffer
	var params map[string]string
	if cfg.Inline {
		params = map[string]string{"inline": "1"}
	}
	panicked = core.Recover(func() { err = o.Minify(m, &w, bytes.NewReader([]byte(in)), params) })
	return w.String(), err, panicked
}

// CheckOne minifies one text under one configuration and compares input and output with
// the oracle. kind "" = holds; kind "rejected" = the minifier returned an error (outside
// the domain of the property, not a failure).
func CheckOne(in string, cfg Config) (kind, what, out string) {
	out, err, p := Minify(in, cfg)
	if p != "" {
		return "panic", p, out
	}
	if err != nil {
		return "rejected", err.Error(), out
	}
	var d *cssval.Diff
	if pp := core.Recover(func() {
		if cfg.Inline {
			d = cssval.CompareInline(in, out)
		} else {
			d = cssval.CompareStylesheet(in, out)
		}
	}); pp != "" {
		return "oracle-panic", pp, out
	}
	if d != nil {
		return d.Kind, fmt.Sprintf("output %q: %s", out, d.What), out
	}
	return "", "", out
}

// Replay re-executes one failure.
func Replay(f core.Failure) (string, string) {
	kind, what, _ := CheckOne(f.Input, ParseConfig(f.Config))
	if kind == "rejected" {
		return "", ""
	}
	return kind, what
}

func only(name string) bool {
	f := os.Getenv("VERIF_C04_ONLY") // development aid: restrict to families containing the substring
	return f == "" || strings.Contains(name, f)
}

// Run executes C04.
func Run(c *core.Check) {
	c.Rule = "structure: every list of <=3 items over an alphabet of rules, at-rules, comments and malformed declarations, every selector of <=3 compounds over pieces and combinators; values: for each property branch of minifyProperty every sequence of <=N components over the property's own terminals that the oracle's grammar accepts; tokens: every number notation x unit x context, rgb/hsl grids, hex colours, colour keywords, strings, URLs; each in stylesheet and inline mode, KeepCSS2 off and on, precision 0. Non-trivial = output differs from input; distinct = distinct (input, configuration)"
	c.Assumptions = []string{
		"own CSS Syntax 3 tokenizer/parser and value interpreter (internal/oracle/cssval); input and output are parsed by the same oracle",
		"type selectors, pseudo-class names and keyframe selectors are ASCII case-insensitive (HTML documents)",
		"an omitted flex-basis in the flex shorthand is 0% (as implemented by browsers)",
		"outline-color: invert is the initial value (CSS 2.1 / CSS UI 3)",
		"colour channels: an unrounded channel equals the 8-bit value it rounds to, a tie equals both neighbours; alpha exact",
		"progid:DXImageTransform.Microsoft.Alpha(Opacity=n) and alpha(opacity=n) are the same Internet Explorer filter",
		"data: URLs are equal when media type and decoded payload are equal",
	}
	for i := range valueFamilies {
		if only("value/" + valueFamilies[i].name) {
			runValueFamily(c, &valueFamilies[i])
		}
	}
	runExtra(c)
	c.Extra["rejected_by_minifier"] = rejectedCounts()
	flushFailures(c)
}
