// Package c08: Number/Decimal shortening keeps the numeric value.
// Bounded exhaustive enumeration of the number grammar × precisions, compared with an
// exact math/big normal form.
package c08

import (
	"bytes"
	"fmt"
	"math/big"
	"regexp"
	"strings"

	minify "github.com/tdewolff/minify/v2"
	"verif/internal/core"
	"verif/internal/numref"
)

var digits = []byte("01459")

type tmpl struct {
	sign    string
	i, f    int
	bareDot bool // "d+." form
}

// templates lists every shape of the mantissa grammar with exactly L digits.
func templates(L int) []tmpl {
	var out []tmpl
	for _, s := range []string{"", "-", "+"} {
		out = append(out, tmpl{s, L, 0, false}, tmpl{s, L, 0, true}, tmpl{s, 0, L, false})
		for i := 1; i < L; i++ {
			out = append(out, tmpl{s, i, L - i, false})
		}
	}
	return out
}

func (t tmpl) render(dst []byte, idx uint64) []byte {
	dst = append(dst[:0], t.sign...)
	for k := 0; k < t.i; k++ {
		dst = append(dst, digits[idx%5])
		idx /= 5
	}
	if t.f > 0 || t.bareDot {
		dst = append(dst, '.')
	}
	for k := 0; k < t.f; k++ {
		dst = append(dst, digits[idx%5])
		idx /= 5
	}
	return dst
}

func pow5(n int) uint64 {
	p := uint64(1)
	for ; n > 0; n-- {
		p *= 5
	}
	return p
}

// mantissas is a random-access family of all mantissas with 1..maxL digits, shortest first.
type mantissas struct {
	ts   []tmpl
	offs []uint64
	n    uint64
}

func newMantissas(maxL int) *mantissas {
	m := &mantissas{}
	for L := 1; L <= maxL; L++ {
		for _, t := range templates(L) {
			m.ts = append(m.ts, t)
			m.offs = append(m.offs, m.n)
			m.n += pow5(L)
		}
	}
	return m
}

func (m *mantissas) at(dst []byte, i uint64) []byte {
	lo, hi := 0, len(m.ts)
	for lo+1 < hi {
		mid := (lo + hi) / 2
		if m.offs[mid] <= i {
			lo = mid
		} else {
			hi = mid
		}
	}
	return m.ts[lo].render(dst, i-m.offs[lo])
}

var expsFull = []string{"", "e0", "e1", "e-1", "E2", "e+2", "e-2", "e3", "e-3", "e4", "e-4", "e5", "e-5", "e9", "e-9", "e10", "e-10", "e11", "e-11",
	"e22", "e-22", "e99", "e-99", "e100", "e-100", "e308", "e-308", "e324", "e-324", "e999", "e-999",
	"e2147483647", "e-2147483647", "e2147483648", "e-2147483648", "e-2147483649",
	"e9223372036854775807", "e-9223372036854775807", "e9223372036854775808", "e-9223372036854775808", "e-9223372036854775809",
	"e99999999999999999999", "e-99999999999999999999", "e01", "e-01", "e+0", "e-0", "e00", "E+10", "E-7", "e6", "e-6", "e7", "e8", "e-8"}

var expsShort = []string{"", "e0", "e1", "e-1", "e2", "e-2", "E3", "e-3", "e+5", "e-5", "e-9", "e10", "e-12"}

var precs = []int{0, -1, 1, 2, 3, 4, 5, 6, 7, 8, 9, 10, 11, 12, 13, 14, 15, 16, 17, 18, 19, 20}

var reNumber = regexp.MustCompile(`^[+-]?(\d+\.?\d*|\.\d+)([eE][+-]?\d+)?$`)
var reDecimal = regexp.MustCompile(`^[+-]?(\d+\.?\d*|\.\d+)$`)

const guard = 16

// CheckOne runs one helper call and returns a failure description ("" = ok) and the output.
func CheckOne(fn string, in string, prec int) (kind, what, out string) {
	buf := make([]byte, guard+len(in)+guard)
	for i := range buf {
		buf[i] = 0xAA
	}
	copy(buf[guard:], in)
	num := buf[guard : guard+len(in)] // capacity deliberately extends into the trailing guard
	var res []byte
	p := core.Recover(func() {
		if fn == "Decimal" {
			res = minify.Decimal(num, prec)
		} else {
			res = minify.Number(num, prec)
		}
	})
	if p != "" {
		return "panic", "panic: " + p, ""
	}
	out = string(res)
	for i := 0; i < guard; i++ {
		if buf[i] != 0xAA || buf[guard+len(in)+i] != 0xAA {
			return "out-of-bounds-write", fmt.Sprintf("guard byte at offset %d relative to slice changed", i), out
		}
	}
	if len(out) > len(in) {
		return "longer", fmt.Sprintf("output %q is longer than input", out), out
	}
	re := reNumber
	if fn == "Decimal" {
		re = reDecimal
	}
	if !re.MatchString(out) {
		return "invalid-grammar", fmt.Sprintf("output %q is not a number of the grammar", out), out
	}
	a, ok1 := numref.Parse(in)
	b, ok2 := numref.Parse(out)
	if !ok1 || !ok2 {
		return "invalid-grammar", fmt.Sprintf("cannot parse in=%v out=%v (%q)", ok1, ok2, out), out
	}
	if prec <= 0 || a.IsZero() {
		if !a.Equal(b) {
			return "value-changed", fmt.Sprintf("output %q = %s but input = %s", out, b, a), out
		}
		return "", "", out
	}
	// half a unit of the prec-th significant digit; Decimal never drops integer digits
	u := new(big.Int).Sub(a.MSDExp(), big.NewInt(int64(prec-1)))
	if fn == "Decimal" && u.Sign() > 0 {
		u.SetInt64(0)
	}
	if !numref.WithinHalfUnit(a, b, u) {
		return "value-off", fmt.Sprintf("output %q = %s is more than half a unit (1e%s) away from input %s", out, b, u, a), out
	}
	return "", "", out
}

func runFamily(c *core.Check, name, fn string, maxL int, exps []string) {
	ms := newMantissas(maxL)
	total := ms.n * uint64(len(exps))
	st := c.Family(name)
	st.Bound = fmt.Sprintf("mantissa digits<=%d over 0,1,4,5,9; %d exponent lexemes; %d precisions", maxL, len(exps), len(precs))
	c.ParallelRange(name, total, func(i uint64) {
		mant := ms.at(nil, i/uint64(len(exps)))
		in := string(mant) + exps[i%uint64(len(exps))]
		var nt uint64
		for _, p := range precs {
			kind, what, out := CheckOne(fn, in, p)
			if out != in {
				nt++
				c.Nontrivial(fn, in, fmt.Sprint(p))
			}
			if kind != "" {
				c.Fail(core.Failure{Family: name, Input: in, Config: fmt.Sprintf("%s prec=%d", fn, p), Kind: kind, What: what, Order: i})
			}
		}
		c.Count(uint64(len(precs)))
		c.AddFamily(name, uint64(len(precs)), nt)
		if i%(total/4+1) == 7 {
			_, _, out := CheckOne(fn, in, 3)
			c.Sample(map[string]any{"fn": fn, "in": in, "prec": 3, "out": out})
		}
	})
}

// Run executes the C08 check.
func Run(c *core.Check) {
	c.Rule = "every string of [+-]?(d+.?d*|.d+)([eE][+-]?d+)? with mantissa digits from {0,1,4,5,9} up to the family's length bound, crossed with the exponent lexeme list and every precision -1,0..20; Number and Decimal (no exponent); a case is non-trivial when the helper's output differs from its input bytes; distinct = distinct (function,input,precision)"
	c.Assumptions = []string{"math/big arithmetic", "digits 2,3,6,7,8 behave like 1/4/5 in every comparison of the helpers ('5'<=, =='9', =='0')"}
	runFamily(c, "number-full-exponents", "Number", c.Pick(3, 5), expsFull)
	runFamily(c, "number-long-mantissa", "Number", c.Pick(5, 7), expsShort)
	runFamily(c, "decimal", "Decimal", c.Pick(6, 8), []string{""})
	// Decimal must also leave exponent inputs parseable? (Decimal's grammar has no exponent: not in domain.)
	// Directed boundary sweep: all-nines carries of every length up to 24 for every precision.
	for n := 1; n <= 24; n++ {
		for dot := 0; dot <= n; dot++ {
			for _, tail := range []string{"", "5", "4", "95", "49", "50"} {
				s := strings.Repeat("9", n)
				in := s[:dot] + "." + s[dot:] + tail
				if dot == n && tail == "" {
					in = s
				}
				for _, fn := range []string{"Number", "Decimal"} {
					for _, p := range precs {
						kind, what, out := CheckOne(fn, in, p)
						c.Count(1)
						if out != in {
							c.Nontrivial(fn, in, fmt.Sprint(p))
						}
						if kind != "" {
							c.Fail(core.Failure{Family: "nines", Input: in, Config: fmt.Sprintf("%s prec=%d", fn, p), Kind: kind, What: what, Order: uint64(n*100 + dot)})
						}
					}
				}
			}
		}
	}
}

// Tolerance applies C08's value clause to a given (input, output) pair (used by C16).
func Tolerance(in, out string, prec int, decimal bool) (kind, what string, ok bool) {
	a, ok1 := numref.Parse(in)
	b, ok2 := numref.Parse(out)
	if !ok1 || !ok2 {
		return "invalid-grammar", "not a number", false
	}
	if prec <= 0 || a.IsZero() {
		if !a.Equal(b) {
			return "value-changed", "", true
		}
		return "", "", true
	}
	u := new(big.Int).Sub(a.MSDExp(), big.NewInt(int64(prec-1)))
	if decimal && u.Sign() > 0 {
		u.SetInt64(0)
	}
	if !numref.WithinHalfUnit(a, b, u) {
		return "value-off", "", true
	}
	return "", "", true
}

// Replay re-executes one recorded failure.
func Replay(f core.Failure) (string, string) {
	var fn string
	var prec int
	fmt.Sscanf(f.Config, "%s prec=%d", &fn, &prec)
	kind, what, _ := CheckOne(fn, f.Input, prec)
	return kind, what
}

var _ = bytes.Equal
