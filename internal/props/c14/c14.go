// Package c14: I/O failures surface as errors, never as silent truncation or deadlock.
// Exhaustive fault-position enumeration: for every input and every k the reader fails
// after k bytes / the writer fails from its k-th call on; direct minifier calls, M.Minify,
// Bytes/String, and (under the controlled scheduler) the Reader/Writer wrappers.
package c14

import (
	"bytes"
	"errors"
	"fmt"
	"io"
	"os"
	"os/exec"
	"strings"

	minify "github.com/tdewolff/minify/v2"
	"verif/internal/core"
	"verif/internal/corpus"
	"verif/internal/vsrun"
)

// The injected errors come in several identities: a reader or writer may fail with an
// error that wraps io.EOF or io.ErrUnexpectedEOF (a truncated frame, a closed connection);
// only the bare io.EOF value means "end of input".
// The sentinel errors of package io that the wrappers themselves produce and test for (a closed pipe) are identities of their own:
// a source or destination may fail with exactly that value, or wrap it.
var errReaders = []error{errors.New("injected reader failure"), fmt.Errorf("injected reader failure: %w", io.EOF), fmt.Errorf("injected reader failure: %w", io.ErrUnexpectedEOF), io.ErrClosedPipe, fmt.Errorf("relay: %w", io.ErrClosedPipe), io.ErrUnexpectedEOF, io.ErrNoProgress}
var errWriters = []error{errors.New("injected writer failure"), fmt.Errorf("injected writer failure: %w", io.EOF), fmt.Errorf("injected writer failure: %w", io.ErrShortWrite), io.ErrClosedPipe, fmt.Errorf("relay: %w", io.ErrClosedPipe), io.ErrShortWrite, io.ErrShortBuffer}
var errKindNames = []string{"plain", "wraps-EOF", "wraps-other-io-error", "io.ErrClosedPipe", "wraps-io.ErrClosedPipe", "bare-io-sentinel", "bare-io-sentinel-2"}

// faultReader delivers data[:k] in reads of at most step bytes, then fails.
type faultReader struct {
	data     []byte
	k, pos   int
	step     int
	withLast bool // return the error together with the last good bytes
	err      error
}

func (r *faultReader) Read(p []byte) (int, error) {
	if r.pos >= r.k {
		return 0, r.err
	}
	n := r.k - r.pos
	if n > len(p) {
		n = len(p)
	}
	if r.step > 0 && n > r.step {
		n = r.step
	}
	copy(p, r.data[r.pos:r.pos+n])
	r.pos += n
	if r.pos >= r.k && r.withLast {
		return n, r.err
	}
	return n, nil
}

// faultWriter fails from its k-th Write call on (k = 0: never) and keeps failing.
type faultWriter struct {
	buf   bytes.Buffer
	calls int
	k     int
	short bool
	err   error
}

func (w *faultWriter) Write(p []byte) (int, error) {
	w.calls++
	if w.k > 0 && w.calls >= w.k {
		if w.short && len(p) > 1 {
			return len(p) / 2, w.err
		}
		return 0, w.err
	}
	w.buf.Write(p)
	return len(p), nil
}

type entry struct {
	name string
	call func(d corpus.Doc, w io.Writer, r io.Reader) error
}

// cmdRegistry: external commands in the four ways a command can take its input and deliver its output
func cmdRegistry() *minify.M {
	m := minify.New()
	m.AddCmd("text/css", exec.Command("cat"))
	m.AddCmd("text/html", exec.Command("cat", "$in"))
	m.AddCmd("application/javascript", exec.Command("sh", "-c", "cat > $out"))
	m.AddCmd("application/json", exec.Command("cp", "$in", "$out"))
	m.AddCmd("image/svg+xml", exec.Command("cat"))
	m.AddCmd("text/xml", exec.Command("cat", "$in"))
	return m
}

var entries = []entry{
	{"direct", func(d corpus.Doc, w io.Writer, r io.Reader) error {
		return corpus.Direct(d.Type).Minify(corpus.Registry(), w, r, nil)
	}},
	{"M.Minify", func(d corpus.Doc, w io.Writer, r io.Reader) error {
		return corpus.Registry().Minify(d.Type, w, r)
	}},
	// the media type parameter that HTML and SVG hosts pass for attribute values and nested documents
	{"M.Minify;inline=1", func(d corpus.Doc, w io.Writer, r io.Reader) error {
		return corpus.Registry().Minify(d.Type+";inline=1", w, r)
	}},
	// minifiers that are external commands (AddCmd), reading stdin or $in and writing stdout or $out
	{"M.Minify/AddCmd", func(d corpus.Doc, w io.Writer, r io.Reader) error {
		t := d.Type
		if i := strings.IndexByte(t, ';'); i >= 0 {
			t = t[:i]
		}
		return cmdRegistry().Minify(t, w, r)
	}},
}

// One runs one fault case; returns a violation description or "".
func One(e entry, d corpus.Doc, rk, rstep int, rlast bool, wk int, wshort bool, ek int) (kind, what string) {
	errReader, errWriter := errReaders[ek], errWriters[ek]
	var r io.Reader = bytes.NewReader([]byte(d.Text))
	if rk >= 0 {
		r = &faultReader{data: []byte(d.Text), k: rk, step: rstep, withLast: rlast, err: errReader}
	}
	w := &faultWriter{k: wk, short: wshort, err: errWriter}
	var err error
	if p := core.Recover(func() { err = e.call(d, w, r) }); p != "" {
		return "panic", p
	}
	readerFaulted := rk >= 0
	writerFaulted := wk > 0 && w.calls >= wk
	if !readerFaulted && !writerFaulted {
		return "", "" // the fault position lies beyond the last call: nothing to demand
	}
	if err == nil {
		return "silent-success", fmt.Sprintf("returned nil although reader fault=%v (after %d bytes) writer fault=%v (from call %d of %d); output so far %q", readerFaulted, rk, writerFaulted, wk, w.calls, trunc(w.buf.String()))
	}
	if !(errors.Is(err, errReader) && readerFaulted) && !(errors.Is(err, errWriter) && writerFaulted) {
		// for a document whose minification fails by itself, its own (non-nil) error is as good
		if cleanErr := e.call(d, io.Discard, bytes.NewReader([]byte(d.Text))); cleanErr != nil && !readerFaulted {
			return "", ""
		}
		return "wrong-error", fmt.Sprintf("returned %q instead of the injected error (reader fault=%v writer fault=%v)", err, readerFaulted, writerFaulted)
	}
	return "", ""
}

func trunc(s string) string {
	if len(s) > 80 {
		return s[:80] + "…"
	}
	return s
}

type job struct {
	e         entry
	d         corpus.Doc
	rk, rstep int
	rlast     bool
	wk        int
	wshort    bool
	ek        int // error identity
}

func (j job) config() string {
	return fmt.Sprintf("entry=%s reader_fail_after=%d step=%d with_last=%v writer_fail_from=%d short=%v error=%s", j.e.name, j.rk, j.rstep, j.rlast, j.wk, j.wshort, errKindNames[j.ek])
}

// Run executes C14.
func Run(c *core.Check) {
	// command minifiers create temporary files: they go to a directory of this run, which is removed at the end whatever the
	// tree under test does with them
	if scratch, err := os.MkdirTemp("", "verif-cmd-"); err == nil {
		old := os.Getenv("TMPDIR")
		os.Setenv("TMPDIR", scratch)
		defer func() { os.Setenv("TMPDIR", old); os.RemoveAll(scratch) }()
	}
	c.Rule = "for every corpus document of every media type (valid ones with embedded content and ones whose minification fails late) and every entry point: the reader fails after k bytes for EVERY k in 0..len (reads of 1/7/all bytes; error returned alone or together with the last bytes; the error is a plain one, one that wraps io.EOF, one that wraps another io error); the writer fails from its k-th call on for EVERY k in 1..calls+1 (returning 0 or a short count), also for every proper prefix of every valid document taken as a document of its own; and both for all pairs on a subset; through Reader/Writer/ResponseWriter every interleaving (controlled scheduler). Non-trivial = a fault was actually hit before the call returned"
	c.Assumptions = []string{"a writer that fails keeps failing (a writer that recovers is outside the statement)", "wrappers: same scheduler assumptions as C12"}
	docs := append(append([]corpus.Doc{}, corpus.Valid...), corpus.Failing...)
	var jobs []job
	for _, e := range entries {
		for _, d := range docs {
			// how many writes does a clean run make?
			cw := &faultWriter{}
			e.call(d, cw, bytes.NewReader([]byte(d.Text)))
			n := len(d.Text)
			for ek := range errKindNames {
				for k := 0; k <= n; k++ {
					for _, st := range []int{0, 1, 7} {
						if ek > 0 && st == 7 {
							continue
						}
						jobs = append(jobs, job{e, d, k, st, false, 0, false, ek}, job{e, d, k, st, true, 0, false, ek})
					}
				}
				for k := 1; k <= cw.calls+1; k++ {
					jobs = append(jobs, job{e, d, -1, 0, false, k, false, ek}, job{e, d, -1, 0, false, k, true, ek})
				}
			}
			// pairs: thorough all (k1 every 1, k2 all); quick a diagonal
			for k1 := 0; k1 <= n; k1++ {
				for k2 := 1; k2 <= cw.calls+1; k2++ {
					if c.Thorough() || (k1+k2)%7 == 0 {
						jobs = append(jobs, job{e, d, k1, 0, false, k2, false, (k1 + k2) % len(errKindNames)})
					}
				}
			}
		}
	}
	// input shapes: every proper prefix of every valid document is a document of its own
	// (unterminated tags, comments, processing instructions, strings, blocks ...); the writer
	// fails from its k-th call on for every k.
	nPrefix := 0
	for _, d := range corpus.Valid {
		for cut := 1; cut < len(d.Text); cut++ {
			pd := corpus.Doc{Type: d.Type, Text: d.Text[:cut]}
			cw := &faultWriter{}
			entries[0].call(pd, cw, bytes.NewReader([]byte(pd.Text)))
			for k := 1; k <= cw.calls+1; k++ {
				jobs = append(jobs, job{entries[0], pd, -1, 0, false, k, false, 0})
				nPrefix++
			}
		}
	}
	c.Extra["prefix_document_fault_cases"] = nPrefix
	c.Family("sequential-faults").Bound = fmt.Sprintf("%d documents x %d entry points, all fault positions", len(docs), len(entries))
	c.ParallelRange("sequential-faults", uint64(len(jobs)), func(i uint64) {
		j := jobs[i]
		kind, what := One(j.e, j.d, j.rk, j.rstep, j.rlast, j.wk, j.wshort, j.ek)
		c.Count(1)
		c.Nontrivial(j.d.Text, j.config())
		c.AddFamily("sequential-faults", 1, 1)
		if kind != "" {
			c.Fail(core.Failure{Family: "sequential-faults", Input: j.d.Text, Config: j.d.Type + " " + j.config(), Kind: kind, What: what, Order: i})
		}
		if i%20011 == 3 {
			c.Sample(map[string]any{"type": j.d.Type, "input": j.d.Text, "fault": j.config()})
		}
	})
	// Bytes/String: only writer faults do not apply (they write to memory); the error of a
	// failing document must come back with the original data (C10 covers the data part).
	vsrun.Explore(c, "c14")
	vsrun.Conform(c)
}

// Replay re-executes one failure of the sequential family.
func Replay(f core.Failure) (string, string) {
	if f.Family != "sequential-faults" {
		return "replay-unsupported", "schedule failures are replayed by re-running ./run.sh C14 quick"
	}
	var j job
	var typ, ename string
	parts := strings.SplitN(f.Config, " ", 2)
	typ = parts[0]
	var ekName string
	fmt.Sscanf(parts[1], "entry=%s reader_fail_after=%d step=%d with_last=%t writer_fail_from=%d short=%t error=%s", &ename, &j.rk, &j.rstep, &j.rlast, &j.wk, &j.wshort, &ekName)
	for i, n := range errKindNames {
		if n == ekName {
			j.ek = i
		}
	}
	for _, e := range entries {
		if e.name == ename {
			j.e = e
		}
	}
	return One(j.e, corpus.Doc{Type: typ, Text: f.Input}, j.rk, j.rstep, j.rlast, j.wk, j.wshort, j.ek)
}

var _ = minify.ErrNotExist
