// Package c19: the CLI writes the library's output to the right place and never harms inputs.
// Exhaustive enumeration of small trees x invocation shapes on the real binary against a
// reference model written from cmd/minify/README.md; contents come from library calls.
package c19

import (
	"bytes"
	"fmt"
	"os"
	"os/exec"
	"path"
	"regexp"
	"sort"
	"strings"

	minify "github.com/tdewolff/minify/v2"
	"github.com/tdewolff/minify/v2/css"
	"github.com/tdewolff/minify/v2/html"
	"github.com/tdewolff/minify/v2/js"
	mjson "github.com/tdewolff/minify/v2/json"
	"github.com/tdewolff/minify/v2/svg"
	"github.com/tdewolff/minify/v2/xml"
	"verif/internal/clitree"
	"verif/internal/core"
)

// ---------- library side of the model ----------

func registry() *minify.M {
	m := minify.New()
	m.Add("text/css", &css.Minifier{})
	m.Add("text/html", &html.Minifier{})
	m.Add("image/svg+xml", &svg.Minifier{})
	m.AddRegexp(regexp.MustCompile("^(application|text)/(x-)?(java|ecma|j|live)script(1\\.[0-5])?$|^module$"), &js.Minifier{})
	m.AddRegexp(regexp.MustCompile("[/+]json$"), &mjson.Minifier{})
	m.AddRegexp(regexp.MustCompile("[/+]xml$"), &xml.Minifier{})
	return m
}

var extType = map[string]string{"css": "text/css", "js": "application/javascript", "html": "text/html", "json": "application/json", "svg": "image/svg+xml", "xml": "text/xml", "htm": "text/html", "mjs": "application/javascript", "xhtml": "application/xhtml+xml", "rss": "application/rss+xml", "webmanifest": "application/manifest+json"}

// jsType: the media types the command registers the JS minifier for (cmd/minify README, "Types").
var jsType = regexp.MustCompile(`^(application|text)/(x-)?(java|ecma|j|live)script(1\.[0-5])?$|^module$`)

func typeOf(name string, ext map[string]string) (string, bool) {
	e := strings.TrimPrefix(path.Ext(name), ".")
	if t, ok := ext[e]; ok {
		return t, true
	}
	t, ok := extType[e]
	return t, ok
}

// libOutput: what the library produces, or the original bytes and failed=true.
func libOutput(typ string, data []byte) (out []byte, failed bool) {
	b, err := registry().Bytes(typ, append([]byte{}, data...))
	if err != nil {
		return data, true
	}
	return b, false
}

// ---------- file pool and trees ----------

type item struct {
	path string
	data string
}

var pool = []item{
	{"src/a.css", "a { color : red }\n"}, {"src/a.css", "b { margin : 0px 0px }\n"},
	{"src/a.js", "var a = 1 ;\n"}, {"src/a.js", "var a = ( 1 ;\n"}, // second one fails to minify
	{"src/a.js", "window.x = f"}, // no trailing semicolon or newline: only the bundle separator keeps it apart from what follows
	{"src/b.html", "<p> x   y </p>\n"},
	{"src/c.txt", "plain  text\n"},
	{"src/.h.css", "h { x : y }\n"},
	{"src/noext", "n { o : p }\n"},
	{"src/a.min.css", "m { q : r }\n"},
	{"src/d.json", "{ \"a\" : 1 }\n"}, {"src/d.json", "{ \"a\" : }\n"},
	{"src/sub/a.css", "s { t : u }\n"},
	{"src/sub/e.js", "f ( 1 , 2 ) ;\n"}, {"src/sub/e.js", "( function ( ) { g ( ) } ) ( )"},
	{"src/.hid/z.css", "z { a : b }\n"},
	{"src/sub/c.txt", "other\n"},
	// fail only after the parser has rewritten part of its input in place (tag names lower-cased, a number shortened)
	{"src/b.html", "<P CLASS=x> x   y </P><SCRIPT>var a = ( 1 ;</SCRIPT>\n"},
	{"src/d.json", "{ \"a\" : 1.0e1 , \"b\" : }\n"},
	// 511 bytes ending in a line comment: in a bundle the separator starts in the last byte of a 512-byte read buffer
	{"src/a.js", "window.y = g ;\n/*" + strings.Repeat("p", 511-17-32) + "*/\n//# sourceMappingURL=a.js.map"},
}

func trees(maxFiles int) []clitree.Tree {
	var out []clitree.Tree
	var rec func(start int, cur []item)
	rec = func(start int, cur []item) {
		if len(cur) > 0 {
			t := clitree.Tree{}
			for _, it := range cur {
				t[it.path] = clitree.Node{Data: []byte(it.data)}
			}
			out = append(out, t)
		}
		if len(cur) == maxFiles {
			return
		}
		for i := start; i < len(pool); i++ {
			dup := false
			for _, c := range cur {
				if c.path == pool[i].path {
					dup = true
				}
			}
			if !dup {
				rec(i+1, append(append([]item{}, cur...), pool[i]))
			}
		}
	}
	rec(0, nil)
	return out
}

// ---------- invocation shapes ----------

type shape struct {
	name   string
	flags  []string
	inputs string // "each" (one run per file), "all" (every file as argument, sorted), "src", "src/", "stdin:<type>"
	output string // "" = stdout
}

var shapes = []shape{
	{"file→stdout", nil, "each", ""},
	{"file→new file", nil, "each", "out.min"},
	{"file→dir/", nil, "each", "out/"},
	{"file→itself", nil, "each", "SELF"},
	{"file→.", nil, "each", "."},
	{"files→dir/", nil, "all", "out/"},
	{"files→dir (no slash)", nil, "all", "out"},
	{"files→stdout without -b (rejected)", nil, "all", ""},
	{"bundle→file", []string{"-b"}, "all", "bundle.out"},
	{"bundle→stdout", []string{"-b"}, "all", ""},
	{"bundle --type js→file", []string{"-b", "--type", "js"}, "all", "bundle.out"},
	{"bundle --mime application/javascript→stdout", []string{"-b", "--mime", "application/javascript"}, "all", ""},
	{"bundle --mime text/javascript→file", []string{"-b", "--mime", "text/javascript"}, "all", "bundle.out"},
	{"files -s→dir/", []string{"-s"}, "all", "out/"},
	{"dir -r→dir/", []string{"-r"}, "src", "out/"},
	{"dir/ -r→dir/", []string{"-r"}, "src/", "out/"},
	{"dir -r→dir (no slash)", []string{"-r"}, "src", "out"},
	{"dir without -r", nil, "src", "out/"},
	{"dir -r -a", []string{"-r", "-a"}, "src", "out/"},
	{"dir -r -s", []string{"-r", "-s"}, "src", "out/"},
	{"dir -r -s -a", []string{"-r", "-s", "-a"}, "src/", "out/"},
	{"dir -r in place", []string{"-r"}, "src", "."},
	{"dir -r -v", []string{"-r", "-v"}, "src", "out/"},
	{"dir -r -q", []string{"-r", "-q"}, "src", "out/"},
	{"dir -r --match *.css", []string{"-r", "--match", "*.css", "--"}, "src", "out/"},
	{"dir -r --match ~regex", []string{"-r", "--match", "~^a\\.", "--"}, "src", "out/"},
	{"dir -r --exclude sub", []string{"-r", "--exclude", "src/sub/**", "--"}, "src", "out/"},
	{"dir -r --exclude/--include", []string{"-r", "--exclude", "src/**", "--include", "src/sub/**", "--"}, "src", "out/"},
	{"dir -r --exclude src/**", []string{"-r", "--exclude", "src/**", "--"}, "src", "out/"},
	{"dir -r -s --exclude src/**", []string{"-r", "-s", "--exclude", "src/**", "--"}, "src", "out/"},
	{"dir -r --include **/sub/** after --exclude **", []string{"-r", "--exclude", "**", "--include", "**/sub/**", "--"}, "src", "out/"},
	{"dir -r --type css", []string{"-r", "--type", "css"}, "src", "out/"},
	{"dir -r --ext.txt=css", []string{"-r", "--ext.txt=css"}, "src", "out/"},
	{"dir -r -b→file", []string{"-r", "-b"}, "src", "bundle.out"},
	{"stdin --type css", []string{"--type", "css"}, "stdin:a { b : c }\n", ""},
	{"stdin --type=text/css → file", []string{"--type=text/css"}, "stdin:a { b : c }\n", "o.css"},
	{"stdin --mime text/css", []string{"--mime", "text/css"}, "stdin:a { b : c }\n", ""},
	{"stdin without type (rejected)", nil, "stdin:a { b : c }\n", ""},
	{"stdin failing js", []string{"--type", "js"}, "stdin:var a = ( 1 ;\n", ""},
	{"file --type override", []string{"--type", "css"}, "each", "out.min"},
	{"file -p mode→new file", []string{"-p", "mode"}, "each", "out.min"},
}

// ---------- the reference model ----------

type expect struct {
	files    map[string][]byte // expected content of every path that is created or changed
	stdout   []byte
	checkOut bool
	fail     bool // exit status must be non-zero
	rejected bool // the invocation must be rejected: non-zero exit, nothing written
	unsure   bool // the documentation does not settle the outcome: only "inputs unharmed" is checked
	viaLink  bool // input and output are one file reached through a symbolic link: whether the name stays a link is not settled, but the property settles the content (new content, no leftover backup) and the exit status
}

type opts struct {
	recursive, all, sync, bundle bool
	typ                          string
	ext                          map[string]string
	match                        []*regexp.Regexp
	filters                      []filt
}

type filt struct {
	re      *regexp.Regexp
	include bool
}

func glob(p string) *regexp.Regexp {
	if strings.HasPrefix(p, "~") {
		return regexp.MustCompile(p[1:])
	}
	q := regexp.QuoteMeta(p)
	q = strings.ReplaceAll(q, `\*\*`, `.*`)
	q = strings.ReplaceAll(q, `\*`, `[^/]*`)
	q = strings.ReplaceAll(q, `\?`, `[^/]?`)
	return regexp.MustCompile("^" + q + "$")
}

func parseFlags(flags []string) opts {
	o := opts{ext: map[string]string{}}
	for i := 0; i < len(flags); i++ {
		f := flags[i]
		switch {
		case f == "-r":
			o.recursive = true
		case f == "-a":
			o.all = true
		case f == "-s":
			o.sync = true
		case f == "-b":
			o.bundle = true
		case f == "--type" || f == "--mime":
			i++
			o.typ = flags[i]
		case strings.HasPrefix(f, "--type="):
			o.typ = f[7:]
		case strings.HasPrefix(f, "--ext."):
			kv := strings.SplitN(f[6:], "=", 2)
			o.ext[kv[0]] = kv[1]
		case f == "--match":
			i++
			o.match = append(o.match, glob(flags[i]))
		case f == "--exclude":
			i++
			o.filters = append(o.filters, filt{glob(flags[i]), false})
		case f == "--include":
			i++
			o.filters = append(o.filters, filt{glob(flags[i]), true})
		}
	}
	if t, ok := extType[o.typ]; ok {
		o.typ = t
	}
	for k, v := range o.ext {
		if t, ok := extType[v]; ok {
			o.ext[k] = t
		}
	}
	return o
}

// selected: does the filter (match/include/exclude) accept the path?
func (o opts) filter(p string) bool {
	if len(o.match) > 0 {
		ok := false
		for _, re := range o.match {
			if re.MatchString(path.Base(p)) {
				ok = true
			}
		}
		if !ok {
			return false
		}
	}
	ok := true
	for _, f := range o.filters {
		if f.re.MatchString(p) {
			ok = f.include
		}
	}
	return ok
}

func hiddenPath(rel string) bool {
	for _, part := range strings.Split(rel, "/") {
		if strings.HasPrefix(part, ".") {
			return true
		}
	}
	return false
}

// model computes the expected effect of one invocation.
func model(t clitree.Tree, sh shape, inputs []string, output string, stdin []byte) expect {
	e := expect{files: map[string][]byte{}}
	if strings.Contains(sh.name, "undocumented") {
		e.unsure, e.viaLink = true, true
	}
	// symbolic links are followed for reading
	rt := clitree.Tree{}
	for p, n := range t {
		for i := 0; i < 4 && n.Link != ""; i++ {
			n = t[n.Link]
		}
		rt[p] = n
	}
	// a link whose target is a directory of the tree shows that directory's files under its own name
	for p, n := range t {
		if n.Link == "" {
			continue
		}
		for q, m := range t {
			if strings.HasPrefix(q, n.Link+"/") && m.Link == "" {
				rt[p+strings.TrimPrefix(q, n.Link)] = m
				delete(rt, p)
			}
		}
	}
	t = rt
	o := parseFlags(sh.flags)
	useStdin := len(inputs) == 0
	// rejected combinations (main.go's documented error messages)
	switch {
	case useStdin && o.typ == "":
		e.rejected = true
		return e
	case (useStdin || output == "") && o.sync, useStdin && (o.bundle || o.recursive), output == "" && o.recursive && !o.bundle, o.typ != "" && o.sync:
		e.rejected = true
		return e
	case output == "" && !o.bundle && len(inputs) > 1:
		e.rejected = true
		return e
	}
	if useStdin {
		out, failed := libOutput(o.typ, stdin)
		e.fail = failed
		if output == "" {
			e.stdout, e.checkOut = out, true
		} else {
			e.files[output] = out
		}
		return e
	}
	// destination kind
	dirDst := false
	if output != "" {
		if strings.HasSuffix(output, "/") || output == "." {
			dirDst = true
		} else if !o.bundle && len(inputs) > 1 {
			dirDst = true
		} else if !o.bundle && len(inputs) == 1 && isDir(t, strings.TrimSuffix(inputs[0], "/")) {
			dirDst = true
		}
		if dirDst && o.bundle {
			e.rejected = true
			return e
		}
	}
	// collect tasks: (source path, root, copyOnly)
	type task struct {
		src, root string
		copyOnly  bool
	}
	var tasks []task
	for _, in := range inputs {
		clean := strings.TrimSuffix(in, "/")
		root := path.Dir(clean)
		if strings.HasSuffix(in, "/") {
			root = clean
		}
		if isDir(t, clean) {
			if !o.recursive {
				continue // omitted with a warning
			}
			var files []string
			for p := range t {
				if strings.HasPrefix(p, clean+"/") {
					files = append(files, p)
				}
			}
			sort.Strings(files)
			for _, p := range files {
				if !o.all && hiddenPath(strings.TrimPrefix(p, clean+"/")) {
					continue
				}
				valid := o.filter(p)
				if valid && o.typ == "" {
					_, valid = typeOf(p, o.ext)
				}
				if valid || o.sync {
					tasks = append(tasks, task{p, root, !valid})
				}
			}
			continue
		}
		if _, ok := t[clean]; !ok {
			e.rejected = true
			return e
		}
		valid := o.filter(clean)
		if valid && o.sync && o.typ == "" {
			// "copies unselected files verbatim in sync mode": a file whose type is not known cannot be
			// selected for minification, whether it was found in a directory or named on the command line
			_, valid = typeOf(clean, o.ext)
		}
		if valid || o.sync {
			if o.typ == "" && !o.sync {
				if _, ok := typeOf(clean, o.ext); !ok {
					e.rejected = true // cannot infer mimetype: the whole invocation is refused
					return e
				}
			}
			tasks = append(tasks, task{clean, root, !valid})
		}
	}
	dest := func(tk task) string {
		if output == "" {
			return ""
		}
		if dirDst {
			rel := strings.TrimPrefix(tk.src, tk.root+"/")
			if tk.root == "." {
				rel = tk.src
			}
			return path.Join(output, rel)
		}
		return output
	}
	if o.bundle && len(tasks) > 0 {
		// one task: concatenation in order, ";\n" between JavaScript files
		typ := o.typ
		var parts [][]byte
		for _, tk := range tasks {
			ft, ok := typeOf(tk.src, o.ext)
			if o.typ == "" {
				if !ok {
					e.fail, e.unsure = true, true
					return e
				}
				if typ == "" {
					typ = ft
				} else if typ != ft {
					e.fail = true // mixed types cannot be bundled: nothing is written
					return e
				}
			}
			parts = append(parts, t[tk.src].Data)
		}
		sep := []byte(nil)
		if jsType.MatchString(typ) {
			sep = []byte(";\n")
		}
		out, failed := libOutput(typ, bytes.Join(parts, sep))
		e.fail = failed
		if output == "" {
			e.stdout, e.checkOut = out, true
		} else {
			e.files[output] = out
		}
		return e
	}
	// two inputs with one destination cannot both be written there: the invocation is refused as a whole
	// (main.go: "inputs … have the same destination"), whether the files would be minified or copied
	seenDst := map[string]bool{}
	for _, tk := range tasks {
		if d := dest(tk); d != "" {
			if seenDst[d] {
				e = expect{files: map[string][]byte{}, rejected: true}
				return e
			}
			seenDst[d] = true
		}
	}
	for _, tk := range tasks {
		d := dest(tk)
		if tk.copyOnly {
			if d != tk.src {
				e.files[d] = t[tk.src].Data
			}
			continue
		}
		typ := o.typ
		if typ == "" {
			typ, _ = typeOf(tk.src, o.ext)
		}
		out, failed := libOutput(typ, t[tk.src].Data)
		if failed {
			e.fail = true
		}
		if d == "" {
			e.stdout, e.checkOut = out, true
		} else {
			if prev, dup := e.files[d]; dup && !bytes.Equal(prev, out) {
				e.unsure = true // two sources map onto one destination: order is not documented
			}
			e.files[d] = out
		}
	}
	return e
}

func isDir(t clitree.Tree, p string) bool {
	for q := range t {
		if strings.HasPrefix(q, p+"/") {
			return true
		}
	}
	return false
}

// ---------- running and comparing ----------

type runResult struct {
	stdout, stderr []byte
	exit           int
	after          clitree.Snap
}

func runCLI(cli string, t clitree.Tree, args []string, stdin []byte) (runResult, clitree.Snap, error) {
	root := clitree.NewRoot()
	defer os.RemoveAll(root)
	if err := t.Build(root); err != nil {
		return runResult{}, nil, err
	}
	before := clitree.Snapshot(root)
	cmd := exec.Command(cli, args...)
	cmd.Dir = root
	var so, se bytes.Buffer
	cmd.Stdout, cmd.Stderr = &so, &se
	if stdin != nil {
		cmd.Stdin = bytes.NewReader(stdin)
	}
	err := cmd.Run()
	exit := 0
	if ee, ok := err.(*exec.ExitError); ok {
		exit = ee.ExitCode()
	} else if err != nil {
		return runResult{}, nil, err
	}
	return runResult{so.Bytes(), se.Bytes(), exit, clitree.Snapshot(root)}, before, nil
}

var statsLine = regexp.MustCompile(`(?m)^\(.*\) - .*\n`)

// compare returns the violations of one run against the model.
func compare(e expect, before clitree.Snap, r runResult) (kind string, what []string) {
	add := func(k, s string) {
		if kind == "" {
			kind = k
		}
		what = append(what, s)
	}
	// 1. nothing but the expected destinations changes; expected destinations hold expected bytes
	changed := map[string]bool{}
	for p, v := range r.after {
		if v == "dir" {
			continue
		}
		if before[p] != v {
			changed[p] = true
		}
	}
	for p := range before {
		if _, ok := r.after[p]; !ok {
			changed[p] = true
		}
	}
	if e.rejected {
		if r.exit == 0 {
			add("rejected-but-exit-0", "the invocation should be rejected with a non-zero exit status")
		}
		for p := range changed {
			add("rejected-but-wrote", fmt.Sprintf("rejected invocation changed %s", p))
		}
		return
	}
	for p := range changed {
		if _, ok := e.files[p]; !ok {
			_, existedBefore := before[p]
			_, existsNow := r.after[p]
			if strings.HasSuffix(p, ".bak") && !existedBefore {
				add("leftover-backup", fmt.Sprintf("leftover backup %s (%s)", p, trunc(r.after[p])))
			} else if existedBefore && !existsNow {
				add("other-file-deleted", fmt.Sprintf("file %s (%s) is not a destination of this invocation but was deleted", p, trunc(before[p])))
			} else if _, existed := before[p]; existed {
				add("other-file-modified", fmt.Sprintf("file %s is not a destination of this invocation but changed from %s to %s", p, trunc(before[p]), trunc(r.after[p])))
			} else if !e.unsure {
				add("unexpected-file", fmt.Sprintf("unexpected file %s created (%s)", p, trunc(r.after[p])))
			}
		}
	}
	if e.unsure && !e.viaLink {
		return
	}
	for p, want := range e.files {
		got, ok := r.after.Content(p)
		if e.viaLink {
			got, ok = through(r.after, p)
		}
		if !ok {
			add("destination-missing", fmt.Sprintf("destination %s was not written (state: %s)", p, trunc(r.after[p])))
		} else if !bytes.Equal(got, want) {
			add("wrong-content", fmt.Sprintf("destination %s holds %q, the library produces %q", p, got, want))
		}
	}
	if e.checkOut {
		got := statsLine.ReplaceAll(r.stdout, nil)
		if !bytes.Equal(got, e.stdout) {
			add("wrong-stdout", fmt.Sprintf("stdout is %q, the library produces %q", got, e.stdout))
		}
	}
	if e.fail && r.exit == 0 {
		add("exit-status", "a file failed to minify but the exit status is 0")
	}
	if !e.fail && r.exit != 0 {
		add("exit-status", fmt.Sprintf("exit status %d although every file minifies (stderr %q)", r.exit, trunc(string(r.stderr))))
	}
	return
}

// through returns the bytes reachable through path p in a snapshot, following symbolic links.
func through(s clitree.Snap, p string) ([]byte, bool) {
	for i := 0; i < 4; i++ {
		e, ok := s[p]
		if !ok {
			return nil, false
		}
		if !strings.HasPrefix(e, "link:") {
			return s.Content(p)
		}
		p = path.Join(path.Dir(p), e[5:])
	}
	return nil, false
}

func trunc(s string) string {
	if len(s) > 100 {
		return s[:100] + "…"
	}
	return s
}

type caseT struct {
	t      clitree.Tree
	sh     shape
	inputs []string
	output string
	stdin  []byte
}

func (c caseT) args() []string {
	var a []string
	if c.output != "" {
		a = append(a, "-o", c.output)
	}
	a = append(a, c.sh.flags...)
	// flags that swallow following arguments are already terminated by "--" in the shape
	return append(a, c.inputs...)
}

func treeString(t clitree.Tree) string {
	var ps []string
	for p, n := range t {
		ps = append(ps, fmt.Sprintf("%s=%q", p, n.Data))
	}
	sort.Strings(ps)
	return strings.Join(ps, " ")
}

func cases(maxFiles int) []caseT {
	var cs []caseT
	for _, t := range trees(maxFiles) {
		var files []string
		for p := range t {
			files = append(files, p)
		}
		sort.Strings(files)
		for _, sh := range shapes {
			switch {
			case strings.HasPrefix(sh.inputs, "stdin:"):
				if len(files) == 1 && files[0] == "src/a.css" { // stdin shapes do not depend on the tree: run them on one tree only
					cs = append(cs, caseT{t, sh, nil, sh.output, []byte(sh.inputs[6:])})
				}
			case sh.inputs == "each":
				for _, f := range files {
					out := sh.output
					if out == "SELF" {
						out = f
					}
					cs = append(cs, caseT{t, sh, []string{f}, out, nil})
				}
			case sh.inputs == "all":
				if len(files) >= 2 {
					cs = append(cs, caseT{t, sh, files, sh.output, nil})
				}
			default:
				cs = append(cs, caseT{t, sh, []string{sh.inputs}, sh.output, nil})
			}
		}
	}
	// special trees: a user's own *.bak next to a file minified in place, a pre-existing
	// destination, symbolic links (outcome for links is not documented: only "nothing else
	// changes, no leftover backup" is demanded there)
	css := []byte("a { color : red }\n")
	inPlace := shape{"file→itself", nil, "each", "SELF"}
	cs = append(cs,
		caseT{clitree.Tree{"src/a.css": {Data: css}, "src/a.css.bak": {Data: []byte("the user's own backup")}}, inPlace, []string{"src/a.css"}, "src/a.css", nil},
		caseT{clitree.Tree{"src/a.css": {Data: css}, "out.min": {Data: []byte("old")}}, shape{"file→existing file", nil, "each", "out.min"}, []string{"src/a.css"}, "out.min", nil},
		caseT{clitree.Tree{"src/a.css": {Data: css}, "out/src/a.css": {Data: []byte("old")}, "out/keep.txt": {Data: []byte("k")}}, shape{"dir -r→existing dir", []string{"-r"}, "src", "out/"}, []string{"src"}, "out/", nil},
		caseT{clitree.Tree{"real.css": {Data: css}, "link.css": {Link: "real.css"}}, shape{"symlink→itself (undocumented)", nil, "each", "SELF"}, []string{"link.css"}, "link.css", nil},
		caseT{clitree.Tree{"real.css": {Data: css}, "link.css": {Link: "real.css"}}, shape{"symlink→its target (undocumented)", nil, "each", "real.css"}, []string{"link.css"}, "real.css", nil},
		caseT{clitree.Tree{"real.css": {Data: css}, "link.css": {Link: "real.css"}}, shape{"symlink→new file", nil, "each", "out.min"}, []string{"link.css"}, "out.min", nil},
	)
	// inputs at the top level of the working directory whose names start with a dot (the root of the input is ".")
	js := []byte("var a = 1 ;\n")
	cs = append(cs,
		caseT{clitree.Tree{".t.css": {Data: css}, "src/a.js": {Data: js}}, shape{"hidden top-level file + file→dir/", nil, "all", "out/"}, []string{".t.css", "src/a.js"}, "out/", nil},
		caseT{clitree.Tree{".t.css": {Data: css}}, shape{"hidden top-level file→dir/", nil, "each", "out/"}, []string{".t.css"}, "out/", nil},
		caseT{clitree.Tree{".hd/sub/w.css": {Data: css}, ".hd/v.js": {Data: js}}, shape{"hidden top-level dir -r -a→dir/", []string{"-r", "-a"}, "src", "out/"}, []string{".hd"}, "out/", nil},
		caseT{clitree.Tree{".hd/sub/w.css": {Data: css}}, shape{"hidden top-level dir/ -r -a -s→dir/", []string{"-r", "-a", "-s"}, "src/", "out/"}, []string{".hd/"}, "out/", nil},
	)
	// the extensions of the documented table that map to a minifier through a media type pattern
	for _, f := range [][2]string{{"p.xhtml", "<p> x  y </p>\n"}, {"feed.rss", "<rss> <channel> <title>t</title> </channel> </rss>\n"}, {"app.webmanifest", "{ \"name\" : \"n\" }\n"}, {"m.mjs", "var a = 1 ;\n"}, {"i.htm", "<p> x   y </p>\n"}} {
		cs = append(cs, caseT{clitree.Tree{f[0]: {Data: []byte(f[1])}}, shape{"file of every mapped extension→new file", nil, "each", "out.min"}, []string{f[0]}, "out.min", nil})
	}
	// a symbolic link to a directory given as the input directory
	cs = append(cs,
		caseT{clitree.Tree{"d/a.js": {Data: js}, "d/b.js": {Data: []byte("var b = 2 ;\n")}, "linkd": {Link: "d"}}, shape{"link to dir -r→dir (no slash)", []string{"-r"}, "src", "out"}, []string{"linkd"}, "out", nil},
		caseT{clitree.Tree{"d/a.js": {Data: js}, "d/sub/c.css": {Data: css}, "linkd": {Link: "d"}}, shape{"link to dir -r→dir/", []string{"-r"}, "src", "out/"}, []string{"linkd"}, "out/", nil},
	)
	// a directory synchronised onto itself through a link to it: every file is its own destination
	cs = append(cs,
		caseT{clitree.Tree{"d/a.txt": {Data: []byte("hello\n")}, "d/b.css": {Data: css}, "linkd": {Link: "d"}}, shape{"link to dir/ -r -s→the dir itself", []string{"-r", "-s"}, "src/", "d/"}, []string{"linkd/"}, "d/", nil},
		caseT{clitree.Tree{"d/a.txt": {Data: []byte("hello\n")}, "d/sub/c.txt": {Data: []byte("c\n")}, "linkd": {Link: "d"}}, shape{"link to dir -r -s→the dir itself", []string{"-r", "-s"}, "src", "d/"}, []string{"linkd/"}, "d/", nil},
	)
	return cs
}

// One runs one case.
func One(cli string, c caseT) (string, string) {
	e := model(c.t, c.sh, c.inputs, c.output, c.stdin)
	r, before, err := runCLI(cli, c.t, c.args(), c.stdin)
	if err != nil {
		return "internal-run-error", err.Error()
	}
	kind, what := compare(e, before, r)
	if kind == "" && !e.rejected && !e.unsure && len(e.files) > 0 && r.exit == 0 {
		// differential start state: the same invocation on the resulting tree is idempotent for
		// destinations that are not inputs — skipped here; in-place shapes are covered by content equality
	}
	return kind, strings.Join(what, "; ")
}

// Run executes C19.
func Run(c *core.Check) {
	maxFiles := c.Pick(3, 4)
	c.Rule = fmt.Sprintf("every tree of <=%d files from a pool of 20 (names a.css a.js b.html c.txt .h.css noext a.min.css d.json in src/, src/sub/, a hidden directory; minifiable and failing contents) x %d invocation shapes (file→stdout/file/dir/itself/., several files→dir, bundle→file/stdout, directory with/without trailing slash ±-r ±-a ±-s, in place, --match/--include/--exclude glob and ~regex, --type/--mime/--ext, stdin, -q/-v, rejected combinations) run on the real binary in a fresh scratch directory; the reference model gives destination paths from the README rules and contents from library calls; every path not predicted must be byte-identical; non-trivial = at least one file was written", maxFiles, len(shapes))
	c.Assumptions = []string{"reference model of destinations written from cmd/minify/README.md and the error messages of main.go", "--watch excluded (event driven)", "ownership/timestamps are not compared"}
	defer clitree.Cleanup()
	cli, err := clitree.CLI()
	if err != nil {
		fmt.Fprintln(os.Stderr, "BUILD-ERROR:", err)
		os.Exit(2)
	}
	cs := cases(maxFiles)
	c.Family("tree-x-invocation").Bound = fmt.Sprintf("%d cases", len(cs))
	c.ParallelRange("tree-x-invocation", uint64(len(cs)), func(i uint64) {
		cse := cs[i]
		kind, what := One(cli, cse)
		c.Count(1)
		e := model(cse.t, cse.sh, cse.inputs, cse.output, cse.stdin)
		nt := uint64(0)
		if len(e.files) > 0 || e.checkOut {
			nt = 1
			c.Nontrivial(treeString(cse.t), strings.Join(cse.args(), " "))
		}
		c.AddFamily("tree-x-invocation", 1, nt)
		if kind != "" {
			c.Fail(core.Failure{Family: "tree-x-invocation", Input: "minify " + strings.Join(cse.args(), " "), Config: "shape=" + cse.sh.name + " tree: " + treeString(cse.t), Kind: kind, What: what, Order: i})
		}
		if i%1999 == 7 {
			c.Sample(map[string]any{"tree": treeString(cse.t), "invocation": "minify " + strings.Join(cse.args(), " "), "shape": cse.sh.name})
		}
	})
}

func Replay(f core.Failure) (string, string) {
	return "replay-unsupported", "re-run ./run.sh C19 quick: the replay file holds the tree and the command line"
}
