// Package overlay generates, from the current /repo tree, a `go build -overlay` file that
// (a) adds the scheduler package as the virtual package <module>/vsync and (b) replaces
// every library source file that uses synchronisation (sync.*, go statements, io.Pipe) by a
// copy in which those constructs are routed through vsync. /repo itself is never touched.
// A construct the rewriter has no shim for (channels, select, sync/atomic, sync.Cond, …)
// makes generation fail with an explicit "unhooked primitive" error: never a silent pass.
package overlay

import (
	"bytes"
	"encoding/json"
	"fmt"
	"go/ast"
	"go/format"
	"go/parser"
	"go/token"
	"os"
	"path/filepath"
	"strconv"
	"strings"
)

const Module = "github.com/tdewolff/minify/v2"

// LibDirs are the library packages whose synchronisation is hooked.
var LibDirs = []string{".", "css", "html", "js", "json", "svg", "xml", "minify"}

var shimmed = map[string]bool{"RWMutex": true, "Mutex": true, "WaitGroup": true, "Once": true, "Pool": true}

// Result describes what was generated.
type Result struct {
	OverlayFile string
	Rewritten   []string // repo-relative files that were rewritten
	Hooks       int      // number of rewritten constructs
}

// Generate writes the overlay under outDir and returns its path.
func Generate(repo, verifRoot, outDir string) (*Result, error) {
	if err := os.MkdirAll(outDir, 0o755); err != nil {
		return nil, err
	}
	res := &Result{}
	replace := map[string]string{}
	// (a) the virtual package
	vs, _ := filepath.Glob(filepath.Join(verifRoot, "internal", "vsync", "*.go"))
	for _, f := range vs {
		if strings.HasSuffix(f, "_test.go") {
			continue
		}
		replace[filepath.Join(repo, "vsync", filepath.Base(f))] = f
	}
	// (b) rewritten sources
	for _, d := range LibDirs {
		files, _ := filepath.Glob(filepath.Join(repo, d, "*.go"))
		for _, f := range files {
			if strings.HasSuffix(f, "_test.go") {
				continue
			}
			src, err := os.ReadFile(f)
			if err != nil {
				return nil, err
			}
			out, n, err := Rewrite(f, src)
			if err != nil {
				return nil, err
			}
			if n == 0 {
				continue
			}
			rel, _ := filepath.Rel(repo, f)
			dst := filepath.Join(outDir, strings.ReplaceAll(rel, string(filepath.Separator), "__"))
			if err := os.WriteFile(dst, out, 0o644); err != nil {
				return nil, err
			}
			replace[f] = dst
			res.Rewritten = append(res.Rewritten, rel)
			res.Hooks += n
		}
	}
	b, _ := json.MarshalIndent(map[string]any{"Replace": replace}, "", " ")
	res.OverlayFile = filepath.Join(outDir, "overlay.json")
	if err := os.WriteFile(res.OverlayFile, b, 0o644); err != nil {
		return nil, err
	}
	return res, nil
}

// Rewrite returns the hooked copy of one source file and the number of hooks (0: untouched).
func Rewrite(filename string, src []byte) ([]byte, int, error) {
	fset := token.NewFileSet()
	file, err := parser.ParseFile(fset, filename, src, parser.ParseComments)
	if err != nil {
		return nil, 0, err
	}
	syncName, ioName, atomicName := "", "", ""
	for _, im := range file.Imports {
		p, _ := strconv.Unquote(im.Path.Value)
		name := filepath.Base(p)
		if im.Name != nil {
			name = im.Name.Name
		}
		switch p {
		case "sync":
			syncName = name
		case "io":
			ioName = name
		case "sync/atomic":
			atomicName = name
		}
	}
	hooks := 0
	var bad []string
	pos := func(n ast.Node) string { return fset.Position(n.Pos()).String() }
	syncLeft := false
	ast.Inspect(file, func(n ast.Node) bool {
		switch x := n.(type) {
		case *ast.SelectorExpr:
			if id, ok := x.X.(*ast.Ident); ok && id.Obj == nil {
				switch {
				case syncName != "" && id.Name == syncName:
					if shimmed[x.Sel.Name] {
						id.Name = "vsync"
						hooks++
					} else {
						bad = append(bad, fmt.Sprintf("%s: sync.%s", pos(x), x.Sel.Name))
						syncLeft = true
					}
				case ioName != "" && id.Name == ioName && x.Sel.Name == "Pipe":
					id.Name = "vsync"
					hooks++
				case atomicName != "" && id.Name == atomicName:
					bad = append(bad, fmt.Sprintf("%s: atomic.%s", pos(x), x.Sel.Name))
				}
			}
		case *ast.ChanType:
			bad = append(bad, pos(x)+": channel type")
		case *ast.SelectStmt:
			bad = append(bad, pos(x)+": select statement")
		case *ast.SendStmt:
			bad = append(bad, pos(x)+": channel send")
		}
		return true
	})
	// go statements → vsync.Go(func() { call })
	var rewriteStmts func(list []ast.Stmt)
	rewriteStmts = func(list []ast.Stmt) {
		for i, st := range list {
			if g, ok := st.(*ast.GoStmt); ok {
				fl := &ast.FuncLit{Type: &ast.FuncType{Params: &ast.FieldList{}}, Body: &ast.BlockStmt{List: []ast.Stmt{&ast.ExprStmt{X: g.Call}}}}
				list[i] = &ast.ExprStmt{X: &ast.CallExpr{Fun: &ast.SelectorExpr{X: ast.NewIdent("vsync"), Sel: ast.NewIdent("Go")}, Args: []ast.Expr{fl}}}
				hooks++
			}
		}
	}
	ast.Inspect(file, func(n ast.Node) bool {
		switch x := n.(type) {
		case *ast.BlockStmt:
			rewriteStmts(x.List)
		case *ast.CaseClause:
			rewriteStmts(x.Body)
		case *ast.CommClause:
			rewriteStmts(x.Body)
		case *ast.LabeledStmt:
			if _, ok := x.Stmt.(*ast.GoStmt); ok {
				bad = append(bad, pos(x)+": labelled go statement")
			}
		}
		return true
	})
	if len(bad) > 0 {
		return nil, 0, fmt.Errorf("unhooked primitive(s), extend the shims in /verif/internal/vsync: %s", strings.Join(bad, "; "))
	}
	if hooks == 0 {
		return src, 0, nil
	}
	// imports: add vsync, drop sync if nothing else uses it
	for _, decl := range file.Decls {
		gd, ok := decl.(*ast.GenDecl)
		if !ok || gd.Tok != token.IMPORT {
			continue
		}
		var specs []ast.Spec
		for _, sp := range gd.Specs {
			is := sp.(*ast.ImportSpec)
			if p, _ := strconv.Unquote(is.Path.Value); p == "sync" && !syncLeft {
				continue
			}
			specs = append(specs, sp)
		}
		specs = append(specs, &ast.ImportSpec{Path: &ast.BasicLit{Kind: token.STRING, Value: strconv.Quote(Module + "/vsync")}})
		gd.Specs = specs
		if !gd.Lparen.IsValid() {
			gd.Lparen = gd.Pos()
			gd.Rparen = gd.End()
		}
		break
	}
	// is io still used?
	var buf bytes.Buffer
	if err := format.Node(&buf, fset, file); err != nil {
		return nil, 0, err
	}
	out := buf.Bytes()
	if ioName != "" && !bytes.Contains(out, []byte(ioName+".")) {
		out = bytes.Replace(out, []byte("\t\"io\"\n"), nil, 1)
	}
	return out, hooks, nil
}

// GenerateCLI writes an overlay for building cmd/minify as a schedule-exploration harness:
// the scheduler package and the vos shim as virtual packages, every non-test file of
// cmd/minify with `import "os"` redirected to the shim and main() renamed, and the harness
// main from /verif/internal/clisched/harness. The library itself is left as it is.
func GenerateCLI(repo, verifRoot, outDir string) (*Result, error) {
	if err := os.MkdirAll(outDir, 0o755); err != nil {
		return nil, err
	}
	res := &Result{}
	replace := map[string]string{}
	vs, _ := filepath.Glob(filepath.Join(verifRoot, "internal", "vsync", "*.go"))
	for _, f := range vs {
		if !strings.HasSuffix(f, "_test.go") {
			replace[filepath.Join(repo, "vsync", filepath.Base(f))] = f
		}
	}
	replace[filepath.Join(repo, "vsync", "vos", "vos.go")] = filepath.Join(verifRoot, "internal", "clisched", "vos", "vos.go")
	replace[filepath.Join(repo, "cmd", "minify", "zz_clisched.go")] = filepath.Join(verifRoot, "internal", "clisched", "harness", "zz_clisched.go")
	files, _ := filepath.Glob(filepath.Join(repo, "cmd", "minify", "*.go"))
	for _, f := range files {
		if strings.HasSuffix(f, "_test.go") {
			continue
		}
		src, err := os.ReadFile(f)
		if err != nil {
			return nil, err
		}
		fset := token.NewFileSet()
		file, err := parser.ParseFile(fset, f, src, parser.ParseComments)
		if err != nil {
			return nil, err
		}
		n := 0
		for _, im := range file.Imports {
			if im.Path.Value == `"os"` {
				if im.Name != nil && im.Name.Name != "os" {
					return nil, fmt.Errorf("%s imports os under the name %s: unhooked", f, im.Name.Name)
				}
				im.Path.Value = strconv.Quote(Module + "/vsync/vos")
				im.Name = ast.NewIdent("os")
				n++
			}
			switch im.Path.Value {
			case `"io/ioutil"`, `"syscall"`:
				// ioutil would bypass the shim; syscall is only used for Stat_t field access (checked below)
				if im.Path.Value == `"io/ioutil"` {
					return nil, fmt.Errorf("%s imports io/ioutil: file operations would bypass the shim (unhooked)", f)
				}
			}
		}
		for _, d := range file.Decls {
			if fd, ok := d.(*ast.FuncDecl); ok && fd.Recv == nil && fd.Name.Name == "main" {
				fd.Name.Name = "origMain"
				n++
			}
		}
		// go statements and channel operations inside minify(Task) itself would need scheduler shims
		var bad string
		ast.Inspect(file, func(nd ast.Node) bool {
			if fd, ok := nd.(*ast.FuncDecl); ok && fd.Name.Name == "minify" && fd.Recv == nil {
				ast.Inspect(fd, func(x ast.Node) bool {
					switch x.(type) {
					case *ast.GoStmt, *ast.SendStmt, *ast.SelectStmt:
						bad = fmt.Sprintf("%s: minify() uses goroutines or channels: unhooked primitive", fset.Position(x.Pos()))
					}
					return true
				})
			}
			return true
		})
		if bad != "" {
			return nil, fmt.Errorf("%s", bad)
		}
		if n == 0 {
			continue
		}
		var buf bytes.Buffer
		if err := format.Node(&buf, fset, file); err != nil {
			return nil, err
		}
		rel, _ := filepath.Rel(repo, f)
		dst := filepath.Join(outDir, strings.ReplaceAll(rel, string(filepath.Separator), "__"))
		if err := os.WriteFile(dst, buf.Bytes(), 0o644); err != nil {
			return nil, err
		}
		replace[f] = dst
		res.Rewritten = append(res.Rewritten, rel)
		res.Hooks += n
	}
	b, _ := json.MarshalIndent(map[string]any{"Replace": replace}, "", " ")
	res.OverlayFile = filepath.Join(outDir, "overlay.json")
	if err := os.WriteFile(res.OverlayFile, b, 0o644); err != nil {
		return nil, err
	}
	return res, nil
}
