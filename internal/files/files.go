// Package files lists the repository's fuzz corpora and benchmark documents by media type.
package files

import (
	"os"
	"path/filepath"
	"sort"
	"strings"

	"verif/internal/core"
)

// File is one bundled document.
type File struct {
	Path string
	Type string // media type
	Data []byte
}

var extType = map[string]string{".html": "text/html", ".css": "text/css", ".js": "application/javascript", ".json": "application/json", ".svg": "image/svg+xml", ".xml": "text/xml"}
var dirType = map[string]string{"html": "text/html", "css": "text/css", "js": "application/javascript", "json": "application/json", "svg": "image/svg+xml", "xml": "text/xml"}

// All returns every corpus and benchmark file of the six media types, smallest first.
func All() []File {
	var out []File
	for dir, t := range dirType {
		ms, _ := filepath.Glob(filepath.Join(core.Repo, "tests", dir, "corpus", "*"))
		for _, m := range ms {
			if b, err := os.ReadFile(m); err == nil {
				out = append(out, File{m, t, b})
			}
		}
	}
	ms, _ := filepath.Glob(filepath.Join(core.Repo, "_benchmarks", "sample_*"))
	for _, m := range ms {
		if t, ok := extType[filepath.Ext(m)]; ok {
			if b, err := os.ReadFile(m); err == nil && len(b) > 0 {
				out = append(out, File{m, t, b})
			}
		}
	}
	sort.Slice(out, func(i, j int) bool {
		if len(out[i].Data) != len(out[j].Data) {
			return len(out[i].Data) < len(out[j].Data)
		}
		return out[i].Path < out[j].Path
	})
	return out
}

// Helper corpora of the exported helpers (number, decimal, mediatype, data-uri, svg-pathdata).
func Helper(name string) [][]byte {
	var out [][]byte
	ms, _ := filepath.Glob(filepath.Join(core.Repo, "tests", name, "corpus", "*"))
	sort.Strings(ms)
	for _, m := range ms {
		if b, err := os.ReadFile(m); err == nil {
			out = append(out, b)
		}
	}
	return out
}

// Short returns a display name.
func (f File) Short() string { return strings.TrimPrefix(f.Path, core.Repo+"/") }
