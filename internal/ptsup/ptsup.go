// Package ptsup runs a binary under ptrace and intervenes at file-mutating system calls:
// it records them (trace), kills the whole process right before the k-th one executes
// (kill), lets the k-th write complete only partially and kills at its exit (tear), or
// makes the k-th one fail with an errno without executing it (fail).
// Only operations on paths under the scratch root are counted.
package ptsup

import (
	"bytes"
	"fmt"
	"os"
	"path/filepath"
	"runtime"
	"strings"
	"syscall"
)

// Op is one file-mutating operation observed at system-call entry.
type Op struct {
	Name  string `json:"name"`
	Path  string `json:"path,omitempty"` // relative to the root
	Path2 string `json:"path2,omitempty"`
	FD    int    `json:"fd,omitempty"`
	Len   int    `json:"len,omitempty"`
	Flags int    `json:"flags,omitempty"`
	Tid   int    `json:"-"`
}

func (o Op) String() string {
	s := o.Name
	if o.Path != "" {
		s += " " + o.Path
	}
	if o.Path2 != "" {
		s += " -> " + o.Path2
	}
	if o.Name == "write" || o.Name == "copy" {
		s += fmt.Sprintf(" (%d bytes)", o.Len)
	}
	if o.Name == "open" {
		var fl []string
		if o.Flags&syscall.O_CREAT != 0 {
			fl = append(fl, "CREAT")
		}
		if o.Flags&syscall.O_TRUNC != 0 {
			fl = append(fl, "TRUNC")
		}
		if o.Flags&syscall.O_EXCL != 0 {
			fl = append(fl, "EXCL")
		}
		s += " [" + strings.Join(fl, "|") + "]"
	}
	return s
}

// Mode selects the intervention.
type Mode struct {
	Kind    string // "trace", "kill", "tear", "fail"
	K       int    // 1-based index of the mutating operation
	TearLen int    // bytes the torn write is allowed to transfer
	Errno   int    // errno for "fail"
}

// Result of one supervised run.
type Result struct {
	Ops      []Op
	Exit     int  // exit status, -1 if killed
	Killed   bool // the supervisor killed the process at operation K
	Reached  bool // operation K was reached
	Stdout   []byte
	Stderr   []byte
	Syscalls int
}

type fdInfo struct{ path string }

// Run executes argv in dir with the given stdin under the supervisor.
func Run(argv []string, dir, root string, stdin []byte, env []string, mode Mode) (*Result, error) {
	type ret struct {
		r   *Result
		err error
	}
	ch := make(chan ret, 1)
	go func() {
		runtime.LockOSThread()
		// the thread is a ptrace tracer: do not return it to the pool (no UnlockOSThread)
		r, err := run(argv, dir, root, stdin, env, mode)
		ch <- ret{r, err}
	}()
	x := <-ch
	return x.r, x.err
}

const wNoThread = 0x20000000
const wAll = 0x40000000

func readString(pid int, addr uint64) string {
	if addr == 0 {
		return ""
	}
	f, err := os.Open(fmt.Sprintf("/proc/%d/mem", pid))
	if err != nil {
		return ""
	}
	defer f.Close()
	buf := make([]byte, 4096)
	n, _ := f.ReadAt(buf, int64(addr))
	if i := bytes.IndexByte(buf[:n], 0); i >= 0 {
		return string(buf[:i])
	}
	return string(buf[:n])
}

func run(argv []string, dir, root string, stdin []byte, env []string, mode Mode) (*Result, error) {
	res := &Result{Exit: -1}
	inR, inW, _ := os.Pipe()
	outR, outW, _ := os.Pipe()
	errR, errW, _ := os.Pipe()
	defer inR.Close()
	defer outR.Close()
	defer errR.Close()
	outDone := make(chan []byte, 1)
	errDone := make(chan []byte, 1)
	drain := func(f *os.File, ch chan []byte) {
		var b bytes.Buffer
		b.ReadFrom(f)
		ch <- b.Bytes()
	}
	go drain(outR, outDone)
	go drain(errR, errDone)
	go func() { inW.Write(stdin); inW.Close() }()

	if env == nil {
		env = os.Environ()
	}
	proc, err := os.StartProcess(argv[0], argv, &os.ProcAttr{
		Dir:   dir,
		Env:   env,
		Files: []*os.File{inR, outW, errW},
		Sys:   &syscall.SysProcAttr{Ptrace: true},
	})
	outW.Close()
	errW.Close()
	if err != nil {
		inW.Close()
		return nil, err
	}
	pid := proc.Pid
	var ws syscall.WaitStatus
	if _, err := syscall.Wait4(pid, &ws, wAll, nil); err != nil {
		return nil, fmt.Errorf("initial wait: %v", err)
	}
	opts := syscall.PTRACE_O_TRACESYSGOOD | syscall.PTRACE_O_TRACECLONE | syscall.PTRACE_O_TRACEFORK | syscall.PTRACE_O_TRACEVFORK | 0x100000 /* EXITKILL */
	if err := syscall.PtraceSetOptions(pid, opts); err != nil {
		syscall.Kill(pid, syscall.SIGKILL)
		return nil, fmt.Errorf("setoptions: %v", err)
	}
	inSyscall := map[int]bool{}
	pendingOp := map[int]*Op{} // op whose exit we want to see (open → fd tracking, tear, fail)
	fds := map[int]fdInfo{}
	live := map[int]bool{pid: true}
	killing := false
	failExit := map[int]bool{}
	tearExit := map[int]bool{}

	rel := func(p string) (string, bool) {
		if p == "" {
			return "", false
		}
		if !filepath.IsAbs(p) {
			p = filepath.Join(dir, p)
		}
		p = filepath.Clean(p)
		if p == root || strings.HasPrefix(p, root+"/") {
			r, _ := filepath.Rel(root, p)
			return r, true
		}
		return "", false
	}
	kill := func() {
		killing = true
		res.Killed = true
		syscall.Kill(pid, syscall.SIGKILL)
	}

	if err := syscall.PtraceSyscall(pid, 0); err != nil {
		return nil, err
	}
	for len(live) > 0 {
		tid, err := syscall.Wait4(-1, &ws, wAll|wNoThread, nil)
		if err != nil {
			if err == syscall.EINTR {
				continue
			}
			if err == syscall.ECHILD {
				break
			}
			return nil, fmt.Errorf("wait4: %v", err)
		}
		if ws.Exited() || ws.Signaled() {
			delete(live, tid)
			if tid == pid {
				if ws.Exited() {
					res.Exit = ws.ExitStatus()
				}
			}
			continue
		}
		if !ws.Stopped() {
			continue
		}
		live[tid] = true
		if killing {
			syscall.PtraceCont(tid, 0)
			continue
		}
		sig := ws.StopSignal()
		switch {
		case sig == syscall.SIGTRAP|0x80:
			// syscall stop
			var regs syscall.PtraceRegs
			if err := syscall.PtraceGetRegs(tid, &regs); err != nil {
				syscall.PtraceSyscall(tid, 0)
				continue
			}
			if !inSyscall[tid] {
				inSyscall[tid] = true
				res.Syscalls++
				op := decode(tid, &regs, fds, rel)
				if op != nil {
					op.Tid = tid
					// logical index: completed operations + 1 (an entry that the kernel restarts
					// after a signal — ERESTARTSYS — is seen again and keeps the same index)
					idx := len(res.Ops) + 1
					pendingOp[tid] = op
					if mode.Kind != "trace" && idx == mode.K && !res.Reached {
						res.Reached = true
						switch mode.Kind {
						case "kill":
							res.Ops = append(res.Ops, *op)
							kill()
							syscall.PtraceCont(tid, 0)
							continue
						case "tear":
							setLen(&regs, op.Name, uint64(mode.TearLen))
							syscall.PtraceSetRegs(tid, &regs)
							tearExit[tid] = true
						case "fail":
							regs.Orig_rax = ^uint64(0) // no such system call: skipped by the kernel
							syscall.PtraceSetRegs(tid, &regs)
							failExit[tid] = true
						}
					}
				}
			} else {
				inSyscall[tid] = false
				if failExit[tid] {
					delete(failExit, tid)
					regs.Rax = uint64(-int64(mode.Errno))
					syscall.PtraceSetRegs(tid, &regs)
				}
				if op := pendingOp[tid]; op != nil {
					delete(pendingOp, tid)
					rv := int64(regs.Rax)
					if rv <= -512 && rv >= -516 {
						// ERESTARTSYS & co: the call did not happen and will be re-entered
					} else {
						res.Ops = append(res.Ops, *op)
						switch op.Name {
						case "open":
							if rv >= 0 {
								fds[int(rv)] = fdInfo{op.Path}
							}
						case "close":
							delete(fds, op.FD)
						}
					}
				}
				if tearExit[tid] {
					delete(tearExit, tid)
					if rv := int64(regs.Rax); rv <= -512 && rv >= -516 {
						res.Reached = false // restarted: tear the re-entered call instead
					} else {
						kill()
						syscall.PtraceCont(tid, 0)
						continue
					}
				}
			}
			syscall.PtraceSyscall(tid, 0)
		case sig == syscall.SIGTRAP:
			// ptrace event (clone/fork/exec) — continue
			syscall.PtraceSyscall(tid, 0)
		case sig == syscall.SIGSTOP:
			// initial stop of a new thread
			syscall.PtraceSyscall(tid, 0)
		default:
			syscall.PtraceSyscall(tid, int(sig)) // deliver (SIGURG preemption etc.)
		}
	}
	res.Stdout = <-outDone
	res.Stderr = <-errDone
	proc.Release()
	return res, nil
}

func setLen(regs *syscall.PtraceRegs, name string, n uint64) {
	switch name {
	case "write":
		regs.Rdx = n
	case "copy":
		if regs.Orig_rax == 326 {
			regs.R8 = n
		} else {
			regs.R10 = n
		}
	}
}

const atFdCwd = -100

func decode(tid int, r *syscall.PtraceRegs, fds map[int]fdInfo, rel func(string) (string, bool)) *Op {
	str := func(a uint64) string { return readString(tid, a) }
	pathOp := func(name string, a uint64) *Op {
		if p, ok := rel(str(a)); ok {
			return &Op{Name: name, Path: p}
		}
		return nil
	}
	path2Op := func(name string, a, b uint64) *Op {
		p, ok1 := rel(str(a))
		q, ok2 := rel(str(b))
		if ok1 || ok2 {
			return &Op{Name: name, Path: p, Path2: q}
		}
		return nil
	}
	fdOp := func(name string, fd uint64, n int) *Op {
		if fi, ok := fds[int(int32(fd))]; ok {
			return &Op{Name: name, Path: fi.path, FD: int(int32(fd)), Len: n}
		}
		return nil
	}
	const wr = syscall.O_WRONLY | syscall.O_RDWR | syscall.O_CREAT | syscall.O_TRUNC | syscall.O_APPEND
	switch r.Orig_rax {
	case 1, 18: // write, pwrite64
		return fdOp("write", r.Rdi, int(r.Rdx))
	case 20, 296: // writev, pwritev
		return fdOp("write", r.Rdi, -1)
	case 326: // copy_file_range(fd_in, off_in, fd_out, off_out, len, flags)
		return fdOp("copy", r.Rdx, int(r.R8))
	case 40: // sendfile(out, in, off, count)
		return fdOp("copy", r.Rdi, int(r.R10))
	case 3:
		return fdOp("close", r.Rdi, 0)
	case 77:
		return fdOp("ftruncate", r.Rdi, int(r.Rsi))
	case 91:
		return fdOp("fchmod", r.Rdi, 0)
	case 93:
		return fdOp("fchown", r.Rdi, 0)
	case 2: // open(path, flags)
		if int(r.Rsi)&wr != 0 {
			if op := pathOp("open", r.Rdi); op != nil {
				op.Flags = int(r.Rsi)
				return op
			}
		}
	case 85:
		if op := pathOp("open", r.Rdi); op != nil {
			op.Flags = syscall.O_CREAT | syscall.O_TRUNC | syscall.O_WRONLY
			return op
		}
	case 257: // openat(dirfd, path, flags)
		if int(r.Rdx)&wr != 0 {
			if op := pathOp("open", r.Rsi); op != nil {
				op.Flags = int(r.Rdx)
				return op
			}
		}
	case 82:
		return path2Op("rename", r.Rdi, r.Rsi)
	case 264, 316:
		return path2Op("rename", r.Rsi, r.R10)
	case 83:
		return pathOp("mkdir", r.Rdi)
	case 258:
		return pathOp("mkdir", r.Rsi)
	case 84:
		return pathOp("rmdir", r.Rdi)
	case 87:
		return pathOp("unlink", r.Rdi)
	case 263:
		return pathOp("unlink", r.Rsi)
	case 86:
		return path2Op("link", r.Rdi, r.Rsi)
	case 265:
		return path2Op("link", r.Rsi, r.R10)
	case 88:
		return pathOp("symlink", r.Rsi)
	case 266:
		return pathOp("symlink", r.Rdx)
	case 90:
		return pathOp("chmod", r.Rdi)
	case 268, 452:
		return pathOp("chmod", r.Rsi)
	case 92, 94:
		return pathOp("chown", r.Rdi)
	case 260:
		return pathOp("chown", r.Rsi)
	case 76:
		return pathOp("truncate", r.Rdi)
	case 132, 235:
		return pathOp("utimes", r.Rdi)
	case 261, 280:
		if r.Rsi == 0 { // utimensat(fd, NULL, …) = futimens
			return fdOp("utimes", r.Rdi, 0)
		}
		return pathOp("utimes", r.Rsi)
	}
	return nil
}
