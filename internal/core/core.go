// Package core holds what every check shares: case accounting, failure collection,
// known-finding matching, evidence writing and the exit protocol of MANIFEST.json.
package core

import (
	"crypto/sha1"
	"encoding/hex"
	"encoding/json"
	"fmt"
	"hash/fnv"
	"math"
	"math/bits"
	"os"
	"path/filepath"
	"regexp"
	"runtime"
	"sort"
	"strconv"
	"sync"
	"sync/atomic"
	"time"
)

// Root is the directory of the verification framework.
var Root = func() string {
	if r := os.Getenv("VERIF_ROOT"); r != "" {
		return r
	}
	return "/verif"
}()

// Repo is the tree under test.
var Repo = func() string {
	if r := os.Getenv("VERIF_REPO"); r != "" {
		return r
	}
	return "/repo"
}()

// Failure is one violating case. Family/Input/Config/Kind identify it for known-finding
// matching; Replay is stored verbatim in the replay artefact.
type Failure struct {
	Family string `json:"family"`
	Input  string `json:"input"`
	Config string `json:"config,omitempty"`
	Kind   string `json:"kind"` // short class of what went wrong (oracle clause)
	What   string `json:"what"` // human readable: observed vs expected
	Extra  any    `json:"extra,omitempty"`
	Order  uint64 `json:"order"` // position in the simplest-first enumeration
}

// KnownFinding is one entry of known_findings.json.
type KnownFinding struct {
	Status                    string `json:"status"` // "finding" or "fixed"
	Property                  string `json:"property"`
	Family                    string `json:"family,omitempty"`       // regexp (anchored) on Failure.Family
	InputRe                   string `json:"input_re,omitempty"`     // regexp (anchored) on Failure.Input
	InputNot                  string `json:"input_not_re,omitempty"` // regexp (anchored) Failure.Input must NOT match
	ConfigRe                  string `json:"config_re,omitempty"`    // regexp (anchored) on Failure.Config
	KindRe                    string `json:"kind_re,omitempty"`      // regexp (anchored) on Failure.Kind
	Witness                   string `json:"witness"`                // the minimal failing input/call/history
	What                      string `json:"what"`
	Commit                    string `json:"commit,omitempty"` // for fixed entries
	fam, in, notIn, cfg, kind *regexp.Regexp
}

func anchored(s string) *regexp.Regexp {
	if s == "" {
		return nil
	}
	return regexp.MustCompile(`(?s)\A(?:` + s + `)\z`)
}

func (k *KnownFinding) compile() {
	k.fam, k.in, k.cfg, k.kind = anchored(k.Family), anchored(k.InputRe), anchored(k.ConfigRe), anchored(k.KindRe)
	k.notIn = anchored(k.InputNot)
}

func (k *KnownFinding) matches(f *Failure) bool {
	ok := func(r *regexp.Regexp, s string) bool { return r == nil || r.MatchString(s) }
	return ok(k.fam, f.Family) && ok(k.in, f.Input) && ok(k.cfg, f.Config) && ok(k.kind, f.Kind) && (k.notIn == nil || !k.notIn.MatchString(f.Input))
}

// LoadKnown reads the committed known-findings file (never written at run time).
func LoadKnown(property string) []*KnownFinding {
	b, err := os.ReadFile(filepath.Join(Root, "known_findings.json"))
	if err != nil {
		return nil
	}
	var all struct {
		Findings []*KnownFinding `json:"findings"`
	}
	if err := json.Unmarshal(b, &all); err != nil {
		fmt.Fprintf(os.Stderr, "known_findings.json: %v\n", err)
		os.Exit(2)
	}
	var out []*KnownFinding
	for _, k := range all.Findings {
		if k.Property == property && k.Status == "finding" { // "fixed" entries suppress nothing
			k.compile()
			out = append(out, k)
		}
	}
	return out
}

// Check accumulates the result of one run of one property.
type Check struct {
	ID, Tier, Level string
	Seed            int64
	Rule            string
	Exhaustive      bool
	Assumptions     []string
	Extra           map[string]any // extra coverage keys (states, transitions, families…)

	start     time.Time
	evals     atomic.Uint64
	mu        sync.Mutex
	failures  []Failure
	samples   []any
	sampleCap int
	families  map[string]*FamilyStat
	distinct  [256]struct {
		sync.Mutex
		m map[uint64]struct{}
	}
	distinctN  atomic.Int64
	hllOn      atomic.Bool
	hllMu      sync.Mutex
	hll        [65536]atomic.Uint32
	known      []*KnownFinding
	knownOnce  sync.Once
	knownHits  map[*KnownFinding]int
	knownFirst map[*KnownFinding]Failure
	dropped    int
	Deadline   time.Time // internal deadline; when hit, Exhaustive=false and exit 0
	// Confirm re-executes one failure without the explorer (the property's Replay); every
	// reported violation is re-run 4 more times and the result printed with it.
	Confirm func(f Failure) (kind, what string)
	hitCap  atomic.Bool
}

// FamilyStat is reported per family in the evidence.
type FamilyStat struct {
	Cases      uint64 `json:"cases"`
	Nontrivial uint64 `json:"nontrivial"`
	Complete   bool   `json:"complete"`
	Bound      string `json:"bound,omitempty"`
	Outcomes   uint64 `json:"distinct_outcomes,omitempty"`
}

func New(id, tier, level string) *Check {
	seed, _ := strconv.ParseInt(os.Getenv("VERIF_SEED"), 10, 64)
	c := &Check{ID: id, Tier: tier, Level: level, Seed: seed, start: time.Now(), Exhaustive: true,
		Extra: map[string]any{}, families: map[string]*FamilyStat{}, sampleCap: 12}
	for i := range c.distinct {
		c.distinct[i].m = map[uint64]struct{}{}
	}
	return c
}

func (c *Check) Thorough() bool { return c.Tier == "thorough" }

// Pick returns q in quick tier, t in thorough tier.
func (c *Check) Pick(q, t int) int {
	if c.Thorough() {
		return t
	}
	return q
}

// Count registers n evaluated cases.
func (c *Check) Count(n uint64) { c.evals.Add(n) }

// Evals returns the number of evaluations so far.
func (c *Check) Evals() uint64 { return c.evals.Load() }

// Nontrivial registers a distinct non-trivial case by its key (hashed).
func (c *Check) Nontrivial(key ...string) {
	h := fnv.New64a()
	for _, k := range key {
		h.Write([]byte(k))
		h.Write([]byte{0})
	}
	v := h.Sum64()
	if c.hllOn.Load() {
		c.hllAdd(v)
		return
	}
	s := &c.distinct[v&255]
	s.Lock()
	before := len(s.m)
	s.m[v] = struct{}{}
	grew := len(s.m) > before
	s.Unlock()
	if grew && c.distinctN.Add(1) > distinctExactCap {
		c.toHLL()
	}
}

// Above distinctExactCap distinct keys the exact sets (40 bytes per key) are replaced by a
// HyperLogLog sketch with 2^16 registers (standard error 0.4 %); the evidence then says that the
// figure is an estimate. It is a coverage figure only, no verdict depends on it.
const distinctExactCap = 30_000_000

func (c *Check) hllAdd(v uint64) {
	idx := v >> 48
	rank := uint8(bits.LeadingZeros64(v<<16|1<<15)) + 1
	for {
		old := c.hll[idx].Load()
		if uint32(rank) <= old || c.hll[idx].CompareAndSwap(old, uint32(rank)) {
			return
		}
	}
}

func (c *Check) toHLL() {
	c.hllMu.Lock()
	defer c.hllMu.Unlock()
	if c.hllOn.Load() {
		return
	}
	for i := range c.distinct {
		s := &c.distinct[i]
		s.Lock()
		for v := range s.m {
			c.hllAdd(v)
		}
		s.m = map[uint64]struct{}{}
		s.Unlock()
	}
	c.hllOn.Store(true)
}

func (c *Check) nontrivialCount() uint64 {
	if c.hllOn.Load() {
		const m = 65536.0
		sum, zeros := 0.0, 0
		for i := range c.hll {
			r := c.hll[i].Load()
			sum += math.Pow(2, -float64(r))
			if r == 0 {
				zeros++
			}
		}
		e := 0.7213 / (1 + 1.079/m) * m * m / sum
		if e <= 2.5*m && zeros > 0 {
			e = m * math.Log(m/float64(zeros))
		}
		return uint64(e)
	}
	var n uint64
	for i := range c.distinct {
		n += uint64(len(c.distinct[i].m))
	}
	return n
}

// Sample keeps a few actual cases for the evidence file.
func (c *Check) Sample(s any) {
	c.mu.Lock()
	if len(c.samples) < c.sampleCap {
		c.samples = append(c.samples, s)
	}
	c.mu.Unlock()
}

// Family returns the stat record of a family (created on first use).
func (c *Check) Family(name string) *FamilyStat {
	c.mu.Lock()
	defer c.mu.Unlock()
	f := c.families[name]
	if f == nil {
		f = &FamilyStat{Complete: true}
		c.families[name] = f
	}
	return f
}

// AddFamily merges counts into a family record.
func (c *Check) AddFamily(name string, cases, nontrivial uint64) {
	f := c.Family(name)
	c.mu.Lock()
	f.Cases += cases
	f.Nontrivial += nontrivial
	c.mu.Unlock()
}

// Fail records a violating case. Cases that match a listed known finding are only counted
// (the simplest one is kept), so that an unlisted violation can never be crowded out.
// Known reports whether a listed known-finding class covers f, and if so counts the case for
// that class. A property that caps the failures it hands to Fail (simplest cases per group) must
// call Known BEFORE applying the cap: otherwise the cases of a listed class fill the group and an
// unlisted violation of the same group is cut off without ever being reported.
func (c *Check) Known(f Failure) bool {
	c.knownOnce.Do(func() {
		c.known = LoadKnown(c.ID)
		c.knownHits = map[*KnownFinding]int{}
		c.knownFirst = map[*KnownFinding]Failure{}
	})
	for _, k := range c.known {
		if k.matches(&f) {
			c.mu.Lock()
			c.knownHits[k]++
			if prev, ok := c.knownFirst[k]; !ok || f.Order < prev.Order || f.Order == prev.Order && len(f.Input) < len(prev.Input) {
				c.knownFirst[k] = f
			}
			c.mu.Unlock()
			return true
		}
	}
	return false
}

func (c *Check) Fail(f Failure) {
	if c.Known(f) {
		return
	}
	c.FailUnlisted(f)
}

// FailUnlisted records a failure that Known has already been asked about.
func (c *Check) FailUnlisted(f Failure) {
	c.mu.Lock()
	if len(c.failures) < 200000 {
		c.failures = append(c.failures, f)
	} else {
		c.dropped++
	}
	c.mu.Unlock()
}

// Failures returns the failures recorded so far that no known-finding class covers.
func (c *Check) Failures() []Failure {
	c.mu.Lock()
	defer c.mu.Unlock()
	return append([]Failure{}, c.failures...)
}

// Expired tells enumerators to stop: the internal deadline passed.
func (c *Check) Expired() bool {
	if c.Deadline.IsZero() {
		return false
	}
	if c.hitCap.Load() {
		return true
	}
	if time.Now().After(c.Deadline) {
		c.hitCap.Store(true)
		return true
	}
	return false
}

// Workers is the number of parallel workers.
func Workers() int {
	if s := os.Getenv("VERIF_WORKERS"); s != "" {
		if n, err := strconv.Atoi(s); err == nil && n > 0 {
			return n
		}
	}
	return runtime.NumCPU()
}

// ParallelRange calls fn(i) for every i in [0,n) from Workers() goroutines in blocks.
// It stops early (marking the check non-exhaustive) when the deadline passes.
func (c *Check) ParallelRange(family string, n uint64, fn func(i uint64)) {
	const block = 256
	var next atomic.Uint64
	var wg sync.WaitGroup
	var done atomic.Uint64
	for w := 0; w < Workers(); w++ {
		wg.Add(1)
		go func() {
			defer wg.Done()
			for {
				lo := next.Add(block) - block
				if lo >= n {
					return
				}
				if c.Expired() {
					return
				}
				hi := lo + block
				if hi > n {
					hi = n
				}
				for i := lo; i < hi; i++ {
					fn(i)
				}
				done.Add(hi - lo)
			}
		}()
	}
	wg.Wait()
	if done.Load() < n {
		c.mu.Lock()
		c.Exhaustive = false
		c.mu.Unlock()
		f := c.Family(family)
		f.Complete = false
		f.Bound = fmt.Sprintf("deadline hit after %d of %d", done.Load(), n)
	}
}

type evidence struct {
	PropertyID  string         `json:"property_id"`
	Tier        string         `json:"tier"`
	Seed        int64          `json:"seed"`
	Level       string         `json:"level"`
	Coverage    map[string]any `json:"coverage"`
	Assumptions []string       `json:"assumptions,omitempty"`
	WallS       float64        `json:"wall_s"`
	Violations  int            `json:"violations"`
}

// Finish classifies failures against known findings, writes replay artefacts and the
// evidence file, prints the protocol lines and returns the process exit code.
func (c *Check) Finish() int {
	c.knownOnce.Do(func() {
		c.known = LoadKnown(c.ID)
		c.knownHits = map[*KnownFinding]int{}
		c.knownFirst = map[*KnownFinding]Failure{}
	})
	known := c.known
	sort.SliceStable(c.failures, func(i, j int) bool {
		a, b := c.failures[i], c.failures[j]
		if a.Family != b.Family {
			return a.Family < b.Family
		}
		if a.Order != b.Order {
			return a.Order < b.Order
		}
		if len(a.Input) != len(b.Input) {
			return len(a.Input) < len(b.Input)
		}
		return a.Input < b.Input
	})
	if d := os.Getenv("VERIF_DUMP"); d != "" {
		if fh, err := os.Create(d); err == nil {
			enc := json.NewEncoder(fh)
			for i := range c.failures {
				enc.Encode(&c.failures[i])
			}
			fh.Close()
		}
	}
	knownHits := c.knownHits
	var unknown []*Failure
	for i := range c.failures {
		unknown = append(unknown, &c.failures[i])
	}
	knownCases := 0
	for _, k := range known {
		if n := knownHits[k]; n > 0 {
			knownCases += n
			first := c.knownFirst[k]
			fmt.Printf("KNOWN-FINDING: property=%s %s [witness %s; %d case(s) of this run, first: %q %s]\n",
				c.ID, k.What, k.Witness, n, trunc(first.Input, 120), first.Config)
		}
	}
	if c.dropped > 0 {
		fmt.Printf("NOTE: %d further failing cases were not stored (more than 200000 unlisted failures)\n", c.dropped)
	}
	// Group unknown failures by (family, kind); print the simplest of each group.
	type gk struct{ fam, kind string }
	groups := map[gk][]*Failure{}
	var order []gk
	for _, f := range unknown {
		k := gk{f.Family, f.Kind}
		if _, ok := groups[k]; !ok {
			order = append(order, k)
		}
		groups[k] = append(groups[k], f)
	}
	printed := 0
	for _, k := range order {
		fs := groups[k]
		for i, f := range fs {
			if i >= 3 { // at most three artefacts per group
				break
			}
			path := c.writeReplay(f)
			fmt.Printf("VIOLATION property=%s replay=%s\n", c.ID, path)
			fmt.Printf("  family=%s kind=%s config=%s input=%q\n  %s\n", f.Family, f.Kind, f.Config, trunc(f.Input, 300), trunc(f.What, 600))
			if c.Confirm != nil && printed < 12 {
				again := 0
				for r := 0; r < 4; r++ {
					var k string
					if p := Recover(func() { k, _ = c.Confirm(*f) }); p != "" || k != "" {
						again++
					}
				}
				fmt.Printf("  re-run without the explorer: failed again in %d of 4 replays\n", again)
			}
			printed++
		}
		if len(fs) > 3 {
			fmt.Printf("  … %d more failing case(s) in group family=%s kind=%s\n", len(fs)-3, k.fam, k.kind)
		}
	}
	c.writeEvidence(len(unknown), knownHits)
	if c.hitCap.Load() {
		fmt.Printf("NOTE: property=%s internal deadline hit; exhaustive=false\n", c.ID)
	}
	fmt.Printf("SUMMARY property=%s tier=%s evaluations=%d distinct_nontrivial=%d violations=%d known_finding_cases=%d exhaustive=%v wall=%.1fs\n",
		c.ID, c.Tier, c.evals.Load(), c.nontrivialCount(), len(unknown), knownCases, c.Exhaustive, time.Since(c.start).Seconds())
	if len(unknown) > 0 {
		return 1
	}
	return 0
}

func trunc(s string, n int) string {
	if len(s) <= n {
		return s
	}
	return s[:n] + "…"
}

func (c *Check) writeReplay(f *Failure) string {
	dir := filepath.Join(Root, "replays", c.ID)
	os.MkdirAll(dir, 0o755)
	rec := map[string]any{"property": c.ID, "tier": c.Tier, "failure": f}
	b, _ := json.MarshalIndent(rec, "", " ")
	h := sha1.Sum([]byte(f.Family + "\x00" + f.Input + "\x00" + f.Config + "\x00" + f.Kind))
	p := filepath.Join(dir, hex.EncodeToString(h[:8])+".json")
	os.WriteFile(p, b, 0o644)
	return p
}

func (c *Check) writeEvidence(violations int, knownHits map[*KnownFinding]int) {
	cov := map[string]any{}
	for k, v := range c.Extra {
		cov[k] = v
	}
	cov["evaluations"] = c.evals.Load()
	cov["distinct_nontrivial"] = c.nontrivialCount()
	if c.hllOn.Load() {
		cov["distinct_nontrivial_is_an_estimate"] = "more than 30 million distinct keys: HyperLogLog estimate (standard error 0.4 %)"
	}
	cov["rule"] = c.Rule
	if len(c.samples) == 0 {
		c.samples = append(c.samples, "no sample recorded")
	}
	cov["samples"] = c.samples
	cov["exhaustive"] = c.Exhaustive
	if len(c.families) > 0 {
		cov["families"] = c.families
	}
	kf := []string{}
	for k, n := range knownHits {
		if n > 0 {
			kf = append(kf, fmt.Sprintf("%s (%d cases)", k.Witness, n))
		}
	}
	sort.Strings(kf)
	cov["known_findings_met"] = kf
	ev := evidence{c.ID, c.Tier, c.Seed, c.Level, cov, c.Assumptions, time.Since(c.start).Seconds(), violations}
	b, _ := json.MarshalIndent(ev, "", " ")
	os.MkdirAll(filepath.Join(Root, "evidence"), 0o755)
	if err := os.WriteFile(filepath.Join(Root, "evidence", c.ID+".json"), b, 0o644); err != nil {
		fmt.Fprintln(os.Stderr, "evidence:", err)
	}
}

// Product enumerates a mixed-radix space: Size is the product of radices, Decode maps an
// index to digit values (least significant first).
type Product []int

func (p Product) Size() uint64 {
	n := uint64(1)
	for _, r := range p {
		n *= uint64(r)
	}
	return n
}

func (p Product) Decode(i uint64, out []int) []int {
	out = out[:0]
	for _, r := range p {
		out = append(out, int(i%uint64(r)))
		i /= uint64(r)
	}
	return out
}

// Sequences enumerates all sequences over an alphabet of size k with length 0..maxLen,
// shortest first. Count returns the total; At decodes index i to symbol indices.
type Sequences struct{ K, MaxLen int }

func (s Sequences) Count() uint64 {
	var n, p uint64 = 0, 1
	for l := 0; l <= s.MaxLen; l++ {
		n += p
		p *= uint64(s.K)
	}
	return n
}

func (s Sequences) At(i uint64, out []int) []int {
	out = out[:0]
	p := uint64(1)
	l := 0
	for ; l <= s.MaxLen; l++ {
		if i < p {
			break
		}
		i -= p
		p *= uint64(s.K)
	}
	for j := 0; j < l; j++ {
		out = append(out, int(i%uint64(s.K)))
		i /= uint64(s.K)
	}
	return out
}

// Recover runs fn and converts a panic into a string (with the top of the stack).
func Recover(fn func()) (panicked string) {
	defer func() {
		if r := recover(); r != nil {
			buf := make([]byte, 2048)
			n := runtime.Stack(buf, false)
			panicked = fmt.Sprintf("%v\n%s", r, buf[:n])
		}
	}()
	fn()
	return ""
}

// ParallelStream runs gen in one goroutine (it calls emit for every case, simplest first)
// and fn on Workers() goroutines. gen should stop early when emit returns false
// (deadline hit); the family is then marked incomplete.
func (c *Check) ParallelStream(family string, gen func(emit func(string) bool), fn func(idx uint64, s string)) {
	type batch struct {
		base  uint64
		items []string
	}
	ch := make(chan batch, 4*Workers())
	var wg sync.WaitGroup
	for w := 0; w < Workers(); w++ {
		wg.Add(1)
		go func() {
			defer wg.Done()
			for b := range ch {
				for i, s := range b.items {
					fn(b.base+uint64(i), s)
				}
			}
		}()
	}
	var idx uint64
	cur := make([]string, 0, 512)
	stopped := false
	flush := func() {
		if len(cur) > 0 {
			ch <- batch{idx - uint64(len(cur)), cur}
			cur = make([]string, 0, 512)
		}
	}
	gen(func(s string) bool {
		if stopped {
			return false
		}
		cur = append(cur, s)
		idx++
		if len(cur) == cap(cur) {
			flush()
			if c.Expired() {
				stopped = true
				return false
			}
		}
		return true
	})
	flush()
	close(ch)
	wg.Wait()
	if stopped {
		c.mu.Lock()
		c.Exhaustive = false
		c.mu.Unlock()
		f := c.Family(family)
		f.Complete = false
		f.Bound = fmt.Sprintf("deadline hit after %d cases", idx)
	}
}
