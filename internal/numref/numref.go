// Package numref gives decimal number lexemes an exact normal form (math/big), independent
// of the code under test.
package numref

import (
	"math/big"
	"strings"
)

// Num is sign * Digits * 10^Exp with Digits having no trailing zero (zero: Digits=0, Exp=0, Neg=false).
type Num struct {
	Neg    bool
	Digits *big.Int
	Exp    *big.Int
}

func isDigits(s string) bool {
	for i := 0; i < len(s); i++ {
		if s[i] < '0' || s[i] > '9' {
			return false
		}
	}
	return true
}

// Parse accepts [+-]?(d+.?d*|.d+)([eE][+-]?d+)? and returns its normal form.
func Parse(s string) (Num, bool) {
	var n Num
	if s == "" {
		return n, false
	}
	if s[0] == '+' || s[0] == '-' {
		n.Neg = s[0] == '-'
		s = s[1:]
	}
	exp := big.NewInt(0)
	if i := strings.IndexAny(s, "eE"); i >= 0 {
		e := s[i+1:]
		s = s[:i]
		eneg := false
		if e != "" && (e[0] == '+' || e[0] == '-') {
			eneg = e[0] == '-'
			e = e[1:]
		}
		if e == "" || !isDigits(e) {
			return n, false
		}
		exp.SetString(e, 10)
		if eneg {
			exp.Neg(exp)
		}
	}
	ip, fp := s, ""
	if i := strings.IndexByte(s, '.'); i >= 0 {
		ip, fp = s[:i], s[i+1:]
	}
	if ip == "" && fp == "" || !isDigits(ip) || !isDigits(fp) {
		return n, false
	}
	d := strings.TrimLeft(ip+fp, "0")
	exp.Sub(exp, big.NewInt(int64(len(fp))))
	t := strings.TrimRight(d, "0")
	exp.Add(exp, big.NewInt(int64(len(d)-len(t))))
	n.Digits = new(big.Int)
	if t == "" {
		n.Neg = false
		n.Exp = big.NewInt(0)
		return n, true
	}
	n.Digits.SetString(t, 10)
	n.Exp = exp
	return n, true
}

// Equal reports exact equality of value (−0 equals 0).
func (a Num) Equal(b Num) bool {
	return a.Neg == b.Neg && a.Digits.Cmp(b.Digits) == 0 && a.Exp.Cmp(b.Exp) == 0
}

func (a Num) IsZero() bool { return a.Digits.Sign() == 0 }

// String is the canonical spelling.
func (a Num) String() string {
	s := a.Digits.String() + "e" + a.Exp.String()
	if a.Neg {
		s = "-" + s
	}
	return s
}

// MSDExp is the decimal exponent of the most significant digit (value = d.ddd × 10^MSDExp).
func (a Num) MSDExp() *big.Int {
	l := int64(len(a.Digits.String()))
	return new(big.Int).Add(a.Exp, big.NewInt(l-1))
}

// rat returns the value as big.Rat; only for moderate exponents (|exp| ≤ limit).
func (a Num) rat() *big.Rat {
	r := new(big.Rat).SetInt(a.Digits)
	e := a.Exp.Int64()
	p := new(big.Int).Exp(big.NewInt(10), big.NewInt(abs(e)), nil)
	if e >= 0 {
		r.Mul(r, new(big.Rat).SetInt(p))
	} else {
		r.Quo(r, new(big.Rat).SetInt(p))
	}
	if a.Neg {
		r.Neg(r)
	}
	return r
}

func abs(x int64) int64 {
	if x < 0 {
		return -x
	}
	return x
}

// WithinHalfUnit reports |a-b| ≤ ½·10^unitExp. Both exponents must be of moderate size
// relative to each other; the comparison is done after shifting by the smaller exponent.
func WithinHalfUnit(a, b Num, unitExp *big.Int) bool {
	// shift so that all exponents are relative to m = min(a.Exp,b.Exp,unitExp-1)
	m := new(big.Int).Sub(unitExp, big.NewInt(1))
	if !a.IsZero() && a.Exp.Cmp(m) < 0 {
		m.Set(a.Exp)
	}
	if !b.IsZero() && b.Exp.Cmp(m) < 0 {
		m.Set(b.Exp)
	}
	scale := func(n Num) *big.Int {
		if n.IsZero() {
			return new(big.Int)
		}
		d := new(big.Int).Sub(n.Exp, m)
		if !d.IsInt64() || d.Int64() > 100000 {
			return nil
		}
		v := new(big.Int).Exp(big.NewInt(10), d, nil)
		v.Mul(v, n.Digits)
		if n.Neg {
			v.Neg(v)
		}
		return v
	}
	av, bv := scale(a), scale(b)
	ud := new(big.Int).Sub(unitExp, m)
	if av == nil || bv == nil || !ud.IsInt64() || ud.Int64() > 100000 {
		return false
	}
	u := new(big.Int).Exp(big.NewInt(10), ud, nil)
	diff := new(big.Int).Sub(av, bv)
	diff.Abs(diff)
	diff.Mul(diff, big.NewInt(2))
	return diff.Cmp(u) <= 0
}
