// Package jsoracle runs node workers (node/jsoracle.js): V8 executes original and minified
// programs with recording host functions; acorn (bundled with node) parses at a chosen
// ECMAScript version.
package jsoracle

import (
	"bufio"
	"encoding/json"
	"fmt"
	"io"
	"os"
	"os/exec"
	"path/filepath"
	"sync"

	"verif/internal/core"
)

type Mismatch struct {
	Variant int    `json:"variant"`
	Vector  int    `json:"vector"`
	Orig    string `json:"orig"`
	Got     string `json:"got"`
	Syntax  bool   `json:"syntax"`
}

type RunReq struct {
	Op       string     `json:"op"`
	ID       int        `json:"id"`
	Mode     string     `json:"mode"`
	Orig     string     `json:"orig"`
	Variants []string   `json:"variants"`
	Vectors  [][]string `json:"vectors"`
	Fresh    bool       `json:"fresh,omitempty"`
}

type RunRep struct {
	ID         int        `json:"id"`
	Status     string     `json:"status"`
	Why        string     `json:"why"`
	Mismatches []Mismatch `json:"mismatches"`
	Error      string     `json:"error"`
}

type ParseReq struct {
	Op          string `json:"op"`
	ID          int    `json:"id"`
	Text        string `json:"text"`
	EcmaVersion any    `json:"ecmaVersion,omitempty"`
	SourceType  string `json:"sourceType,omitempty"`
	Strict      bool   `json:"strict,omitempty"`
	Info        bool   `json:"info,omitempty"`
}

type ScopeInfo struct {
	Idents   []string `json:"idents"`
	Props    []string `json:"props"`
	Labels   []string `json:"labels"`
	TopDecls []string `json:"topDecls"`
	Imports  []string `json:"imports"`
	Exports  []string `json:"exports"`
}

type ParseRep struct {
	ID    int        `json:"id"`
	OK    bool       `json:"ok"`
	Error string     `json:"error"`
	Info  *ScopeInfo `json:"info"`
}

// Worker is one node process.
type Worker struct {
	cmd *exec.Cmd
	in  io.WriteCloser
	out *bufio.Reader
	mu  sync.Mutex
}

// Start launches a worker.
func Start() (*Worker, error) {
	cmd := exec.Command("node", "--expose-internals", "--no-warnings", filepath.Join(core.Root, "node", "jsoracle.js"))
	in, err := cmd.StdinPipe()
	if err != nil {
		return nil, err
	}
	out, err := cmd.StdoutPipe()
	if err != nil {
		return nil, err
	}
	cmd.Stderr = os.Stderr
	if err := cmd.Start(); err != nil {
		return nil, err
	}
	return &Worker{cmd: cmd, in: in, out: bufio.NewReaderSize(out, 1<<20)}, nil
}

func (w *Worker) roundTrip(req any, rep any) error {
	w.mu.Lock()
	defer w.mu.Unlock()
	b, err := json.Marshal(req)
	if err != nil {
		return err
	}
	if _, err := w.in.Write(append(b, '\n')); err != nil {
		return err
	}
	line, err := w.out.ReadBytes('\n')
	if err != nil {
		return fmt.Errorf("node worker died: %v", err)
	}
	return json.Unmarshal(line, rep)
}

// Run executes one comparison request.
func (w *Worker) Run(req RunReq) (RunRep, error) {
	req.Op = "run"
	var rep RunRep
	err := w.roundTrip(req, &rep)
	return rep, err
}

// Parse asks acorn whether text is valid at the given version/goal.
func (w *Worker) Parse(req ParseReq) (ParseRep, error) {
	req.Op = "parse"
	var rep ParseRep
	err := w.roundTrip(req, &rep)
	return rep, err
}

// Close stops the worker.
func (w *Worker) Close() {
	w.in.Close()
	w.cmd.Wait()
}

// Pool hands out one worker per goroutine slot.
type Pool struct {
	ch chan *Worker
	ws []*Worker
}

// NewPool starts n workers.
func NewPool(n int) (*Pool, error) {
	p := &Pool{ch: make(chan *Worker, n)}
	for i := 0; i < n; i++ {
		w, err := Start()
		if err != nil {
			return nil, err
		}
		p.ws = append(p.ws, w)
		p.ch <- w
	}
	return p, nil
}

func (p *Pool) Get() *Worker  { return <-p.ch }
func (p *Pool) Put(w *Worker) { p.ch <- w }
func (p *Pool) Close() {
	for _, w := range p.ws {
		w.Close()
	}
}
