// Package clitree builds scratch directory trees for the CLI checks, snapshots them and
// builds the cmd/minify binary from the current /repo tree.
package clitree

import (
	"bytes"
	"fmt"
	"os"
	"os/exec"
	"path/filepath"
	"sort"
	"strings"
	"sync"
	"sync/atomic"

	"verif/internal/core"
)

// Node is a file (Data), a symlink (Link != "") or a hard link to another path (Hard != "").
type Node struct {
	Data []byte
	Link string
	Hard string
	Mode os.FileMode // 0 = 0644
	Dir  bool
}

// Tree maps slash-separated relative paths to nodes.
type Tree map[string]Node

var scratchBase = func() string {
	b := os.Getenv("VERIF_SCRATCH")
	if b == "" {
		b = "/var/tmp"
	}
	return filepath.Join(b, fmt.Sprintf("verif-cli-%d", os.Getpid()))
}()

var seq atomic.Int64

// NewRoot creates an empty scratch root (outside /repo and /verif).
func NewRoot() string {
	d := filepath.Join(scratchBase, fmt.Sprint(seq.Add(1)))
	os.MkdirAll(d, 0o755)
	return d
}

// Cleanup removes all scratch roots of this process.
func Cleanup() { os.RemoveAll(scratchBase) }

// Build materialises the tree under root.
func (t Tree) Build(root string) error {
	var paths []string
	for p := range t {
		paths = append(paths, p)
	}
	sort.Strings(paths)
	for pass := 0; pass < 2; pass++ {
		for _, p := range paths {
			n := t[p]
			full := filepath.Join(root, filepath.FromSlash(p))
			if (n.Hard != "") != (pass == 1) {
				continue
			}
			if err := os.MkdirAll(filepath.Dir(full), 0o755); err != nil {
				return err
			}
			switch {
			case n.Dir:
				if err := os.MkdirAll(full, 0o755); err != nil {
					return err
				}
			case n.Link != "":
				if err := os.Symlink(n.Link, full); err != nil {
					return err
				}
			case n.Hard != "":
				if err := os.Link(filepath.Join(root, filepath.FromSlash(n.Hard)), full); err != nil {
					return err
				}
			default:
				mode := n.Mode
				if mode == 0 {
					mode = 0o644
				}
				if err := os.WriteFile(full, n.Data, mode); err != nil {
					return err
				}
				os.Chmod(full, mode)
			}
		}
	}
	return nil
}

// Snap is the observable state of a tree: path → description.
type Snap map[string]string

// Entry describes one path: "file:<mode>:<content>", "link:<target>", "dir".
func Snapshot(root string) Snap {
	s := Snap{}
	filepath.Walk(root, func(p string, info os.FileInfo, err error) error {
		if err != nil || p == root {
			return nil
		}
		rel, _ := filepath.Rel(root, p)
		rel = filepath.ToSlash(rel)
		switch {
		case info.Mode()&os.ModeSymlink != 0:
			t, _ := os.Readlink(p)
			s[rel] = "link:" + t
		case info.IsDir():
			s[rel] = "dir"
		default:
			b, _ := os.ReadFile(p)
			s[rel] = fmt.Sprintf("file:%o:%s", info.Mode().Perm(), b)
		}
		return nil
	})
	return s
}

// Content returns the bytes of a regular file entry (following nothing) and whether it is one.
func (s Snap) Content(p string) ([]byte, bool) {
	e, ok := s[p]
	if !ok || !strings.HasPrefix(e, "file:") {
		return nil, false
	}
	e = e[5:]
	i := strings.IndexByte(e, ':')
	return []byte(e[i+1:]), true
}

// Read returns the bytes reachable through path p in the real tree (following symlinks).
func Read(root, p string) ([]byte, bool) {
	b, err := os.ReadFile(filepath.Join(root, filepath.FromSlash(p)))
	return b, err == nil
}

var buildOnce sync.Once
var cliPath string
var cliErr error

// CLI builds cmd/minify from the current tree (once per process).
func CLI() (string, error) {
	buildOnce.Do(func() {
		cliPath = filepath.Join(core.Root, "bin", "minify-cli")
		cmd := exec.Command("go", "build", "-o", cliPath, "./cmd/minify")
		cmd.Dir = core.Repo
		var out bytes.Buffer
		cmd.Stdout, cmd.Stderr = &out, &out
		if err := cmd.Run(); err != nil {
			cliErr = fmt.Errorf("building cmd/minify: %v\n%s", err, out.String())
		}
	})
	return cliPath, cliErr
}
