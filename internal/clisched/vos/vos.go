//go:build vsched

// Package vos stands in for package os in the command line tool (cmd/minify) when it is built
// for schedule exploration: `go build -overlay` rewrites the tool's `import "os"` to this
// package. Every file system operation first passes a scheduling point of the controlled
// scheduler (vsync.OpPoint), so that the operations of concurrently running tasks can be
// interleaved in every order, and every operation that changes the disk calls Hook just
// before it executes: the disk state seen by Hook is exactly what a kill of the process at
// that instant would leave behind. Write is split in two halves with a point in between
// (torn write). Results handed to the caller enter the thread's observation log.
package vos

import (
	"io"
	"io/fs"
	"os"
	"strings"
	"time"

	"github.com/tdewolff/minify/v2/vsync"
)

// Root is stripped from paths in operation names (state keys must not contain scratch directory names).
var Root string

// Hook, if set, is called right before a disk-changing operation executes.
var Hook func(kind, path string)

// Ops counts hooked operations (for the evidence).
var Ops int

func rel(p string) string {
	if r := strings.TrimSuffix(Root, "/"); r != "" && strings.HasPrefix(p, r) {
		return "." + strings.TrimPrefix(p, r)
	}
	return p
}

func read(kind, path string) {
	Ops++
	vsync.OpPoint(kind, rel(path))
}

func mut(kind, path string) {
	Ops++
	vsync.OpPoint(kind, rel(path))
	if Hook != nil && vsync.Active() && !vsync.Aborted() {
		Hook(kind, rel(path))
	}
}

const (
	PathSeparator = os.PathSeparator
	ModeSymlink   = os.ModeSymlink
	O_WRONLY      = os.O_WRONLY
	O_RDONLY      = os.O_RDONLY
	O_RDWR        = os.O_RDWR
	O_TRUNC       = os.O_TRUNC
	O_CREATE      = os.O_CREATE
	O_APPEND      = os.O_APPEND
	O_EXCL        = os.O_EXCL
)

type (
	FileInfo = os.FileInfo
	FileMode = os.FileMode
	Signal   = os.Signal
)

var (
	Interrupt = os.Interrupt
	Args      = os.Args
)

// File wraps *os.File; only Read, Write and Close are hooked.
type File struct {
	f     *os.File
	path  string
	plain bool
}

var (
	Stdin  = &File{f: os.Stdin, plain: true}
	Stdout = &File{f: os.Stdout, plain: true}
	Stderr = &File{f: os.Stderr, plain: true}
)

func (f *File) Read(p []byte) (int, error) {
	if !f.plain {
		read("read", f.path)
	}
	n, err := f.f.Read(p)
	if !f.plain {
		vsync.Observe("read", n, err, p[:n])
	}
	return n, err
}

func (f *File) Write(p []byte) (int, error) {
	if f.plain {
		return f.f.Write(p)
	}
	mut("write", f.path)
	if len(p) > 1 {
		h := len(p) / 2
		n, err := f.f.Write(p[:h])
		if err != nil {
			vsync.Observe("write", n, err)
			return n, err
		}
		mut("write-rest", f.path)
		m, err := f.f.Write(p[h:])
		vsync.Observe("write", n+m, err)
		return n + m, err
	}
	n, err := f.f.Write(p)
	vsync.Observe("write", n, err)
	return n, err
}

// ReadFrom and WriteTo are defined so that io.Copy cannot bypass Read and Write.
func (f *File) ReadFrom(r io.Reader) (int64, error) {
	buf := make([]byte, 32*1024)
	var total int64
	for {
		n, err := r.Read(buf)
		if n > 0 {
			m, werr := f.Write(buf[:n])
			total += int64(m)
			if werr != nil {
				return total, werr
			}
		}
		if err == io.EOF {
			return total, nil
		}
		if err != nil {
			return total, err
		}
	}
}

func (f *File) WriteTo(w io.Writer) (int64, error) {
	buf := make([]byte, 32*1024)
	var total int64
	for {
		n, err := f.Read(buf)
		if n > 0 {
			m, werr := w.Write(buf[:n])
			total += int64(m)
			if werr != nil {
				return total, werr
			}
		}
		if err == io.EOF {
			return total, nil
		}
		if err != nil {
			return total, err
		}
	}
}

func (f *File) Close() error {
	if !f.plain {
		read("close", f.path)
	}
	err := f.f.Close()
	if !f.plain {
		vsync.Observe("close", err)
	}
	return err
}

func (f *File) Stat() (FileInfo, error) { return f.f.Stat() }
func (f *File) Name() string            { return f.f.Name() }
func (f *File) Fd() uintptr             { return f.f.Fd() }
func (f *File) Sync() error             { mut("fsync", f.path); return f.f.Sync() }

func obsInfo(fi FileInfo, err error) {
	if err != nil {
		vsync.Observe("stat", err)
		return
	}
	vsync.Observe("stat", fi.Size(), fi.Mode().String())
}

func Lstat(name string) (FileInfo, error) {
	read("lstat", name)
	fi, err := os.Lstat(name)
	obsInfo(fi, err)
	return fi, err
}

func Stat(name string) (FileInfo, error) {
	read("stat", name)
	fi, err := os.Stat(name)
	obsInfo(fi, err)
	return fi, err
}

func SameFile(a, b FileInfo) bool { return os.SameFile(a, b) }

func Readlink(name string) (string, error) {
	read("readlink", name)
	s, err := os.Readlink(name)
	vsync.Observe("readlink", s, err)
	return s, err
}

func Open(name string) (*File, error) {
	read("open", name)
	f, err := os.Open(name)
	vsync.Observe("open", err)
	if err != nil {
		return nil, err
	}
	return &File{f: f, path: name}, nil
}

func OpenFile(name string, flag int, perm FileMode) (*File, error) {
	if flag&(O_WRONLY|O_RDWR|O_CREATE|O_TRUNC) != 0 {
		mut("openfile", name)
	} else {
		read("open", name)
	}
	f, err := os.OpenFile(name, flag, perm)
	vsync.Observe("openfile", err)
	if err != nil {
		return nil, err
	}
	return &File{f: f, path: name}, nil
}

func Create(name string) (*File, error) { return OpenFile(name, O_RDWR|O_CREATE|O_TRUNC, 0666) }

func Rename(oldpath, newpath string) error {
	mut("rename", rel(oldpath)+"→"+rel(newpath))
	err := os.Rename(oldpath, newpath)
	vsync.Observe("rename", err)
	return err
}

func Remove(name string) error {
	mut("remove", name)
	err := os.Remove(name)
	vsync.Observe("remove", err)
	return err
}

func MkdirAll(path string, perm FileMode) error {
	mut("mkdirall", path)
	err := os.MkdirAll(path, perm)
	vsync.Observe("mkdirall", err)
	return err
}

func Symlink(oldname, newname string) error {
	mut("symlink", newname)
	err := os.Symlink(oldname, newname)
	vsync.Observe("symlink", err)
	return err
}

func Chmod(name string, mode FileMode) error {
	mut("chmod", name)
	return os.Chmod(name, mode)
}

func Chown(name string, uid, gid int) error {
	mut("chown", name)
	return os.Chown(name, uid, gid)
}

func Chtimes(name string, atime, mtime time.Time) error {
	mut("chtimes", name)
	return os.Chtimes(name, atime, mtime)
}

func DirFS(dir string) fs.FS    { return os.DirFS(dir) }
func Exit(code int)             { os.Exit(code) }
func Getenv(k string) string    { return os.Getenv(k) }
func Getwd() (string, error)    { return os.Getwd() }
func IsNotExist(err error) bool { return os.IsNotExist(err) }
func IsExist(err error) bool    { return os.IsExist(err) }
func ReadFile(name string) ([]byte, error) {
	f, err := Open(name)
	if err != nil {
		return nil, err
	}
	defer f.Close()
	return io.ReadAll(f)
}
