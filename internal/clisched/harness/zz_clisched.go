//go:build vsched

// Schedule and crash-point exploration of the command line tool's task execution. This file
// is added to package main of cmd/minify by `go build -overlay` (the tool's own main() is
// renamed by the overlay generator and its `import "os"` is redirected to the vos shim).
//
// A scenario is a set of 2 (thorough: 3) tasks as the tool's worker goroutines would execute
// them concurrently: each task runs the real minify(Task) in its own controlled thread on a
// fresh scratch tree. Every file system operation is a scheduling point; all interleavings up
// to the preemption bound are explored. Oracles:
//   - at every instant before a disk-changing operation (= every state a kill of the process
//     can leave behind, including torn writes): each file that existed initially still holds
//     its complete original, or <file>.bak does, or it holds its complete final content;
//   - when all tasks have returned the tree equals the tree a sequential run produces
//     (right contents at the right places, no leftover .bak) and every task reported success
//     or failure as it does sequentially.
package main

import (
	"encoding/json"
	"fmt"
	"io"
	"log"
	realos "os"
	"path/filepath"
	"regexp"
	"sort"
	"strings"

	min "github.com/tdewolff/minify/v2"
	"github.com/tdewolff/minify/v2/css"
	"github.com/tdewolff/minify/v2/html"
	"github.com/tdewolff/minify/v2/js"
	mjson "github.com/tdewolff/minify/v2/json"
	"github.com/tdewolff/minify/v2/svg"
	"github.com/tdewolff/minify/v2/vsync"
	"github.com/tdewolff/minify/v2/vsync/vos"
	"github.com/tdewolff/minify/v2/xml"
)

type taskSpec struct {
	name  string
	files map[string]string // initial files; a value starting with "->" is a symbolic link
	mk    func(root string) Task
}

func p(root string, rel ...string) string { return filepath.Join(append([]string{root}, rel...)...) }

func specs(id string) []taskSpec {
	return []taskSpec{
		{"inplace-css" + id, map[string]string{"a" + id + ".css": "a { color : #ff0000 ; margin : 0px }\n"}, func(r string) Task {
			return Task{r, []string{p(r, "a"+id+".css")}, p(r, "a"+id+".css"), false}
		}},
		{"inplace-js" + id, map[string]string{"b" + id + ".js": "var  x = 1 ;  f ( x ) ;\n"}, func(r string) Task {
			return Task{r, []string{p(r, "b"+id+".js")}, p(r, "b"+id+".js"), false}
		}},
		{"separate-html" + id, map[string]string{"c" + id + ".html": "<p> a  b </p>  <p>c</p>\n"}, func(r string) Task {
			return Task{r, []string{p(r, "c"+id+".html")}, p(r, "out", "c"+id+".html"), false}
		}},
		{"sync-copy" + id, map[string]string{"d" + id + ".txt": "just  copied\n"}, func(r string) Task {
			return Task{r, []string{p(r, "d"+id+".txt")}, p(r, "out", "d"+id+".txt"), true}
		}},
		{"bundle-onto-second-input" + id, map[string]string{"e" + id + ".js": "var e = 1 ;\n", "f" + id + ".js": "var f = 2 ;\n"}, func(r string) Task {
			return Task{r, []string{p(r, "e"+id+".js"), p(r, "f"+id+".js")}, p(r, "f"+id+".js"), false}
		}},
		{"failing-inplace-js" + id, map[string]string{"g" + id + ".js": "var = ( ;\n"}, func(r string) Task {
			return Task{r, []string{p(r, "g"+id+".js")}, p(r, "g"+id+".js"), false}
		}},
		{"inplace-through-link" + id, map[string]string{"h" + id + ".css": "b { margin : 0px 0px }\n", "l" + id + ".css": "->h" + id + ".css"}, func(r string) Task {
			return Task{r, []string{p(r, "l"+id+".css")}, p(r, "h"+id+".css"), false}
		}},
	}
}

func setupGlobals() {
	m = min.New()
	m.Add("text/css", &css.Minifier{})
	m.Add("text/html", &html.Minifier{})
	m.Add("image/svg+xml", &svg.Minifier{})
	m.AddRegexp(regexp.MustCompile("^(application|text)/(x-)?(java|ecma|j|live)script(1\\.[0-5])?$|^module$"), &js.Minifier{})
	m.AddRegexp(regexp.MustCompile("[/+]json$"), &mjson.Minifier{})
	m.AddRegexp(regexp.MustCompile("[/+]xml$"), &xml.Minifier{})
	quiet = true
	verbose = 0
	mimetype = ""
	Error = log.New(io.Discard, "", 0)
	Warning = log.New(io.Discard, "", 0)
	Info = log.New(io.Discard, "", 0)
	Debug = log.New(io.Discard, "", 0)
}

func scratch() string {
	base := realos.Getenv("CLISCHED_BASE") // a directory of the runner, removed by it when this process has exited
	if fi, err := realos.Stat("/dev/shm"); base == "" && err == nil && fi.IsDir() {
		base = "/dev/shm"
	}
	d, err := realos.MkdirTemp(base, "clisched")
	if err != nil {
		panic(err)
	}
	return d + "/"
}

func populate(root string, ts []taskSpec) {
	for _, t := range ts {
		for name, content := range t.files {
			if strings.HasPrefix(content, "->") {
				realos.Symlink(content[2:], root+name)
			} else {
				realos.WriteFile(root+name, []byte(content), 0644)
			}
		}
	}
}

// snapshot reads the whole tree: path -> content (links are read through; a dangling link shows as "<dangling>").
func snapshot(root string) map[string]string {
	out := map[string]string{}
	filepath.Walk(root, func(path string, info realos.FileInfo, err error) error {
		if err != nil || info.IsDir() {
			return nil
		}
		if info.Mode()&realos.ModeSymlink != 0 {
			t, _ := realos.Readlink(path)
			out[strings.TrimPrefix(path, root)] = "->" + t
			return nil
		}
		b, err := realos.ReadFile(path)
		if err != nil {
			out[strings.TrimPrefix(path, root)] = "<dangling>"
			return nil
		}
		out[strings.TrimPrefix(path, root)] = string(b)
		return nil
	})
	return out
}

func digest(m map[string]string) string {
	keys := make([]string, 0, len(m))
	for k := range m {
		keys = append(keys, k)
	}
	sort.Strings(keys)
	var b strings.Builder
	for _, k := range keys {
		fmt.Fprintf(&b, "%s=%q;", k, m[k])
	}
	return b.String()
}

func scenarioOf(ts []taskSpec) vsync.NamedScenario {
	names := make([]string, len(ts))
	for i, t := range ts {
		names[i] = t.name
	}
	name := strings.Join(names, " || ")
	// reference: the same tasks one after the other, outside the scheduler
	ref := scratch()
	populate(ref, ts)
	initial := snapshot(ref)
	seqOK := make([]bool, len(ts))
	for i, t := range ts {
		seqOK[i] = minify(t.mk(ref))
	}
	final := snapshot(ref)
	realos.RemoveAll(ref)
	nontrivial := digest(initial) != digest(final)
	prev := "" // the tree of the previous execution: an execution that the explorer cuts short is never verified, so verify cannot be the only place that removes it
	return vsync.NamedScenario{Name: name, Nontrivial: nontrivial, Sc: func() (func(), func(*vsync.Sched) ([]string, string)) {
		if prev != "" {
			realos.RemoveAll(prev)
		}
		root := scratch()
		prev = root
		populate(root, ts)
		var crash []string
		results := make([]bool, len(ts))
		finished := false
		check := func(kind, path string) {
			cur := snapshot(root)
			for f, orig := range initial {
				if strings.HasSuffix(f, ".bak") || strings.HasPrefix(orig, "->") {
					continue // symbolic links carry no content of their own
				}
				if cur[f] == orig || cur[f+".bak"] == orig || (cur[f] == final[f] && final[f] != "") {
					continue
				}
				if len(crash) < 3 {
					crash = append(crash, fmt.Sprintf("a kill right before %s(%s) leaves %s without its complete original (neither in %s nor in %s.bak) and without its complete new content: tree %s", kind, path, f, f, f, digest(cur)))
				}
			}
		}
		body := func() {
			vos.Root = root
			vos.Hook = check
			vsync.AddState(func(h uint64) uint64 { return vsync.MixString(h, digest(snapshot(root))) })
			var wg vsync.WaitGroup
			wg.Add(len(ts))
			for i := range ts {
				i := i
				vsync.GoNamed(ts[i].name, func() {
					results[i] = minify(ts[i].mk(root))
					vsync.Observe("task", i, results[i])
					wg.Done()
				})
			}
			wg.Wait()
			finished = true
		}
		verify := func(s *vsync.Sched) ([]string, string) {
			defer realos.RemoveAll(root)
			vos.Hook = nil
			var v []string
			v = append(v, crash...)
			if !finished {
				return v, "unfinished"
			}
			got := snapshot(root)
			if digest(got) != digest(final) {
				v = append(v, fmt.Sprintf("final tree %s, a sequential run gives %s", digest(got), digest(final)))
			}
			for i := range ts {
				if results[i] != seqOK[i] {
					v = append(v, fmt.Sprintf("task %s returned %v, sequentially it returns %v", ts[i].name, results[i], seqOK[i]))
				}
			}
			return v, digest(got)
		}
		return body, verify
	}}
}

func cliScenarios(tier string) []vsync.NamedScenario {
	a, b, c := specs("1"), specs("2"), specs("3")
	var scs []vsync.NamedScenario
	for i := range a {
		scs = append(scs, scenarioOf([]taskSpec{a[i]})) // a single task: every crash point of the sequential path
		for j := i; j < len(b); j++ {
			scs = append(scs, scenarioOf([]taskSpec{a[i], b[j]}))
		}
	}
	if tier == "thorough" {
		for i := range a {
			for j := i; j < len(b); j++ {
				for k := j; k < len(c); k++ {
					if (i+j+k)%3 == 0 {
						scs = append(scs, scenarioOf([]taskSpec{a[i], b[j], c[k]}))
					}
				}
			}
		}
	}
	return scs
}

func main() {
	if len(realos.Args) < 4 {
		fmt.Fprintln(realos.Stderr, "usage: clisched <quick|thorough> <shard> <shards>")
		realos.Exit(2)
	}
	tier := realos.Args[1]
	var shard, shards int
	fmt.Sscan(realos.Args[2], &shard)
	fmt.Sscan(realos.Args[3], &shards)
	setupGlobals()
	bound, maxExecs := 2, 60000
	if tier == "thorough" {
		bound, maxExecs = 3, 400000
	}
	res := vsync.RunScenarios(cliScenarios(tier), bound, maxExecs, 5000, shard, shards)
	res.Extra["hooked_fs_operations_executed"] = vos.Ops
	b, _ := json.Marshal(res)
	fmt.Printf("\nRESULT %s\n", b)
}
