// Package calls is the call alphabet of the C13 harnesses (controlled scheduler and
// free-running -race pass): entry points of one shared, fully registered registry whose
// minifiers are shared option structs with non-default options.
package calls

import (
	"bytes"
	"fmt"
	"io"
	"regexp"
	"strings"

	minify "github.com/tdewolff/minify/v2"
	"github.com/tdewolff/minify/v2/css"
	"github.com/tdewolff/minify/v2/html"
	"github.com/tdewolff/minify/v2/js"
	mjson "github.com/tdewolff/minify/v2/json"
	mdefault "github.com/tdewolff/minify/v2/minify"
	"github.com/tdewolff/minify/v2/svg"
	"github.com/tdewolff/minify/v2/xml"
)

// Shared holds the registry and the user-owned option structs registered in it.
type Shared struct {
	M    *minify.M
	HTML *html.Minifier
	CSS  *css.Minifier
	SVG  *svg.Minifier
	JS   *js.Minifier
	JSON *mjson.Minifier
	XML  *xml.Minifier
}

// New builds a registry with literal and pattern entries and shared option structs.
func New() *Shared {
	s := &Shared{
		M:    minify.New(),
		HTML: &html.Minifier{KeepDefaultAttrVals: true, KeepConditionalComments: true, KeepEndTags: true},
		CSS:  &css.Minifier{Precision: 3},
		SVG:  &svg.Minifier{Precision: 3, KeepComments: false},
		JS:   &js.Minifier{Version: 2019},
		JSON: &mjson.Minifier{Precision: 5},
		XML:  &xml.Minifier{KeepWhitespace: true},
	}
	s.M.Add("text/css", s.CSS)
	s.M.Add("text/html", s.HTML)
	s.M.Add("image/svg+xml", s.SVG)
	s.M.AddRegexp(regexp.MustCompile("^(application|text)/(x-)?(java|ecma)script$"), s.JS)
	s.M.AddRegexp(regexp.MustCompile("[/+]json$"), s.JSON)
	s.M.AddRegexp(regexp.MustCompile("[/+]xml$"), s.XML)
	return s
}

// NewPlain is New with zero-valued option structs: minifiers that copy their option struct only
// when some option is set work directly on the shared one here.
func NewPlain() *Shared {
	s := &Shared{M: minify.New(), HTML: &html.Minifier{}, CSS: &css.Minifier{}, SVG: &svg.Minifier{}, JS: &js.Minifier{}, JSON: &mjson.Minifier{}, XML: &xml.Minifier{}}
	s.M.Add("text/css", s.CSS)
	s.M.Add("text/html", s.HTML)
	s.M.Add("image/svg+xml", s.SVG)
	s.M.AddRegexp(regexp.MustCompile("^(application|text)/(x-)?(java|ecma)script$"), s.JS)
	s.M.AddRegexp(regexp.MustCompile("[/+]json$"), s.JSON)
	s.M.AddRegexp(regexp.MustCompile("[/+]xml$"), s.XML)
	return s
}

// Snapshot is a deep textual snapshot of every user-owned option struct.
func (s *Shared) Snapshot() string {
	// %#v: also tells a nil slice from an empty one (a lazily allocated scratch buffer)
	return fmt.Sprintf("html=%#v css=%#v svg=%#v js=%#v json=%#v xml=%#v", *s.HTML, *s.CSS, *s.SVG, *s.JS, *s.JSON, *s.XML)
}

// Call is one entry of the alphabet; Run returns "output|error".
type Call struct {
	Name string
	Run  func(m *minify.M) string
}

func res(out []byte, err error) string {
	if err != nil {
		return string(out) + "|" + err.Error()
	}
	return string(out) + "|"
}

const htmlDoc = `<!doctype html><p style="color: #ff0000; margin: 0.0500px" title="a  b" lang='x "y" &amp; z'>a  b</p><style>p { margin : 0.12345px }</style><script>var a = 1 ; f ( a )</script><svg><path d="M 10.12345 10 L 20 20"/></svg><a href="data:text/css,a%20%7B%20b%20%3A%20c%20%7D" onclick="g ( ) ;">x</a>`
const htmlCond = `<p class="c d" title='e "f"'>x</p><!--[if IE]><p> y  z </p><![endif]--><!-- gone -->`
const cssDoc = `a { background : url("data:image/svg+xml,%3Csvg%20xmlns%3D%22http%3A%2F%2Fwww.w3.org%2F2000%2Fsvg%22%3E%3Cpath%20d%3D%22M%2010%2010%20L%2020%2020%22%2F%3E%3C%2Fsvg%3E") ; width : 1.23456px }`
const jsonDoc = `{ "a" : [ 1.234567 , 2e3 ] , "b" : null }`
const jsDoc = `var a = 1 ; function f ( x ) { return x ?? a } f ( 2 ) ;`
const xmlDoc = `<a x="1 2" y='3 "4"'> <b> c  d </b> <e/> <![CDATA[ f < g ]]> </a>`
const svgDoc = `<svg><style> a { fill : red } </style><rect width="10.12345" height="5" style="fill : blue" class="a b" id='c "d"'/></svg>`

// Alphabet is the list of calls.
var Alphabet = []Call{
	{"Minify(html+embedded)", func(m *minify.M) string {
		var b bytes.Buffer
		err := m.Minify("text/html", &b, strings.NewReader(htmlDoc))
		return res(b.Bytes(), err)
	}},
	{"Bytes(css+datauri-svg)", func(m *minify.M) string { return res(m.Bytes("text/css", []byte(cssDoc))) }},
	{"String(json)", func(m *minify.M) string {
		s, err := m.String("application/json", jsonDoc)
		return res([]byte(s), err)
	}},
	{"Reader(js)", func(m *minify.M) string {
		b, err := io.ReadAll(m.Reader("application/javascript", strings.NewReader("a ?? b ;"))) // short: every pipe transfer is a scheduling point
		return res(b, err)
	}},
	{"Writer(xml)", func(m *minify.M) string {
		var b bytes.Buffer
		w := m.Writer("text/xml", &b)
		_, err := w.Write([]byte("<a> b </a>"))
		if err2 := w.Close(); err == nil {
			err = err2
		}
		return res(b.Bytes(), err)
	}},
	{"Bytes(svg+style)", func(m *minify.M) string { return res(m.Bytes("image/svg+xml", []byte(svgDoc))) }},
	{"Bytes(xml)", func(m *minify.M) string { return res(m.Bytes("text/xml", []byte(xmlDoc))) }},
	{"String(js)", func(m *minify.M) string {
		s, err := m.String("application/javascript", jsDoc)
		return res([]byte(s), err)
	}},
	{"Match(text/html; charset=utf-8)", func(m *minify.M) string {
		k, p, f := m.Match("text/html; charset=utf-8")
		return fmt.Sprintf("%s %v %v|", k, p, f != nil)
	}},
	{"Minify(unregistered)", func(m *minify.M) string {
		var b bytes.Buffer
		err := m.Minify("text/plain", &b, strings.NewReader("x"))
		return res(b.Bytes(), err)
	}},
	{"Minify(html+conditional-comment)", func(m *minify.M) string {
		var b bytes.Buffer
		err := m.Minify("text/html", &b, strings.NewReader(htmlCond))
		return res(b.Bytes(), err)
	}},
}

// DefaultAlphabet drives the package-level registry of the convenience package minify/minify.
var DefaultAlphabet = []Call{
	{"Default.HTML", func(_ *minify.M) string { s, err := mdefault.HTML(htmlDoc); return res([]byte(s), err) }},
	{"Default.CSS", func(_ *minify.M) string { s, err := mdefault.CSS(cssDoc); return res([]byte(s), err) }},
	{"Default.JS", func(_ *minify.M) string { s, err := mdefault.JS(jsDoc); return res([]byte(s), err) }},
	{"Default.String(text/x-go-template)", func(_ *minify.M) string {
		s, err := mdefault.Default.String("text/x-go-template", "<p> {{ .A }}  b </p>")
		return res([]byte(s), err)
	}},
	{"Default.String(text/asp)", func(_ *minify.M) string {
		s, err := mdefault.Default.String("text/asp", "<p> <% a %>  b </p>")
		return res([]byte(s), err)
	}},
}
