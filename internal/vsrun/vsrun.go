// Package vsrun builds the schedule-exploration harness against the current /repo tree
// (with the generated overlay) and runs it sharded over all cores.
package vsrun

import (
	"bytes"
	"encoding/json"
	"fmt"
	"os"
	"os/exec"
	"path/filepath"
	"strings"
	"sync"

	"verif/internal/core"
	"verif/internal/overlay"
)

// Result mirrors cmd/vsharness.result.
type Result struct {
	Scenarios    int            `json:"scenarios"`
	Nontrivial   int            `json:"nontrivial_scenarios"`
	Executions   int            `json:"executions"`
	Complete     int            `json:"complete"`
	Pruned       int            `json:"pruned"`
	States       int            `json:"states"`
	Transitions  int            `json:"transitions"`
	Points       int            `json:"points"`
	Deadlocks    int            `json:"deadlocks"`
	MaxTrace     int            `json:"max_trace"`
	Capped       int            `json:"capped_scenarios"`
	Outcomes     int            `json:"distinct_outcomes"`
	MultiOutcome int            `json:"scenarios_with_several_outcomes"`
	Failures     []Failure      `json:"failures"`
	Samples      []any          `json:"samples"`
	ReplayChecks int            `json:"replay_checks"`
	Extra        map[string]any `json:"extra,omitempty"`
	Bound        int            `json:"bound"`
}

type Failure struct {
	Scenario string   `json:"scenario"`
	Schedule []int    `json:"schedule"`
	What     []string `json:"what"`
	Trace    []string `json:"trace,omitempty"`
}

// Conformance mirrors vsync.ConformanceResult.
type Conformance struct {
	Programs      int
	ModelExecs    int
	ModelOutcomes int
	RealRuns      int
	Mismatches    []string
	Sample        []string
	Skipped       int
}

var buildOnce sync.Once
var buildErr error
var harness string
var ovInfo *overlay.Result

// Build generates the overlay from the current tree and builds the harness once per process.
func Build() (string, *overlay.Result, error) {
	buildOnce.Do(func() {
		dir := filepath.Join(core.Root, "build", "overlay")
		os.RemoveAll(dir)
		ovInfo, buildErr = overlay.Generate(core.Repo, core.Root, dir)
		if buildErr != nil {
			return
		}
		harness = filepath.Join(core.Root, "bin", "vsharness")
		cmd := exec.Command("go", "build", "-overlay", ovInfo.OverlayFile, "-tags", "vsched", "-o", harness, "./cmd/vsharness")
		cmd.Dir = core.Root
		var out bytes.Buffer
		cmd.Stdout, cmd.Stderr = &out, &out
		if err := cmd.Run(); err != nil {
			buildErr = fmt.Errorf("harness build failed: %v\n%s", err, out.String())
		}
	})
	return harness, ovInfo, buildErr
}

// RunShards runs `vsharness <prop> <tier> i n` for all shards in parallel and decodes each output into out[i].
func RunShards[T any](prop, tier string, extraArgs ...string) ([]T, error) {
	h, _, err := Build()
	if err != nil {
		return nil, err
	}
	n := core.Workers()
	out := make([]T, n)
	errs := make([]error, n)
	var wg sync.WaitGroup
	for i := 0; i < n; i++ {
		wg.Add(1)
		go func(i int) {
			defer wg.Done()
			args := append([]string{prop, tier, fmt.Sprint(i), fmt.Sprint(n)}, extraArgs...)
			cmd := exec.Command(h, args...)
			cmd.Env = append(os.Environ(), "GOMAXPROCS=2")
			var so, se bytes.Buffer
			cmd.Stdout, cmd.Stderr = &so, &se
			if err := cmd.Run(); err != nil {
				errs[i] = fmt.Errorf("shard %d: %v: %s", i, err, tail(se.String()))
				return
			}
			payload := so.Bytes()
			if k := bytes.LastIndex(payload, []byte("\nRESULT ")); k >= 0 {
				payload = payload[k+8:]
			}
			if err := json.Unmarshal(payload, &out[i]); err != nil {
				errs[i] = fmt.Errorf("shard %d: bad output: %v", i, err)
			}
		}(i)
	}
	wg.Wait()
	for _, e := range errs {
		if e != nil {
			return nil, e
		}
	}
	return out, nil
}

func tail(s string) string {
	if len(s) > 3000 {
		return s[len(s)-3000:]
	}
	return s
}

// Explore runs the exploration of one property and folds the result into the check.
func Explore(c *core.Check, prop string) *Result {
	shards, err := RunShards[Result](prop, c.Tier)
	if err != nil {
		fmt.Fprintln(os.Stderr, "BUILD-ERROR:", err)
		os.Exit(2)
	}
	tot := &Result{Extra: map[string]any{}}
	for _, r := range shards {
		tot.Scenarios += r.Scenarios
		tot.Nontrivial += r.Nontrivial
		tot.Executions += r.Executions
		tot.Complete += r.Complete
		tot.Pruned += r.Pruned
		tot.States += r.States
		tot.Transitions += r.Transitions
		tot.Points += r.Points
		tot.Deadlocks += r.Deadlocks
		tot.Capped += r.Capped
		tot.Outcomes += r.Outcomes
		tot.MultiOutcome += r.MultiOutcome
		tot.ReplayChecks += r.ReplayChecks
		tot.Bound = r.Bound
		if r.MaxTrace > tot.MaxTrace {
			tot.MaxTrace = r.MaxTrace
		}
		tot.Failures = append(tot.Failures, r.Failures...)
		if len(tot.Samples) < 4 {
			tot.Samples = append(tot.Samples, r.Samples...)
		}
		for k, v := range r.Extra {
			tot.Extra[k] = v
		}
	}
	c.Count(uint64(tot.Executions))
	for _, s := range tot.Samples {
		c.Sample(s)
	}
	seen := map[string]bool{}
	for _, f := range tot.Failures {
		if seen[f.Scenario] {
			continue
		}
		seen[f.Scenario] = true
		kind := "schedule"
		w := strings.Join(f.What, "; ")
		switch {
		case strings.Contains(w, "INTERNAL"):
			kind = "internal-nondeterminism"
		case strings.Contains(w, "deadlock"):
			kind = "deadlock"
		case strings.Contains(w, "panic"):
			kind = "panic"
		}
		c.Fail(core.Failure{Family: prop, Input: f.Scenario, Config: fmt.Sprintf("schedule=%v", f.Schedule), Kind: kind, What: w, Extra: map[string]any{"schedule": f.Schedule, "trace": f.Trace}})
	}
	if tot.Capped > 0 {
		c.Exhaustive = false
	}
	c.Extra["states"] = tot.States
	c.Extra["transitions"] = tot.Transitions
	c.Extra["scenarios"] = tot.Scenarios
	c.Extra["nontrivial_scenarios"] = tot.Nontrivial
	for i := 0; i < tot.Nontrivial; i++ {
		c.Nontrivial(prop, fmt.Sprint(i)) // one per distinct scenario whose reference output differs from its input
	}
	c.Extra["executions_complete"] = tot.Complete
	c.Extra["executions_cut_at_visited_state"] = tot.Pruned
	c.Extra["scheduling_steps_executed"] = tot.Points
	c.Extra["longest_execution_steps"] = tot.MaxTrace
	c.Extra["deadlocks_found"] = tot.Deadlocks
	c.Extra["distinct_outcomes"] = tot.Outcomes
	c.Extra["scenarios_with_several_outcomes"] = tot.MultiOutcome
	c.Extra["preemption_bound"] = tot.Bound
	c.Extra["capped_scenarios"] = tot.Capped
	c.Extra["replay_determinism_checks"] = tot.ReplayChecks
	for k, v := range tot.Extra {
		c.Extra[k] = v
	}
	return tot
}

// Conform runs the pipe-model conformance check and folds it into the check.
func Conform(c *core.Check) {
	shards, err := RunShards[Conformance]("conform", c.Tier)
	if err != nil {
		fmt.Fprintln(os.Stderr, "BUILD-ERROR:", err)
		os.Exit(2)
	}
	var tot Conformance
	for _, r := range shards {
		tot.Programs += r.Programs
		tot.ModelExecs += r.ModelExecs
		tot.ModelOutcomes += r.ModelOutcomes
		tot.RealRuns += r.RealRuns
		tot.Skipped += r.Skipped
		tot.Mismatches = append(tot.Mismatches, r.Mismatches...)
		if len(tot.Sample) < 3 {
			tot.Sample = append(tot.Sample, r.Sample...)
		}
	}
	for _, m := range tot.Mismatches {
		c.Fail(core.Failure{Family: "pipe-model-conformance", Input: m, Kind: "internal-model-mismatch", What: "the vsync.Pipe model and the real io.Pipe disagree (harness defect, not a property violation): " + m})
	}
	c.Extra["traces_validated_against_impl"] = tot.RealRuns
	c.Extra["pipe_model_conformance"] = map[string]any{"programs": tot.Programs, "model_executions": tot.ModelExecs, "model_outcomes": tot.ModelOutcomes, "real_io_pipe_runs": tot.RealRuns, "mismatches": len(tot.Mismatches), "skipped_capped": tot.Skipped, "samples": tot.Sample}
}

var cliOnce sync.Once
var cliErr error
var cliHarness string
var cliInfo *overlay.Result

// BuildCLI builds cmd/minify from the current tree as the task-concurrency harness (os → vos).
func BuildCLI() (string, *overlay.Result, error) {
	cliOnce.Do(func() {
		dir := filepath.Join(core.Root, "build", "clioverlay")
		os.RemoveAll(dir)
		cliInfo, cliErr = overlay.GenerateCLI(core.Repo, core.Root, dir)
		if cliErr != nil {
			return
		}
		cliHarness = filepath.Join(core.Root, "bin", "clisched")
		cmd := exec.Command("go", "build", "-overlay", cliInfo.OverlayFile, "-tags", "vsched", "-o", cliHarness, "./cmd/minify")
		cmd.Dir = core.Repo
		var out bytes.Buffer
		cmd.Stdout, cmd.Stderr = &out, &out
		if err := cmd.Run(); err != nil {
			cliErr = fmt.Errorf("cli harness build failed: %v\n%s", err, out.String())
		}
	})
	return cliHarness, cliInfo, cliErr
}

// ExploreCLI runs the task-concurrency and crash-point exploration of the command line tool
// and folds the result into the check under the family name fam.
func ExploreCLI(c *core.Check, fam string) *Result {
	h, info, err := BuildCLI()
	if err != nil {
		fmt.Fprintln(os.Stderr, "BUILD-ERROR:", err)
		os.Exit(2)
	}
	n := core.Workers()
	out := make([]Result, n)
	errs := make([]error, n)
	var wg sync.WaitGroup
	for i := 0; i < n; i++ {
		wg.Add(1)
		go func(i int) {
			defer wg.Done()
			cmd := exec.Command(h, c.Tier, fmt.Sprint(i), fmt.Sprint(n))
			cmd.Env = append(os.Environ(), "GOMAXPROCS=2")
			// the shard keeps the scratch trees of its executions under one directory that belongs to
			// this runner and is removed when the shard has exited, however it exited
			shm := ""
			if fi, err := os.Stat("/dev/shm"); err == nil && fi.IsDir() {
				shm = "/dev/shm"
			}
			if base, err := os.MkdirTemp(shm, "clisched"); err == nil {
				defer os.RemoveAll(base)
				cmd.Env = append(cmd.Env, "CLISCHED_BASE="+base)
			}
			var so, se bytes.Buffer
			cmd.Stdout, cmd.Stderr = &so, &se
			if err := cmd.Run(); err != nil {
				errs[i] = fmt.Errorf("shard %d: %v: %s", i, err, tail(se.String()))
				return
			}
			payload := so.Bytes()
			if k := bytes.LastIndex(payload, []byte("\nRESULT ")); k >= 0 {
				payload = payload[k+8:]
			}
			if err := json.Unmarshal(payload, &out[i]); err != nil {
				errs[i] = fmt.Errorf("shard %d: bad output: %v", i, err)
			}
		}(i)
	}
	wg.Wait()
	for _, e := range errs {
		if e != nil {
			fmt.Fprintln(os.Stderr, "BUILD-ERROR:", e)
			os.Exit(2)
		}
	}
	tot := &Result{Extra: map[string]any{}}
	ops := 0.0
	for _, r := range out {
		tot.Scenarios += r.Scenarios
		tot.Nontrivial += r.Nontrivial
		tot.Executions += r.Executions
		tot.Complete += r.Complete
		tot.Pruned += r.Pruned
		tot.States += r.States
		tot.Transitions += r.Transitions
		tot.Deadlocks += r.Deadlocks
		tot.Capped += r.Capped
		tot.Outcomes += r.Outcomes
		tot.MultiOutcome += r.MultiOutcome
		tot.ReplayChecks += r.ReplayChecks
		tot.Bound = r.Bound
		if r.MaxTrace > tot.MaxTrace {
			tot.MaxTrace = r.MaxTrace
		}
		tot.Failures = append(tot.Failures, r.Failures...)
		if len(tot.Samples) < 3 {
			tot.Samples = append(tot.Samples, r.Samples...)
		}
		if v, ok := r.Extra["hooked_fs_operations_executed"].(float64); ok {
			ops += v
		}
	}
	c.Count(uint64(tot.Executions))
	c.AddFamily(fam, uint64(tot.Executions), uint64(tot.Complete))
	c.Family(fam).Bound = fmt.Sprintf("%d scenarios (1, 2 and in thorough 3 concurrent tasks from 7 task kinds), preemption bound %d, every file system operation a scheduling point and every disk-changing one a crash point", tot.Scenarios, tot.Bound)
	for _, s := range tot.Samples {
		c.Sample(s)
	}
	seen := map[string]bool{}
	for _, f := range tot.Failures {
		if seen[f.Scenario] {
			continue
		}
		seen[f.Scenario] = true
		w := strings.Join(f.What, "; ")
		kind := "final-tree"
		switch {
		case strings.Contains(w, "INTERNAL"):
			kind = "internal-nondeterminism"
		case strings.Contains(w, "deadlock"):
			kind = "deadlock"
		case strings.Contains(w, "panic"):
			kind = "panic"
		case strings.Contains(w, "a kill right before"):
			kind = "crash-state"
		}
		c.Fail(core.Failure{Family: fam, Input: f.Scenario, Config: fmt.Sprintf("schedule=%v", f.Schedule), Kind: kind, What: w, Extra: map[string]any{"schedule": f.Schedule, "trace": f.Trace}})
	}
	if tot.Capped > 0 {
		c.Exhaustive = false
	}
	c.Extra["cli_sched_states"] = tot.States
	c.Extra["cli_sched_transitions"] = tot.Transitions
	c.Extra["cli_sched_scenarios"] = tot.Scenarios
	c.Extra["cli_sched_executions_complete"] = tot.Complete
	c.Extra["cli_sched_executions_cut_at_visited_state"] = tot.Pruned
	c.Extra["cli_sched_preemption_bound"] = tot.Bound
	c.Extra["cli_sched_distinct_outcomes"] = tot.Outcomes
	c.Extra["cli_sched_scenarios_with_several_outcomes"] = tot.MultiOutcome
	c.Extra["cli_sched_replay_determinism_checks"] = tot.ReplayChecks
	c.Extra["cli_sched_hooked_fs_operations_executed"] = int(ops)
	c.Extra["cli_sched_rewritten_files"] = info.Rewritten
	for i := 0; i < tot.Nontrivial; i++ {
		c.Nontrivial(fam, fmt.Sprint(i))
	}
	return tot
}
