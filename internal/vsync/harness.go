package vsync

import "strings"

// NamedScenario is a scenario with a name for reports.
type NamedScenario struct {
	Name       string
	Sc         Scenario
	Nontrivial bool
}

// HarnessFailure is one violating execution of a named scenario.
type HarnessFailure struct {
	Scenario string   `json:"scenario"`
	Schedule []int    `json:"schedule"`
	What     []string `json:"what"`
	Trace    []string `json:"trace,omitempty"`
}

// HarnessResult is what a harness binary prints after "RESULT " (same shape as cmd/vsharness).
type HarnessResult struct {
	Scenarios    int              `json:"scenarios"`
	Nontrivial   int              `json:"nontrivial_scenarios"`
	Executions   int              `json:"executions"`
	Complete     int              `json:"complete"`
	Pruned       int              `json:"pruned"`
	States       int              `json:"states"`
	Transitions  int              `json:"transitions"`
	Points       int              `json:"points"`
	Deadlocks    int              `json:"deadlocks"`
	MaxTrace     int              `json:"max_trace"`
	Capped       int              `json:"capped_scenarios"`
	Outcomes     int              `json:"distinct_outcomes"`
	MultiOutcome int              `json:"scenarios_with_several_outcomes"`
	Failures     []HarnessFailure `json:"failures"`
	Samples      []any            `json:"samples"`
	ReplayChecks int              `json:"replay_checks"`
	Extra        map[string]any   `json:"extra,omitempty"`
	Bound        int              `json:"bound"`
}

// RunScenarios explores every scenario of this shard and accumulates the result; every
// failing schedule is replayed twice and must give the same verdict.
func RunScenarios(scs []NamedScenario, bound, maxExecs, horizon, shard, shards int) HarnessResult {
	res := HarnessResult{Bound: bound, Extra: map[string]any{}}
	outcomes := map[string]bool{}
	for i, sc := range scs {
		if i%shards != shard {
			continue
		}
		e := &Explorer{Bound: bound, MaxExecs: maxExecs, Horizon: horizon}
		e.Explore(sc.Sc)
		res.Scenarios++
		if sc.Nontrivial {
			res.Nontrivial++
		}
		res.Executions += e.Executions
		res.Complete += e.Complete
		res.Pruned += e.Pruned
		res.States += e.States
		res.Transitions += e.Transitions
		res.Points += e.Points
		res.Deadlocks += e.Deadlocks
		if e.MaxTrace > res.MaxTrace {
			res.MaxTrace = e.MaxTrace
		}
		if e.Capped {
			res.Capped++
			res.Extra["capped:"+sc.Name] = e.Executions
		}
		if len(e.Outcomes) > 1 {
			res.MultiOutcome++
		}
		for o := range e.Outcomes {
			outcomes[sc.Name+"→"+o] = true
		}
		for _, f := range e.Failures {
			stable := true
			for k := 0; k < 2; k++ {
				s2, v2, _ := RunOne(sc.Sc, f.Schedule, horizon)
				res.ReplayChecks++
				if strings.Join(v2, "|") != strings.Join(f.What, "|") || len(s2.Trace) != len(f.Schedule) {
					stable = false
				}
			}
			what := f.What
			if !stable {
				what = append([]string{"INTERNAL: verdict not reproducible on replay"}, what...)
			}
			if len(res.Failures) < 40 {
				res.Failures = append(res.Failures, HarnessFailure{sc.Name, f.Schedule, what, f.Trace})
			}
		}
		if len(res.Samples) < 3 {
			tr := e.FirstTrace()
			if len(tr) > 60 {
				tr = append(tr[:60], "…")
			}
			res.Samples = append(res.Samples, map[string]any{"scenario": sc.Name, "executions": e.Executions, "states": e.States, "outcomes": e.Outcomes, "default_schedule_trace": tr})
		}
		s1, v1, o1 := RunOne(sc.Sc, nil, horizon)
		s2, v2, o2 := RunOne(sc.Sc, nil, horizon)
		res.ReplayChecks += 2
		if o1 != o2 || len(s1.Trace) != len(s2.Trace) || strings.Join(v1, "|") != strings.Join(v2, "|") {
			res.Failures = append(res.Failures, HarnessFailure{sc.Name, nil, []string{"INTERNAL: default schedule not deterministic"}, nil})
		}
	}
	res.Outcomes = len(outcomes)
	return res
}
