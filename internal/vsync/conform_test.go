package vsync

import "testing"

func TestPipeConformance(t *testing.T) {
	r := PipeConformance(1, 40, 0, 1)
	t.Logf("programs=%d modelExecs=%d modelOutcomes=%d realRuns=%d mismatches=%d sample=%v", r.Programs, r.ModelExecs, r.ModelOutcomes, r.RealRuns, len(r.Mismatches), r.Sample)
	for i, m := range r.Mismatches {
		if i < 10 {
			t.Error(m)
		}
	}
}
