package vsync

import (
	"errors"
	"fmt"
	"io"
	"runtime"
	"sort"
	"strings"
	"sync"
)

// Conformance of the Pipe model with the real io.Pipe: every small program (a writer
// thread, a reader thread, and a closer thread that finally closes both ends so that no
// program can block forever) is explored exhaustively on the model; the same program runs
// free on io.Pipe many times; every outcome seen on the real pipe must be an outcome of
// the model, and programs with a single model outcome must always produce it.

type pipeOp struct {
	kind string // W R CW CWE CR CRE
	n    int
}

func (o pipeOp) String() string {
	if o.kind == "W" || o.kind == "R" {
		return fmt.Sprintf("%s%d", o.kind, o.n)
	}
	return o.kind
}

var errW = errors.New("werr")
var errR = errors.New("rerr")

type rwc interface {
	Read([]byte) (int, error)
	Write([]byte) (int, error)
	CloseR(error) error
	CloseW(error) error
}

type realPipe struct {
	r *io.PipeReader
	w *io.PipeWriter
}

func (p realPipe) Read(b []byte) (int, error)  { return p.r.Read(b) }
func (p realPipe) Write(b []byte) (int, error) { return p.w.Write(b) }
func (p realPipe) CloseR(e error) error        { return p.r.CloseWithError(e) }
func (p realPipe) CloseW(e error) error        { return p.w.CloseWithError(e) }

type shimPipe struct {
	r *PipeReader
	w *PipeWriter
}

func (p shimPipe) Read(b []byte) (int, error)  { return p.r.Read(b) }
func (p shimPipe) Write(b []byte) (int, error) { return p.w.Write(b) }
func (p shimPipe) CloseR(e error) error        { return p.r.CloseWithError(e) }
func (p shimPipe) CloseW(e error) error        { return p.w.CloseWithError(e) }

func errName(e error) string {
	switch {
	case e == nil:
		return "nil"
	case e == io.EOF:
		return "EOF"
	case e == io.ErrClosedPipe:
		return "closed"
	case e == errW:
		return "werr"
	case e == errR:
		return "rerr"
	}
	return e.Error()
}

func runOps(p rwc, ops []pipeOp, payload string) string {
	var out []string
	for _, o := range ops {
		switch o.kind {
		case "W":
			n, err := p.Write([]byte(payload[:o.n]))
			out = append(out, fmt.Sprintf("W%d=%d,%s", o.n, n, errName(err)))
		case "R":
			b := make([]byte, o.n)
			n, err := p.Read(b)
			out = append(out, fmt.Sprintf("R%d=%q,%s", o.n, b[:n], errName(err)))
		case "CW":
			p.CloseW(nil)
			out = append(out, "CW")
		case "CWE":
			p.CloseW(errW)
			out = append(out, "CWE")
		case "CR":
			p.CloseR(nil)
			out = append(out, "CR")
		case "CRE":
			p.CloseR(errR)
			out = append(out, "CRE")
		}
	}
	return strings.Join(out, " ")
}

type pipeProgram struct{ w, r, c []pipeOp }

func (p pipeProgram) String() string { return fmt.Sprintf("W:%v R:%v C:%v", p.w, p.r, p.c) }

func seqs(alpha []pipeOp, maxLen int) [][]pipeOp {
	out := [][]pipeOp{nil}
	cur := [][]pipeOp{nil}
	for l := 1; l <= maxLen; l++ {
		var next [][]pipeOp
		for _, s := range cur {
			for _, a := range alpha {
				next = append(next, append(append([]pipeOp{}, s...), a))
			}
		}
		out = append(out, next...)
		cur = next
	}
	return out
}

// ConformanceResult summarises a conformance run.
type ConformanceResult struct {
	Programs      int
	ModelExecs    int
	ModelOutcomes int
	RealRuns      int
	Mismatches    []string
	Sample        []string
	Skipped       int // programs whose model exploration hit the execution cap (not validated)
}

// PipeConformance runs the conformance check with per-thread op sequences up to maxOps.
// Only programs with index%shards == shard are run (process-level parallelism).
func PipeConformance(maxOps, reps, shard, shards int) ConformanceResult {
	var res ConformanceResult
	wAlpha := []pipeOp{{"W", 1}, {"W", 3}, {"W", 0}, {"CW", 0}, {"CWE", 0}}
	rAlpha := []pipeOp{{"R", 1}, {"R", 2}, {"R", 0}, {"CR", 0}, {"CRE", 0}}
	closers := [][]pipeOp{{{"CW", 0}, {"CR", 0}}, {{"CR", 0}, {"CW", 0}}, {{"CWE", 0}, {"CRE", 0}}, {{"CRE", 0}, {"CW", 0}}}
	var progs []pipeProgram
	for _, w := range seqs(wAlpha, maxOps) {
		for _, r := range seqs(rAlpha, maxOps) {
			if len(w)+len(r) == 0 {
				continue
			}
			for _, c := range closers {
				progs = append(progs, pipeProgram{w, r, c})
			}
		}
	}
	for pi, pg := range progs {
		pg := pg
		if pi%shards != shard {
			continue
		}
		// model: all outcomes
		// the closer runs concurrently so that every blocked operation is eventually released
		sc := func() (func(), func(*Sched) ([]string, string)) {
			var ow, or string
			body := func() {
				pr, pw := Pipe()
				p := shimPipe{pr, pw}
				var wg WaitGroup
				wg.Add(3)
				Go(func() { ow = runOps(p, pg.w, "abc"); wg.Done() })
				Go(func() { or = runOps(p, pg.r, "abc"); wg.Done() })
				Go(func() { runOps(p, pg.c, ""); wg.Done() })
				wg.Wait()
			}
			return body, func(s *Sched) ([]string, string) {
				if s.Deadlock {
					return nil, "DEADLOCK"
				}
				return nil, ow + " | " + or
			}
		}
		e := &Explorer{Bound: -1, MaxExecs: 60000}
		e.Explore(sc)
		res.Programs++
		res.ModelExecs += e.Executions
		res.ModelOutcomes += len(e.Outcomes)
		if e.Capped {
			res.Skipped++
			continue
		}
		if e.Outcomes["DEADLOCK"] > 0 {
			res.Mismatches = append(res.Mismatches, "model deadlocks on "+pg.String())
		}
		// real pipe
		seen := map[string]int{}
		for rep := 0; rep < reps; rep++ {
			pr, pw := io.Pipe()
			p := realPipe{pr, pw}
			var ow, or string
			var wg sync.WaitGroup
			wg.Add(3)
			fs := []func(){
				func() { ow = runOps(p, pg.w, "abc"); wg.Done() },
				func() { or = runOps(p, pg.r, "abc"); wg.Done() },
				func() {
					for i := 0; i < rep%4; i++ {
						runtime.Gosched()
					}
					runOps(p, pg.c, "")
					wg.Done()
				},
			}
			for i := range fs {
				go fs[(i+rep)%3]()
			}
			wg.Wait()
			seen[ow+" | "+or]++
			res.RealRuns++
		}
		for o := range seen {
			if e.Outcomes[o] == 0 {
				ks := make([]string, 0, len(e.Outcomes))
				for k := range e.Outcomes {
					ks = append(ks, k)
				}
				sort.Strings(ks)
				res.Mismatches = append(res.Mismatches, fmt.Sprintf("program %s: real io.Pipe outcome %q is not a model outcome %v", pg, o, ks))
			}
		}
		if pi%997 == 1 && len(res.Sample) < 5 {
			res.Sample = append(res.Sample, fmt.Sprintf("%s: model outcomes=%d executions=%d real distinct=%d", pg, len(e.Outcomes), e.Executions, len(seen)))
		}
	}
	return res
}
