// Package vsync is a cooperative, deterministic scheduler with drop-in shims for the
// synchronisation primitives used by tdewolff/minify (sync.RWMutex, sync.Mutex,
// sync.WaitGroup, sync.Once, io.Pipe and the go statement).
//
// It is compiled twice: as verif/internal/vsync (unit tests, pipe conformance) and, via
// `go build -overlay`, as the virtual package github.com/tdewolff/minify/v2/vsync that the
// rewritten copy of minify.go imports. Exactly one registered thread runs at any time;
// before every hooked operation the running thread calls point(), where the scheduler
// picks the next thread among those whose pending operation is enabled. The sequence of
// picks is the schedule; an Explorer (explore.go) enumerates schedules.
package vsync

import (
	"errors"
	"fmt"
	"io"
	"sync"
)

// ---------------------------------------------------------------------------------
// scheduler core

type thread struct {
	id      int
	wake    chan struct{}
	pending *op
	done    bool
	name    string
	pc      uint64 // number of points passed
	log     uint64 // running hash of everything this thread observed (op results, Observe calls)
}

const fnvOff, fnvPrime = 14695981039346656037, 1099511628211

func mix(h uint64, v uint64) uint64 {
	for i := 0; i < 8; i++ {
		h ^= v & 0xff
		h *= fnvPrime
		v >>= 8
	}
	return h
}

func mixs(h uint64, s string) uint64 {
	for i := 0; i < len(s); i++ {
		h ^= uint64(s[i])
		h *= fnvPrime
	}
	return mix(h, uint64(len(s)))
}

// Observe adds values to the running thread's observation log. Shims log every result
// they hand to the caller; harness code logs what it reads from shared memory and what it
// records for the verdict, so that equal state keys imply equal futures and verdicts.
func Observe(vals ...any) {
	s := cur
	if s == nil || s.aborted || s.cur == nil {
		return
	}
	t := s.cur
	for _, v := range vals {
		switch x := v.(type) {
		case int:
			t.log = mix(t.log, uint64(x))
		case bool:
			if x {
				t.log = mix(t.log, 1)
			} else {
				t.log = mix(t.log, 2)
			}
		case string:
			t.log = mixs(t.log, x)
		case []byte:
			t.log = mixs(t.log, string(x))
		case error:
			if x == nil {
				t.log = mix(t.log, 3)
			} else {
				t.log = mixs(t.log, x.Error())
			}
		case nil:
			t.log = mix(t.log, 3)
		default:
			t.log = mixs(t.log, fmt.Sprint(x))
		}
	}
}

// stateKey hashes the global state: every thread's progress, pending operation and
// observation log, and the state of every shim object.
func (s *Sched) stateKey() uint64 {
	h := uint64(fnvOff)
	for _, t := range s.threads {
		h = mix(h, t.pc)
		h = mix(h, t.log)
		if t.done {
			h = mix(h, 7)
		} else if t.pending != nil {
			h = mixs(h, t.pending.kind)
			h = mixs(h, t.pending.obj)
		}
	}
	for _, o := range s.objects {
		h = o(h)
	}
	return h
}

type op struct {
	kind    string
	obj     string
	enabled func() bool
}

// Point is one scheduling decision of an execution.
type Point struct {
	Enabled        []int  // thread ids in canonical order (running thread first if enabled)
	RunningEnabled bool   // the thread that reached the point could have continued
	Chosen         int    // index into Enabled
	Kind           string // operation of the chosen thread ("choose" for a data choice)
	Thread         int    // id of the chosen thread
	Alternatives   int    // len(Enabled), or n for a data choice
	Data           bool   // data choice (select / environment answer), never a preemption
	Key            uint64 // hash of the global state in which the decision was taken
}

// Sched is the state of one controlled execution.
type Sched struct {
	threads  []*thread
	cur      *thread
	prefix   []int
	Trace    []Point
	Deadlock bool
	Livelock bool
	Diverged string // set when the prefix could not be replayed (hard error)
	Panic    string // panic raised by the code under test
	aborted  bool
	horizon  int
	real     sync.WaitGroup // real goroutines still alive
	finished chan struct{}
	blocked  []string // description of blocked threads at deadlock
	objSeq   int
	objects  []func(h uint64) uint64
	// CutAt, if set, is asked at every point beyond the replayed prefix whether the state
	// (key, number of preemptions so far) needs no further exploration; if so the execution
	// is cut short (Cut=true) — its continuation is known from an earlier execution.
	CutAt func(key uint64, pre int) bool
	Cut   bool
	pre   int
	// OnBlockOnLock, if set, is called when a thread's lock operation is found disabled.
	LockBlocked []string
}

var cur *Sched // the execution in progress (one at a time per process)

type abortT struct{}

var errAbort = abortT{}

// Run executes body as thread 0 under the schedule prefix (choices beyond the prefix
// default to 0 = keep running / lowest id) and returns the finished execution.
func Run(prefix []int, horizon int, body func()) *Sched { return RunCut(prefix, horizon, nil, body) }

// RunCut is Run with a cut-off predicate (see Sched.CutAt).
func RunCut(prefix []int, horizon int, cutAt func(uint64, int) bool, body func()) *Sched {
	s := &Sched{prefix: prefix, horizon: horizon, finished: make(chan struct{}), CutAt: cutAt}
	cur = s
	t := s.newThread("main", body)
	s.cur = t
	t.wake <- struct{}{}
	<-s.finished
	s.real.Wait()
	cur = nil
	return s
}

func (s *Sched) newThread(name string, f func()) *thread {
	t := &thread{id: len(s.threads), wake: make(chan struct{}, 1), name: name}
	t.pending = &op{kind: "start", enabled: func() bool { return true }}
	s.threads = append(s.threads, t)
	s.real.Add(1)
	go func() {
		defer s.real.Done()
		<-t.wake
		defer func() {
			if r := recover(); r != nil {
				if _, ok := r.(abortT); !ok {
					// a real panic of the code under test: record and abort the execution
					s.Panic = fmt.Sprintf("thread %d (%s): %v", t.id, t.name, r)
					s.abort()
				}
			}
			finishMu.Lock()
			t.done = true
			t.pending = nil
			finishMu.Unlock()
			if !s.aborted {
				s.switchFrom(t, true)
			} else {
				s.maybeFinish()
			}
		}()
		if s.aborted {
			return
		}
		f()
	}()
	return t
}

func (s *Sched) allDone() bool {
	for _, t := range s.threads {
		if !t.done {
			return false
		}
	}
	return true
}

var finishMu sync.Mutex

func (s *Sched) maybeFinish() {
	finishMu.Lock()
	defer finishMu.Unlock()
	all := true
	for _, t := range s.threads {
		if !t.done {
			all = false
		}
	}
	if all {
		select {
		case <-s.finished:
		default:
			close(s.finished)
		}
	}
}

// abort unwinds every parked thread (they panic with errAbort when woken).
func (s *Sched) abort() {
	if s.aborted {
		return
	}
	s.aborted = true
	for _, t := range s.threads {
		if !t.done && t != s.cur {
			select {
			case t.wake <- struct{}{}:
			default:
			}
		}
	}
}

// switchFrom picks the next thread to run. exiting=true when t has finished.
func (s *Sched) switchFrom(t *thread, exiting bool) {
	var enabled []*thread
	runningEnabled := false
	if !exiting && t.pending.enabled() {
		enabled = append(enabled, t)
		runningEnabled = true
	}
	for _, u := range s.threads {
		if u != t && !u.done && u.pending != nil && u.pending.enabled() {
			enabled = append(enabled, u)
		}
	}
	if len(enabled) == 0 {
		if s.allDone() {
			s.maybeFinish()
			return
		}
		s.Deadlock = true
		for _, u := range s.threads {
			if !u.done {
				s.blocked = append(s.blocked, fmt.Sprintf("thread %d (%s) blocked at %s %s", u.id, u.name, u.pending.kind, u.pending.obj))
			}
		}
		s.cur = t
		s.abort()
		if exiting {
			s.maybeFinish()
			return
		}
		panic(errAbort)
	}
	if len(s.Trace) >= s.horizon {
		s.Livelock = true
		s.cur = t
		s.abort()
		if exiting {
			s.maybeFinish()
			return
		}
		panic(errAbort)
	}
	choice := 0
	if i := len(s.Trace); i < len(s.prefix) {
		choice = s.prefix[i]
		if choice >= len(enabled) {
			s.Diverged = fmt.Sprintf("replay divergence at point %d: choice %d but only %d enabled", i, choice, len(enabled))
			s.cur = t
			s.abort()
			if exiting {
				s.maybeFinish()
				return
			}
			panic(errAbort)
		}
	}
	ids := make([]int, len(enabled))
	for i, u := range enabled {
		ids[i] = u.id
	}
	next := enabled[choice]
	key := s.stateKey()
	if s.CutAt != nil && len(s.Trace) >= len(s.prefix) && s.CutAt(key, s.pre) {
		s.Cut = true
		s.cur = t
		s.abort()
		if exiting {
			s.maybeFinish()
			return
		}
		panic(errAbort)
	}
	if runningEnabled && choice != 0 {
		s.pre++
	}
	s.Trace = append(s.Trace, Point{Enabled: ids, RunningEnabled: runningEnabled, Chosen: choice, Kind: next.pending.kind + " " + next.pending.obj, Thread: next.id, Alternatives: len(enabled), Key: key})
	next.pc++
	if next == t {
		return
	}
	s.cur = next
	next.wake <- struct{}{}
	if exiting {
		return
	}
	<-t.wake
	if s.aborted {
		panic(errAbort)
	}
}

// point announces the next operation of the running thread and yields to the scheduler.
// After it returns the operation is enabled and the caller performs its effect.
func point(kind, obj string, enabled func() bool) {
	s := cur
	if s == nil {
		// outside a controlled execution (single-threaded setup code): the operation must not block
		if enabled != nil && !enabled() {
			panic("vsync: " + kind + " would block outside a controlled execution")
		}
		return
	}
	if s.aborted {
		return // unwinding: deferred unlocks etc. become no-ops
	}
	t := s.cur
	if enabled == nil {
		enabled = func() bool { return true }
	}
	t.pending = &op{kind: kind, obj: obj, enabled: enabled}
	s.switchFrom(t, false)
}

// Choose is a data choice among n alternatives (select nondeterminism, environment answers).
func Choose(n int, what string) int {
	s := cur
	if s == nil || s.aborted || n <= 1 {
		return 0
	}
	choice := 0
	if i := len(s.Trace); i < len(s.prefix) {
		choice = s.prefix[i]
		if choice >= n {
			s.Diverged = fmt.Sprintf("replay divergence at data choice %d", i)
			s.abort()
			panic(errAbort)
		}
	}
	s.Trace = append(s.Trace, Point{Chosen: choice, Kind: "choose " + what, Thread: s.cur.id, Alternatives: n, Data: true, Key: mixs(s.stateKey(), what)})
	s.cur.pc++
	s.cur.log = mix(s.cur.log, uint64(choice)+100)
	return choice
}

// Active reports whether a controlled execution is in progress.
func Active() bool { return cur != nil }

// Aborted reports whether the current execution is being unwound.
func Aborted() bool { return cur != nil && cur.aborted }

// Blocked returns the description of blocked threads at a deadlock.
func (s *Sched) Blocked() []string { return s.blocked }

// Go replaces the go statement.
func Go(f func()) {
	s := cur
	if s == nil {
		go f() // outside a controlled execution: a plain goroutine
		return
	}
	if s.aborted {
		return
	}
	s.newThread("go", f)
	point("go", "", nil)
}

// Spawn is Go with a name for the trace.
func Spawn(name string, f func()) { GoNamed(name, f) }

// GoNamed spawns a named harness thread.
func GoNamed(name string, f func()) {
	s := cur
	if s == nil {
		go f()
		return
	}
	if s.aborted {
		return
	}
	s.newThread(name, f)
	point("go", name, nil)
}

// Yield is an explicit scheduling point (used inside harness polling loops).
func Yield() { point("yield", "", nil) }

func (s *Sched) newObj(prefix string) string {
	s.objSeq++
	return fmt.Sprintf("%s#%d", prefix, s.objSeq)
}

// after is the scheduling point behind an operation's effect: it lets other threads run
// between a release (Done, Unlock, Close, …) and the unhooked code that follows it.
func after(kind, obj string) {
	if s := cur; s != nil && !s.aborted {
		point("after-"+kind, obj, nil)
	}
}

func b2u(b bool) uint64 {
	if b {
		return 1
	}
	return 0
}

// ---------------------------------------------------------------------------------
// RWMutex with Go's writer preference (a Lock that has begun blocks new RLocks)

type RWMutex struct {
	reg         *Sched
	name        string
	writer      bool // a writer holds the internal writer mutex (from Lock begin to Unlock)
	writerReady bool
	readers     int
}

func (m *RWMutex) id() string {
	if cur != nil && m.reg != cur {
		m.reg = cur
		m.name = cur.newObj("rwmutex")
		cur.objects = append(cur.objects, func(h uint64) uint64 {
			return mix(mix(h, b2u(m.writer)), uint64(m.readers))
		})
	}
	return m.name
}

func (m *RWMutex) noteBlocked(kind string) func() bool {
	return nil
}

func (m *RWMutex) RLock() {
	if Aborted() {
		return
	}
	first := true
	point("RLock", m.id(), func() bool {
		ok := !m.writer
		if !ok && first && cur != nil {
			first = false
			cur.LockBlocked = append(cur.LockBlocked, "RLock "+m.id()+" blocked by a writer")
		}
		return ok
	})
	m.readers++
}

func (m *RWMutex) RUnlock() {
	if Aborted() {
		return
	}
	point("RUnlock", m.id(), nil)
	if m.readers <= 0 {
		panic("vsync: RUnlock of unlocked RWMutex")
	}
	m.readers--
	after("RUnlock", m.name)
}

func (m *RWMutex) Lock() {
	if Aborted() {
		return
	}
	first := true
	point("Lock", m.id(), func() bool {
		ok := !m.writer
		if !ok && first && cur != nil {
			first = false
			cur.LockBlocked = append(cur.LockBlocked, "Lock "+m.id()+" blocked by a writer")
		}
		return ok
	})
	m.writer = true
	first2 := true
	point("LockWait", m.id(), func() bool {
		ok := m.readers == 0
		if !ok && first2 && cur != nil {
			first2 = false
			cur.LockBlocked = append(cur.LockBlocked, "Lock "+m.id()+" waits for readers")
		}
		return ok
	})
}

func (m *RWMutex) Unlock() {
	if Aborted() {
		return
	}
	point("Unlock", m.id(), nil)
	if !m.writer {
		panic("vsync: Unlock of unlocked RWMutex")
	}
	m.writer = false
	after("Unlock", m.name)
}

// Mutex

type Mutex struct {
	reg  *Sched
	name string
	held bool
}

func (m *Mutex) id() string {
	if cur != nil && m.reg != cur {
		m.reg = cur
		if m.name == "" {
			m.name = cur.newObj("mutex")
		}
		cur.objects = append(cur.objects, func(h uint64) uint64 { return mix(h, b2u(m.held)) })
	}
	return m.name
}

func (m *Mutex) Lock() {
	if Aborted() {
		return
	}
	first := true
	point("MLock", m.id(), func() bool {
		ok := !m.held
		if !ok && first && cur != nil {
			first = false
			cur.LockBlocked = append(cur.LockBlocked, "Mutex.Lock "+m.id()+" blocked")
		}
		return ok
	})
	m.held = true
}

func (m *Mutex) Unlock() {
	if Aborted() {
		return
	}
	point("MUnlock", m.id(), nil)
	if !m.held {
		panic("vsync: Unlock of unlocked Mutex")
	}
	m.held = false
	after("MUnlock", m.name)
}

func (m *Mutex) TryLock() bool {
	if Aborted() {
		return true
	}
	point("MTryLock", m.id(), nil)
	if m.held {
		return false
	}
	m.held = true
	return true
}

// WaitGroup

type WaitGroup struct {
	reg  *Sched
	name string
	n    int
}

func (w *WaitGroup) id() string {
	if cur != nil && w.reg != cur {
		w.reg = cur
		w.name = cur.newObj("wg")
		cur.objects = append(cur.objects, func(h uint64) uint64 { return mix(h, uint64(w.n)) })
	}
	return w.name
}

func (w *WaitGroup) Add(d int) {
	if Aborted() {
		return
	}
	point("WgAdd", w.id(), nil)
	w.n += d
	if w.n < 0 {
		panic("sync: negative WaitGroup counter")
	}
	after("WgAdd", w.name)
}

func (w *WaitGroup) Done() { w.Add(-1) }

func (w *WaitGroup) Wait() {
	if Aborted() {
		return
	}
	point("WgWait", w.id(), func() bool { return w.n == 0 })
}

// Once

type Once struct {
	name    string
	done    bool
	running bool
}

func (o *Once) Do(f func()) {
	if Aborted() {
		return
	}
	if o.name == "" && cur != nil {
		o.name = cur.newObj("once")
	}
	point("OnceDo", o.name, func() bool { return !o.running })
	if o.done {
		return
	}
	o.running = true
	defer func() { o.running = false; o.done = true }()
	f()
}

// ---------------------------------------------------------------------------------
// Pipe: model of io.Pipe (GOROOT/src/io/pipe.go) as a monitor. The select statements of
// the original become scheduler choices; the wrCh/rdCh rendezvous is one atomic step.

type pipe struct {
	name       string
	wrMu       Mutex
	offer      []byte // pending write (valid while offerActive)
	offerAct   bool
	offerTaken bool
	nw         int
	done       bool
	rerr, werr error
}

type PipeReader struct{ p *pipe }
type PipeWriter struct{ p *pipe }

// Pipe replaces io.Pipe.
func Pipe() (*PipeReader, *PipeWriter) {
	p := &pipe{}
	if cur != nil {
		p.name = cur.newObj("pipe")
		p.wrMu.name = p.name + ".wrMu"
		cur.objects = append(cur.objects, func(h uint64) uint64 {
			h = mix(h, b2u(p.wrMu.held)|b2u(p.offerAct)<<1|b2u(p.offerTaken)<<2|b2u(p.done)<<3)
			if p.offerAct {
				h = mixs(h, string(p.offer))
			}
			h = mix(h, uint64(p.nw))
			if p.rerr != nil {
				h = mixs(h, p.rerr.Error())
			}
			if p.werr != nil {
				h = mixs(h, p.werr.Error())
			}
			return h
		})
	}
	return &PipeReader{p}, &PipeWriter{p}
}

func (p *pipe) readCloseError() error {
	if p.rerr == nil && p.werr != nil {
		return p.werr
	}
	return io.ErrClosedPipe
}

func (p *pipe) writeCloseError() error {
	if p.werr == nil && p.rerr != nil {
		return p.rerr
	}
	return io.ErrClosedPipe
}

func (p *pipe) read(b []byte) (int, error) {
	if Aborted() {
		return 0, io.ErrClosedPipe
	}
	point("PipeReadEnter", p.name, nil)
	if p.done {
		Observe("r", 0, p.readCloseError())
		return 0, p.readCloseError()
	}
	point("PipeReadWait", p.name, func() bool { return p.offerAct && !p.offerTaken || p.done })
	if Aborted() {
		return 0, io.ErrClosedPipe
	}
	canTake := p.offerAct && !p.offerTaken
	if canTake && p.done {
		if Choose(2, "select in pipe.read") == 1 {
			canTake = false
		}
	}
	if canTake {
		nr := copy(b, p.offer)
		p.nw = nr
		p.offerTaken = true
		Observe("r", nr, b[:nr])
		after("PipeRead", p.name)
		return nr, nil
	}
	Observe("r", 0, p.readCloseError())
	return 0, p.readCloseError()
}

func (p *pipe) write(b []byte) (n int, err error) {
	if Aborted() {
		return 0, io.ErrClosedPipe
	}
	point("PipeWriteEnter", p.name, nil)
	if p.done {
		Observe("w", 0, p.writeCloseError())
		return 0, p.writeCloseError()
	}
	p.wrMu.Lock()
	defer p.wrMu.Unlock()
	for once := true; once || len(b) > 0; once = false {
		p.offer, p.offerAct, p.offerTaken = b, true, false
		point("PipeWriteWait", p.name, func() bool { return p.offerTaken || p.done })
		if Aborted() {
			return n, io.ErrClosedPipe
		}
		if p.offerTaken {
			p.offerAct = false
			b = b[p.nw:]
			n += p.nw
			continue
		}
		p.offerAct = false
		Observe("w", n, p.writeCloseError())
		return n, p.writeCloseError()
	}
	Observe("w", n)
	return n, nil
}

func (p *pipe) closeRead(err error) error {
	if Aborted() {
		return nil
	}
	if err == nil {
		err = io.ErrClosedPipe
	}
	point("PipeCloseRead", p.name, nil)
	if p.rerr == nil {
		p.rerr = err
	}
	p.done = true
	after("PipeCloseRead", p.name)
	return nil
}

func (p *pipe) closeWrite(err error) error {
	if Aborted() {
		return nil
	}
	if err == nil {
		err = io.EOF
	}
	point("PipeCloseWrite", p.name, nil)
	if p.werr == nil {
		p.werr = err
	}
	p.done = true
	after("PipeCloseWrite", p.name)
	return nil
}

func (r *PipeReader) Read(data []byte) (int, error)  { return r.p.read(data) }
func (r *PipeReader) Close() error                   { return r.CloseWithError(nil) }
func (r *PipeReader) CloseWithError(err error) error { return r.p.closeRead(err) }
func (w *PipeWriter) Write(data []byte) (int, error) { return w.p.write(data) }
func (w *PipeWriter) Close() error                   { return w.CloseWithError(nil) }
func (w *PipeWriter) CloseWithError(err error) error { return w.p.closeWrite(err) }

var _ io.ReadCloser = (*PipeReader)(nil)
var _ io.WriteCloser = (*PipeWriter)(nil)
var _ = errors.New

// ---------------------------------------------------------------------------------
// hooks for operations outside this package (file system calls of the command line tool)

// OpPoint is the scheduling point before an externally hooked operation; a no-op outside a
// controlled execution.
func OpPoint(kind, obj string) {
	if s := cur; s != nil && !s.aborted && s.cur != nil {
		point(kind, obj, nil)
	}
}

// AddState makes f part of the global state key of the execution in progress (shared state
// that lives outside the shims, e.g. a digest of a scratch directory).
func AddState(f func(h uint64) uint64) {
	if cur != nil {
		cur.objects = append(cur.objects, f)
	}
}

// MixString folds s into the hash h (for AddState callbacks).
func MixString(h uint64, s string) uint64 { return mixs(h, s) }

// ---------------------------------------------------------------------------------
// Pool stands in for sync.Pool: a deterministic LIFO free list without scheduling points of
// its own (Get and Put of the real pool never block). Unlike the real pool it never drops
// items, so every reuse the code under test makes possible does happen.
type Pool struct {
	New   func() any
	items []any
}

func (p *Pool) Get() any {
	if n := len(p.items); n > 0 {
		x := p.items[n-1]
		p.items = p.items[:n-1]
		return x
	}
	if p.New != nil {
		return p.New()
	}
	return nil
}

func (p *Pool) Put(x any) { p.items = append(p.items, x) }
