package vsync

import (
	"fmt"
	"strings"
)

// Explorer enumerates schedules of a scenario by stateless depth-first search with prefix
// replay, bounded by the number of preemptions (Bound < 0: unbounded).
type Explorer struct {
	Bound       int
	Horizon     int
	MaxExecs    int            // safety cap; when hit, Capped is set and the run is not exhaustive
	NoPrune     bool           // disable state-key pruning (for measuring)
	States      int            // distinct state keys visited
	Pruned      int            // executions cut short because a state had been visited
	Complete    int            // executions run to completion and verified
	Transitions int            // scheduling steps executed beyond the replayed prefix (new edges of the state graph)
	visited     map[uint64]int // state key -> least preemption count it was expanded with
	Executions  int
	Points      int
	Capped      bool
	Outcomes    map[string]int
	Failures    []ExecFailure
	MaxTrace    int
	Deadlocks   int
	firstTrace  []Point
}

// ExecFailure is one violating execution: the schedule (choice list) and what went wrong.
type ExecFailure struct {
	Schedule []int
	What     []string
	Trace    []string
}

// Scenario produces, for each execution, a fresh instance: body is run as thread 0 and
// verify is called after the execution finished (with the scheduler's verdicts) and
// returns violations and an outcome label (for counting distinct outcomes).
type Scenario func() (body func(), verify func(s *Sched) (violations []string, outcome string))

// Explore runs the search.
func (e *Explorer) Explore(sc Scenario) {
	if e.Horizon == 0 {
		e.Horizon = 5000
	}
	if e.Outcomes == nil {
		e.Outcomes = map[string]int{}
	}
	e.explore(sc, nil)
}

// RunOne runs one schedule and returns the execution and its verdict.
func RunOne(sc Scenario, prefix []int, horizon int) (*Sched, []string, string) {
	return runOne(sc, prefix, horizon, nil)
}

func runOne(sc Scenario, prefix []int, horizon int, cutAt func(uint64, int) bool) (*Sched, []string, string) {
	body, verify := sc()
	s := RunCut(prefix, horizon, cutAt, body)
	if s.Cut {
		return s, nil, ""
	}
	var v []string
	if s.Diverged != "" {
		v = append(v, "INTERNAL: "+s.Diverged)
	}
	if s.Panic != "" {
		v = append(v, "panic: "+s.Panic)
	}
	if s.Deadlock {
		v = append(v, "deadlock: "+strings.Join(s.blocked, "; "))
	}
	if s.Livelock {
		v = append(v, fmt.Sprintf("horizon of %d scheduling points exceeded (livelock?)", horizon))
	}
	vv, outcome := verify(s)
	v = append(v, vv...)
	return s, v, outcome
}

func choices(tr []Point) []int {
	c := make([]int, len(tr))
	for i, p := range tr {
		c[i] = p.Chosen
	}
	return c
}

func traceStrings(tr []Point) []string {
	out := make([]string, len(tr))
	for i, p := range tr {
		out[i] = fmt.Sprintf("t%d %s [%d/%d]", p.Thread, p.Kind, p.Chosen, p.Alternatives)
	}
	return out
}

func (e *Explorer) explore(sc Scenario, prefix []int) {
	if e.MaxExecs > 0 && e.Executions >= e.MaxExecs {
		e.Capped = true
		return
	}
	if e.visited == nil {
		e.visited = map[uint64]int{}
	}
	var cut func(uint64, int) bool
	if !e.NoPrune {
		cut = func(key uint64, pre int) bool {
			best, ok := e.visited[key]
			return ok && (e.Bound < 0 || best <= pre)
		}
	}
	s, viol, outcome := runOne(sc, prefix, e.Horizon, cut)
	e.Executions++
	e.Points += len(s.Trace)
	if d := len(s.Trace) - len(prefix) + 1; len(prefix) == 0 {
		e.Transitions += len(s.Trace)
	} else if d > 0 {
		e.Transitions += d
	}
	if s.Cut {
		e.Pruned++
	} else {
		e.Complete++
		e.Outcomes[outcome]++
	}
	if len(s.Trace) > e.MaxTrace {
		e.MaxTrace = len(s.Trace)
	}
	if s.Deadlock {
		e.Deadlocks++
	}
	if e.firstTrace == nil {
		e.firstTrace = s.Trace
	}
	if len(viol) > 0 && len(e.Failures) < 50 {
		e.Failures = append(e.Failures, ExecFailure{Schedule: choices(s.Trace), What: viol, Trace: traceStrings(s.Trace)})
	}
	x := s.Trace
	if e.visited == nil {
		e.visited = map[uint64]int{}
	}
	// preemptions used up to (not including) point i
	pre := 0
	for i := 0; i < len(x); i++ {
		p := x[i]
		if i >= len(prefix) {
			if !e.NoPrune {
				if best, ok := e.visited[p.Key]; ok && (e.Bound < 0 || best <= pre) {
					break // this state was expanded before with at least the same budget
				}
				if _, ok := e.visited[p.Key]; !ok {
					e.States++
				}
				e.visited[p.Key] = pre
			}
			cost := pre
			if !p.Data && p.RunningEnabled {
				cost++
			}
			if e.Bound < 0 || cost <= e.Bound {
				for alt := 1; alt < p.Alternatives; alt++ {
					np := append(append(make([]int, 0, i+1), choices(x[:i])...), alt)
					e.explore(sc, np)
				}
			}
		}
		if !p.Data && p.RunningEnabled && p.Chosen != 0 {
			pre++
		}
	}
}

// FirstTrace returns the default (0-deviation) execution, for the evidence file.
func (e *Explorer) FirstTrace() []string { return traceStrings(e.firstTrace) }
