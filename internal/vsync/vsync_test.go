package vsync

import (
	"fmt"
	"testing"
)

// lost update: two threads do a non-atomic increment split by a Yield; the explorer must
// find both outcomes (2 and 1).
func TestExplorerFindsLostUpdate(t *testing.T) {
	sc := func() (func(), func(*Sched) ([]string, string)) {
		x := 0
		var wg WaitGroup
		body := func() {
			wg.Add(2)
			for i := 0; i < 2; i++ {
				Go(func() {
					v := x
					Yield()
					x = v + 1
					wg.Done()
				})
			}
			wg.Wait()
		}
		return body, func(s *Sched) ([]string, string) { return nil, fmt.Sprint(x) }
	}
	e := &Explorer{Bound: 2}
	e.Explore(sc)
	if e.Outcomes["1"] == 0 || e.Outcomes["2"] == 0 {
		t.Fatalf("outcomes %v after %d executions", e.Outcomes, e.Executions)
	}
	t.Logf("executions=%d outcomes=%v", e.Executions, e.Outcomes)
}

// re-entrant RLock with a writer in between must deadlock in some schedule.
func TestRWMutexWriterPreferenceDeadlock(t *testing.T) {
	sc := func() (func(), func(*Sched) ([]string, string)) {
		var m RWMutex
		var wg WaitGroup
		body := func() {
			wg.Add(2)
			Go(func() { m.RLock(); m.RLock(); m.RUnlock(); m.RUnlock(); wg.Done() })
			Go(func() { m.Lock(); m.Unlock(); wg.Done() })
			wg.Wait()
		}
		return body, func(s *Sched) ([]string, string) { return nil, fmt.Sprint(s.Deadlock) }
	}
	e := &Explorer{Bound: 2}
	e.Explore(sc)
	if e.Outcomes["true"] == 0 || e.Outcomes["false"] == 0 {
		t.Fatalf("outcomes %v", e.Outcomes)
	}
	t.Logf("executions=%d outcomes=%v", e.Executions, e.Outcomes)
}

func TestReplayDeterministic(t *testing.T) {
	sc := func() (func(), func(*Sched) ([]string, string)) {
		pr, pw := Pipe()
		got := ""
		body := func() {
			Go(func() { pw.Write([]byte("abc")); pw.Close() })
			buf := make([]byte, 2)
			for {
				n, err := pr.Read(buf)
				got += string(buf[:n])
				if err != nil {
					break
				}
			}
		}
		return body, func(s *Sched) ([]string, string) { return nil, got }
	}
	e := &Explorer{Bound: -1}
	e.Explore(sc)
	if len(e.Outcomes) != 1 || e.Outcomes["abc"] == 0 {
		t.Fatalf("outcomes %v", e.Outcomes)
	}
	t.Logf("executions=%d", e.Executions)
}
