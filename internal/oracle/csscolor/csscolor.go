// Package csscolor holds the CSS Color Module Level 4 named colours (148 keywords incl.
// the grey/gray spellings and rebeccapurple) and small parsers for colour values.
package csscolor

import (
	"strconv"
	"strings"
)

// Named maps the lower-case keyword to 0xRRGGBB.
var Named = map[string]uint32{
	"aliceblue": 0xf0f8ff, "antiquewhite": 0xfaebd7, "aqua": 0x00ffff, "aquamarine": 0x7fffd4, "azure": 0xf0ffff,
	"beige": 0xf5f5dc, "bisque": 0xffe4c4, "black": 0x000000, "blanchedalmond": 0xffebcd, "blue": 0x0000ff,
	"blueviolet": 0x8a2be2, "brown": 0xa52a2a, "burlywood": 0xdeb887, "cadetblue": 0x5f9ea0, "chartreuse": 0x7fff00,
	"chocolate": 0xd2691e, "coral": 0xff7f50, "cornflowerblue": 0x6495ed, "cornsilk": 0xfff8dc, "crimson": 0xdc143c,
	"cyan": 0x00ffff, "darkblue": 0x00008b, "darkcyan": 0x008b8b, "darkgoldenrod": 0xb8860b, "darkgray": 0xa9a9a9,
	"darkgreen": 0x006400, "darkgrey": 0xa9a9a9, "darkkhaki": 0xbdb76b, "darkmagenta": 0x8b008b, "darkolivegreen": 0x556b2f,
	"darkorange": 0xff8c00, "darkorchid": 0x9932cc, "darkred": 0x8b0000, "darksalmon": 0xe9967a, "darkseagreen": 0x8fbc8f,
	"darkslateblue": 0x483d8b, "darkslategray": 0x2f4f4f, "darkslategrey": 0x2f4f4f, "darkturquoise": 0x00ced1, "darkviolet": 0x9400d3,
	"deeppink": 0xff1493, "deepskyblue": 0x00bfff, "dimgray": 0x696969, "dimgrey": 0x696969, "dodgerblue": 0x1e90ff,
	"firebrick": 0xb22222, "floralwhite": 0xfffaf0, "forestgreen": 0x228b22, "fuchsia": 0xff00ff, "gainsboro": 0xdcdcdc,
	"ghostwhite": 0xf8f8ff, "gold": 0xffd700, "goldenrod": 0xdaa520, "gray": 0x808080, "green": 0x008000,
	"greenyellow": 0xadff2f, "grey": 0x808080, "honeydew": 0xf0fff0, "hotpink": 0xff69b4, "indianred": 0xcd5c5c,
	"indigo": 0x4b0082, "ivory": 0xfffff0, "khaki": 0xf0e68c, "lavender": 0xe6e6fa, "lavenderblush": 0xfff0f5,
	"lawngreen": 0x7cfc00, "lemonchiffon": 0xfffacd, "lightblue": 0xadd8e6, "lightcoral": 0xf08080, "lightcyan": 0xe0ffff,
	"lightgoldenrodyellow": 0xfafad2, "lightgray": 0xd3d3d3, "lightgreen": 0x90ee90, "lightgrey": 0xd3d3d3, "lightpink": 0xffb6c1,
	"lightsalmon": 0xffa07a, "lightseagreen": 0x20b2aa, "lightskyblue": 0x87cefa, "lightslategray": 0x778899, "lightslategrey": 0x778899,
	"lightsteelblue": 0xb0c4de, "lightyellow": 0xffffe0, "lime": 0x00ff00, "limegreen": 0x32cd32, "linen": 0xfaf0e6,
	"magenta": 0xff00ff, "maroon": 0x800000, "mediumaquamarine": 0x66cdaa, "mediumblue": 0x0000cd, "mediumorchid": 0xba55d3,
	"mediumpurple": 0x9370db, "mediumseagreen": 0x3cb371, "mediumslateblue": 0x7b68ee, "mediumspringgreen": 0x00fa9a, "mediumturquoise": 0x48d1cc,
	"mediumvioletred": 0xc71585, "midnightblue": 0x191970, "mintcream": 0xf5fffa, "mistyrose": 0xffe4e1, "moccasin": 0xffe4b5,
	"navajowhite": 0xffdead, "navy": 0x000080, "oldlace": 0xfdf5e6, "olive": 0x808000, "olivedrab": 0x6b8e23,
	"orange": 0xffa500, "orangered": 0xff4500, "orchid": 0xda70d6, "palegoldenrod": 0xeee8aa, "palegreen": 0x98fb98,
	"paleturquoise": 0xafeeee, "palevioletred": 0xdb7093, "papayawhip": 0xffefd5, "peachpuff": 0xffdab9, "peru": 0xcd853f,
	"pink": 0xffc0cb, "plum": 0xdda0dd, "powderblue": 0xb0e0e6, "purple": 0x800080, "rebeccapurple": 0x663399,
	"red": 0xff0000, "rosybrown": 0xbc8f8f, "royalblue": 0x4169e1, "saddlebrown": 0x8b4513, "salmon": 0xfa8072,
	"sandybrown": 0xf4a460, "seagreen": 0x2e8b57, "seashell": 0xfff5ee, "sienna": 0xa0522d, "silver": 0xc0c0c0,
	"skyblue": 0x87ceeb, "slateblue": 0x6a5acd, "slategray": 0x708090, "slategrey": 0x708090, "snow": 0xfffafa,
	"springgreen": 0x00ff7f, "steelblue": 0x4682b4, "tan": 0xd2b48c, "teal": 0x008080, "thistle": 0xd8bfd8,
	"tomato": 0xff6347, "turquoise": 0x40e0d0, "violet": 0xee82ee, "wheat": 0xf5deb3, "white": 0xffffff,
	"whitesmoke": 0xf5f5f5, "yellow": 0xffff00, "yellowgreen": 0x9acd32,
}

// ParseSimple understands keywords and #rgb / #rrggbb (the forms SVG presentation
// attributes are rewritten between). ok=false: not a colour of these forms.
func ParseSimple(s string) (rgb uint32, ok bool) {
	s = strings.TrimSpace(s)
	if v, ok := Named[strings.ToLower(s)]; ok {
		return v, true
	}
	if strings.HasPrefix(s, "#") {
		h := s[1:]
		if len(h) == 3 {
			h = string([]byte{h[0], h[0], h[1], h[1], h[2], h[2]})
		}
		if len(h) == 6 {
			if v, err := strconv.ParseUint(h, 16, 32); err == nil {
				return uint32(v), true
			}
		}
	}
	return 0, false
}
