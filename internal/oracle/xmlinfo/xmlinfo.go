// Package xmlinfo is an independent reader for XML 1.0 documents sufficient to compare
// infosets: a raw tokenizer (tags with raw attribute values, text, CDATA, comments, PIs,
// DOCTYPE), reference expansion, attribute-value normalisation (XML 1.0 §3.3.3) and text
// runs with collapsible/protected characters.
package xmlinfo

import (
	"bytes"
	stdxml "encoding/xml"
	"fmt"
	"io"
	"regexp"
	"strconv"
	"strings"
)

type Kind int

const (
	Text Kind = iota
	CData
	Comment
	PI
	Doctype
	Start
	End
	Empty
)

type Attr struct {
	Name  string
	Raw   string // without quotes
	Quote byte
}

type Item struct {
	Kind  Kind
	Name  string // element name / PI target
	Raw   string // raw text / CDATA content / comment / PI data / whole DOCTYPE
	Attrs []Attr
}

func isWS(c byte) bool { return c == ' ' || c == '\t' || c == '\n' || c == '\r' }

func isNameChar(c byte) bool {
	return c >= 'a' && c <= 'z' || c >= 'A' && c <= 'Z' || c >= '0' && c <= '9' || c == '_' || c == ':' || c == '-' || c == '.' || c >= 0x80
}

// Tokenize splits a document into items; it fails on anything that is not well-formed at
// the lexical level (unterminated constructs, `<` in attribute values, unquoted values,
// `]]>` in text, bare `&`, mismatched tags are checked by Tree).
func Tokenize(s string) ([]Item, error) {
	var items []Item
	i := 0
	for i < len(s) {
		if s[i] != '<' {
			j := strings.IndexByte(s[i:], '<')
			if j < 0 {
				j = len(s) - i
			}
			txt := s[i : i+j]
			if strings.Contains(txt, "]]>") {
				return nil, fmt.Errorf("']]>' in character data at %d", i)
			}
			if err := checkRefs(txt); err != nil {
				return nil, err
			}
			items = append(items, Item{Kind: Text, Raw: txt})
			i += j
			continue
		}
		switch {
		case strings.HasPrefix(s[i:], "<!--"):
			j := strings.Index(s[i+4:], "-->")
			if j < 0 {
				return nil, fmt.Errorf("unterminated comment")
			}
			items = append(items, Item{Kind: Comment, Raw: s[i+4 : i+4+j]})
			i += 4 + j + 3
		case strings.HasPrefix(s[i:], "<![CDATA["):
			j := strings.Index(s[i+9:], "]]>")
			if j < 0 {
				return nil, fmt.Errorf("unterminated CDATA")
			}
			items = append(items, Item{Kind: CData, Raw: s[i+9 : i+9+j]})
			i += 9 + j + 3
		case strings.HasPrefix(s[i:], "<?"):
			j := strings.Index(s[i+2:], "?>")
			if j < 0 {
				return nil, fmt.Errorf("unterminated PI")
			}
			body := s[i+2 : i+2+j]
			k := 0
			for k < len(body) && isNameChar(body[k]) {
				k++
			}
			items = append(items, Item{Kind: PI, Name: body[:k], Raw: body[k:]})
			i += 2 + j + 2
		case strings.HasPrefix(s[i:], "<!"):
			// DOCTYPE with optional internal subset: only `<!DOCTYPE`, only before the root element
			if !strings.HasPrefix(s[i:], "<!DOCTYPE") {
				return nil, fmt.Errorf("markup declaration that is neither a comment, a CDATA section nor a DOCTYPE at %d", i)
			}
			for _, it := range items {
				if it.Kind == Start || it.Kind == Empty || it.Kind == Doctype {
					return nil, fmt.Errorf("DOCTYPE after the root element started (or a second one) at %d", i)
				}
			}
			j := i + 2
			depth := 0
			for j < len(s) {
				if s[j] == '[' {
					depth++
				} else if s[j] == ']' {
					depth--
				} else if s[j] == '>' && depth == 0 {
					break
				} else if s[j] == '"' || s[j] == '\'' {
					q := s[j]
					j++
					for j < len(s) && s[j] != q {
						j++
					}
				}
				j++
			}
			if j >= len(s) {
				return nil, fmt.Errorf("unterminated declaration")
			}
			items = append(items, Item{Kind: Doctype, Raw: s[i : j+1]})
			i = j + 1
		case strings.HasPrefix(s[i:], "</"):
			j := i + 2
			for j < len(s) && isNameChar(s[j]) {
				j++
			}
			name := s[i+2 : j]
			for j < len(s) && isWS(s[j]) {
				j++
			}
			if j >= len(s) || s[j] != '>' || name == "" {
				return nil, fmt.Errorf("malformed end tag at %d", i)
			}
			items = append(items, Item{Kind: End, Name: name})
			i = j + 1
		default:
			j := i + 1
			for j < len(s) && isNameChar(s[j]) {
				j++
			}
			it := Item{Kind: Start, Name: s[i+1 : j]}
			if it.Name == "" {
				return nil, fmt.Errorf("malformed start tag at %d", i)
			}
			for {
				k := j
				for j < len(s) && isWS(s[j]) {
					j++
				}
				if j >= len(s) {
					return nil, fmt.Errorf("unterminated tag")
				}
				if s[j] == '>' {
					j++
					break
				}
				if s[j] == '/' && j+1 < len(s) && s[j+1] == '>' {
					it.Kind = Empty
					j += 2
					break
				}
				if k == j {
					return nil, fmt.Errorf("missing whitespace before attribute at %d", j)
				}
				a := j
				for j < len(s) && isNameChar(s[j]) {
					j++
				}
				an := s[a:j]
				for j < len(s) && isWS(s[j]) {
					j++
				}
				if an == "" || j >= len(s) || s[j] != '=' {
					return nil, fmt.Errorf("malformed attribute at %d", a)
				}
				j++
				for j < len(s) && isWS(s[j]) {
					j++
				}
				if j >= len(s) || (s[j] != '"' && s[j] != '\'') {
					return nil, fmt.Errorf("unquoted attribute value at %d", j)
				}
				q := s[j]
				e := strings.IndexByte(s[j+1:], q)
				if e < 0 {
					return nil, fmt.Errorf("unterminated attribute value")
				}
				raw := s[j+1 : j+1+e]
				if strings.Contains(raw, "<") {
					return nil, fmt.Errorf("'<' in attribute value")
				}
				if err := checkRefs(raw); err != nil {
					return nil, err
				}
				for _, prev := range it.Attrs {
					if prev.Name == an {
						return nil, fmt.Errorf("duplicate attribute %s", an)
					}
				}
				it.Attrs = append(it.Attrs, Attr{an, raw, q})
				j += 1 + e + 1
			}
			items = append(items, it)
			i = j
		}
	}
	return items, nil
}

func checkRefs(s string) error {
	for i := 0; i < len(s); i++ {
		if s[i] == '&' {
			j := strings.IndexByte(s[i:], ';')
			if j < 2 {
				return fmt.Errorf("bare '&'")
			}
			ref := s[i+1 : i+j]
			if ref[0] == '#' {
				if _, ok := charRef(ref); !ok {
					return fmt.Errorf("bad character reference &%s;", ref)
				}
			} else {
				for k := 0; k < len(ref); k++ {
					if !isNameChar(ref[k]) {
						return fmt.Errorf("bare '&'")
					}
				}
			}
			i += j
		}
	}
	return nil
}

func charRef(ref string) (rune, bool) {
	var n uint64
	var err error
	if strings.HasPrefix(ref, "#x") {
		n, err = strconv.ParseUint(ref[2:], 16, 32)
	} else {
		n, err = strconv.ParseUint(ref[1:], 10, 32)
	}
	if err != nil || n == 0 || n > 0x10FFFF {
		return 0, false
	}
	return rune(n), true
}

var predefined = map[string]rune{"lt": '<', "gt": '>', "amp": '&', "apos": '\'', "quot": '"'}

// Char is one character of decoded content. Opaque != "" stands for an unexpanded general
// entity reference (&name;). FromRef marks characters that came from a character reference.
type Char struct {
	R       rune
	Opaque  string
	FromRef bool
}

// Decode expands character references and predefined entities.
func Decode(s string) []Char {
	var out []Char
	for i := 0; i < len(s); {
		if s[i] == '&' {
			j := strings.IndexByte(s[i:], ';')
			ref := s[i+1 : i+j]
			if ref[0] == '#' {
				r, _ := charRef(ref)
				out = append(out, Char{R: r, FromRef: true})
			} else if r, ok := predefined[ref]; ok {
				out = append(out, Char{R: r, FromRef: true})
			} else {
				out = append(out, Char{Opaque: ref})
			}
			i += j + 1
			continue
		}
		r, n := rune(s[i]), 1
		if s[i] >= 0x80 {
			rr := []rune(s[i:min(len(s), i+4)])
			r, n = rr[0], len(string(rr[0]))
		}
		out = append(out, Char{R: r})
		i += n
	}
	return out
}

// NormalizeAttr applies attribute-value normalisation (CDATA type): literal white space
// becomes a space, characters from character references are kept as they are.
func NormalizeAttr(raw string) string {
	var b strings.Builder
	for _, c := range Decode(raw) {
		switch {
		case c.Opaque != "":
			b.WriteString("&" + c.Opaque + ";")
		case !c.FromRef && (c.R == ' ' || c.R == '\t' || c.R == '\n' || c.R == '\r'):
			b.WriteByte(' ')
		default:
			b.WriteRune(c.R)
		}
	}
	return b.String()
}

// RunChar is one character of a text run; Collapsible marks white space that came from
// character data (it may be collapsed or, next to a tag, trimmed); CDATA content and
// everything else is protected.
type RunChar struct {
	R           rune
	Opaque      string
	Collapsible bool
}

// Event is one node of the flattened document: markup (Desc non-empty) or a text run.
type Event struct {
	Desc  string
	Run   []RunChar
	CData []string // contents of CDATA sections left as CDATA inside this run (for reporting)
}

// Events flattens items into markup events and the text runs between them. Comments are
// dropped (so the character data on both sides of a comment forms one run).
func Events(items []Item) ([]Event, error) {
	evs, _, err := EventsPI(items)
	return evs, err
}

// EventsPI is Events plus the exact data of every processing instruction in document order.
func EventsPI(items []Item) ([]Event, []string, error) {
	var pis []string
	var evs []Event
	var run []RunChar
	var stack []string
	flush := func() {
		evs = append(evs, Event{Run: run})
		run = nil
	}
	for _, it := range items {
		switch it.Kind {
		case Comment:
		case Text:
			for _, c := range Decode(it.Raw) {
				ws := c.Opaque == "" && (c.R == ' ' || c.R == '\t' || c.R == '\n' || c.R == '\r')
				run = append(run, RunChar{c.R, c.Opaque, ws})
			}
		case CData:
			for _, r := range it.Raw {
				run = append(run, RunChar{R: r})
			}
		case PI:
			// a processing instruction is transparent for white space (like a comment) but is
			// itself kept: it becomes a protected item of the run
			d := "PI " + it.Name + " " + strings.TrimLeft(it.Raw, " \t\r\n")
			if it.Name == "xml" {
				d = "PI xml " + strings.Join(strings.Fields(it.Raw), " ") // XML declaration: pseudo-attributes only
			}
			// the run carries the PI with white space normalised; the exact data is compared separately
			run = append(run, RunChar{Opaque: "?PI " + it.Name + " " + strings.Join(strings.Fields(it.Raw), " "), R: rune(len(pis))})
			pis = append(pis, d)
		default:
			flush()
			var d string
			switch it.Kind {
			case Doctype:
				d = "DOCTYPE " + it.Raw
			case Start, Empty:
				var as []string
				for _, a := range it.Attrs {
					as = append(as, a.Name+"="+strconv.Quote(NormalizeAttr(a.Raw)))
				}
				d = "START " + it.Name + " " + strings.Join(as, " ")
				if it.Kind == Start {
					stack = append(stack, it.Name)
				}
			case End:
				if len(stack) == 0 || stack[len(stack)-1] != it.Name {
					return nil, nil, fmt.Errorf("mismatched end tag </%s>", it.Name)
				}
				stack = stack[:len(stack)-1]
				d = "END " + it.Name
			}
			evs = append(evs, Event{Desc: d})
			if it.Kind == Empty {
				evs = append(evs, Event{Run: nil}, Event{Desc: "END " + it.Name})
			}
		}
	}
	flush()
	if len(stack) != 0 {
		return nil, nil, fmt.Errorf("unclosed element %s", stack[len(stack)-1])
	}
	return evs, pis, nil
}

// MatchRun reports whether the output run is the input run up to collapsing of collapsible
// white-space runs (to at least one white-space character between protected characters;
// to nothing at the ends of the run unless keepWS, where at least one must stay).
func MatchRun(in, out []RunChar, keepWS bool) bool {
	// tokens of the input: protected characters, and groups = maximal stretches of collapsible
	// white space and processing instructions (a PI does not interrupt a white-space run)
	type tok struct {
		c     RunChar
		group bool
		pis   []string
		ws    bool
	}
	var toks []tok
	for _, c := range in {
		isPI := strings.HasPrefix(c.Opaque, "?")
		if c.Collapsible || isPI {
			if len(toks) == 0 || !toks[len(toks)-1].group {
				toks = append(toks, tok{group: true})
			}
			g := &toks[len(toks)-1]
			if isPI {
				g.pis = append(g.pis, c.Opaque)
			} else {
				g.ws = true
			}
		} else {
			toks = append(toks, tok{c: c})
		}
	}
	isws := func(c RunChar) bool {
		return c.Opaque == "" && (c.R == ' ' || c.R == '\t' || c.R == '\n' || c.R == '\r')
	}
	memo := map[[2]int]bool{}
	var rec func(i, j int) bool
	rec = func(i, j int) bool {
		if i == len(toks) {
			return j == len(out)
		}
		k := [2]int{i, j}
		if v, ok := memo[k]; ok {
			return v
		}
		res := false
		if !toks[i].group {
			res = j < len(out) && out[j].R == toks[i].c.R && out[j].Opaque == toks[i].c.Opaque && rec(i+1, j+1)
		} else {
			g := toks[i]
			edge := i == 0 || i == len(toks)-1
			min, max := 1, 1<<30
			if edge && !keepWS {
				min = 0
			}
			// next to protected white space (CDATA content) the run may vanish: the words stay apart
			if i > 0 && isws(toks[i-1].c) || i+1 < len(toks) && isws(toks[i+1].c) {
				min = 0
			}
			if !g.ws {
				min, max = 0, 0 // no white space in the input here: none may appear (words are not split)
			}
			// consume: ws* PI1 ws* PI2 … ws*, counting white space
			var walk func(p, j, n int) bool
			walk = func(p, j, n int) bool {
				if p == len(g.pis) && n >= min && rec(i+1, j) {
					return true
				}
				if j < len(out) && isws(out[j]) && n < max && walk(p, j+1, n+1) {
					return true
				}
				if p < len(g.pis) && j < len(out) && out[j].Opaque == g.pis[p] && walk(p+1, j+1, n) {
					return true
				}
				return false
			}
			res = walk(0, j, 0)
		}
		memo[k] = res
		return res
	}
	return rec(0, 0)
}

// RunString renders a run for messages.
func RunString(r []RunChar) string {
	var b strings.Builder
	for _, c := range r {
		if strings.HasPrefix(c.Opaque, "?") {
			b.WriteString("<" + c.Opaque + "?>")
		} else if c.Opaque != "" {
			b.WriteString("&" + c.Opaque + ";")
		} else {
			b.WriteRune(c.R)
		}
	}
	return strconv.Quote(b.String())
}

// WellFormed runs encoding/xml in strict mode over the text (with the given general
// entities declared) and the own tokenizer.
func WellFormed(s string, entities map[string]string) error {
	d := stdxml.NewDecoder(bytes.NewReader([]byte(s)))
	d.Strict = true
	d.Entity = entities
	d.CharsetReader = func(_ string, r io.Reader) (io.Reader, error) { return r, nil }
	for {
		_, err := d.Token()
		if err == io.EOF {
			break
		}
		if err != nil {
			return fmt.Errorf("encoding/xml: %v", err)
		}
	}
	items, err := Tokenize(s)
	if err != nil {
		return err
	}
	_, err = Events(items)
	return err
}

// Compare checks that out has the same infoset as in up to insignificant white space.
func Compare(in, out string, keepWS bool, entities map[string]string) (kind, what string) {
	if err := WellFormed(out, entities); err != nil {
		return "not-well-formed", fmt.Sprintf("output is not well-formed: %v", err)
	}
	ii, err := Tokenize(in)
	if err != nil {
		return "input-rejected-by-oracle", err.Error()
	}
	oi, _ := Tokenize(out)
	ie, err := Events(ii)
	if err != nil {
		return "input-rejected-by-oracle", err.Error()
	}
	oe, opis, _ := EventsPI(oi)
	_, ipis, _ := EventsPI(ii)
	defer func() {
		if kind == "" && strings.Join(ipis, "\x00") != strings.Join(opis, "\x00") {
			kind, what = "pi-data-whitespace", fmt.Sprintf("processing instruction data changed: input %q, output %q", ipis, opis)
		}
	}()
	// comments are the only nodes removed: nothing else to check for them
	if len(ie) != len(oe) {
		return "structure", fmt.Sprintf("input has %d markup/run events, output %d", len(ie), len(oe))
	}
	depth := 0
	for k := range ie {
		a, b := ie[k], oe[k]
		if strings.HasPrefix(a.Desc, "START") {
			depth++
		} else if strings.HasPrefix(a.Desc, "END") {
			depth--
		}
		if (a.Desc == "") != (b.Desc == "") {
			return "structure", fmt.Sprintf("event %d: %q vs %q", k, a.Desc, b.Desc)
		}
		if a.Desc != "" {
			if a.Desc != b.Desc {
				kind := "markup"
				if strings.HasPrefix(a.Desc, "START") && strings.HasPrefix(b.Desc, "START") {
					kind = "attribute-value"
				}
				return kind, fmt.Sprintf("markup differs: input %s, output %s", a.Desc, b.Desc)
			}
			continue
		}
		// white space in the prolog and after the root element is never significant
		if !MatchRun(a.Run, b.Run, keepWS && depth > 0) {
			kind := "text-run"
			if keepWS {
				kind = "text-run-keepws"
			}
			return kind, fmt.Sprintf("text run differs: input %s, output %s", RunString(a.Run), RunString(b.Run))
		}
	}
	return "", ""
}

var entityDecl = regexp.MustCompile(`<!ENTITY\s+([^\s%]+)\s`)
var namedRef = regexp.MustCompile(`&([^#;&\s][^;&\s]*);`)

// UndeclaredEntity returns the first reference to a general entity that is neither predefined
// nor declared in the internal subset. A document whose DOCTYPE names an external subset may
// declare entities there, so nothing is reported for it.
func UndeclaredEntity(s string) string {
	declared := map[string]bool{"lt": true, "gt": true, "amp": true, "apos": true, "quot": true}
	items, err := Tokenize(s)
	if err != nil {
		return ""
	}
	for _, it := range items {
		if it.Kind == Doctype {
			head := it.Raw
			if k := strings.IndexByte(head, '['); k >= 0 {
				head = head[:k]
			}
			if strings.Contains(head, "SYSTEM") || strings.Contains(head, "PUBLIC") {
				return ""
			}
			for _, m := range entityDecl.FindAllStringSubmatch(it.Raw, -1) {
				declared[m[1]] = true
			}
		}
	}
	check := func(raw string) string {
		for _, m := range namedRef.FindAllStringSubmatch(raw, -1) {
			if !declared[m[1]] {
				return m[1]
			}
		}
		return ""
	}
	for _, it := range items {
		switch it.Kind {
		case Text:
			if n := check(it.Raw); n != "" {
				return n
			}
		case Start, Empty:
			for _, a := range it.Attrs {
				if n := check(a.Raw); n != "" {
					return n
				}
			}
		}
	}
	return ""
}

var numCharRef = regexp.MustCompile(`&#(x[0-9a-fA-F]+|[0-9]+);`)

// IllegalCharRef returns the first numeric character reference that does not denote a legal
// XML character (production Char: no U+0000, no other C0 controls, no surrogates, ...).
func IllegalCharRef(s string) string {
	for _, m := range numCharRef.FindAllStringSubmatch(s, -1) {
		var v uint64
		var err error
		if m[1][0] == 'x' {
			v, err = strconv.ParseUint(m[1][1:], 16, 32)
		} else {
			v, err = strconv.ParseUint(m[1], 10, 32)
		}
		ok := err == nil && (v == 0x9 || v == 0xA || v == 0xD || v >= 0x20 && v <= 0xD7FF || v >= 0xE000 && v <= 0xFFFD || v >= 0x10000 && v <= 0x10FFFF)
		if !ok {
			return m[0]
		}
	}
	return ""
}
