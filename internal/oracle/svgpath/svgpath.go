// Package svgpath is an independent, strict parser and interpreter of SVG path data
// (SVG 1.1 §8.3 grammar; arc flags are single characters). It turns path data into the
// sequence of absolute segments it denotes.
package svgpath

import (
	"fmt"
	"math"
	"strconv"
	"strings"
)

// Seg is one absolute segment: M, L, C, Q, A or Z. Unused coordinates are 0.
type Seg struct {
	Cmd            byte
	X1, Y1, X2, Y2 float64 // control points (C: both, Q: first); A: X1,Y1 = radii, X2 = rotation
	Large, Sweep   bool
	X, Y           float64
}

func (s Seg) String() string {
	switch s.Cmd {
	case 'Z':
		return "Z"
	case 'M', 'L':
		return fmt.Sprintf("%c %g,%g", s.Cmd, s.X, s.Y)
	case 'C':
		return fmt.Sprintf("C %g,%g %g,%g %g,%g", s.X1, s.Y1, s.X2, s.Y2, s.X, s.Y)
	case 'Q':
		return fmt.Sprintf("Q %g,%g %g,%g", s.X1, s.Y1, s.X, s.Y)
	case 'A':
		return fmt.Sprintf("A %g,%g %g %v %v %g,%g", s.X1, s.Y1, s.X2, s.Large, s.Sweep, s.X, s.Y)
	}
	return "?"
}

type parser struct {
	s string
	i int
}

func (p *parser) ws() {
	for p.i < len(p.s) && strings.IndexByte(" \t\r\n\f", p.s[p.i]) >= 0 {
		p.i++
	}
}

func (p *parser) commaWs() {
	p.ws()
	if p.i < len(p.s) && p.s[p.i] == ',' {
		p.i++
		p.ws()
	}
}

func isDigit(c byte) bool { return c >= '0' && c <= '9' }

// number parses one number at the current position (no leading separators).
func (p *parser) number() (float64, bool) {
	st := p.i
	i := p.i
	if i < len(p.s) && (p.s[i] == '+' || p.s[i] == '-') {
		i++
	}
	d := 0
	for i < len(p.s) && isDigit(p.s[i]) {
		i++
		d++
	}
	if i < len(p.s) && p.s[i] == '.' {
		i++
		for i < len(p.s) && isDigit(p.s[i]) {
			i++
			d++
		}
	}
	if d == 0 {
		return 0, false
	}
	if i < len(p.s) && (p.s[i] == 'e' || p.s[i] == 'E') {
		j := i + 1
		if j < len(p.s) && (p.s[j] == '+' || p.s[j] == '-') {
			j++
		}
		if j < len(p.s) && isDigit(p.s[j]) {
			for j < len(p.s) && isDigit(p.s[j]) {
				j++
			}
			i = j
		}
	}
	f, err := strconv.ParseFloat(p.s[st:i], 64)
	if err != nil && !math.IsInf(f, 0) {
		return 0, false
	}
	p.i = i
	return f, true
}

func (p *parser) flag() (bool, bool) {
	if p.i < len(p.s) && (p.s[p.i] == '0' || p.s[p.i] == '1') {
		p.i++
		return p.s[p.i-1] == '1', true
	}
	return false, false
}

// Parse interprets path data strictly; ok=false with the error position for invalid data.
func Parse(d string) (segs []Seg, err error) {
	p := &parser{s: d}
	var x, y, x0, y0 float64
	var lcx, lcy, lqx, lqy float64
	prev := byte(0) // previous command class: 'C' after C/S, 'Q' after Q/T, else 0
	p.ws()
	first := true
	open := false // a subpath is open (after M or a drawing command following Z)
	for p.i < len(p.s) {
		cmd := p.s[p.i]
		if strings.IndexByte("MmZzLlHhVvCcSsQqTtAa", cmd) < 0 {
			return segs, fmt.Errorf("unexpected %q at %d", cmd, p.i)
		}
		if first && cmd != 'M' && cmd != 'm' {
			return segs, fmt.Errorf("path data must begin with a moveto")
		}
		p.i++
		rel := cmd >= 'a'
		up := cmd &^ 0x20
		if up == 'Z' {
			segs = append(segs, Seg{Cmd: 'Z'})
			x, y = x0, y0
			prev = 0
			open = false
			p.ws()
			first = false
			continue
		}
		p.ws()
		nsets := 0
		for {
			// one argument set
			start := p.i
			num := func() (float64, bool) {
				f, ok := p.number()
				if ok {
					p.commaWs()
				}
				return f, ok
			}
			var a [7]float64
			var fl [2]bool
			need := map[byte]int{'M': 2, 'L': 2, 'H': 1, 'V': 1, 'C': 6, 'S': 4, 'Q': 4, 'T': 2, 'A': 7}[up]
			okAll := true
			for k := 0; k < need; k++ {
				if up == 'A' && (k == 3 || k == 4) {
					f, ok := p.flag()
					if !ok {
						okAll = false
						break
					}
					fl[k-3] = f
					p.commaWs()
					continue
				}
				f, ok := num()
				if !ok {
					okAll = false
					break
				}
				a[k] = f
			}
			if !okAll {
				if p.i == start && nsets > 0 {
					break // no further argument set: next command
				}
				return segs, fmt.Errorf("bad arguments for %c at %d", cmd, p.i)
			}
			nsets++
			ox, oy := 0.0, 0.0
			if rel {
				ox, oy = x, y
			}
			if !open && up != 'M' {
				// drawing after closepath: new subpath starts at the current point
				x0, y0 = x, y
				open = true
			}
			switch up {
			case 'M':
				c := byte('M')
				if nsets > 1 {
					c = 'L'
				}
				x, y = a[0]+ox, a[1]+oy
				if c == 'M' {
					x0, y0 = x, y
					open = true
				}
				segs = append(segs, Seg{Cmd: c, X: x, Y: y})
				prev = 0
			case 'L':
				x, y = a[0]+ox, a[1]+oy
				segs = append(segs, Seg{Cmd: 'L', X: x, Y: y})
				prev = 0
			case 'H':
				x = a[0] + ox
				segs = append(segs, Seg{Cmd: 'L', X: x, Y: y})
				prev = 0
			case 'V':
				y = a[0] + oy
				segs = append(segs, Seg{Cmd: 'L', X: x, Y: y})
				prev = 0
			case 'C':
				s := Seg{Cmd: 'C', X1: a[0] + ox, Y1: a[1] + oy, X2: a[2] + ox, Y2: a[3] + oy, X: a[4] + ox, Y: a[5] + oy}
				segs = append(segs, s)
				lcx, lcy, x, y, prev = s.X2, s.Y2, s.X, s.Y, 'C'
			case 'S':
				c1x, c1y := x, y
				if prev == 'C' {
					c1x, c1y = 2*x-lcx, 2*y-lcy
				}
				s := Seg{Cmd: 'C', X1: c1x, Y1: c1y, X2: a[0] + ox, Y2: a[1] + oy, X: a[2] + ox, Y: a[3] + oy}
				segs = append(segs, s)
				lcx, lcy, x, y, prev = s.X2, s.Y2, s.X, s.Y, 'C'
			case 'Q':
				s := Seg{Cmd: 'Q', X1: a[0] + ox, Y1: a[1] + oy, X: a[2] + ox, Y: a[3] + oy}
				segs = append(segs, s)
				lqx, lqy, x, y, prev = s.X1, s.Y1, s.X, s.Y, 'Q'
			case 'T':
				c1x, c1y := x, y
				if prev == 'Q' {
					c1x, c1y = 2*x-lqx, 2*y-lqy
				}
				s := Seg{Cmd: 'Q', X1: c1x, Y1: c1y, X: a[0] + ox, Y: a[1] + oy}
				segs = append(segs, s)
				lqx, lqy, x, y, prev = s.X1, s.Y1, s.X, s.Y, 'Q'
			case 'A':
				if a[0] < 0 || a[1] < 0 {
					// negative radii: the absolute value is used (SVG implementation notes)
					a[0], a[1] = math.Abs(a[0]), math.Abs(a[1])
				}
				s := Seg{Cmd: 'A', X1: a[0], Y1: a[1], X2: a[2], Large: fl[0], Sweep: fl[1], X: a[5] + ox, Y: a[6] + oy}
				segs = append(segs, s)
				x, y, prev = s.X, s.Y, 0
			}
			if p.i >= len(p.s) {
				break
			}
			c := p.s[p.i]
			if !(isDigit(c) || c == '.' || c == '-' || c == '+') {
				break
			}
		}
		first = false
		p.ws()
	}
	return segs, nil
}

func near(a, b, scale float64) bool {
	return math.Abs(a-b) <= 1e-9*scale || a == b
}

// Normalize drops zero-length lines and turns exactly degenerate curves (every control
// point on one of the end points) into lines; these are the only simplifications allowed.
func Normalize(in []Seg) []Seg {
	var out []Seg
	var x, y, x0, y0 float64
	// "on the same point" within the tolerance of Equal: coordinates computed by adding relative
	// offsets differ from the written ones by a rounding error (1e6 + 1.5 - 1.5 + 1e-6 ...)
	scale := 1.0
	for _, s := range in {
		for _, v := range []float64{s.X, s.Y, s.X1, s.Y1, s.X2, s.Y2} {
			if math.Abs(v) > scale && !math.IsInf(v, 0) && !math.IsNaN(v) {
				scale = math.Abs(v)
			}
		}
	}
	eps := 1e-9 * scale
	same := func(ax, ay, bx, by float64) bool {
		return ax == bx && ay == by || math.Abs(ax-bx) <= eps && math.Abs(ay-by) <= eps
	}
	for _, s := range in {
		switch s.Cmd {
		case 'M':
			x, y, x0, y0 = s.X, s.Y, s.X, s.Y
			out = append(out, s)
			continue
		case 'Z':
			x, y = x0, y0
			if len(out) > 0 && out[len(out)-1].Cmd == 'Z' {
				continue // closing an empty subpath again: a zero-length line
			}
			out = append(out, s)
			continue
		case 'C':
			on := func(px, py float64) bool { return same(px, py, x, y) || same(px, py, s.X, s.Y) }
			if on(s.X1, s.Y1) && on(s.X2, s.Y2) {
				s = Seg{Cmd: 'L', X: s.X, Y: s.Y}
			}
		case 'Q':
			if same(s.X1, s.Y1, x, y) || same(s.X1, s.Y1, s.X, s.Y) {
				s = Seg{Cmd: 'L', X: s.X, Y: s.Y}
			}
		}
		if s.Cmd == 'L' && same(s.X, s.Y, x, y) {
			continue
		}
		out = append(out, s)
		x, y = s.X, s.Y
	}
	return out
}

// Equal compares two normalised segment lists within 1e-9 relative to the coordinate scale.
func Equal(a, b []Seg) (bool, string) {
	scale := 1.0
	for _, l := range [][]Seg{a, b} {
		for _, s := range l {
			for _, v := range []float64{s.X, s.Y, s.X1, s.Y1, s.X2, s.Y2} {
				if m := math.Abs(v); m > scale && !math.IsInf(m, 0) {
					scale = m
				}
			}
		}
	}
	if len(a) != len(b) {
		return false, fmt.Sprintf("%d segments vs %d", len(a), len(b))
	}
	for i := range a {
		s, t := a[i], b[i]
		if s.Cmd != t.Cmd || s.Large != t.Large || s.Sweep != t.Sweep ||
			!near(s.X, t.X, scale) || !near(s.Y, t.Y, scale) || !near(s.X1, t.X1, scale) || !near(s.Y1, t.Y1, scale) || !near(s.X2, t.X2, scale) || !near(s.Y2, t.Y2, scale) {
			return false, fmt.Sprintf("segment %d: %s vs %s", i, s, t)
		}
	}
	return true, ""
}

// Describe renders a segment list.
func Describe(l []Seg) string {
	s := make([]string, len(l))
	for i, x := range l {
		s[i] = x.String()
	}
	return strings.Join(s, " ")
}
