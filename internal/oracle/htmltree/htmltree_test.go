package htmltree

import "testing"

func TestCompare(t *testing.T) {
	body := Options{Context: "body"}
	doc := Options{}
	cases := []struct {
		in, out string
		opt     Options
		kind    string // "" = equivalent
	}{
		// element structure
		{"<p>a</p><p>b</p>", "<p>a<p>b", body, ""},
		{"<ul><li>a</li><li>b</li></ul>", "<ul><li>a<li>b</ul>", body, ""},
		{"<ul><li>a</li><script>x</script></ul>", "<ul><li>a<script>x</script></ul>", body, "structure"},
		{"<!doctype html><html><head><title>t</title></head><body><p>a</p></body></html>", "<!doctype html><title>t</title><p>a", doc, ""},
		{"<!doctype html><title>t</title><body><script>x</script>a", "<!doctype html><title>t</title><script>x</script>a", doc, "structure"},
		{"<table><tr><td>a</td></tr></table>", "<table><tr><td>a</table>", body, ""},
		{"a<script></script>b", "ab", body, "structure"},
		// rendered text
		{"<p>a b</p>", "<p>ab</p>", body, "space-removed"},
		{"<p>ab</p>", "<p>a b</p>", body, "space-added"},
		{"<p> a  b </p> <p>c</p>", "<p>a b<p>c", body, ""},
		{"<p>a\n\tb</p>", "<p>a\nb", body, ""},
		{"a <b>b</b>", "a<b> b</b>", body, "space-removed"},
		{"a <b> b</b>", "a <b>b</b>", body, ""},
		{"<div>a <b> </b></div>", "<div>a<b></b></div>", body, ""},
		{"a <script>x</script> b", "a <script>x</script>b", body, ""},
		{"a <script>x</script> b", "a<script>x</script>b", body, "space-removed"},
		{"a <img src=i> b", "a<img src=i> b", body, "space-removed"},
		{"a <br> b", "a<br>b", body, ""},
		{"<button> a </button>", "<button>a</button>", body, ""},
		{"a <button>b</button>", "a<button>b</button>", body, "space-removed"},
		{"<q>a </q><p>b", "<q>a</q><p>b", body, "space-removed"},
		{"a&amp;b &lt; c", "a&amp;b &lt; c", body, ""},
		{"a&nbsp; b", "a  b", body, ""},
		{"a&nbsp; b", "a b", body, "word-changed"},
		{"ab", "a b", body, "space-added"},
		{"<p>a<!--c-->b", "<p>ab", body, ""},
		// raw text
		{"<pre> a  b </pre>", "<pre> a  b </pre>", body, ""},
		{"<pre> a  b </pre>", "<pre>a b</pre>", body, "raw-changed"},
		{"<pre>\n\na</pre>", "<pre>\na</pre>", body, "raw-changed"},
		{"<textarea> a </textarea>", "<textarea>a</textarea>", body, "raw-changed"},
		{"<script> a  b </script>", "<script>a b</script>", body, "raw-changed"},
		{"<script>a</script>", "<script>a</scr</script>", body, "raw-changed"},
		{"<!doctype html><title> a  b </title>", "<!doctype html><title>a b</title>", doc, ""},
		{"<!doctype html><title>a b</title>", "<!doctype html><title>ab</title>", doc, "raw-changed"},
		// noscript is compared in both scripting modes
		{"a <noscript>b</noscript> c", "a<noscript>b</noscript>c", body, "space-removed"},
		{"<noscript><p>a</p></noscript>", "<noscript><p>a</noscript>", body, ""},
		// attributes
		{`<div title=" a  b ">x</div>`, `<div title="a b">x</div>`, body, "attr-changed:title"},
		{`<div class=" a  b ">x</div>`, `<div class="a b">x</div>`, body, ""},
		{`<div class="a b">x</div>`, `<div class="b a">x</div>`, body, "attr-changed:class"},
		{`<div class="">x</div>`, `<div>x</div>`, body, ""},
		{`<div title="">x</div>`, `<div>x</div>`, body, "attr-dropped:title"},
		{`<a href=" HTTP://h/p ">x</a>`, `<a href=http://h/p>x</a>`, body, ""},
		{`<a href="http://h/p">x</a>`, `<a href=//h/p>x</a>`, body, "attr-changed:href"},
		{`<a href="data:text/plain;base64,YSBi">x</a>`, `<a href="data:,a%20b">x</a>`, body, ""},
		{`<a href="data:,a">x</a>`, `<a href="data:,b">x</a>`, body, "attr-changed:href"},
		{`<input type=text value="">`, `<input>`, body, ""},
		{`<input type=checkbox value="">`, `<input type=checkbox>`, body, "attr-dropped:value"},
		{`<input type=radio value=on>`, `<input type=radio>`, body, ""},
		{`<input type=" radio">`, `<input type=radio>`, body, "attr-added:type"},
		{`<input checked=checked>`, `<input checked>`, body, ""},
		{`<x-custom checked=a>x</x-custom>`, `<x-custom checked>x</x-custom>`, body, "attr-changed:checked"},
		{`<input pattern=" a ">`, `<input pattern=a>`, body, "attr-changed:pattern"},
		{`<form method=GET action="">x</form>`, `<form>x</form>`, body, ""},
		{`<form method=post>x</form>`, `<form>x</form>`, body, "attr-dropped:method"},
		{`<button type=submit>x</button>`, `<button>x</button>`, body, ""},
		{`<script type="text/javascript">x</script>`, `<script>x</script>`, body, ""},
		{`<script type="text/javascript; charset=utf-8">x</script>`, `<script>x</script>`, body, "attr-dropped:type"},
		{`<script type=module>x</script>`, `<script>x</script>`, body, "attr-dropped:type"},
		{`<div onclick=" javascript:a() ">x</div>`, `<div onclick=a()>x</div>`, body, ""},
		{`<div style=" color:red ">x</div>`, `<div style=color:red>x</div>`, body, ""},
		{`<div style="color:red">x</div>`, `<div style=color:blue>x</div>`, body, "attr-changed:style"},
		{`<svg viewBox="0  0 1 1"></svg>`, `<svg viewBox="0 0 1 1"></svg>`, body, "attr-changed:viewBox"},
		{`<!doctype html><title>t</title><meta http-equiv=content-type content="text/html; charset=UTF-8">`, `<!doctype html><title>t</title><meta charset=utf-8>`, doc, ""},
		{`<!doctype html><title>t</title><meta http-equiv=content-type content="text/html; charset=latin1">`, `<!doctype html><title>t</title><meta charset=utf-8>`, doc, "attr-changed:charset"},
		{`<!doctype html><title>t</title><meta name=viewport content="width=device-width, initial-scale=1.0">`, `<!doctype html><title>t</title><meta name=viewport content="width=device-width,initial-scale=1">`, doc, ""},
		{`<!doctype html><title>t</title><link rel=stylesheet type=text/css href=c>`, `<!doctype html><title>t</title><link rel=stylesheet href=c>`, doc, ""},
		{`<!doctype html><title>t</title><link rel=alternate type=text/css href=c>`, `<!doctype html><title>t</title><link rel=alternate href=c>`, doc, "attr-dropped:type"},
		// tr context
		{`<td colspan=1 rowspan=" 1">a</td>`, `<td>a`, Options{Context: "tr"}, ""},
		{`<td colspan=2>a</td>`, `<td>a`, Options{Context: "tr"}, "attr-dropped:colspan"},
		// comments
		{"a<!--c-->b", "ab", Options{Context: "body", KeepComments: true}, "comment"},
		{"a<!--c-->b", "a<!--c-->b", Options{Context: "body", KeepComments: true}, ""},
		{"<!--[if IE]><p> a </p><![endif]-->b<!--c-->", "<!--[if IE]><p>a<![endif]-->b", Options{Context: "body", KeepSpecialComments: true}, ""},
		{"<!--[if IE]><p> a </p><![endif]-->b", "b", Options{Context: "body", KeepSpecialComments: true}, "comment"},
	}
	for _, c := range cases {
		kind, what := Compare(c.in, c.out, c.opt)
		if i := len(kind) - len("/scripting"); i > 0 && kind[i:] == "/scripting" {
			kind = kind[:i]
		}
		if kind != c.kind {
			t.Errorf("Compare(%q, %q): kind %q, want %q\n%s", c.in, c.out, kind, c.kind, what)
		}
	}
}
