// Package htmltree is the oracle of C03: it parses two HTML texts with the HTML5 tree
// builder of golang.org/x/net/html and decides whether they denote the same document up to
// the changes the minifier documents (DESIGN.md B2). Every allowance is defined here from
// the HTML Standard (element rendering classes of §15, attribute microsyntaxes of §2.3 and
// the per-attribute definitions), never from the minifier's own tables.
package htmltree

import (
	"fmt"
	"strings"

	"golang.org/x/net/html"
	"golang.org/x/net/html/atom"
)

// Options selects the parse mode and the comment allowance.
type Options struct {
	// Context is "" for a whole document (html.Parse) or the name of the context element of
	// a fragment (html.ParseFragment, no-quirks).
	Context string
	// KeepComments: every comment must survive at the same place with the same data.
	KeepComments bool
	// KeepSpecialComments: conditional comments and SSI comments must survive; the other
	// comments are removed from both sides.
	KeepSpecialComments bool
}

type kind uint8

const (
	kDoctype kind = iota
	kBlockOpen
	kBlockClose
	kBreak
	kInlOpen
	kInlClose
	kAtomOpen
	kAtomClose
	kTransOpen
	kTransClose
	kWord
	kSpace
	kRaw
	kGlyph
	kComment
)

var kindNames = [...]string{"Doctype", "BlockOpen", "BlockClose", "Break", "Open", "Close", "AtomOpen", "AtomClose", "HiddenOpen", "HiddenClose", "Word", "Space", "Raw", "Glyph", "Comment"}

type item struct {
	k kind
	s string
	n *html.Node
}

func (it item) String() string {
	if it.k == kSpace {
		return "Space"
	}
	return fmt.Sprintf("%s(%q)", kindNames[it.k], it.s)
}

func (k kind) isTag() bool { return k <= kTransClose }

// ---------------------------------------------------------------------------------------
// Element classification (HTML Standard §15 Rendering, the user-agent style sheet).

type class uint8

const (
	cInline class = iota // display:inline, including unknown elements
	cBlock               // display:block, list-item, table and table parts
	cBreak               // br
	cAtom                // replaced elements and inline-block: a word outside, a container inside
	cHidden              // display:none: not rendered, looked through from the outside
)

var classOf = map[string]class{}

func init() {
	set := func(c class, names string) {
		for _, n := range strings.Fields(names) {
			classOf[n] = c
		}
	}
	// §15.3.1 hidden elements (display:none) and the content of head.
	set(cHidden, "area base basefont datalist head link meta noembed noframes param rp script style template title source track")
	// §15.3.3 flow content, §15.3.6 sections and headings, §15.3.7 lists, §15.3.8 tables,
	// §15.3.10 form controls (fieldset, legend), §15.5 details/summary; option and optgroup
	// are the rows of a list box.
	set(cBlock, "html body address blockquote center dialog div figure figcaption footer form header hr legend listing main p plaintext pre search xmp "+
		"article aside h1 h2 h3 h4 h5 h6 hgroup nav section dir dd dl dt menu ol ul li "+
		"table caption colgroup col thead tbody tfoot tr td th fieldset details summary optgroup option frameset frame")
	set(cBreak, "br")
	// §15.4 replaced elements, §15.5 widgets (inline-block), marquee (inline-block), and wbr
	// (a line-break opportunity: the spaces around it do not collapse into each other).
	set(cAtom, "img image input button select textarea iframe object embed video audio canvas svg math meter progress marquee wbr applet")
}

func classify(n *html.Node, scripting bool) class {
	if n.Namespace != "" {
		return cAtom
	}
	if n.Data == "noscript" {
		if scripting {
			return cHidden // §15.3.1: noscript { display: none !important } when scripting is enabled
		}
		return cInline
	}
	return classOf[n.Data]
}

// ---------------------------------------------------------------------------------------
// Flattening.

type mode uint8

const (
	mNormal  mode = iota // white-space: normal
	mPre                 // white-space: pre (pre, listing, xmp, plaintext, textarea content)
	mForeign             // svg/math subtree: compared verbatim
)

type flattener struct {
	items     []item
	opt       *Options
	scripting bool
}

func isSpace(c byte) bool { return c == ' ' || c == '\t' || c == '\n' || c == '\f' || c == '\r' }

func (f *flattener) push(k kind, s string, n *html.Node) {
	if l := len(f.items); l > 0 {
		last := &f.items[l-1]
		switch {
		case k == kWord && last.k == kWord, k == kRaw && last.k == kRaw:
			last.s += s
			return
		case k == kSpace && last.k == kSpace:
			return
		}
	}
	f.items = append(f.items, item{k, s, n})
}

func (f *flattener) text(s string, m mode) {
	if m != mNormal {
		if s != "" {
			f.push(kRaw, s, nil)
		}
		return
	}
	i := 0
	for i < len(s) {
		j := i
		if isSpace(s[i]) {
			for j < len(s) && isSpace(s[j]) {
				j++
			}
			f.push(kSpace, "", nil)
		} else {
			for j < len(s) && !isSpace(s[j]) {
				j++
			}
			f.push(kWord, s[i:j], nil)
		}
		i = j
	}
}

// IsSpecialComment: IE conditional comments (downlevel-hidden "[if …]>…<![endif]",
// downlevel-revealed "[if …]" / "[endif]") and server-side includes ("#…").
func IsSpecialComment(data string) bool {
	return strings.HasPrefix(data, "[if ") || strings.HasSuffix(data, "[endif]") || len(data) > 1 && data[0] == '#'
}

func (f *flattener) children(n *html.Node, m mode) {
	for c := n.FirstChild; c != nil; c = c.NextSibling {
		f.node(c, m)
	}
}

func textContent(n *html.Node) string {
	var b strings.Builder
	for c := n.FirstChild; c != nil; c = c.NextSibling {
		if c.Type == html.TextNode {
			b.WriteString(c.Data)
		}
	}
	return b.String()
}

func stripCollapse(s string) string { return strings.Join(fieldsASCII(s), " ") }

func (f *flattener) node(n *html.Node, m mode) {
	switch n.Type {
	case html.TextNode:
		f.text(n.Data, m)
	case html.CommentNode:
		if f.opt.KeepComments || f.opt.KeepSpecialComments && IsSpecialComment(n.Data) {
			f.items = append(f.items, item{kComment, n.Data, n})
		}
	case html.DoctypeNode:
		f.items = append(f.items, item{kDoctype, strings.ToLower(n.Data), n})
	case html.ElementNode:
		f.element(n, m)
	}
}

func (f *flattener) element(n *html.Node, m mode) {
	name := n.Data
	if m == mForeign {
		f.items = append(f.items, item{kInlOpen, n.Namespace + ":" + name, n})
		f.children(n, mForeign)
		f.items = append(f.items, item{kInlClose, name, nil})
		return
	}
	if n.Namespace != "" { // svg or math root inside HTML content
		f.items = append(f.items, item{kAtomOpen, n.Namespace + ":" + name, n})
		f.children(n, mForeign)
		f.items = append(f.items, item{kAtomClose, name, nil})
		return
	}
	switch classify(n, f.scripting) {
	case cBlock:
		f.items = append(f.items, item{kBlockOpen, name, n})
		cm := m
		switch name {
		case "pre", "listing", "xmp", "plaintext":
			cm = mPre
		}
		f.children(n, cm)
		f.items = append(f.items, item{kBlockClose, name, nil})
	case cBreak:
		f.items = append(f.items, item{kBreak, name, n})
		f.children(n, m) // void: no children
	case cAtom:
		f.items = append(f.items, item{kAtomOpen, name, n})
		switch name {
		case "textarea", "iframe":
			f.children(n, mPre)
		default:
			f.children(n, mNormal)
		}
		f.items = append(f.items, item{kAtomClose, name, nil})
	case cHidden:
		f.items = append(f.items, item{kTransOpen, name, n})
		switch name {
		case "script", "style", "noembed", "noframes":
			f.children(n, mPre)
		case "title":
			if s := stripCollapse(textContent(n)); s != "" {
				f.items = append(f.items, item{kRaw, s, nil})
			}
		case "noscript":
			// scripting enabled: the content is one unparsed text node; it has been
			// compared as markup by the scripting-disabled pass.
		default:
			f.children(n, mNormal)
		}
		f.items = append(f.items, item{kTransClose, name, nil})
	default:
		f.items = append(f.items, item{kInlOpen, name, n})
		if name == "q" { // generated quotation marks: content, not collapsible
			f.items = append(f.items, item{kGlyph, "open-quote", nil})
		}
		f.children(n, m)
		if name == "q" {
			f.items = append(f.items, item{kGlyph, "close-quote", nil})
		}
		f.items = append(f.items, item{kInlClose, name, nil})
	}
}

// resolveSpaces applies CSS Text §4.1 (white-space: normal) to the flattened sequence: a
// collapsible space is removed when — looking through inline element boundaries, comments
// and not-rendered elements — it follows another space that is kept, follows a block/break
// boundary or the start of a block container, or precedes a block/break boundary or the end
// of a block container. The content of a not-rendered element is a container of its own.
func resolveSpaces(items []item) []item {
	const (
		boundary = iota
		space
		word
	)
	drop := make([]bool, len(items))
	state := boundary
	var stack []int
	for i, it := range items {
		switch it.k {
		case kBlockOpen, kBlockClose, kBreak, kDoctype:
			state = boundary
		case kTransOpen:
			stack = append(stack, state)
			state = boundary
		case kTransClose:
			if len(stack) > 0 {
				state = stack[len(stack)-1]
				stack = stack[:len(stack)-1]
			}
		case kAtomOpen:
			state = boundary
		case kAtomClose:
			state = word
		case kWord, kRaw, kGlyph:
			state = word
		case kSpace:
			if state != word {
				drop[i] = true
			} else {
				state = space
			}
		}
	}
	state = boundary
	stack = stack[:0]
	for i := len(items) - 1; i >= 0; i-- {
		switch items[i].k {
		case kBlockOpen, kBlockClose, kBreak, kDoctype:
			state = boundary
		case kTransClose:
			stack = append(stack, state)
			state = boundary
		case kTransOpen:
			if len(stack) > 0 {
				state = stack[len(stack)-1]
				stack = stack[:len(stack)-1]
			}
		case kAtomClose:
			state = boundary
		case kAtomOpen:
			state = word
		case kWord, kRaw, kGlyph:
			state = word
		case kSpace:
			if drop[i] {
				continue
			}
			if state == boundary {
				drop[i] = true
			} else {
				state = word
			}
		}
	}
	out := make([]item, 0, len(items))
	for i, it := range items {
		if drop[i] {
			continue
		}
		// words separated only by a removed space or removed comment never merge: the
		// flattener merged adjacent words before, and a dropped space always sits next
		// to a boundary or a kept space.
		out = append(out, it)
	}
	return out
}

// ---------------------------------------------------------------------------------------
// Parsing.

// Tree is a parsed text: the top-level nodes (one Document node, or the fragment's nodes).
type Tree struct {
	Nodes []*html.Node
}

// Parse parses src as a document (context "") or as a fragment in a no-quirks context element.
func Parse(src, context string, scripting bool) (*Tree, error) {
	opt := html.ParseOptionEnableScripting(scripting)
	if context == "" {
		doc, err := html.ParseWithOptions(strings.NewReader(src), opt)
		if err != nil {
			return nil, err
		}
		return &Tree{[]*html.Node{doc}}, nil
	}
	ctx := &html.Node{Type: html.ElementNode, Data: context, DataAtom: atom.Lookup([]byte(context))}
	nodes, err := html.ParseFragmentWithOptions(strings.NewReader(src), ctx, opt)
	if err != nil {
		return nil, err
	}
	return &Tree{nodes}, nil
}

func (t *Tree) flatten(opt *Options, scripting bool) []item {
	f := &flattener{opt: opt, scripting: scripting}
	for _, n := range t.Nodes {
		if n.Type == html.DocumentNode {
			f.children(n, mNormal)
		} else {
			f.node(n, mNormal)
		}
	}
	return resolveSpaces(f.items)
}

// Dump renders the normal form (for messages and debugging).
func Dump(src string, opt Options, scripting bool) string {
	t, err := Parse(src, opt.Context, scripting)
	if err != nil {
		return "parse error: " + err.Error()
	}
	return dumpItems(t.flatten(&opt, scripting))
}

func dumpItems(items []item) string {
	var b strings.Builder
	for i, it := range items {
		if i > 0 {
			b.WriteByte(' ')
		}
		b.WriteString(it.String())
	}
	return b.String()
}

// ---------------------------------------------------------------------------------------
// Comparison.

func hasNoscript(s string) bool {
	return strings.Contains(strings.ToLower(s), "noscript")
}

// Compare decides the C03 oracle for one (input, output) pair. kind=="" means equivalent.
func Compare(in, out string, opt Options) (kind, what string) {
	return Prepare(in, opt).Compare(out)
}

// Input is a parsed and flattened input text, reusable for several outputs.
type Input struct {
	src  string
	opt  Options
	flat [2][]item // by scripting mode; nil until needed
	err  [2]error
	done [2]bool
}

// Prepare parses the input side once.
func Prepare(in string, opt Options) *Input { return &Input{src: in, opt: opt} }

func (p *Input) side(scripting bool) ([]item, error) {
	i := 0
	if scripting {
		i = 1
	}
	if !p.done[i] {
		p.done[i] = true
		t, err := Parse(p.src, p.opt.Context, scripting)
		if err != nil {
			p.err[i] = err
		} else {
			p.flat[i] = t.flatten(&p.opt, scripting)
		}
	}
	return p.flat[i], p.err[i]
}

// Compare compares one output with the prepared input.
func (p *Input) Compare(out string) (kind, what string) {
	if kind, what = p.compareMode(out, false); kind != "" {
		return
	}
	if hasNoscript(p.src) || hasNoscript(out) {
		// Second pass with scripting enabled: noscript content is raw text there, so this
		// pass decides that the end of every noscript element stays where it was.
		if kind, what = p.compareMode(out, true); kind != "" {
			return kind + "/scripting", what
		}
	}
	return "", ""
}

func (p *Input) compareMode(out string, scripting bool) (string, string) {
	opt := &p.opt
	a, err := p.side(scripting)
	if err != nil {
		return "parse-input", err.Error()
	}
	tb, err := Parse(out, opt.Context, scripting)
	if err != nil {
		return "parse-output", err.Error()
	}
	b := tb.flatten(opt, scripting)

	// 1. element structure (every tag re-inferred at the same place).
	var sa, sb []item
	for _, it := range a {
		if it.k.isTag() {
			sa = append(sa, it)
		}
	}
	for _, it := range b {
		if it.k.isTag() {
			sb = append(sb, it)
		}
	}
	for i := 0; i < len(sa) || i < len(sb); i++ {
		if i >= len(sa) || i >= len(sb) || sa[i].k != sb[i].k || sa[i].s != sb[i].s {
			return "structure", fmt.Sprintf("element structure differs at tag item %d: input %s, output %s\n  input : %s\n  output: %s", i, at(sa, i), at(sb, i), dumpItems(a), dumpItems(b))
		}
	}
	// 2. rendered text, raw text and comments.
	for i := 0; i < len(a) || i < len(b); i++ {
		if i < len(a) && i < len(b) && a[i].k == b[i].k && a[i].s == b[i].s {
			continue
		}
		if i < len(a) && i < len(b) && a[i].k == kComment && b[i].k == kComment && opt.KeepSpecialComments && !opt.KeepComments && conditionalEquivalent(a[i].s, b[i].s, opt) {
			continue
		}
		k := "text"
		var ka, kb kind = 255, 255
		if i < len(a) {
			ka = a[i].k
		}
		if i < len(b) {
			kb = b[i].k
		}
		switch {
		case ka == kComment || kb == kComment:
			k = "comment"
		case ka == kSpace && kb != kSpace:
			k = "space-removed"
		case kb == kSpace && ka != kSpace:
			k = "space-added"
		case ka == kWord && kb == kWord:
			k = "word-changed"
			switch {
			case i+2 < len(a) && a[i+2].k == kWord && b[i].s == a[i].s+a[i+2].s && a[i+1].k == kSpace:
				k = "space-removed" // two words joined
			case i+2 < len(a) && a[i+2].k == kWord && b[i].s == a[i].s+a[i+2].s && a[i+1].k == kComment:
				k = "comment"
			case i+2 < len(b) && b[i+2].k == kWord && a[i].s == b[i].s+b[i+2].s && b[i+1].k == kSpace:
				k = "space-added" // a word split
			}
		case ka == kRaw && kb == kRaw:
			k = "raw-changed"
		case ka == kRaw || kb == kRaw:
			k = "raw-moved"
		case ka == kWord || kb == kWord:
			k = "word-moved"
		}
		return k, fmt.Sprintf("item %d: input %s, output %s\n  input : %s\n  output: %s", i, at(a, i), at(b, i), dumpItems(a), dumpItems(b))
	}
	// 3. attributes of the paired elements.
	for i := range sa {
		if sa[i].n == nil || sa[i].n.Type != html.ElementNode {
			continue
		}
		if k, w := CompareAttrs(sa[i].n, sb[i].n); k != "" {
			return k, w
		}
	}
	return "", ""
}

func at(s []item, i int) string {
	if i < len(s) {
		return s[i].String()
	}
	return "<end>"
}

// conditionalEquivalent: a downlevel-hidden conditional comment "[if X]>inner<![endif]" may
// have its inner markup minified like a document of its own.
func conditionalEquivalent(a, b string, opt *Options) bool {
	split := func(s string) (pre, inner, post string, ok bool) {
		if !strings.HasPrefix(s, "[if ") || !strings.HasSuffix(s, "<![endif]") {
			return
		}
		i := strings.IndexByte(s, '>')
		j := len(s) - len("<![endif]")
		if i < 0 || i+1 > j {
			return
		}
		return s[:i+1], s[i+1 : j], s[j:], true
	}
	pa, ia, sa, oka := split(a)
	pb, ib, sb, okb := split(b)
	if !oka || !okb || pa != pb || sa != sb {
		return false
	}
	o := *opt
	o.Context = "body"
	k, _ := Compare(ia, ib, o)
	return k == ""
}
