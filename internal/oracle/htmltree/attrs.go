package htmltree

import (
	"encoding/base64"
	"fmt"
	"sort"
	"strings"

	"golang.org/x/net/html"
)

// Attribute equivalence. Every attribute of an HTML element is mapped to a canonical value
// according to the microsyntax the HTML Standard gives that attribute on that element; an
// attribute whose canonical form is "the same as absent" is deleted. Two elements carry
// equivalent attributes iff their canonical maps are equal. Unknown attributes, data-*,
// and every attribute of an unknown/custom or foreign element are compared verbatim.

type akind uint8

const (
	aExact    akind = iota
	aBool           // boolean attribute: presence only (§2.3.2)
	aTokens         // set / ordered set of space-separated tokens (§2.3.7)
	aTokensCI       // space-separated tokens, ASCII case-insensitive keywords
	aURL            // valid URL potentially surrounded by spaces (§2.4.1)
	aInt            // rules for parsing integers (§2.3.4.1)
	aDim            // non-negative integer + rules for parsing dimension values (§2.3.4.4)
	aStrip          // processed after skipping/stripping ASCII whitespace at both ends
	aCollapse       // list microsyntaxes whose whitespace runs are separators (srcset, sizes, media, coords)
	aEnum           // enumerated attribute: ASCII case-insensitive keywords (§2.3.3)
	aMIME           // MIME type string: case- and whitespace-insensitive outside quoted strings
	aCommaCI        // set of comma-separated tokens, case-insensitive (accept)
	aStyle          // CSS declarations: surrounding whitespace insignificant, empty ≡ absent
	aEvent          // event handler content attribute (JS): surrounding whitespace, leading "javascript:" label
)

// htmlElements: the elements of the HTML Standard (current and obsolete). Attributes of any
// other (custom or unknown) element mean whatever the author decides, so they are exact.
var htmlElements = map[string]bool{}

var boolAttrs = map[string]bool{}
var globalAttrs = map[string]bool{}

func isEventName(name string) bool {
	return len(name) > 2 && name[0] == 'o' && name[1] == 'n' && !strings.ContainsAny(name, "-:")
}

var byName = map[string]akind{}

func init() {
	for _, n := range strings.Fields("a abbr address area article aside audio b base bdi bdo blockquote body br button canvas caption cite code col colgroup data datalist dd del details dfn dialog div dl dt em embed fieldset figcaption figure footer form h1 h2 h3 h4 h5 h6 head header hgroup hr html i iframe img input ins kbd label legend li link main map mark menu meta meter nav noscript object ol optgroup option output p picture pre progress q rp rt ruby s samp script search section select slot small source span strong style sub summary sup table tbody td template textarea tfoot th thead time title tr track u ul var video wbr " +
		"acronym applet basefont bgsound big blink center dir font frame frameset image isindex keygen listing marquee menuitem multicol nextid nobr noembed noframes param plaintext rb rtc spacer strike tt xmp") {
		htmlElements[n] = true
	}
	for _, n := range strings.Fields("allowfullscreen async autofocus autoplay checked controls default defer disabled formnovalidate inert ismap itemscope loop multiple muted nomodule novalidate open playsinline readonly required reversed selected shadowrootclonable shadowrootdelegatesfocus shadowrootserializable compact declare noresize nohref noshade nowrap truespeed typemustmatch") {
		boolAttrs[n] = true
	}
	for _, n := range strings.Fields("accesskey autocapitalize autofocus class contenteditable dir draggable enterkeyhint hidden id inert inputmode is itemid itemprop itemref itemscope itemtype lang nonce popover slot spellcheck style tabindex title translate") {
		globalAttrs[n] = true
	}
	set := func(k akind, names string) {
		for _, n := range strings.Fields(names) {
			byName[n] = k
		}
	}
	set(aTokens, "class rel headers sandbox itemprop itemref itemtype accesskey ping blocking aria-labelledby aria-describedby dropzone")
	set(aTokensCI, "autocomplete accept-charset")
	set(aURL, "href src action cite data formaction poster manifest itemid background longdesc profile codebase icon xmlns")
	set(aInt, "cols rows maxlength minlength start tabindex")
	set(aDim, "width height")
	set(aStrip, "min max step high low optimum")
	set(aCollapse, "srcset imagesrcset imagesizes media coords allow")
	set(aEnum, "method formmethod dir enctype formenctype autocapitalize contenteditable crossorigin decoding draggable enterkeyhint fetchpriority hidden inputmode kind loading popover popovertargetaction preload referrerpolicy scope shape spellcheck translate wrap shadowrootmode as http-equiv charset align valign")
	set(aCommaCI, "accept")
	set(aStyle, "style")
}

func kindOf(el, name string) akind {
	if !htmlElements[el] {
		// Unknown and autonomous custom elements: only the global attributes have a
		// meaning given by the standard; everything else is the author's.
		if !globalAttrs[name] && !isEventName(name) {
			return aExact
		}
	}
	if boolAttrs[name] {
		return aBool
	}
	if isEventName(name) {
		return aEvent
	}
	switch name {
	case "type":
		switch el {
		case "input", "button", "menu", "command":
			return aEnum
		case "link", "a", "area", "source", "embed", "object":
			return aMIME
		}
		return aExact // ol/ul/li type is case-sensitive; script/style are handled in canonical()
	case "for":
		if el == "output" {
			return aTokens
		}
		return aExact
	case "sizes":
		if el == "link" {
			return aTokensCI
		}
		return aCollapse // source size list of img/source
	case "value":
		return aExact
	case "size":
		if el == "input" || el == "select" {
			return aInt
		}
		return aExact // font/basefont/hr size have other (relative, pixel) syntaxes
	case "span", "colspan", "rowspan":
		return aInt
	}
	return byName[name] // zero value: aExact
}

// ---------------------------------------------------------------------------------------
// Microsyntaxes.

func fieldsASCII(s string) []string {
	return strings.FieldsFunc(s, func(r rune) bool { return r < 0x80 && isSpace(byte(r)) })
}

func stripASCII(s string) string {
	i, j := 0, len(s)
	for i < j && isSpace(s[i]) {
		i++
	}
	for j > i && isSpace(s[j-1]) {
		j--
	}
	return s[i:j]
}

func lowerASCII(s string) string {
	for i := 0; i < len(s); i++ {
		if 'A' <= s[i] && s[i] <= 'Z' {
			b := []byte(s)
			for j := i; j < len(b); j++ {
				if 'A' <= b[j] && b[j] <= 'Z' {
					b[j] += 'a' - 'A'
				}
			}
			return string(b)
		}
	}
	return s
}

// parseInt: rules for parsing integers. ok=false is the error result.
func parseInt(s string) (int64, bool) {
	i := 0
	for i < len(s) && isSpace(s[i]) {
		i++
	}
	neg := false
	if i < len(s) && (s[i] == '-' || s[i] == '+') {
		neg = s[i] == '-'
		i++
	}
	if i >= len(s) || s[i] < '0' || s[i] > '9' {
		return 0, false
	}
	var v int64
	for i < len(s) && s[i] >= '0' && s[i] <= '9' {
		if v < 1<<40 {
			v = v*10 + int64(s[i]-'0')
		}
		i++
	}
	if neg {
		v = -v
	}
	return v, true
}

// parseNonNeg: rules for parsing non-negative integers.
func parseNonNeg(s string) (int64, bool) {
	v, ok := parseInt(s)
	if !ok || v < 0 {
		return 0, false
	}
	return v, true
}

// parseDimension: rules for parsing dimension values; returns a canonical spelling.
func parseDimension(s string) string {
	i := 0
	for i < len(s) && isSpace(s[i]) {
		i++
	}
	if i >= len(s) || s[i] < '0' || s[i] > '9' {
		return "err"
	}
	j := i
	for j < len(s) && s[j] >= '0' && s[j] <= '9' {
		j++
	}
	ip := strings.TrimLeft(s[i:j], "0")
	if ip == "" {
		ip = "0"
	}
	frac := ""
	if j < len(s) && s[j] == '.' {
		k := j + 1
		for k < len(s) && s[k] >= '0' && s[k] <= '9' {
			k++
		}
		frac = strings.TrimRight(s[j+1:k], "0")
		j = k
	}
	out := ip
	if frac != "" {
		out += "." + frac
	}
	if j < len(s) && s[j] == '%' {
		out += "%"
	}
	return out
}

func canonInt(s string) string {
	if v, ok := parseInt(s); ok {
		return fmt.Sprint(v)
	}
	return "err"
}

// canonMIME: ASCII lower case and no ASCII whitespace outside quoted strings.
func canonMIME(s string) string {
	var b strings.Builder
	inq := false
	for i := 0; i < len(s); i++ {
		c := s[i]
		if c == '"' {
			inq = !inq
		}
		if !inq {
			if isSpace(c) {
				continue
			}
			if 'A' <= c && c <= 'Z' {
				c += 'a' - 'A'
			}
		}
		b.WriteByte(c)
	}
	return b.String()
}

func schemeEnd(s string) int {
	if s == "" || !(s[0] >= 'a' && s[0] <= 'z' || s[0] >= 'A' && s[0] <= 'Z') {
		return -1
	}
	for i := 1; i < len(s); i++ {
		c := s[i]
		switch {
		case c == ':':
			return i
		case c >= 'a' && c <= 'z', c >= 'A' && c <= 'Z', c >= '0' && c <= '9', c == '+', c == '-', c == '.':
		default:
			return -1
		}
	}
	return -1
}

func hexVal(c byte) int {
	switch {
	case c >= '0' && c <= '9':
		return int(c - '0')
	case c >= 'a' && c <= 'f':
		return int(c-'a') + 10
	case c >= 'A' && c <= 'F':
		return int(c-'A') + 10
	}
	return -1
}

// canonDataURL: the data: URL processor of the Fetch Standard (MIME type + body bytes).
func canonDataURL(rest string) (string, bool) {
	comma := strings.IndexByte(rest, ',')
	if comma < 0 {
		return "", false
	}
	mt := stripASCII(rest[:comma])
	body := rest[comma+1:]
	if i := strings.IndexByte(body, '#'); i >= 0 {
		body = body[:i]
	}
	var raw []byte
	for i := 0; i < len(body); i++ {
		if body[i] == '%' && i+2 < len(body) && hexVal(body[i+1]) >= 0 && hexVal(body[i+2]) >= 0 {
			raw = append(raw, byte(hexVal(body[i+1])<<4|hexVal(body[i+2])))
			i += 2
			continue
		}
		raw = append(raw, body[i])
	}
	isB64 := false
	if l := lowerASCII(mt); strings.HasSuffix(strings.TrimRight(l, " "), "base64") {
		t := strings.TrimRight(mt, " ")
		t = strings.TrimRight(t[:len(t)-len("base64")], " ")
		if strings.HasSuffix(t, ";") {
			isB64 = true
			mt = t[:len(t)-1]
		}
	}
	if isB64 {
		s := strings.Map(func(r rune) rune {
			if r < 0x80 && isSpace(byte(r)) {
				return -1
			}
			return r
		}, string(raw))
		s = strings.TrimRight(s, "=")
		dec, err := base64.RawStdEncoding.DecodeString(s)
		if err != nil {
			return "", false
		}
		raw = dec
	}
	m := canonMIME(mt)
	if m == "" || strings.HasPrefix(m, ";") {
		m = "text/plain" + m
	}
	if m == "text/plain" {
		m = "text/plain;charset=us-ascii"
	}
	return "data:" + m + "," + fmt.Sprintf("%q", raw), true
}

func canonURL(s string) string {
	s = stripASCII(s)
	e := schemeEnd(s)
	if e < 0 {
		return s
	}
	scheme := lowerASCII(s[:e])
	if scheme == "data" {
		if c, ok := canonDataURL(s[e+1:]); ok {
			return c
		}
	}
	return scheme + s[e:]
}

var jsEssence = map[string]bool{}

func init() {
	for _, n := range strings.Fields("application/ecmascript application/javascript application/x-ecmascript application/x-javascript text/ecmascript text/javascript text/javascript1.0 text/javascript1.1 text/javascript1.2 text/javascript1.3 text/javascript1.4 text/javascript1.5 text/jscript text/livescript text/x-ecmascript text/x-javascript") {
		jsEssence[n] = true
	}
}

// scriptType: "prepare the script element" steps that determine the script's type.
func scriptType(attrs map[string]string) string {
	t, hasType := attrs["type"]
	l, hasLang := attrs["language"]
	var s string
	switch {
	case hasType && t == "", !hasType && hasLang && l == "", !hasType && !hasLang:
		return "classic"
	case hasType:
		s = stripASCII(t)
	default:
		s = "text/" + l
	}
	ls := lowerASCII(s)
	switch {
	case jsEssence[ls]:
		return "classic"
	case ls == "module" || ls == "importmap" || ls == "speculationrules":
		return ls
	}
	return "data:" + canonMIME(s)
}

// metaCharset: the character encoding declaration a meta element makes ("" if none):
// either charset=label or http-equiv=content-type with a content holding charset=label
// (algorithm for extracting a character encoding from a meta element, §2.6.5).
func metaCharset(attrs map[string]string) string {
	if v, ok := attrs["charset"]; ok {
		return lowerASCII(stripASCII(v))
	}
	if lowerASCII(attrs["http-equiv"]) != "content-type" {
		return ""
	}
	s := attrs["content"]
	ls := lowerASCII(s)
	pos := 0
	for {
		i := strings.Index(ls[pos:], "charset")
		if i < 0 {
			return ""
		}
		p := pos + i + len("charset")
		for p < len(s) && isSpace(s[p]) {
			p++
		}
		if p >= len(s) || s[p] != '=' {
			pos = pos + i + len("charset")
			continue
		}
		p++
		for p < len(s) && isSpace(s[p]) {
			p++
		}
		if p >= len(s) {
			return ""
		}
		if s[p] == '"' || s[p] == '\'' {
			q := strings.IndexByte(s[p+1:], s[p])
			if q < 0 {
				return ""
			}
			return ls[p+1 : p+1+q]
		}
		q := p
		for q < len(s) && !isSpace(s[q]) && s[q] != ';' {
			q++
		}
		return ls[p:q]
	}
}

// viewport: the parsing algorithm of the CSS Viewport module (separators: comma, semicolon,
// ASCII whitespace; name, optional whitespace, "=", optional whitespace, value). Numeric
// values are compared as numbers (strtod prefix), keywords case-insensitively.
func canonViewport(s string) string {
	isSep := func(c byte) bool { return c == ',' || c == ';' || isSpace(c) }
	var out []string
	i := 0
	for i < len(s) {
		for i < len(s) && isSep(s[i]) {
			i++
		}
		if i >= len(s) {
			break
		}
		j := i
		for j < len(s) && !isSep(s[j]) && s[j] != '=' {
			j++
		}
		name := lowerASCII(s[i:j])
		for j < len(s) && isSpace(s[j]) {
			j++
		}
		val := ""
		if j < len(s) && s[j] == '=' {
			j++
			for j < len(s) && isSpace(s[j]) {
				j++
			}
			k := j
			for k < len(s) && !isSep(s[k]) && s[k] != '=' {
				k++
			}
			val = canonNumberPrefix(lowerASCII(s[j:k]))
			j = k
		}
		out = append(out, name+"="+val)
		i = j
		if i < len(s) && s[i] == '=' {
			i++
		}
	}
	return strings.Join(out, ",")
}

// canonNumberPrefix: when s starts with a decimal number, its canonical spelling followed
// by the rest; otherwise s.
func canonNumberPrefix(s string) string {
	i := 0
	if i < len(s) && (s[i] == '+' || s[i] == '-') {
		i++
	}
	ds := i
	for i < len(s) && s[i] >= '0' && s[i] <= '9' {
		i++
	}
	ip := s[ds:i]
	frac := ""
	if i < len(s) && s[i] == '.' {
		k := i + 1
		for k < len(s) && s[k] >= '0' && s[k] <= '9' {
			k++
		}
		frac = s[i+1 : k]
		i = k
	}
	if ip == "" && frac == "" {
		return s
	}
	if i < len(s) && (s[i] == 'e' || s[i] == 'E') {
		return s // exponent forms are compared verbatim
	}
	ip = strings.TrimLeft(ip, "0")
	if ip == "" {
		ip = "0"
	}
	frac = strings.TrimRight(frac, "0")
	sign := ""
	if s[0] == '-' && !(ip == "0" && frac == "") {
		sign = "-"
	}
	out := sign + ip
	if frac != "" {
		out += "." + frac
	}
	return out + s[i:]
}

var inputTypes = map[string]bool{}

func init() {
	for _, n := range strings.Fields("hidden text search tel url email password date month week time datetime-local number range color checkbox radio file submit image reset button") {
		inputTypes[n] = true
	}
}

// ---------------------------------------------------------------------------------------

func attrMap(n *html.Node) map[string]string {
	m := make(map[string]string, len(n.Attr))
	for _, a := range n.Attr {
		k := a.Key
		if a.Namespace != "" {
			k = a.Namespace + ":" + k
		}
		if _, dup := m[k]; !dup { // the tokenizer keeps the first of duplicate attributes
			// §13.2.5.36-38: U+0000 in an attribute value becomes U+FFFD (x/net keeps it).
			m[k] = strings.ReplaceAll(a.Val, "\x00", "\uFFFD")
		}
	}
	return m
}

// Canonical returns the canonical attribute map of an element.
func Canonical(n *html.Node) map[string]string {
	raw := attrMap(n)
	if n.Namespace != "" {
		return raw
	}
	el := n.Data
	out := make(map[string]string, len(raw))
	for name, v := range raw {
		switch kindOf(el, name) {
		case aExact:
			out[name] = v
		case aBool:
			out[name] = ""
		case aTokens:
			out[name] = strings.Join(fieldsASCII(v), " ")
		case aTokensCI:
			out[name] = lowerASCII(strings.Join(fieldsASCII(v), " "))
		case aURL:
			out[name] = canonURL(v)
		case aInt:
			out[name] = canonInt(v)
		case aDim:
			out[name] = canonInt(v) + "|" + parseDimension(v)
		case aStrip:
			out[name] = stripASCII(v)
		case aCollapse:
			out[name] = strings.Join(fieldsASCII(v), " ")
		case aEnum:
			out[name] = lowerASCII(v)
		case aMIME:
			out[name] = canonMIME(v)
		case aCommaCI:
			parts := strings.Split(v, ",")
			for i := range parts {
				parts[i] = lowerASCII(stripASCII(parts[i]))
			}
			out[name] = strings.Join(parts, ",")
		case aStyle:
			if s := stripASCII(v); s != "" {
				out[name] = s
			}
		case aEvent:
			s := stripASCII(v)
			if len(s) >= 11 && lowerASCII(s[:11]) == "javascript:" {
				s = stripASCII(s[11:])
			}
			if s != "" {
				out[name] = s
			}
		}
	}
	// Attributes whose empty value means the same as their absence: class (no classes),
	// id (DOM: the element has no ID), name (no name: form entry list, named access and
	// navigable target names all skip the empty string), dir (no state).
	for _, name := range []string{"class", "id", "name", "dir"} {
		if v, ok := out[name]; ok && v == "" && (name != "name" || htmlElements[el]) {
			delete(out, name)
		}
	}
	switch el {
	case "script":
		delete(out, "charset") // obsolete, no effect on processing
		t := scriptType(raw)
		delete(out, "type")
		if t != "classic" {
			out["type"] = t
		}
	case "style":
		// type: absent, empty or an ASCII case-insensitive match for "text/css" → CSS.
		if v, ok := raw["type"]; ok && (v == "" || lowerASCII(v) == "text/css") {
			delete(out, "type")
		}
		if v, ok := raw["media"]; ok {
			if l := lowerASCII(stripASCII(v)); l == "" || l == "all" {
				delete(out, "media")
			}
		}
	case "link":
		// The default type of rel=stylesheet is text/css.
		if v, ok := out["type"]; ok && v == "text/css" {
			for _, t := range fieldsASCII(lowerASCII(raw["rel"])) {
				if t == "stylesheet" {
					delete(out, "type")
				}
			}
		}
	case "input":
		t := lowerASCII(raw["type"])
		if !inputTypes[t] {
			t = "text" // missing value default and invalid value default
		}
		delete(out, "type")
		if t != "text" {
			out["type"] = t
		}
		if v, ok := raw["value"]; ok {
			switch t {
			case "checkbox", "radio":
				if v == "on" { // value mode default/on
					delete(out, "value")
				}
			case "submit", "reset":
				// an absent value gives the implementation-defined default label
			case "image", "file":
			default:
				if v == "" { // value modes value / default: absent ≡ empty string
					delete(out, "value")
				}
			}
		}
	case "button":
		t := lowerASCII(raw["type"])
		if _, ok := raw["type"]; ok {
			delete(out, "type")
			if t == "reset" || t == "button" {
				out["type"] = t
			}
		}
	case "form":
		if _, ok := raw["method"]; ok {
			delete(out, "method")
			if m := lowerASCII(raw["method"]); m == "post" || m == "dialog" {
				out["method"] = m
			}
		}
		if _, ok := raw["enctype"]; ok {
			delete(out, "enctype")
			if e := lowerASCII(raw["enctype"]); e == "multipart/form-data" || e == "text/plain" {
				out["enctype"] = e
			}
		}
		if v, ok := out["action"]; ok && v == "" {
			delete(out, "action")
		}
	case "td", "th":
		if v, ok := raw["colspan"]; ok {
			delete(out, "colspan")
			if n, ok := parseNonNeg(v); ok && n > 1 {
				out["colspan"] = fmt.Sprint(min(n, 1000))
			}
		}
		if v, ok := raw["rowspan"]; ok {
			delete(out, "rowspan")
			if n, ok := parseNonNeg(v); ok && n != 1 {
				out["rowspan"] = fmt.Sprint(min(n, 65534))
			}
		}
	case "col", "colgroup":
		if v, ok := raw["span"]; ok {
			delete(out, "span")
			if n, ok := parseNonNeg(v); ok && n > 1 {
				out["span"] = fmt.Sprint(min(n, 1000))
			}
		}
	case "area":
		if v, ok := raw["shape"]; ok {
			delete(out, "shape")
			switch lowerASCII(v) {
			case "circle", "circ":
				out["shape"] = "circle"
			case "default":
				out["shape"] = "default"
			case "poly", "polygon":
				out["shape"] = "poly"
			}
		}
	case "a":
		if id, ok := raw["id"]; ok && id != "" && raw["name"] == id {
			delete(out, "name") // obsolete-but-conforming alias of the ID
		}
	case "meta":
		if enc := metaCharset(raw); enc != "" {
			if _, ok := raw["charset"]; !ok {
				delete(out, "http-equiv")
				delete(out, "content")
			}
			out["charset"] = enc
		}
		switch lowerASCII(raw["name"]) {
		case "keywords":
			if v, ok := raw["content"]; ok {
				parts := strings.Split(v, ",")
				for i := range parts {
					parts[i] = stripASCII(parts[i])
				}
				out["content"] = strings.Join(parts, ",")
			}
		case "viewport":
			if v, ok := raw["content"]; ok {
				out["content"] = canonViewport(v)
			}
		}
	}
	return out
}

// CompareAttrs compares the canonical attribute maps of two paired elements.
func CompareAttrs(a, b *html.Node) (kind, what string) {
	ca, cb := Canonical(a), Canonical(b)
	names := make([]string, 0, len(ca)+len(cb))
	for k := range ca {
		names = append(names, k)
	}
	for k := range cb {
		if _, ok := ca[k]; !ok {
			names = append(names, k)
		}
	}
	sort.Strings(names)
	for _, k := range names {
		va, oka := ca[k]
		vb, okb := cb[k]
		switch {
		case oka && !okb:
			return "attr-dropped:" + k, fmt.Sprintf("<%s %s>: input value %q (raw %q) has no equivalent in the output (raw attributes %q)", a.Data, k, va, attrMap(a)[k], fmtAttrs(b))
		case !oka && okb:
			return "attr-added:" + k, fmt.Sprintf("<%s %s>: output has %q, input has nothing equivalent (raw attributes %q)", a.Data, k, vb, fmtAttrs(a))
		case va != vb:
			return "attr-changed:" + k, fmt.Sprintf("<%s %s>: input %q (canonical %q) became %q (canonical %q)", a.Data, k, attrMap(a)[k], va, attrMap(b)[k], vb)
		}
	}
	return "", ""
}

func fmtAttrs(n *html.Node) string {
	var parts []string
	for _, a := range n.Attr {
		parts = append(parts, a.Key+"="+fmt.Sprintf("%q", a.Val))
	}
	return strings.Join(parts, " ")
}
