package cssval

import "testing"

func TestPairs(t *testing.T) {
	diffs := [][2]string{
		{"a{color:red}", "a{color:#f01}"}, {"a{margin:1px 2px}", "a{margin:2px 1px}"}, {"a b{c:d}", "ab{c:d}"}, {"a>b{c:d}", "a b{c:d}"}, {"a b{c:d}", "a>b{c:d}"},
		{"a{b:c;d:e}", "a{d:e;b:c}"}, {"a{width:calc(1px + 2px)}", "a{width:calc(1px+2px)}"}, {"a{width:calc(var(--a) + var(--b))}", "a{width:calc(var(--a)+var(--b))}"},
		{"a{b:c!important}", "a{b:c}"}, {"@media screen{a{b:c}}", "a{b:c}"}, {"a{font:12px a}", "a{font:12px/1 a}"}, {"a{b:c}", "a{b:C}"}, {".a{b:c}", ".A{b:c}"}, {"#a{b:c}", "#A{b:c}"},
		{"a{x:1.5px}", "a{x:1.6px}"}, {"a{x:1px}", "a{x:1em}"}, {"a{width:0%}", "a{width:0}"}, {"a{transition-delay:0s}", "a{transition-delay:0}"}, {"a{x:\"a\"}", "a{x:\"b\"}"},
		{"a{background:url(a)}", "a{background:url(b)}"}, {"a{background:red url(a)}", "a{background:url(a)}"}, {"a{background:url(a),red}", "a{background:url(a)}"},
		{"a{--x: a  b}", "a{--x:ab}"}, {"a{--x:1.0}", "a{--x:1}"}, {"[x=\"a b\"]{c:d}", "[x=a b]{c:d}"}, {"[x=y i]{c:d}", "[x=y]{c:d}"}, {"a{b:c}b{c:d}", "a{b:c}"},
		{"a{color:rgba(0,0,0,.5)}", "a{color:rgba(0,0,0,.4)}"}, {"a{color:hsl(0,100%,50%)}", "a{color:#f10000}"}, {"a{box-shadow:0 0 1px}", "a{box-shadow:0 0}"}, {"a{flex:1 1 auto}", "a{flex:1}"},
		{"a{unicode-range:U+0-7F}", "a{unicode-range:U+0-7E}"}, {"a{font-weight:bold}", "a{font-weight:600}"}, {"@import url(a.css);", "@import url(b.css);"}, {"@media (min-width:1px){a{b:c}}", "@media (min-width:2px){a{b:c}}"},
		{"a{background-position:right 10px top}", "a{background-position:10px 0}"}, {"a{border:1px solid}", "a{border:1px}"}, {"a{text-decoration:underline}", "a{text-decoration:none}"},
	}
	for _, p := range diffs {
		if d := CompareStylesheet(p[0], p[1]); d == nil {
			t.Errorf("not detected: %q vs %q", p[0], p[1])
		}
	}
	same := [][2]string{
		{"a{color:#FF0000}", "a{color:red}"}, {"a{margin:0px 0px}", "a{margin:0}"}, {"[x=\"y\"]{c:d}", "[x=y]{c:d}"}, {"A > B , c{d:e}", "a>b,c{d:e}"}, {"a{color:hsl(0,100%,50%)}", "a{color:red}"},
		{"a{background:none}", "a{background:0 0}"}, {"a{font:normal 12px/normal \"A B\"}", "a{font:12px a b}"}, {"a{flex:0 1 auto}", "a{flex:initial}"}, {"a{b:c ! important}", "a{b:c!important}"},
		{"a{background-position:right 10% top}", "a{background-position:90% 0}"}, {"a{border:medium none currentcolor}", "a{border:none}"}, {"a{unicode-range:U+0-7F,U+80-FF}", "a{unicode-range:U+??}"},
		{"a{x:url(\"a\")}", "a{x:url(a)}"}, {"@import url(a.css);", "@import \"a.css\""}, {"a{b:\"x\\\ny\"}", "a{b:\"xy\"}"}, {":nth-child(2n + 1){b:c}", ":nth-child(2n+1){b:c}"}, {"a{box-shadow:0 0 0 0 red}", "a{box-shadow:0 0 red}"},
		{"a{color:rgba(0,0,0,50%)}", "a{color:rgba(0,0,0,.5)}"}, {"a{b:c;}", "a{b:c}"}, {"a{/**/b:c}", "a{b:c}"},
	}
	for _, p := range same {
		if d := CompareStylesheet(p[0], p[1]); d != nil {
			t.Errorf("false alarm: %q vs %q: %s %s", p[0], p[1], d.Kind, d.What)
		}
	}
}
