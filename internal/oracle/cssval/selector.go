package cssval

import (
	"fmt"
	"regexp"
	"strconv"
	"strings"
)

// Selectors are compared as canonical token lists: the descendant combinator is made
// explicit, whitespace around the other combinators and commas is dropped, type selectors
// and pseudo-class names are folded to lower case, attribute selectors compare their value
// as a string (quoted = unquoted identifier), An+B arguments compare as (A,B).

var selectorListFuncs = map[string]bool{"not": true, "is": true, "where": true, "has": true, "matches": true, "-webkit-any": true, "-moz-any": true,
	"host": true, "host-context": true, "slotted": true, "cue": true}

var nthFuncs = map[string]bool{"nth-child": true, "nth-last-child": true, "nth-of-type": true, "nth-last-of-type": true, "nth-col": true, "nth-last-col": true}

// isCombinator also covers stray tokens that cannot be part of a compound selector
// (closing brackets, semicolons): whitespace next to them is no descendant combinator.
func isCombinator(c *Comp) bool {
	switch c.Kind {
	case KRBrace, KRParen, KRBracket, KSemicolon:
		return true
	}
	return c.Kind == KDelim && (c.Val == ">" || c.Val == "+" || c.Val == "~")
}

var anbRe = regexp.MustCompile(`^(?:([+-]?)(\d*)n)?(?:\s*([+-])\s*(\d+))?$`)
var intRe = regexp.MustCompile(`^[+-]?\d+$`)

// parseAnB interprets the An+B microsyntax (CSS Syntax 3 §6) from source text.
func parseAnB(src string) (string, bool) {
	t := strings.TrimSpace(lower(src))
	switch t {
	case "odd":
		return "2n+1", true
	case "even":
		return "2n+0", true
	case "":
		return "", false
	}
	if intRe.MatchString(t) {
		b, err := strconv.Atoi(t)
		if err != nil {
			return "", false
		}
		return fmt.Sprintf("0n+%d", b), true
	}
	m := anbRe.FindStringSubmatch(t)
	if m == nil || !strings.Contains(t, "n") {
		return "", false
	}
	a := 1
	if m[2] != "" {
		v, err := strconv.Atoi(m[2])
		if err != nil {
			return "", false
		}
		a = v
	}
	if m[1] == "-" {
		a = -a
	}
	b := 0
	if m[4] != "" {
		v, err := strconv.Atoi(m[4])
		if err != nil {
			return "", false
		}
		b = v
		if m[3] == "-" {
			b = -b
		}
	}
	return fmt.Sprintf("%dn+%d", a, b), true
}

// attrCanon canonicalises the content of an attribute selector block.
func attrCanon(args []Comp) (string, bool) {
	cs := NoWS(args)
	i := 0
	var name strings.Builder
	// [ns|]name
	for i < len(cs) && (cs[i].Kind == KIdent || cs[i].Kind == KDelim && (cs[i].Val == "|" || cs[i].Val == "*")) {
		if cs[i].Kind == KDelim && cs[i].Val == "|" && i+1 < len(cs) && isDelim(&cs[i+1], "=") {
			break
		}
		name.WriteString(cs[i].Val)
		i++
	}
	if name.Len() == 0 {
		return "", false
	}
	if i == len(cs) {
		return "[" + name.String() + "]", true
	}
	var op strings.Builder
	for i < len(cs) && cs[i].Kind == KDelim {
		op.WriteString(cs[i].Val)
		i++
	}
	switch op.String() {
	case "=", "~=", "|=", "^=", "$=", "*=":
	default:
		return "", false
	}
	if i >= len(cs) || cs[i].Kind != KIdent && cs[i].Kind != KString {
		return "", false
	}
	val := cs[i].Val
	i++
	flag := ""
	if i < len(cs) && cs[i].Kind == KIdent {
		flag = lower(cs[i].Val)
		i++
	}
	if i != len(cs) {
		return "", false
	}
	return "[" + name.String() + op.String() + strconv.Quote(val) + " " + flag + "]", true
}

// selectorCanon returns the canonical token list of a selector list.
func selectorCanon(cs []Comp) []string {
	var out []string
	x, before, _ := wsFlags(cs)
	for i := range x {
		c := &x[i]
		if i > 0 && before[i] && !isCombinator(c) && !isCombinator(&x[i-1]) && c.Kind != KComma && x[i-1].Kind != KComma {
			out = append(out, " ")
		} else if i > 0 && c.Cmt && !before[i] {
			out = append(out, "/**/") // a comment between two tokens is not a combinator
		}
		switch c.Kind {
		case KIdent:
			switch {
			case i > 0 && isDelim(&x[i-1], ".") && !before[i]:
				out = append(out, "class:"+c.Val)
			case i+1 < len(x) && isDelim(&x[i+1], "|") && !before[i+1]:
				out = append(out, "ns:"+c.Val)
			default:
				out = append(out, "i:"+lower(c.Val))
			}
		case KHash:
			out = append(out, "#"+c.Val)
		case KLBracket:
			if s, ok := attrCanon(c.Args); ok && c.Closed {
				out = append(out, s)
			} else {
				out = append(out, "[raw:"+strings.Join(rawCanon(c.Args), "\x00")+"]")
			}
		case KFunction:
			name := lower(c.Val)
			switch {
			case !c.Closed:
				out = append(out, "f:"+name+"(unclosed:"+strings.Join(rawCanon(c.Args), "\x00"))
			case selectorListFuncs[name]:
				out = append(out, "f:"+name+"(")
				out = append(out, selectorCanon(Trim(c.Args))...)
				out = append(out, ")")
			case nthFuncs[name]:
				if s, ok := parseAnB(RawOf(c.Args)); ok {
					out = append(out, "f:"+name+"("+s+")")
				} else {
					out = append(out, "f:"+name+"("+strings.Join(rawCanon(c.Args), "\x00")+")")
				}
			case name == "lang" || name == "dir":
				out = append(out, "f:"+name+"("+lower(strings.Join(rawCanon(c.Args), "\x00"))+")")
			default:
				out = append(out, "f:"+name+"("+strings.Join(rawCanon(c.Args), "\x00")+")")
			}
		case KNumber, KPercentage:
			out = append(out, c.Kind.String()+":"+numCanon(c.Num))
		case KDimension:
			out = append(out, "dim:"+numCanon(c.Num)+lower(c.Unit))
		case KString:
			out = append(out, "s:"+c.Val)
		case KLParen, KLBrace:
			out = append(out, c.Raw+strings.Join(rawCanon(c.Args), "\x00")+")")
		default:
			out = append(out, c.Kind.String()+":"+c.Raw)
		}
	}
	return out
}

// rawCanon is the strict form: every token by its source text, whitespace runs as one
// space, leading and trailing whitespace dropped.
func rawCanon(cs []Comp) []string {
	var out []string
	cs = Trim(cs)
	for i := range cs {
		c := &cs[i]
		switch {
		case c.Kind == KWS:
			out = append(out, " ")
		case c.IsFunc() || c.IsBlock():
			out = append(out, c.Raw)
			out = append(out, rawCanon(c.Args)...)
			if c.Closed {
				out = append(out, "close")
			}
		case c.Kind == KString:
			out = append(out, "s:"+c.Val)
		default:
			out = append(out, c.Raw)
		}
	}
	return out
}

func eqStrings(a, b []string) bool {
	if len(a) != len(b) {
		return false
	}
	for i := range a {
		if a[i] != b[i] {
			return false
		}
	}
	return true
}

// SelectorEqual compares two style-rule preludes.
func SelectorEqual(a, b []Comp) bool { return SelectorDiff(a, b) == "" }

// SelectorDiff returns "" when equal, else the class of the first differing canonical token
// (type, class, ns, attribute, combinator, pseudo-argument:<name>, ...).
func SelectorDiff(a, b []Comp) string {
	x, y := selectorCanon(Trim(a)), selectorCanon(Trim(b))
	if eqStrings(x, y) {
		return ""
	}
	for i := range x {
		if i >= len(y) || x[i] != y[i] {
			t := x[i]
			switch {
			case strings.HasPrefix(t, "ns:"):
				return "namespace-prefix"
			case strings.HasPrefix(t, "class:"):
				return "class"
			case strings.HasPrefix(t, "i:"):
				return "name"
			case strings.HasPrefix(t, "#"):
				return "id"
			case strings.HasPrefix(t, "["):
				return "attribute"
			case strings.HasPrefix(t, "f:"):
				if j := strings.IndexByte(t, '('); j > 0 {
					return "pseudo-argument:" + t[2:j]
				}
			case t == " ":
				return "combinator"
			}
			return "token"
		}
	}
	return "length"
}

// preludeCanon canonicalises an at-rule prelude: tokens by source text; whitespace between
// two tokens is kept unless one of them is a comma or a colon or it is at the edge of a
// block; url(x) and "x" are the same in @import.
func preludeCanon(at string, cs []Comp) []string {
	var out []string
	x, before, _ := wsFlags(Trim(cs))
	for i := range x {
		c := &x[i]
		if i > 0 && before[i] && c.Kind != KComma && c.Kind != KColon && x[i-1].Kind != KComma && x[i-1].Kind != KColon {
			out = append(out, " ")
		}
		switch {
		case at == "import" && i == 0:
			if u, ok := urlValue(c); ok {
				out = append(out, "url:"+u)
			} else if c.Kind == KString {
				out = append(out, "url:"+c.Val)
			} else {
				out = append(out, c.Raw)
			}
		case c.IsFunc() || c.IsBlock():
			out = append(out, lowerIfFunc(c))
			out = append(out, preludeCanon("", c.Args)...)
			if c.Closed {
				out = append(out, "close")
			}
		case c.Kind == KString:
			out = append(out, "s:"+c.Val)
		default:
			out = append(out, c.Raw)
		}
	}
	return out
}

func lowerIfFunc(c *Comp) string { return c.Raw }

// PreludeEqual compares two at-rule preludes.
func PreludeEqual(at string, a, b []Comp) bool {
	return eqStrings(preludeCanon(at, a), preludeCanon(at, b))
}
