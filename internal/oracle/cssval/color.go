package cssval

import (
	"math/big"
	"strings"

	"verif/internal/numref"
)

// NamedColors is the named colour table of CSS Color Level 4 §6.1 (148 keywords), written
// from the specification; values are 0xRRGGBB.
var NamedColors = map[string]uint32{
	"aliceblue": 0xF0F8FF, "antiquewhite": 0xFAEBD7, "aqua": 0x00FFFF, "aquamarine": 0x7FFFD4, "azure": 0xF0FFFF,
	"beige": 0xF5F5DC, "bisque": 0xFFE4C4, "black": 0x000000, "blanchedalmond": 0xFFEBCD, "blue": 0x0000FF,
	"blueviolet": 0x8A2BE2, "brown": 0xA52A2A, "burlywood": 0xDEB887, "cadetblue": 0x5F9EA0, "chartreuse": 0x7FFF00,
	"chocolate": 0xD2691E, "coral": 0xFF7F50, "cornflowerblue": 0x6495ED, "cornsilk": 0xFFF8DC, "crimson": 0xDC143C,
	"cyan": 0x00FFFF, "darkblue": 0x00008B, "darkcyan": 0x008B8B, "darkgoldenrod": 0xB8860B, "darkgray": 0xA9A9A9,
	"darkgreen": 0x006400, "darkgrey": 0xA9A9A9, "darkkhaki": 0xBDB76B, "darkmagenta": 0x8B008B, "darkolivegreen": 0x556B2F,
	"darkorange": 0xFF8C00, "darkorchid": 0x9932CC, "darkred": 0x8B0000, "darksalmon": 0xE9967A, "darkseagreen": 0x8FBC8F,
	"darkslateblue": 0x483D8B, "darkslategray": 0x2F4F4F, "darkslategrey": 0x2F4F4F, "darkturquoise": 0x00CED1, "darkviolet": 0x9400D3,
	"deeppink": 0xFF1493, "deepskyblue": 0x00BFFF, "dimgray": 0x696969, "dimgrey": 0x696969, "dodgerblue": 0x1E90FF,
	"firebrick": 0xB22222, "floralwhite": 0xFFFAF0, "forestgreen": 0x228B22, "fuchsia": 0xFF00FF, "gainsboro": 0xDCDCDC,
	"ghostwhite": 0xF8F8FF, "gold": 0xFFD700, "goldenrod": 0xDAA520, "gray": 0x808080, "green": 0x008000,
	"greenyellow": 0xADFF2F, "grey": 0x808080, "honeydew": 0xF0FFF0, "hotpink": 0xFF69B4, "indianred": 0xCD5C5C,
	"indigo": 0x4B0082, "ivory": 0xFFFFF0, "khaki": 0xF0E68C, "lavender": 0xE6E6FA, "lavenderblush": 0xFFF0F5,
	"lawngreen": 0x7CFC00, "lemonchiffon": 0xFFFACD, "lightblue": 0xADD8E6, "lightcoral": 0xF08080, "lightcyan": 0xE0FFFF,
	"lightgoldenrodyellow": 0xFAFAD2, "lightgray": 0xD3D3D3, "lightgreen": 0x90EE90, "lightgrey": 0xD3D3D3, "lightpink": 0xFFB6C1,
	"lightsalmon": 0xFFA07A, "lightseagreen": 0x20B2AA, "lightskyblue": 0x87CEFA, "lightslategray": 0x778899, "lightslategrey": 0x778899,
	"lightsteelblue": 0xB0C4DE, "lightyellow": 0xFFFFE0, "lime": 0x00FF00, "limegreen": 0x32CD32, "linen": 0xFAF0E6,
	"magenta": 0xFF00FF, "maroon": 0x800000, "mediumaquamarine": 0x66CDAA, "mediumblue": 0x0000CD, "mediumorchid": 0xBA55D3,
	"mediumpurple": 0x9370DB, "mediumseagreen": 0x3CB371, "mediumslateblue": 0x7B68EE, "mediumspringgreen": 0x00FA9A, "mediumturquoise": 0x48D1CC,
	"mediumvioletred": 0xC71585, "midnightblue": 0x191970, "mintcream": 0xF5FFFA, "mistyrose": 0xFFE4E1, "moccasin": 0xFFE4B5,
	"navajowhite": 0xFFDEAD, "navy": 0x000080, "oldlace": 0xFDF5E6, "olive": 0x808000, "olivedrab": 0x6B8E23,
	"orange": 0xFFA500, "orangered": 0xFF4500, "orchid": 0xDA70D6, "palegoldenrod": 0xEEE8AA, "palegreen": 0x98FB98,
	"paleturquoise": 0xAFEEEE, "palevioletred": 0xDB7093, "papayawhip": 0xFFEFD5, "peachpuff": 0xFFDAB9, "peru": 0xCD853F,
	"pink": 0xFFC0CB, "plum": 0xDDA0DD, "powderblue": 0xB0E0E6, "purple": 0x800080, "rebeccapurple": 0x663399,
	"red": 0xFF0000, "rosybrown": 0xBC8F8F, "royalblue": 0x4169E1, "saddlebrown": 0x8B4513, "salmon": 0xFA8072,
	"sandybrown": 0xF4A460, "seagreen": 0x2E8B57, "seashell": 0xFFF5EE, "sienna": 0xA0522D, "silver": 0xC0C0C0,
	"skyblue": 0x87CEEB, "slateblue": 0x6A5ACD, "slategray": 0x708090, "slategrey": 0x708090, "snow": 0xFFFAFA,
	"springgreen": 0x00FF7F, "steelblue": 0x4682B4, "tan": 0xD2B48C, "teal": 0x008080, "thistle": 0xD8BFD8,
	"tomato": 0xFF6347, "turquoise": 0x40E0D0, "violet": 0xEE82EE, "wheat": 0xF5DEB3, "white": 0xFFFFFF,
	"whitesmoke": 0xF5F5F5, "yellow": 0xFFFF00, "yellowgreen": 0x9ACD32,
}

// Color is an sRGB colour: channels as exact rationals in [0,255], alpha in [0,1].
type Color struct {
	R, G, B, A *big.Rat
}

func ratInt(n int64) *big.Rat { return new(big.Rat).SetInt64(n) }

var (
	rat0   = ratInt(0)
	rat1   = ratInt(1)
	rat100 = ratInt(100)
	rat255 = ratInt(255)
	rat360 = ratInt(360)
	ratH   = big.NewRat(1, 2)
)

func fromRGB24(v uint32, a *big.Rat) Color {
	return Color{ratInt(int64(v >> 16 & 255)), ratInt(int64(v >> 8 & 255)), ratInt(int64(v & 255)), a}
}

// numRat converts a CSS number lexeme to an exact rational; ok=false for absurd exponents.
func numRat(s string) (*big.Rat, bool) {
	n, ok := numref.Parse(s)
	if !ok {
		return nil, false
	}
	if n.IsZero() {
		return new(big.Rat), true
	}
	if !n.Exp.IsInt64() || n.Exp.Int64() > 400 || n.Exp.Int64() < -400 {
		return nil, false
	}
	r := new(big.Rat).SetInt(n.Digits)
	e := n.Exp.Int64()
	p := new(big.Int).Exp(big.NewInt(10), big.NewInt(abs64(e)), nil)
	if e >= 0 {
		r.Mul(r, new(big.Rat).SetInt(p))
	} else {
		r.Quo(r, new(big.Rat).SetInt(p))
	}
	if n.Neg {
		r.Neg(r)
	}
	return r, true
}

func abs64(x int64) int64 {
	if x < 0 {
		return -x
	}
	return x
}

func clamp(r, lo, hi *big.Rat) *big.Rat {
	if r.Cmp(lo) < 0 {
		return lo
	}
	if r.Cmp(hi) > 0 {
		return hi
	}
	return r
}

func hexVal(c byte) int64 {
	switch {
	case c >= '0' && c <= '9':
		return int64(c - '0')
	case c >= 'a' && c <= 'f':
		return int64(c-'a') + 10
	case c >= 'A' && c <= 'F':
		return int64(c-'A') + 10
	}
	return -1
}

// hexColor interprets the name of a hash token as #rgb, #rgba, #rrggbb or #rrggbbaa.
func hexColor(s string) (Color, bool) {
	var d [8]int64
	n := len(s)
	if n != 3 && n != 4 && n != 6 && n != 8 {
		return Color{}, false
	}
	for i := 0; i < n; i++ {
		d[i] = hexVal(s[i])
		if d[i] < 0 {
			return Color{}, false
		}
	}
	a := rat1
	if n <= 4 {
		if n == 4 {
			a = big.NewRat(d[3]*17, 255)
		}
		return Color{ratInt(d[0] * 17), ratInt(d[1] * 17), ratInt(d[2] * 17), a}, true
	}
	if n == 8 {
		a = big.NewRat(d[6]*16+d[7], 255)
	}
	return Color{ratInt(d[0]*16 + d[1]), ratInt(d[2]*16 + d[3]), ratInt(d[4]*16 + d[5]), a}, true
}

// splitColorArgs recognises the legacy (comma) and modern (space, "/ alpha") argument
// syntaxes and returns the three channel components and the optional alpha component.
func splitColorArgs(args []Comp) (ch []Comp, alpha *Comp, legacy, ok bool) {
	a := NoWS(args)
	hasComma := false
	for i := range a {
		if a[i].Kind == KComma {
			hasComma = true
		}
	}
	if hasComma {
		// c , c , c [, a]
		if len(a) != 5 && len(a) != 7 {
			return nil, nil, true, false
		}
		for i := range a {
			if (i%2 == 1) != (a[i].Kind == KComma) {
				return nil, nil, true, false
			}
		}
		ch = []Comp{a[0], a[2], a[4]}
		if len(a) == 7 {
			alpha = &a[6]
		}
		return ch, alpha, true, true
	}
	if len(a) == 3 {
		return a, nil, false, true
	}
	if len(a) == 5 && a[3].Kind == KDelim && a[3].Val == "/" {
		return a[:3], &a[4], false, true
	}
	return nil, nil, false, false
}

func alphaOf(c *Comp) (*big.Rat, bool) {
	if c == nil {
		return rat1, true
	}
	switch c.Kind {
	case KNumber:
		r, ok := numRat(c.Num)
		if !ok {
			return nil, false
		}
		return clamp(r, rat0, rat1), true
	case KPercentage:
		r, ok := numRat(c.Num)
		if !ok {
			return nil, false
		}
		return clamp(new(big.Rat).Quo(r, rat100), rat0, rat1), true
	}
	return nil, false
}

var angleToDeg = map[string]*big.Rat{"deg": ratInt(1), "grad": big.NewRat(9, 10), "turn": ratInt(360)}

// funcColor interprets rgb()/rgba()/hsl()/hsla() (CSS Color 4 §5, §7); "none" components,
// calc() and rad hues are outside the grammar of this oracle (ok=false).
func funcColor(c *Comp) (Color, bool) {
	name := c.FuncName()
	if !c.Closed {
		return Color{}, false
	}
	switch name {
	case "rgb", "rgba":
		ch, al, legacy, ok := splitColorArgs(c.Args)
		if !ok {
			return Color{}, false
		}
		a, ok := alphaOf(al)
		if !ok {
			return Color{}, false
		}
		var out [3]*big.Rat
		nPct := 0
		for i := range ch {
			r, ok := numRat(ch[i].Num)
			switch {
			case ch[i].Kind == KNumber && ok:
				out[i] = clamp(r, rat0, rat255)
			case ch[i].Kind == KPercentage && ok:
				nPct++
				out[i] = clamp(new(big.Rat).Quo(new(big.Rat).Mul(r, rat255), rat100), rat0, rat255)
			default:
				return Color{}, false
			}
		}
		if legacy && nPct != 0 && nPct != 3 {
			return Color{}, false // legacy syntax does not mix numbers and percentages
		}
		return Color{out[0], out[1], out[2], a}, true
	case "hsl", "hsla":
		ch, al, legacy, ok := splitColorArgs(c.Args)
		if !ok {
			return Color{}, false
		}
		a, ok := alphaOf(al)
		if !ok {
			return Color{}, false
		}
		var h *big.Rat
		switch ch[0].Kind {
		case KNumber:
			h, ok = numRat(ch[0].Num)
		case KDimension:
			f := angleToDeg[lower(ch[0].Unit)]
			if f == nil {
				return Color{}, false
			}
			h, ok = numRat(ch[0].Num)
			if ok {
				h = new(big.Rat).Mul(h, f)
			}
		default:
			return Color{}, false
		}
		if !ok {
			return Color{}, false
		}
		var sl [2]*big.Rat
		for i := 0; i < 2; i++ {
			k := ch[i+1].Kind
			if k != KPercentage && !(k == KNumber && !legacy) {
				return Color{}, false
			}
			r, ok := numRat(ch[i+1].Num)
			if !ok {
				return Color{}, false
			}
			sl[i] = clamp(new(big.Rat).Quo(r, rat100), rat0, rat1)
		}
		r, g, b := hslToRGB(h, sl[0], sl[1])
		return Color{r, g, b, a}, true
	}
	return Color{}, false
}

// hslToRGB is the algorithm of CSS Color 4 §7.1 in exact arithmetic; result in [0,255].
func hslToRGB(hue, s, l *big.Rat) (r, g, b *big.Rat) {
	// hue mod 360
	h := new(big.Rat).Set(hue)
	q := new(big.Rat).Quo(h, rat360)
	fl := new(big.Int).Div(q.Num(), q.Denom()) // floor (Div is Euclidean; denominator positive)
	h.Sub(h, new(big.Rat).Mul(new(big.Rat).SetInt(fl), rat360))
	minL := l
	if new(big.Rat).Sub(rat1, l).Cmp(l) < 0 {
		minL = new(big.Rat).Sub(rat1, l)
	}
	a := new(big.Rat).Mul(s, minL)
	f := func(n int64) *big.Rat {
		k := new(big.Rat).Add(ratInt(n), new(big.Rat).Quo(h, ratInt(30)))
		for k.Cmp(ratInt(12)) >= 0 {
			k.Sub(k, ratInt(12))
		}
		m := new(big.Rat).Sub(k, ratInt(3))
		if t := new(big.Rat).Sub(ratInt(9), k); t.Cmp(m) < 0 {
			m = t
		}
		if m.Cmp(rat1) > 0 {
			m = rat1
		}
		if m.Cmp(ratInt(-1)) < 0 {
			m = ratInt(-1)
		}
		v := new(big.Rat).Sub(l, new(big.Rat).Mul(a, m))
		return v.Mul(v, rat255)
	}
	return f(0), f(8), f(4)
}

// ColorOf interprets a component as a colour: named colour, transparent, hex, rgb()/hsl().
// currentcolor and system colours are not colours in this sense (see colorCanon).
func ColorOf(c *Comp) (Color, bool) {
	switch c.Kind {
	case KIdent:
		n := lower(c.Val)
		if n == "transparent" {
			return Color{rat0, rat0, rat0, rat0}, true
		}
		if v, ok := NamedColors[n]; ok {
			return fromRGB24(v, rat1), true
		}
	case KHash:
		return hexColor(c.Val)
	case KFunction:
		return funcColor(c)
	}
	return Color{}, false
}

func isInt(r *big.Rat) bool { return r.IsInt() }

func chanEq(a, b *big.Rat) bool {
	if a.Cmp(b) == 0 {
		return true
	}
	if isInt(a) == isInt(b) {
		return false
	}
	// one side is an 8-bit value, the other an unrounded channel: accept any rounding of
	// an exact half, i.e. |a-b| <= 1/2
	d := new(big.Rat).Sub(a, b)
	d.Abs(d)
	return d.Cmp(ratH) <= 0
}

// Equal reports equality of 8-bit sRGB channels (an unrounded channel matches the 8-bit
// value it rounds to; a tie matches both neighbours) and exact equality of alpha.
func (c Color) Equal(d Color) bool {
	return chanEq(c.R, d.R) && chanEq(c.G, d.G) && chanEq(c.B, d.B) && c.A.Cmp(d.A) == 0
}

func (c Color) String() string {
	return "rgba(" + c.R.RatString() + "," + c.G.RatString() + "," + c.B.RatString() + "," + c.A.RatString() + ")"
}

var systemColors = map[string]bool{"canvas": true, "canvastext": true, "linktext": true, "visitedtext": true, "activetext": true,
	"buttonface": true, "buttontext": true, "buttonborder": true, "field": true, "fieldtext": true, "highlight": true,
	"highlighttext": true, "selecteditem": true, "selecteditemtext": true, "mark": true, "marktext": true, "graytext": true,
	"accentcolor": true, "accentcolortext": true}

// isColorComp reports whether the component is a <color> of the oracle's grammar and
// returns a canonical key for the non-sRGB ones (currentcolor, system colours).
func isColorComp(c *Comp) (col Color, key string, ok bool) {
	if col, ok := ColorOf(c); ok {
		return col, "", true
	}
	if c.Kind == KIdent {
		n := lower(c.Val)
		if n == "currentcolor" || systemColors[n] {
			return Color{}, n, true
		}
	}
	return Color{}, "", false
}

var _ = strings.ToLower
