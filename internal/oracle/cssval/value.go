package cssval

import (
	"encoding/base64"
	"fmt"
	"strings"

	"verif/internal/numref"
)

// lengthUnits are the <length> units of CSS Values 4 (absolute, font-relative, viewport and
// container units). A unitless zero is a valid <length> only where a <length> is expected.
var lengthUnits = map[string]bool{"px": true, "mm": true, "q": true, "cm": true, "in": true, "pt": true, "pc": true,
	"em": true, "rem": true, "ex": true, "rex": true, "cap": true, "rcap": true, "ch": true, "rch": true, "ic": true, "ric": true, "lh": true, "rlh": true,
	"vw": true, "vh": true, "vi": true, "vb": true, "vmin": true, "vmax": true,
	"svw": true, "svh": true, "svi": true, "svb": true, "svmin": true, "svmax": true,
	"lvw": true, "lvh": true, "lvi": true, "lvb": true, "lvmin": true, "lvmax": true,
	"dvw": true, "dvh": true, "dvi": true, "dvb": true, "dvmin": true, "dvmax": true,
	"cqw": true, "cqh": true, "cqi": true, "cqb": true, "cqmin": true, "cqmax": true}

// Mode selects how whitespace and the zero-length rule are treated by GenericEqual.
type Mode int

const (
	ModeTop    Mode = iota // top level of a declaration value: whitespace only separates tokens; a zero <length> may lose its unit
	ModeNested             // inside a function or block: no unit may be dropped; whitespace around + and - is significant
	ModeStrict             // custom properties, unknown at-rule bodies: presence of whitespace between two tokens is significant
)

func numEq(a, b string) bool {
	x, ok1 := numref.Parse(a)
	y, ok2 := numref.Parse(b)
	return ok1 && ok2 && x.Equal(y)
}

func numZero(a string) bool {
	x, ok := numref.Parse(a)
	return ok && x.IsZero()
}

func numCanon(a string) string {
	x, ok := numref.Parse(a)
	if !ok {
		return "?" + a
	}
	return x.String()
}

// urlValue recognises url-token and url("string") and returns the URL.
func urlValue(c *Comp) (string, bool) {
	if c.Kind == KURL {
		return c.Val, true
	}
	if c.Kind == KFunction && lower(c.Val) == "url" && c.Closed {
		a := NoWS(c.Args)
		if len(a) == 1 && a[0].Kind == KString {
			return a[0].Val, true
		}
	}
	return "", false
}

func isColorFunc(c *Comp) bool {
	if c.Kind != KFunction {
		return false
	}
	switch lower(c.Val) {
	case "rgb", "rgba", "hsl", "hsla":
		return true
	}
	return false
}

// wsFlags returns the non-whitespace components and, for each, whether whitespace (or a
// comment, which separates tokens in the same way) precedes it; trail reports trailing
// whitespace.
func wsFlags(cs []Comp) (out []Comp, before []bool, trail bool) {
	ws := false
	for i := range cs {
		if cs[i].Kind == KWS {
			ws = true
			continue
		}
		out = append(out, cs[i])
		before = append(before, ws)
		ws = false
	}
	return out, before, ws
}

// GenericEqual compares two component lists token for token up to insignificant whitespace
// and the value-preserving spellings of single tokens: equal numbers, case-insensitive
// units and function names, equal strings and URLs after unescaping, url(x) = url("x"), a
// valid rgb()/hsl() function = any spelling of the same colour. It returns "" when equal,
// else a description of the first difference.
func GenericEqual(a, b []Comp, mode Mode) string {
	x, xb, xt := wsFlags(a)
	y, yb, yt := wsFlags(b)
	if len(x) != len(y) {
		return fmt.Sprintf("%d components became %d (%q -> %q)", len(x), len(y), RawOf(a), RawOf(b))
	}
	for i := range x {
		if d := compEqual(&x[i], &y[i], mode); d != "" {
			return d
		}
	}
	for i := range x {
		sig := false
		switch mode {
		case ModeStrict:
			sig = i > 0
		case ModeNested:
			// whitespace is required around + and - in calc(); keep it wherever it was
			if i > 0 && (isPlusMinus(&x[i]) || isPlusMinus(&x[i-1])) {
				sig = true
			}
		}
		if sig && xb[i] != yb[i] {
			return fmt.Sprintf("whitespace before %q changed (%q -> %q)", x[i].Raw, RawOf(a), RawOf(b))
		}
	}
	_, _ = xt, yt
	return ""
}

func isPlusMinus(c *Comp) bool {
	return c.Kind == KDelim && (c.Val == "+" || c.Val == "-")
}

func compEqual(a, b *Comp, mode Mode) string {
	diff := func() string { return fmt.Sprintf("%q became %q", RawOf([]Comp{*a}), RawOf([]Comp{*b})) }
	// colour functions
	if isColorFunc(a) && mode != ModeStrict {
		if ca, ok := funcColor(a); ok {
			cb, ok := ColorOf(b)
			if !ok || !ca.Equal(cb) {
				return "[colour-value] " + diff()
			}
			return ""
		}
	}
	if ua, ok := urlValue(a); ok && mode != ModeStrict {
		ub, ok := urlValue(b)
		if !ok || !urlEqual(ua, ub) {
			return "[url-value] " + diff()
		}
		return ""
	}
	if a.Kind != b.Kind {
		if (a.Kind == KDimension || a.Kind == KPercentage) && b.Kind == KNumber && numZero(a.Num) && numZero(b.Num) {
			isLen := a.Kind == KDimension && lengthUnits[lower(a.Unit)]
			switch {
			case mode == ModeTop && isLen:
				return ""
			case mode != ModeTop:
				return "[zero-unit-in-function] " + diff()
			case a.Kind == KPercentage:
				return "[zero-percent-unit] " + diff()
			}
			return "[zero-" + lower(a.Unit) + "-unit] " + diff()
		}
		return diff()
	}
	switch a.Kind {
	case KIdent, KHash, KAtKeyword, KDelim:
		if a.Val != b.Val {
			return diff()
		}
	case KString:
		if mode == ModeStrict && a.Raw != b.Raw || a.Val != b.Val {
			return "[string-value] " + diff()
		}
	case KNumber, KPercentage:
		if mode == ModeStrict {
			if a.Raw != b.Raw {
				return diff()
			}
		} else if !numEq(a.Num, b.Num) {
			return "[number-value] " + diff()
		}
	case KDimension:
		if mode == ModeStrict {
			if a.Raw != b.Raw {
				return diff()
			}
		} else if !numEq(a.Num, b.Num) || lower(a.Unit) != lower(b.Unit) {
			return "[number-value] " + diff()
		}
	case KFunction:
		if mode == ModeStrict && a.Val != b.Val || lower(a.Val) != lower(b.Val) {
			return diff()
		}
		m := ModeNested
		if mode == ModeStrict {
			m = ModeStrict
		}
		return GenericEqual(a.Args, b.Args, m)
	case KLParen, KLBracket, KLBrace:
		// a block left open at the end of the input is closed implicitly (CSS Syntax §5.4.8)
		m := ModeNested
		if mode == ModeStrict {
			m = ModeStrict
		}
		return GenericEqual(a.Args, b.Args, m)
	case KBadString, KBadURL, KURL:
		if a.Raw != b.Raw {
			return diff()
		}
	}
	return ""
}

// LV is one leaf of an interpreted value: a canonical text, a colour, or an opaque
// component compared with GenericEqual in nested mode.
type LV struct {
	S      string
	Col    *Color
	Opaque []Comp
}

func (v LV) String() string {
	switch {
	case v.Col != nil:
		return v.Col.String()
	case v.Opaque != nil:
		return "«" + RawOf(v.Opaque) + "»"
	}
	return v.S
}

func lvEqual(a, b LV) bool {
	switch {
	case a.Col != nil || b.Col != nil:
		return a.Col != nil && b.Col != nil && a.Col.Equal(*b.Col)
	case a.Opaque != nil || b.Opaque != nil:
		return a.Opaque != nil && b.Opaque != nil && GenericEqual(a.Opaque, b.Opaque, ModeNested) == ""
	}
	return a.S == b.S
}

// Longhand is one expanded longhand (or descriptor) with its value leaves.
type Longhand struct {
	Name string
	V    []LV
}

// Longhands is an ordered expansion.
type Longhands []Longhand

func (l Longhands) String() string {
	var b strings.Builder
	for i, h := range l {
		if i > 0 {
			b.WriteString("; ")
		}
		b.WriteString(h.Name)
		b.WriteString(":")
		for j, v := range h.V {
			if j > 0 {
				b.WriteString(" ")
			}
			b.WriteString(v.String())
		}
	}
	return b.String()
}

// Tag returns the sub-domain tag of an expansion ("" when none). Tags are derived from the
// input value alone and only refine Diff.Kind; they take no part in the comparison.
func (l Longhands) Tag() string {
	if len(l) > 0 && l[0].Name == "#tag" {
		return l[0].V[0].S
	}
	return ""
}

func (l Longhands) untagged() Longhands {
	if l.Tag() != "" {
		return l[1:]
	}
	return l
}

// EqualLonghands compares two expansions.
func EqualLonghands(a, b Longhands) bool { return DiffLonghands(a, b) == "" }

// DiffLonghands returns "" when the expansions are equal, else the name of the first
// longhand whose value differs.
func DiffLonghands(a, b Longhands) string {
	a, b = a.untagged(), b.untagged()
	for i := range a {
		if i >= len(b) || a[i].Name != b[i].Name || len(a[i].V) != len(b[i].V) {
			return a[i].Name
		}
		for j := range a[i].V {
			if !lvEqual(a[i].V[j], b[i].V[j]) {
				return a[i].Name
			}
		}
	}
	if len(a) != len(b) {
		return "layers"
	}
	return ""
}

func s(x string) LV     { return LV{S: x} }
func one(x string) []LV { return []LV{{S: x}} }
func kw(c *Comp) string {
	if c.Kind == KIdent {
		return lower(c.Val)
	}
	return ""
}

func isDelim(c *Comp, d string) bool { return c.Kind == KDelim && c.Val == d }

var mathFuncs = map[string]bool{"calc": true, "min": true, "max": true, "clamp": true}

// isMath reports a math function (its type is not checked).
func isMath(c *Comp) bool { return c.Kind == KFunction && mathFuncs[lower(c.Val)] && c.Closed }

const zeroLen = "0"

// lengthLV: <length> (dimension with a length unit, unitless zero, math function).
func lengthLV(c *Comp) (LV, bool) {
	switch {
	case c.Kind == KDimension && lengthUnits[lower(c.Unit)]:
		if numZero(c.Num) {
			return s(zeroLen), true
		}
		return s(numCanon(c.Num) + lower(c.Unit)), true
	case c.Kind == KNumber && numZero(c.Num):
		return s(zeroLen), true
	case isMath(c):
		return LV{Opaque: []Comp{*c}}, true
	}
	return LV{}, false
}

func percentLV(c *Comp) (LV, bool) {
	if c.Kind == KPercentage {
		return s(numCanon(c.Num) + "%"), true
	}
	return LV{}, false
}

func lengthPctLV(c *Comp) (LV, bool) {
	if v, ok := percentLV(c); ok {
		return v, true
	}
	return lengthLV(c)
}

func numberLV(c *Comp) (LV, bool) {
	if c.Kind == KNumber {
		return s("n" + numCanon(c.Num)), true
	}
	return LV{}, false
}

// integerLV: <integer> — decimal digits with an optional sign; 1e3 and 1.0 are numbers, not integers.
func integerLV(c *Comp) (LV, bool) {
	if c.Kind != KNumber {
		return LV{}, false
	}
	n := c.Num
	if len(n) > 0 && (n[0] == '+' || n[0] == '-') {
		n = n[1:]
	}
	if n == "" {
		return LV{}, false
	}
	for i := 0; i < len(n); i++ {
		if n[i] < '0' || n[i] > '9' {
			return LV{}, false
		}
	}
	return s("n" + numCanon(c.Num)), true
}

// colorLV: <color> of the oracle's grammar.
func colorLV(c *Comp) (LV, bool) {
	col, key, ok := isColorComp(c)
	if !ok {
		return LV{}, false
	}
	if key != "" {
		return s(key), true
	}
	return LV{Col: &col}, true
}

func kwLV(c *Comp, set ...string) (LV, bool) {
	k := kw(c)
	if k == "" {
		return LV{}, false
	}
	for _, x := range set {
		if x == k {
			return s(k), true
		}
	}
	return LV{}, false
}

// splitCommas splits a whitespace-free component list at top-level commas.
func splitCommas(cs []Comp) [][]Comp {
	var out [][]Comp
	st := 0
	for i := range cs {
		if cs[i].Kind == KComma {
			out = append(out, cs[st:i])
			st = i + 1
		}
	}
	return append(out, cs[st:])
}

func hasVar(cs []Comp) bool {
	for i := range cs {
		if cs[i].Kind == KFunction && (lower(cs[i].Val) == "var" || lower(cs[i].Val) == "env" || lower(cs[i].Val) == "attr") {
			return true
		}
		if hasVar(cs[i].Args) {
			return true
		}
	}
	return false
}

// dataURI decodes a data: URL (RFC 2397) to its normalised media type and payload bytes.
func dataURI(u string) (mt string, payload []byte, ok bool) {
	if len(u) < 5 || !strings.EqualFold(u[:5], "data:") {
		return "", nil, false
	}
	rest := u[5:]
	comma := strings.IndexByte(rest, ',')
	if comma < 0 {
		return "", nil, false
	}
	head, data := rest[:comma], rest[comma+1:]
	b64 := false
	if i := strings.LastIndexByte(head, ';'); i >= 0 && strings.EqualFold(strings.TrimSpace(head[i+1:]), "base64") {
		b64 = true
		head = head[:i]
	}
	head = lower(strings.Join(strings.Fields(head), ""))
	parts := strings.Split(head, ";")
	if parts[0] == "" {
		parts[0] = "text/plain"
	}
	mt = parts[0]
	for _, p := range parts[1:] {
		if p != "" && p != "charset=us-ascii" {
			mt += ";" + p
		}
	}
	if b64 {
		p, err := base64.StdEncoding.DecodeString(data)
		if err != nil {
			return "", nil, false
		}
		return mt, p, true
	}
	for i := 0; i < len(data); i++ {
		if data[i] == '%' && i+2 < len(data) && hexVal(data[i+1]) >= 0 && hexVal(data[i+2]) >= 0 {
			payload = append(payload, byte(hexVal(data[i+1])<<4|hexVal(data[i+2])))
			i += 2
			continue
		}
		payload = append(payload, data[i])
	}
	return mt, payload, true
}

// urlEqual: equal strings, or two data: URLs with the same media type and payload.
func urlEqual(a, b string) bool {
	if a == b {
		return true
	}
	ma, pa, ok1 := dataURI(a)
	mb, pb, ok2 := dataURI(b)
	return ok1 && ok2 && ma == mb && string(pa) == string(pb)
}
