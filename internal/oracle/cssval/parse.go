package cssval

import "strings"

// Comp is a component value (CSS Syntax §5.3): a preserved token, a function with its
// arguments, or a simple block. Whitespace tokens are kept as components.
type Comp struct {
	Token
	Args   []Comp // contents of a function or block
	Closed bool   // the closing bracket was present
}

func (c *Comp) IsFunc() bool { return c.Kind == KFunction }
func (c *Comp) IsBlock() bool {
	return c.Kind == KLParen || c.Kind == KLBracket || c.Kind == KLBrace
}

// FuncName is the lower-cased function name ("" when not a function).
func (c *Comp) FuncName() string {
	if c.Kind != KFunction {
		return ""
	}
	return lower(c.Val)
}

func lower(s string) string {
	for i := 0; i < len(s); i++ {
		if s[i] >= 'A' && s[i] <= 'Z' {
			return strings.Map(func(r rune) rune {
				if r >= 'A' && r <= 'Z' {
					return r + 32
				}
				return r
			}, s)
		}
	}
	return s
}

func closerOf(k Kind) Kind {
	switch k {
	case KLParen, KFunction:
		return KRParen
	case KLBracket:
		return KRBracket
	case KLBrace:
		return KRBrace
	}
	return KEOF
}

// parseComps consumes component values from toks[i:] until the closer (KEOF: to the end).
func parseComps(toks []Token, i int, closer Kind) ([]Comp, int, bool) {
	var out []Comp
	for i < len(toks) {
		t := toks[i]
		if closer != KEOF && t.Kind == closer {
			return out, i + 1, true
		}
		switch t.Kind {
		case KFunction, KLParen, KLBracket, KLBrace:
			args, j, closed := parseComps(toks, i+1, closerOf(t.Kind))
			out = append(out, Comp{Token: t, Args: args, Closed: closed})
			i = j
		default:
			out = append(out, Comp{Token: t})
			i++
		}
	}
	return out, i, false
}

// ParseComps parses a whole text as a list of component values.
func ParseComps(src string) []Comp {
	c, _, _ := parseComps(Tokenize(src), 0, KEOF)
	return c
}

// RawOf re-serialises components from their source text.
func RawOf(cs []Comp) string {
	var b strings.Builder
	rawOf(&b, cs)
	return b.String()
}

func rawOf(b *strings.Builder, cs []Comp) {
	for i := range cs {
		c := &cs[i]
		if c.Cmt {
			b.WriteString("/**/")
		}
		b.WriteString(c.Raw)
		if c.IsFunc() || c.IsBlock() {
			rawOf(b, c.Args)
			if c.Closed {
				switch closerOf(c.Kind) {
				case KRParen:
					b.WriteByte(')')
				case KRBracket:
					b.WriteByte(']')
				case KRBrace:
					b.WriteByte('}')
				}
			}
		}
	}
}

// Trim removes leading and trailing whitespace components.
func Trim(cs []Comp) []Comp {
	for len(cs) > 0 && cs[0].Kind == KWS {
		cs = cs[1:]
	}
	for len(cs) > 0 && cs[len(cs)-1].Kind == KWS {
		cs = cs[:len(cs)-1]
	}
	return cs
}

// NoWS returns the components without top-level whitespace.
func NoWS(cs []Comp) []Comp {
	out := make([]Comp, 0, len(cs))
	for _, c := range cs {
		if c.Kind != KWS {
			out = append(out, c)
		}
	}
	return out
}

// Block content kinds.
const (
	BlockNone  = 0
	BlockRules = 1
	BlockDecls = 2
	BlockRaw   = 3
)

// Rule is an at-rule (At != "") or a qualified rule.
type Rule struct {
	At       string // lower-cased at-keyword name
	Prelude  []Comp
	HasBlock bool
	Block    int
	Rules    []Rule
	Items    []Item
	Raw      []Comp
	Broken   bool // qualified rule without block (parse error)
}

// Item is one entry of a declaration list.
type Item struct {
	Decl *Decl
	At   *Rule
	Junk []Comp // a declaration with a parse error, up to the semicolon
}

// Decl is a declaration.
type Decl struct {
	Name      string // as written (unescaped)
	Value     []Comp // trimmed, without !important
	Important bool
	Custom    bool
}

func baseAtName(name string) string {
	n := lower(name)
	if strings.HasPrefix(n, "-") {
		if i := strings.IndexByte(n[1:], '-'); i >= 0 {
			return n[i+2:]
		}
	}
	return n
}

func blockKindOf(at string) int {
	switch baseAtName(at) {
	case "media", "supports", "document", "keyframes", "layer", "container", "scope", "starting-style":
		return BlockRules
	case "font-face", "page", "counter-style", "property", "viewport", "font-palette-values":
		return BlockDecls
	}
	return BlockRaw
}

// ParseStylesheet parses a stylesheet into its top-level rules.
func ParseStylesheet(src string) []Rule {
	cs := ParseComps(src)
	return parseRuleList(cs, true)
}

func parseRuleList(cs []Comp, top bool) []Rule {
	var out []Rule
	i := 0
	for i < len(cs) {
		c := &cs[i]
		switch {
		case c.Kind == KWS:
			i++
		case top && (c.Kind == KCDO || c.Kind == KCDC):
			i++
		case c.Kind == KAtKeyword:
			r, j := parseAtRule(cs, i)
			out = append(out, r)
			i = j
		default:
			r := Rule{}
			j := i
			for j < len(cs) && cs[j].Kind != KLBrace {
				j++
			}
			r.Prelude = Trim(cs[i:j])
			if j < len(cs) {
				r.HasBlock = true
				r.Block = BlockDecls
				r.Items = parseDeclList(cs[j].Args)
				j++
			} else {
				// a qualified rule without a block is a parse error and yields nothing
				// (CSS Syntax §5.4.3); it always extends to the end of the list
				r.Broken = true
				i = j
				continue
			}
			out = append(out, r)
			i = j
		}
	}
	return out
}

func parseAtRule(cs []Comp, i int) (Rule, int) {
	r := Rule{At: lower(cs[i].Val)}
	j := i + 1
	for j < len(cs) && cs[j].Kind != KLBrace && cs[j].Kind != KSemicolon {
		j++
	}
	r.Prelude = Trim(cs[i+1 : j])
	if j < len(cs) && cs[j].Kind == KLBrace {
		r.HasBlock = true
		r.Block = blockKindOf(r.At)
		switch r.Block {
		case BlockRules:
			r.Rules = parseRuleList(cs[j].Args, false)
		case BlockDecls:
			r.Items = parseDeclList(cs[j].Args)
		default:
			r.Raw = cs[j].Args
		}
	}
	if j < len(cs) {
		j++
	}
	return r, j
}

// ParseDeclList parses an inline style (declaration list).
func ParseDeclList(src string) []Item { return parseDeclList(ParseComps(src)) }

func parseDeclList(cs []Comp) []Item {
	var out []Item
	i := 0
	for i < len(cs) {
		c := &cs[i]
		switch {
		case c.Kind == KWS || c.Kind == KSemicolon:
			i++
		case c.Kind == KAtKeyword:
			r, j := parseAtRule(cs, i)
			out = append(out, Item{At: &r})
			i = j
		default:
			j := i
			for j < len(cs) && cs[j].Kind != KSemicolon {
				j++
			}
			seg := Trim(cs[i:j])
			if d := parseDecl(seg); d != nil {
				out = append(out, Item{Decl: d})
			} else {
				out = append(out, Item{Junk: seg})
			}
			i = j
		}
	}
	return out
}

func parseDecl(seg []Comp) *Decl {
	// the Internet Explorer "star hack" (*zoom:1): a parse error for CSS, a declaration for
	// IE 7 and for the minifier; it is compared as a declaration named "*zoom"
	if len(seg) > 1 && seg[0].Kind == KDelim && seg[0].Val == "*" && seg[1].Kind == KIdent && !seg[1].Cmt {
		if d := parseDecl(seg[1:]); d != nil && !d.Custom {
			d.Name = "*" + d.Name
			return d
		}
		return nil
	}
	if len(seg) == 0 || seg[0].Kind != KIdent {
		return nil
	}
	k := 1
	for k < len(seg) && seg[k].Kind == KWS {
		k++
	}
	if k >= len(seg) || seg[k].Kind != KColon {
		return nil
	}
	d := &Decl{Name: seg[0].Val, Custom: strings.HasPrefix(seg[0].Val, "--")}
	val := Trim(seg[k+1:])
	// !important: the last two non-whitespace components
	n := len(val)
	if n >= 2 && val[n-1].Kind == KIdent && strings.EqualFold(val[n-1].Val, "important") {
		m := n - 2
		for m >= 0 && val[m].Kind == KWS {
			m--
		}
		if m >= 0 && val[m].Kind == KDelim && val[m].Val == "!" {
			d.Important = true
			val = Trim(val[:m])
		}
	}
	d.Value = val
	return d
}
