package cssval

import (
	"fmt"
	"math/big"
	"sort"
	"strings"
)

// ---------- <position> (CSS Backgrounds 3 §3.6: 1 to 4 values) ----------

func isPosKw(c *Comp) bool {
	switch kw(c) {
	case "left", "right", "top", "bottom", "center":
		return true
	}
	return false
}

func isLP(c *Comp) bool {
	_, ok := lengthPctLV(c)
	return ok
}

func isPosish(c *Comp) bool { return isPosKw(c) || isLP(c) }

func pctRat(c *Comp) (*big.Rat, bool) {
	if c.Kind != KPercentage {
		return nil, false
	}
	return numRat(c.Num)
}

func pctCanon(r *big.Rat) LV {
	if r.Sign() == 0 {
		return s("0")
	}
	return s(r.RatString() + "%")
}

// axisOffset resolves an edge keyword with an optional offset to the offset from the
// start edge (left/top): left=0%, center=50%, right=100%, "right p%" = (100-p)%. A zero
// length equals 0%. "right <non-zero length>" keeps its edge.
func axisOffset(edge string, off *Comp) ([]LV, bool) {
	far := edge == "right" || edge == "bottom"
	if off == nil {
		switch {
		case edge == "center":
			return []LV{pctCanon(ratInt(50))}, true
		case far:
			return []LV{pctCanon(rat100)}, true
		}
		return []LV{s("0")}, true
	}
	if edge == "center" {
		return nil, false
	}
	if r, ok := pctRat(off); ok {
		if far {
			r = new(big.Rat).Sub(rat100, r)
		}
		return []LV{pctCanon(r)}, true
	}
	v, ok := lengthLV(off)
	if !ok {
		return nil, false
	}
	if v.S == zeroLen && v.Opaque == nil {
		return axisOffset(edge, nil)
	}
	if far {
		return []LV{s("from-end"), v}, true
	}
	return []LV{v}, true
}

func plainOffset(c *Comp) ([]LV, bool) { return axisOffset("left", c) }

func isHKw(k string) bool { return k == "left" || k == "right" }
func isVKw(k string) bool { return k == "top" || k == "bottom" }

// parsePosition returns the horizontal and vertical offsets.
func parsePosition(cs []Comp) (h, v []LV, ok bool) {
	switch len(cs) {
	case 1:
		c := &cs[0]
		k := kw(c)
		switch {
		case isHKw(k) || k == "center":
			h, _ = axisOffset(k, nil)
			v, _ = axisOffset("center", nil)
			return h, v, true
		case isVKw(k):
			h, _ = axisOffset("center", nil)
			v, _ = axisOffset(k, nil)
			return h, v, true
		case isLP(c):
			h, ok = plainOffset(c)
			v, _ = axisOffset("center", nil)
			return h, v, ok
		}
		return nil, nil, false
	case 2:
		a, b := &cs[0], &cs[1]
		ka, kb := kw(a), kw(b)
		if isPosKw(a) && isPosKw(b) {
			// two keywords in either order
			if isVKw(ka) || isHKw(kb) {
				ka, kb = kb, ka
			}
			if !(isHKw(ka) || ka == "center") || !(isVKw(kb) || kb == "center") {
				return nil, nil, false
			}
			h, _ = axisOffset(ka, nil)
			v, _ = axisOffset(kb, nil)
			return h, v, true
		}
		switch {
		case isHKw(ka) || ka == "center":
			h, _ = axisOffset(ka, nil)
		case isLP(a):
			if h, ok = plainOffset(a); !ok {
				return nil, nil, false
			}
		default:
			return nil, nil, false
		}
		switch {
		case isVKw(kb) || kb == "center":
			v, _ = axisOffset(kb, nil)
		case isLP(b):
			if v, ok = plainOffset(b); !ok {
				return nil, nil, false
			}
		default:
			return nil, nil, false
		}
		return h, v, true
	case 3, 4:
		type group struct {
			k   string
			off *Comp
		}
		var gs []group
		for i := 0; i < len(cs); {
			if !isPosKw(&cs[i]) {
				return nil, nil, false
			}
			g := group{k: kw(&cs[i])}
			i++
			if i < len(cs) && !isPosKw(&cs[i]) {
				if !isLP(&cs[i]) || g.k == "center" {
					return nil, nil, false
				}
				g.off = &cs[i]
				i++
			}
			gs = append(gs, g)
		}
		if len(gs) != 2 {
			return nil, nil, false
		}
		a, b := gs[0], gs[1]
		if isVKw(a.k) || isHKw(b.k) {
			a, b = b, a
		}
		if !(isHKw(a.k) || a.k == "center") || !(isVKw(b.k) || b.k == "center") {
			return nil, nil, false
		}
		if a.k == "center" && b.k == "center" {
			return nil, nil, false
		}
		var ok1, ok2 bool
		h, ok1 = axisOffset(a.k, a.off)
		v, ok2 = axisOffset(b.k, b.off)
		return h, v, ok1 && ok2
	}
	return nil, nil, false
}

func posLVs(h, v []LV) []LV {
	out := append([]LV{s("h:")}, h...)
	out = append(out, s("v:"))
	return append(out, v...)
}

func parsePositionList(cs []Comp) ([]LV, bool) {
	h, v, ok := parsePosition(cs)
	if !ok {
		return nil, false
	}
	return posLVs(h, v), true
}

// listParser applies an item parser to each comma-separated part.
func listParser(item func([]Comp) ([]LV, bool)) func(string, []Comp) (Longhands, bool) {
	return func(p string, cs []Comp) (Longhands, bool) {
		var out []LV
		for i, part := range splitCommas(cs) {
			if i > 0 {
				out = append(out, s(","))
			}
			v, ok := item(part)
			if !ok {
				return nil, false
			}
			out = append(out, v...)
		}
		return Longhands{{p, out}}, true
	}
}

func sizeItem(c *Comp) (LV, bool) {
	if v, ok := kwLV(c, "auto"); ok {
		return v, true
	}
	if c.Kind == KPercentage && numZero(c.Num) {
		return s(zeroLen), true // 0% of the positioning area is a zero length
	}
	return lengthPctLV(c)
}

// parseBgSize: [ <length-percentage> | auto ]{1,2} | cover | contain; one value = "v auto".
func parseBgSize(cs []Comp) ([]LV, bool) {
	switch len(cs) {
	case 1:
		if v, ok := kwLV(&cs[0], "cover", "contain"); ok {
			return []LV{v}, true
		}
		v, ok := sizeItem(&cs[0])
		return []LV{v, s("auto")}, ok
	case 2:
		a, ok1 := sizeItem(&cs[0])
		b, ok2 := sizeItem(&cs[1])
		return []LV{a, b}, ok1 && ok2
	}
	return nil, false
}

func isRepeat2(c *Comp) bool {
	_, ok := kwLV(c, "repeat", "space", "round", "no-repeat")
	return ok
}

// parseBgRepeat: repeat-x | repeat-y | [repeat|space|round|no-repeat]{1,2}.
func parseBgRepeat(cs []Comp) ([]LV, bool) {
	switch len(cs) {
	case 1:
		switch kw(&cs[0]) {
		case "repeat-x":
			return []LV{s("repeat"), s("no-repeat")}, true
		case "repeat-y":
			return []LV{s("no-repeat"), s("repeat")}, true
		}
		if isRepeat2(&cs[0]) {
			k := kw(&cs[0])
			return []LV{s(k), s(k)}, true
		}
	case 2:
		if isRepeat2(&cs[0]) && isRepeat2(&cs[1]) {
			return []LV{s(kw(&cs[0])), s(kw(&cs[1]))}, true
		}
	}
	return nil, false
}

func imageLV(c *Comp) (LV, bool) {
	if kw(c) == "none" {
		return s("none"), true
	}
	if _, ok := urlValue(c); ok {
		return LV{Opaque: []Comp{*c}}, true
	}
	if c.Kind == KFunction && c.Closed && !isColorFunc(c) && !mathFuncs[lower(c.Val)] {
		return LV{Opaque: []Comp{*c}}, true
	}
	return LV{}, false
}

// parseBackground: <bg-layer>#, <final-bg-layer> (CSS Backgrounds 3 §3.10).
func parseBackground(p string, cs []Comp) (Longhands, bool) {
	parts := splitCommas(cs)
	var out Longhands
	color := LV{Col: &Color{rat0, rat0, rat0, rat0}}
	for li, part := range parts {
		if len(part) == 0 {
			return nil, false
		}
		last := li == len(parts)-1
		image := s("none")
		pos := posLVs([]LV{s("0")}, []LV{s("0")})
		size := []LV{s("auto"), s("auto")}
		rep := []LV{s("repeat"), s("repeat")}
		att := s("scroll")
		origin, clip := s("padding-box"), s("border-box")
		var seenImage, seenPos, seenRep, seenAtt, seenColor bool
		boxes := 0
		for i := 0; i < len(part); {
			c := &part[i]
			switch {
			case isPosish(c):
				if seenPos {
					return nil, false
				}
				seenPos = true
				run := 0
				for i+run < len(part) && run < 4 && isPosish(&part[i+run]) {
					run++
				}
				k := run
				for ; k >= 1; k-- {
					if h, v, ok := parsePosition(part[i : i+k]); ok {
						pos = posLVs(h, v)
						break
					}
				}
				if k == 0 {
					return nil, false
				}
				i += k
				if i < len(part) && isDelim(&part[i], "/") {
					i++
					n := 0
					for i+n < len(part) && n < 2 {
						if _, ok := sizeItem(&part[i+n]); !ok {
							break
						}
						n++
					}
					if n == 0 {
						if i < len(part) {
							if _, ok := kwLV(&part[i], "cover", "contain"); ok {
								n = 1
							}
						}
					}
					if n == 0 {
						return nil, false
					}
					var ok bool
					if size, ok = parseBgSize(part[i : i+n]); !ok {
						return nil, false
					}
					i += n
				}
			case kw(c) == "repeat-x" || kw(c) == "repeat-y" || isRepeat2(c):
				if seenRep {
					return nil, false
				}
				seenRep = true
				n := 1
				if isRepeat2(c) && i+1 < len(part) && isRepeat2(&part[i+1]) {
					n = 2
				}
				rep, _ = parseBgRepeat(part[i : i+n])
				i += n
			case kw(c) == "scroll" || kw(c) == "fixed" || kw(c) == "local":
				if seenAtt {
					return nil, false
				}
				seenAtt = true
				att = s(kw(c))
				i++
			case kw(c) == "border-box" || kw(c) == "padding-box" || kw(c) == "content-box":
				switch boxes {
				case 0:
					origin, clip = s(kw(c)), s(kw(c))
				case 1:
					clip = s(kw(c))
				default:
					return nil, false
				}
				boxes++
				i++
			default:
				if v, ok := imageLV(c); ok && !seenImage {
					seenImage = true
					image = v
					i++
				} else if v, ok := colorLV(c); ok && last && !seenColor {
					seenColor = true
					color = v
					i++
				} else {
					return nil, false
				}
			}
		}
		pre := fmt.Sprintf("L%d-", li)
		out = append(out, Longhand{pre + "image", []LV{image}}, Longhand{pre + "position", pos}, Longhand{pre + "size", size},
			Longhand{pre + "repeat", rep}, Longhand{pre + "attachment", []LV{att}}, Longhand{pre + "origin", []LV{origin}}, Longhand{pre + "clip", []LV{clip}})
	}
	out = append(out, Longhand{"color", []LV{color}})
	return out, true
}

// ---------- unicode-range ----------

type cpRange struct{ lo, hi int }

// ParseURange parses one <urange> from its source text (CSS Syntax 3 §7).
func ParseURange(t string) (cpRange, bool) {
	if len(t) < 3 || (t[0] != 'u' && t[0] != 'U') || t[1] != '+' {
		return cpRange{}, false
	}
	t = t[2:]
	hexRun := func(x string) (int, int) {
		v, n := 0, 0
		for n < len(x) && hexVal(x[n]) >= 0 {
			v = v*16 + int(hexVal(x[n]))
			n++
		}
		return v, n
	}
	v, n := hexRun(t)
	rest := t[n:]
	switch {
	case rest == "":
		if n < 1 || n > 6 {
			return cpRange{}, false
		}
		return cpRange{v, v}, v <= 0x10FFFF
	case rest[0] == '?':
		q := 0
		for q < len(rest) && rest[q] == '?' {
			q++
		}
		if q != len(rest) || n+q > 6 {
			return cpRange{}, false
		}
		lo := v << (4 * uint(q))
		hi := lo | (1<<(4*uint(q)) - 1)
		return cpRange{lo, hi}, hi <= 0x10FFFF
	case rest[0] == '-':
		if n < 1 || n > 6 {
			return cpRange{}, false
		}
		w, m := hexRun(rest[1:])
		if m < 1 || m > 6 || m != len(rest)-1 {
			return cpRange{}, false
		}
		return cpRange{v, w}, v <= w && w <= 0x10FFFF
	}
	return cpRange{}, false
}

func parseUnicodeRangeRaw(p string, val []Comp) (Longhands, bool) {
	var rs []cpRange
	st := 0
	val = Trim(val)
	for i := 0; i <= len(val); i++ {
		if i < len(val) && val[i].Kind != KComma {
			continue
		}
		part := Trim(val[st:i])
		st = i + 1
		for j := range part {
			if part[j].Kind == KWS || part[j].Cmt {
				return nil, false
			}
		}
		r, ok := ParseURange(RawOf(part))
		if !ok {
			return nil, false
		}
		rs = append(rs, r)
	}
	sort.Slice(rs, func(i, j int) bool { return rs[i].lo < rs[j].lo })
	var m []cpRange
	for _, r := range rs {
		if len(m) > 0 && r.lo <= m[len(m)-1].hi+1 {
			if r.hi > m[len(m)-1].hi {
				m[len(m)-1].hi = r.hi
			}
			continue
		}
		m = append(m, r)
	}
	var b strings.Builder
	for i, r := range m {
		if i > 0 {
			b.WriteByte(',')
		}
		fmt.Fprintf(&b, "%x-%x", r.lo, r.hi)
	}
	return Longhands{{p, one(b.String())}}, true
}

func parseUnicodeRange(p string, cs []Comp) (Longhands, bool) { return parseUnicodeRangeRaw(p, cs) }
