// Package cssval is an independent CSS oracle: an own CSS Syntax Level 3 tokenizer, a rule and
// declaration parser, a value interpreter (numbers, colours, shorthands) and the comparison
// of two stylesheets "in meaning". It does not use the parser of the code under test.
package cssval

import (
	"strings"
	"unicode/utf8"
)

// Kind is the token type of CSS Syntax Level 3 §4.
type Kind uint8

const (
	KEOF Kind = iota
	KIdent
	KFunction
	KAtKeyword
	KHash
	KString
	KBadString
	KURL
	KBadURL
	KDelim
	KNumber
	KPercentage
	KDimension
	KWS
	KCDO
	KCDC
	KColon
	KSemicolon
	KComma
	KLBracket
	KRBracket
	KLParen
	KRParen
	KLBrace
	KRBrace
)

var kindNames = [...]string{"eof", "ident", "function", "at-keyword", "hash", "string", "bad-string", "url", "bad-url", "delim", "number", "percentage", "dimension", "ws", "cdo", "cdc", ":", ";", ",", "[", "]", "(", ")", "{", "}"}

func (k Kind) String() string { return kindNames[k] }

// Token is one CSS token. Val is the unescaped value (identifier name, string or URL content,
// hash name, function or at-keyword name, delimiter); Num and Unit are set for numeric tokens.
type Token struct {
	Kind   Kind
	Raw    string // source text (after input preprocessing)
	Val    string
	Num    string // numeric part as written
	Unit   string // unescaped unit of a dimension
	IDHash bool   // hash token of type "id"
	Cmt    bool   // a comment directly precedes this token
}

func isNameStart(c byte) bool {
	return c >= 'a' && c <= 'z' || c >= 'A' && c <= 'Z' || c == '_' || c >= 0x80
}
func isDigit(c byte) bool { return c >= '0' && c <= '9' }
func isName(c byte) bool  { return isNameStart(c) || isDigit(c) || c == '-' }
func isHex(c byte) bool {
	return isDigit(c) || c >= 'a' && c <= 'f' || c >= 'A' && c <= 'F'
}
func isWS(c byte) bool { return c == ' ' || c == '\t' || c == '\n' }
func isNonPrintable(c byte) bool {
	return c <= 8 || c == 0x0B || c >= 0x0E && c <= 0x1F || c == 0x7F
}

// Preprocess applies CSS Syntax §3.3: CR, FF and CRLF become LF, NUL becomes U+FFFD.
func Preprocess(s string) string {
	if !strings.ContainsAny(s, "\r\f\x00") {
		return s
	}
	var b strings.Builder
	for i := 0; i < len(s); i++ {
		switch c := s[i]; c {
		case '\r':
			if i+1 < len(s) && s[i+1] == '\n' {
				i++
			}
			b.WriteByte('\n')
		case '\f':
			b.WriteByte('\n')
		case 0:
			b.WriteString("\uFFFD")
		default:
			b.WriteByte(c)
		}
	}
	return b.String()
}

type lexer struct {
	s string
	i int
}

func (l *lexer) at(k int) byte {
	if l.i+k < len(l.s) {
		return l.s[l.i+k]
	}
	return 0
}
func (l *lexer) has(k int) bool { return l.i+k < len(l.s) }

func (l *lexer) validEscape(k int) bool {
	return l.has(k) && l.at(k) == '\\' && !(l.has(k+1) && l.at(k+1) == '\n')
}

func (l *lexer) startsIdent(k int) bool {
	if !l.has(k) {
		return false
	}
	c := l.at(k)
	switch {
	case c == '-':
		return l.has(k+1) && (isNameStart(l.at(k+1)) || l.at(k+1) == '-') || l.validEscape(k+1)
	case isNameStart(c):
		return true
	case c == '\\':
		return l.validEscape(k)
	}
	return false
}

func (l *lexer) startsNumber(k int) bool {
	if !l.has(k) {
		return false
	}
	c := l.at(k)
	if c == '+' || c == '-' {
		k++
		if !l.has(k) {
			return false
		}
		c = l.at(k)
	}
	if c == '.' {
		return l.has(k+1) && isDigit(l.at(k+1))
	}
	return isDigit(c)
}

// consumeEscape is called with l.i just after the backslash.
func (l *lexer) consumeEscape(b *strings.Builder) {
	if !l.has(0) {
		b.WriteString("\uFFFD")
		return
	}
	if isHex(l.at(0)) {
		v := 0
		n := 0
		for n < 6 && l.has(0) && isHex(l.at(0)) {
			c := l.at(0)
			switch {
			case isDigit(c):
				v = v*16 + int(c-'0')
			case c >= 'a':
				v = v*16 + int(c-'a') + 10
			default:
				v = v*16 + int(c-'A') + 10
			}
			l.i++
			n++
		}
		if l.has(0) && isWS(l.at(0)) {
			l.i++
		}
		if v == 0 || v > 0x10FFFF || v >= 0xD800 && v <= 0xDFFF {
			v = 0xFFFD
		}
		b.WriteRune(rune(v))
		return
	}
	_, n := utf8.DecodeRuneInString(l.s[l.i:])
	b.WriteString(l.s[l.i : l.i+n])
	l.i += n
}

func (l *lexer) consumeName() string {
	var b strings.Builder
	for l.has(0) {
		c := l.at(0)
		if isName(c) {
			b.WriteByte(c)
			l.i++
		} else if l.validEscape(0) {
			l.i++
			l.consumeEscape(&b)
		} else {
			break
		}
	}
	return b.String()
}

func (l *lexer) consumeNumber() string {
	st := l.i
	if c := l.at(0); c == '+' || c == '-' {
		l.i++
	}
	for l.has(0) && isDigit(l.at(0)) {
		l.i++
	}
	if l.has(1) && l.at(0) == '.' && isDigit(l.at(1)) {
		l.i += 2
		for l.has(0) && isDigit(l.at(0)) {
			l.i++
		}
	}
	if l.has(1) && (l.at(0) == 'e' || l.at(0) == 'E') {
		k := 1
		if l.at(1) == '+' || l.at(1) == '-' {
			k = 2
		}
		if l.has(k) && isDigit(l.at(k)) {
			l.i += k + 1
			for l.has(0) && isDigit(l.at(0)) {
				l.i++
			}
		}
	}
	return l.s[st:l.i]
}

func (l *lexer) consumeString(q byte) Token {
	st := l.i
	l.i++
	var b strings.Builder
	for {
		if !l.has(0) {
			return Token{Kind: KString, Raw: l.s[st:l.i], Val: b.String()}
		}
		c := l.at(0)
		switch {
		case c == q:
			l.i++
			return Token{Kind: KString, Raw: l.s[st:l.i], Val: b.String()}
		case c == '\n':
			return Token{Kind: KBadString, Raw: l.s[st:l.i], Val: b.String()}
		case c == '\\':
			if !l.has(1) {
				l.i++
			} else if l.at(1) == '\n' {
				l.i += 2
			} else {
				l.i++
				l.consumeEscape(&b)
			}
		default:
			b.WriteByte(c)
			l.i++
		}
	}
}

func (l *lexer) consumeBadURLRemnants() {
	for l.has(0) {
		if l.at(0) == ')' {
			l.i++
			return
		}
		if l.validEscape(0) {
			l.i++
			var b strings.Builder
			l.consumeEscape(&b)
		} else {
			l.i++
		}
	}
}

// consumeURL is called just after "url(".
func (l *lexer) consumeURL(st int) Token {
	for l.has(0) && isWS(l.at(0)) {
		l.i++
	}
	var b strings.Builder
	for {
		if !l.has(0) {
			return Token{Kind: KURL, Raw: l.s[st:l.i], Val: b.String()}
		}
		c := l.at(0)
		switch {
		case c == ')':
			l.i++
			return Token{Kind: KURL, Raw: l.s[st:l.i], Val: b.String()}
		case isWS(c):
			for l.has(0) && isWS(l.at(0)) {
				l.i++
			}
			if !l.has(0) {
				return Token{Kind: KURL, Raw: l.s[st:l.i], Val: b.String()}
			}
			if l.at(0) == ')' {
				l.i++
				return Token{Kind: KURL, Raw: l.s[st:l.i], Val: b.String()}
			}
			l.consumeBadURLRemnants()
			return Token{Kind: KBadURL, Raw: l.s[st:l.i]}
		case c == '"' || c == '\'' || c == '(' || isNonPrintable(c):
			l.consumeBadURLRemnants()
			return Token{Kind: KBadURL, Raw: l.s[st:l.i]}
		case c == '\\':
			if l.validEscape(0) {
				l.i++
				l.consumeEscape(&b)
			} else {
				l.consumeBadURLRemnants()
				return Token{Kind: KBadURL, Raw: l.s[st:l.i]}
			}
		default:
			b.WriteByte(c)
			l.i++
		}
	}
}

func (l *lexer) consumeIdentLike() Token {
	st := l.i
	name := l.consumeName()
	if l.has(0) && l.at(0) == '(' {
		l.i++
		if strings.EqualFold(name, "url") {
			k := 0
			for l.has(k) && isWS(l.at(k)) {
				k++
			}
			if l.has(k) && (l.at(k) == '"' || l.at(k) == '\'') {
				return Token{Kind: KFunction, Raw: l.s[st:l.i], Val: name}
			}
			return l.consumeURL(st)
		}
		return Token{Kind: KFunction, Raw: l.s[st:l.i], Val: name}
	}
	return Token{Kind: KIdent, Raw: l.s[st:l.i], Val: name}
}

func (l *lexer) consumeNumeric() Token {
	st := l.i
	num := l.consumeNumber()
	if l.startsIdent(0) {
		unit := l.consumeName()
		return Token{Kind: KDimension, Raw: l.s[st:l.i], Num: num, Unit: unit}
	}
	if l.has(0) && l.at(0) == '%' {
		l.i++
		return Token{Kind: KPercentage, Raw: l.s[st:l.i], Num: num}
	}
	return Token{Kind: KNumber, Raw: l.s[st:l.i], Num: num}
}

// Tokenize splits preprocessed CSS text into tokens; comments are dropped (the following
// token carries Cmt). The final KEOF token is not included.
func Tokenize(src string) []Token {
	l := &lexer{s: Preprocess(src)}
	var out []Token
	cmt := false
	emit := func(t Token) {
		t.Cmt = cmt
		cmt = false
		out = append(out, t)
	}
	simple := func(k Kind) {
		emit(Token{Kind: k, Raw: l.s[l.i : l.i+1], Val: l.s[l.i : l.i+1]})
		l.i++
	}
	for l.has(0) {
		c := l.at(0)
		switch {
		case c == '/' && l.at(1) == '*' && l.has(1):
			e := strings.Index(l.s[l.i+2:], "*/")
			if e < 0 {
				l.i = len(l.s)
			} else {
				l.i += 2 + e + 2
			}
			cmt = true
		case isWS(c):
			st := l.i
			for l.has(0) && isWS(l.at(0)) {
				l.i++
			}
			emit(Token{Kind: KWS, Raw: l.s[st:l.i]})
		case c == '"' || c == '\'':
			emit(l.consumeString(c))
		case c == '#':
			if l.has(1) && (isName(l.at(1)) || l.validEscape(1)) {
				st := l.i
				l.i++
				id := l.startsIdent(0)
				name := l.consumeName()
				emit(Token{Kind: KHash, Raw: l.s[st:l.i], Val: name, IDHash: id})
			} else {
				simple(KDelim)
			}
		case c == '(':
			simple(KLParen)
		case c == ')':
			simple(KRParen)
		case c == '[':
			simple(KLBracket)
		case c == ']':
			simple(KRBracket)
		case c == '{':
			simple(KLBrace)
		case c == '}':
			simple(KRBrace)
		case c == ',':
			simple(KComma)
		case c == ':':
			simple(KColon)
		case c == ';':
			simple(KSemicolon)
		case c == '+' || c == '.':
			if l.startsNumber(0) {
				emit(l.consumeNumeric())
			} else {
				simple(KDelim)
			}
		case c == '-':
			if l.startsNumber(0) {
				emit(l.consumeNumeric())
			} else if l.at(1) == '-' && l.at(2) == '>' && l.has(2) {
				emit(Token{Kind: KCDC, Raw: "-->"})
				l.i += 3
			} else if l.startsIdent(0) {
				emit(l.consumeIdentLike())
			} else {
				simple(KDelim)
			}
		case c == '<':
			if l.has(3) && l.s[l.i:l.i+4] == "<!--" {
				emit(Token{Kind: KCDO, Raw: "<!--"})
				l.i += 4
			} else {
				simple(KDelim)
			}
		case c == '@':
			if l.startsIdent(1) {
				st := l.i
				l.i++
				name := l.consumeName()
				emit(Token{Kind: KAtKeyword, Raw: l.s[st:l.i], Val: name})
			} else {
				simple(KDelim)
			}
		case c == '\\':
			if l.validEscape(0) {
				emit(l.consumeIdentLike())
			} else {
				simple(KDelim)
			}
		case isDigit(c):
			emit(l.consumeNumeric())
		case isNameStart(c):
			emit(l.consumeIdentLike())
		default:
			simple(KDelim)
		}
	}
	return out
}
