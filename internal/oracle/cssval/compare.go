package cssval

import (
	"fmt"
	"strings"
)

// Diff is the first difference found between input and output.
type Diff struct {
	Kind string // short stable class
	What string
}

func diff(kind, format string, args ...any) *Diff {
	return &Diff{kind, fmt.Sprintf(format, args...)}
}

// CompareStylesheet checks that out carries the same cascade input as in.
func CompareStylesheet(in, out string) *Diff {
	return compareRules(ParseStylesheet(in), ParseStylesheet(out), "")
}

// CompareInline does the same for a declaration list (style attribute).
func CompareInline(in, out string) *Diff {
	return compareItems(ParseDeclList(in), ParseDeclList(out), "style attribute")
}

func ruleName(r *Rule) string {
	if r.At != "" {
		return "@" + r.At + " " + RawOf(r.Prelude)
	}
	return RawOf(r.Prelude)
}

func compareRules(a, b []Rule, where string) *Diff {
	if len(a) != len(b) {
		return diff("rule-count", "%s: %d rules became %d", where, len(a), len(b))
	}
	for i := range a {
		if d := compareRule(&a[i], &b[i]); d != nil {
			return d
		}
	}
	return nil
}

// deadPrelude reports a qualified-rule prelude that cannot be a selector list whatever the
// selector grammar: it contains a stray closing bracket, a semicolon, an at-keyword or a bad
// token. Such a rule is dropped as a whole (CSS Syntax §9.1), so only its extent matters.
func deadPrelude(cs []Comp) bool {
	for i := range cs {
		switch cs[i].Kind {
		case KRBrace, KRParen, KRBracket, KSemicolon, KAtKeyword, KBadString, KBadURL, KCDO, KCDC:
			return true
		}
	}
	return false
}

func compareRule(a, b *Rule) *Diff {
	if a.At != b.At {
		return diff("rule-kind", "rule %q became %q", ruleName(a), ruleName(b))
	}
	if a.At == "" && deadPrelude(a.Prelude) {
		if !deadPrelude(b.Prelude) {
			return diff("selector", "invalid selector %q became %q", RawOf(a.Prelude), RawOf(b.Prelude))
		}
		return nil
	}
	if a.At == "" {
		if d := SelectorDiff(a.Prelude, b.Prelude); d != "" {
			return diff("selector/"+d, "selector %q became %q", RawOf(a.Prelude), RawOf(b.Prelude))
		}
	} else if !PreludeEqual(a.At, a.Prelude, b.Prelude) {
		return diff("at-prelude", "@%s prelude %q became %q", a.At, RawOf(a.Prelude), RawOf(b.Prelude))
	}
	if a.HasBlock != b.HasBlock || a.Broken != b.Broken {
		return diff("rule-block", "rule %q: block presence changed", ruleName(a))
	}
	switch a.Block {
	case BlockRules:
		return compareRules(a.Rules, b.Rules, ruleName(a))
	case BlockDecls:
		return compareItems(a.Items, b.Items, ruleName(a))
	case BlockRaw:
		if d := GenericEqual(a.Raw, b.Raw, ModeStrict); d != "" {
			return diff("raw-block", "body of %q: %s", ruleName(a), d)
		}
	}
	return nil
}

func compareItems(a, b []Item, where string) *Diff {
	if len(a) != len(b) {
		return diff("decl-count", "%s: %d declarations became %d", where, len(a), len(b))
	}
	for i := range a {
		x, y := &a[i], &b[i]
		switch {
		case x.At != nil:
			if y.At == nil {
				return diff("decl-kind", "%s: nested at-rule became something else", where)
			}
			if d := compareRule(x.At, y.At); d != nil {
				return d
			}
		case x.Junk != nil || x.Decl == nil:
			if y.Decl != nil || y.At != nil {
				return diff("decl-kind", "%s: invalid declaration %q became valid", where, RawOf(x.Junk))
			}
			if d := GenericEqual(x.Junk, y.Junk, ModeStrict); d != "" {
				return diff("junk", "%s: invalid declaration not passed through: %s", where, d)
			}
		default:
			if y.Decl == nil {
				return diff("decl-kind", "%s: declaration %q became invalid", where, x.Decl.Name)
			}
			if d := CompareDecl(x.Decl, y.Decl); d != nil {
				d.What = where + ": " + d.What
				return d
			}
		}
	}
	return nil
}

const ieAlpha = "progid:dximagetransform.microsoft.alpha("

// ieFilterNorm folds the two spellings of the Internet Explorer alpha filter.
func ieFilterNorm(raw string) string {
	l := lower(raw)
	l = strings.ReplaceAll(l, ieAlpha, "alpha(")
	return strings.Join(strings.Fields(l), "")
}

// CompareDecl compares two declarations: name, !important and the value in meaning.
func CompareDecl(a, b *Decl) *Diff {
	if a.Custom || b.Custom {
		if a.Name != b.Name {
			return diff("decl-name", "custom property %q became %q", a.Name, b.Name)
		}
		if a.Important != b.Important {
			return diff("important", "%s: !important changed", a.Name)
		}
		if d := GenericEqual(a.Value, b.Value, ModeStrict); d != "" {
			return diff("custom-property", "%s: %s", a.Name, d)
		}
		return nil
	}
	name := lower(a.Name)
	if name != lower(b.Name) {
		return diff("decl-name", "property %q became %q", a.Name, b.Name)
	}
	if a.Important != b.Important {
		return diff("important", "%s: !important changed", name)
	}
	if (name == "filter" || name == "-ms-filter") && strings.Contains(lower(RawOf(a.Value)), ieAlpha) {
		x, y := ieFilterNorm(RawOf(a.Value)), ieFilterNorm(RawOf(b.Value))
		if x != y {
			return diff("value:"+name, "%s: %q became %q", name, RawOf(a.Value), RawOf(b.Value))
		}
		return nil
	}
	if la, ok := Interpret(name, a.Value); ok {
		kind := "value:" + name
		if t := la.Tag(); t != "" {
			kind += "/" + t
		}
		lb, ok := Interpret(name, b.Value)
		if !ok {
			return diff(kind+"[invalid-output]", "%s: valid value %q became %q, which is not valid for the property", name, RawOf(a.Value), RawOf(b.Value))
		}
		if lh := DiffLonghands(la, lb); lh != "" {
			if lh != name {
				kind += "[" + lh + "]"
			}
			return diff(kind, "%s: %q means {%s}, output %q means {%s}", name, RawOf(a.Value), la, RawOf(b.Value), lb)
		}
		return nil
	}
	if d := GenericEqual(a.Value, b.Value, ModeTop); d != "" {
		kind := "tokens"
		if strings.HasPrefix(d, "[") {
			if i := strings.Index(d, "] "); i > 0 {
				kind, d = "tokens/"+d[1:i], d[i+2:]
			}
		}
		return diff(kind, "%s: %s", name, d)
	}
	return nil
}
