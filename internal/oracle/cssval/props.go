package cssval

import (
	"sort"
	"strings"
)

// Interpret expands the value of a known property to longhands with omitted components set
// to their initial values. ok=false: the property is unknown to the oracle or the value is
// not valid in the oracle's grammar (the caller then falls back to GenericEqual).
func Interpret(prop string, val []Comp) (Longhands, bool) {
	p := lower(prop)
	if p == "-webkit-flex" {
		p = "flex"
	}
	def, known := propTable[p]
	if !known {
		return nil, false
	}
	cs := NoWS(val)
	if len(cs) == 0 || hasVar(cs) && p != "font-family" {
		return nil, false
	}
	if p == "unicode-range" && !(len(cs) == 1 && cs[0].Kind == KIdent && len(cs[0].Val) > 2) {
		return parseUnicodeRangeRaw(p, val)
	}
	if len(cs) == 1 {
		switch k := kw(&cs[0]); k {
		case "inherit", "unset", "revert", "revert-layer":
			return Longhands{{p, one("wide:" + k)}}, true
		case "initial":
			if def.initial != nil {
				return def.initial(p), true
			}
			return Longhands{{p, one("wide:initial")}}, true
		}
	}
	for i := range cs {
		switch kw(&cs[i]) {
		case "inherit", "unset", "revert", "revert-layer", "initial":
			if p != "font-family" && p != "font" {
				return nil, false // CSS-wide keywords are only valid as the whole value
			}
		}
	}
	return def.parse(p, cs)
}

// Known reports whether the oracle has a grammar for the property.
func Known(prop string) bool {
	p := lower(prop)
	_, ok := propTable[p]
	return ok || p == "-webkit-flex"
}

type propDef struct {
	parse   func(p string, cs []Comp) (Longhands, bool)
	initial func(p string) Longhands
}

var propTable map[string]propDef

func init() {
	propTable = map[string]propDef{
		"margin":       {sidesParser(marginItem), sidesInitial(zeroLen)},
		"padding":      {sidesParser(lengthPctLV), sidesInitial(zeroLen)},
		"border-width": {sidesParser(lineWidthLV), sidesInitial("medium")},
		"border-style": {sidesParser(lineStyleLV), sidesInitial("none")},
		"border-color": {sidesParser(colorLV), sidesInitial("currentcolor")},

		"border":        {lineParser(false), lineInitial(false)},
		"border-top":    {lineParser(false), lineInitial(false)},
		"border-right":  {lineParser(false), lineInitial(false)},
		"border-bottom": {lineParser(false), lineInitial(false)},
		"border-left":   {lineParser(false), lineInitial(false)},
		"column-rule":   {lineParser(false), lineInitial(false)},
		"outline":       {lineParser(true), lineInitial(true)},

		"color":                 {singleParser(colorLV), nil},
		"background-color":      {singleParser(colorLV), constInitial(LV{Col: &Color{rat0, rat0, rat0, rat0}})},
		"border-top-color":      {singleParser(colorLV), constInitial(s("currentcolor"))},
		"border-right-color":    {singleParser(colorLV), constInitial(s("currentcolor"))},
		"border-bottom-color":   {singleParser(colorLV), constInitial(s("currentcolor"))},
		"border-left-color":     {singleParser(colorLV), constInitial(s("currentcolor"))},
		"text-decoration-color": {singleParser(colorLV), constInitial(s("currentcolor"))},
		"text-emphasis-color":   {singleParser(colorLV), constInitial(s("currentcolor"))},
		"column-rule-color":     {singleParser(colorLV), constInitial(s("currentcolor"))},
		"caret-color":           {singleParser(orKw(colorLV, "auto")), constInitial(s("auto"))},
		"outline-color":         {singleParser(orKw(colorLV, "invert", "auto")), constInitial(s("invert"))},
		"fill":                  {singleParser(orKw(colorLV, "none", "context-fill", "context-stroke")), nil},
		"stroke":                {singleParser(orKw(colorLV, "none", "context-fill", "context-stroke")), nil},

		"font-weight": {singleParser(fontWeightLV), constInitial(s("n4e2"))},
		"font-family": {parseFontFamilyProp, nil},
		"font":        {parseFont, nil},

		"flex":        {parseFlex, func(p string) Longhands { return flexLH(s("n0e0"), s("n1e0"), s("auto")) }},
		"flex-basis":  {singleParser(flexBasisLV), constInitial(s("auto"))},
		"flex-grow":   {singleParser(numberLV), constInitial(s("n0e0"))},
		"flex-shrink": {singleParser(numberLV), constInitial(s("n1e0"))},
		"order":       {singleParser(integerLV), constInitial(s("n0e0"))},
		// <integer> properties: the lexeme must be digits with an optional sign (no dot, no exponent)
		"z-index":        {singleParser(orKw(integerLV, "auto")), constInitial(s("auto"))},
		"column-count":   {singleParser(orKw(integerLV, "auto")), constInitial(s("auto"))},
		"orphans":        {singleParser(integerLV), constInitial(s("n2e0"))},
		"widows":         {singleParser(integerLV), constInitial(s("n2e0"))},
		"grid-row-start": {singleParser(orKw(integerLV, "auto")), constInitial(s("auto"))},

		"box-shadow":  {shadowParser(true), constInitial(s("none"))},
		"text-shadow": {shadowParser(false), constInitial(s("none"))},

		"text-decoration": {parseTextDecoration, func(p string) Longhands { return textDecoLH(nil, s("solid"), s("currentcolor")) }},
		"text-emphasis":   {parseTextEmphasis, func(p string) Longhands { return Longhands{{"style", one("none")}, {"color", one("currentcolor")}} }},

		"background":          {parseBackground, nil},
		"background-position": {listParser(parsePositionList), func(p string) Longhands { return Longhands{{p, posLVs([]LV{s("0")}, []LV{s("0")})}} }},
		"background-size":     {listParser(parseBgSize), constInitial2(s("auto"), s("auto"))},
		"background-repeat":   {listParser(parseBgRepeat), constInitial2(s("repeat"), s("repeat"))},

		"unicode-range": {parseUnicodeRange, func(p string) Longhands { return Longhands{{p, one("0-10ffff")}} }},
	}
}

func constInitial(v LV) func(string) Longhands {
	return func(p string) Longhands { return Longhands{{p, []LV{v}}} }
}

func constInitial2(a, b LV) func(string) Longhands {
	return func(p string) Longhands { return Longhands{{p, []LV{a, b}}} }
}

func orKw(f func(*Comp) (LV, bool), set ...string) func(*Comp) (LV, bool) {
	return func(c *Comp) (LV, bool) {
		if v, ok := kwLV(c, set...); ok {
			return v, true
		}
		return f(c)
	}
}

func singleParser(item func(*Comp) (LV, bool)) func(string, []Comp) (Longhands, bool) {
	return func(p string, cs []Comp) (Longhands, bool) {
		if len(cs) != 1 {
			return nil, false
		}
		v, ok := item(&cs[0])
		if !ok {
			return nil, false
		}
		return Longhands{{p, []LV{v}}}, true
	}
}

// ---------- 1-4 value box shorthands ----------

func marginItem(c *Comp) (LV, bool) {
	if v, ok := kwLV(c, "auto"); ok {
		return v, true
	}
	return lengthPctLV(c)
}

func lineWidthLV(c *Comp) (LV, bool) {
	if v, ok := kwLV(c, "thin", "medium", "thick"); ok {
		return v, true
	}
	return lengthLV(c)
}

var lineStyles = []string{"none", "hidden", "dotted", "dashed", "solid", "double", "groove", "ridge", "inset", "outset"}

func lineStyleLV(c *Comp) (LV, bool) { return kwLV(c, lineStyles...) }

var sideNames = [4]string{"top", "right", "bottom", "left"}

func sidesParser(item func(*Comp) (LV, bool)) func(string, []Comp) (Longhands, bool) {
	return func(p string, cs []Comp) (Longhands, bool) {
		if len(cs) < 1 || len(cs) > 4 {
			return nil, false
		}
		var v [4]LV
		for i := range cs {
			x, ok := item(&cs[i])
			if !ok {
				return nil, false
			}
			v[i] = x
		}
		switch len(cs) {
		case 1:
			v[1], v[2], v[3] = v[0], v[0], v[0]
		case 2:
			v[2], v[3] = v[0], v[1]
		case 3:
			v[3] = v[1]
		}
		var out Longhands
		for i, n := range sideNames {
			out = append(out, Longhand{n, []LV{v[i]}})
		}
		return out, true
	}
}

func sidesInitial(x string) func(string) Longhands {
	return func(string) Longhands {
		var out Longhands
		for _, n := range sideNames {
			out = append(out, Longhand{n, one(x)})
		}
		return out
	}
}

// ---------- border / outline / column-rule ----------

func lineInitial(outline bool) func(string) Longhands {
	return func(string) Longhands {
		col := "currentcolor"
		if outline {
			col = "invert"
		}
		return Longhands{{"width", one("medium")}, {"style", one("none")}, {"color", one(col)}}
	}
}

func lineParser(outline bool) func(string, []Comp) (Longhands, bool) {
	return func(p string, cs []Comp) (Longhands, bool) {
		if len(cs) > 3 {
			return nil, false
		}
		out := lineInitial(outline)("")
		var seen [3]bool
		for i := range cs {
			c := &cs[i]
			var v LV
			var ok bool
			k := -1
			if v, ok = lineWidthLV(c); ok {
				k = 0
			} else if v, ok = lineStyleLV(c); ok {
				k = 1
			} else if v, ok = kwLV(c, "auto"); ok && outline {
				k = 1
			} else if v, ok = kwLV(c, "invert"); ok && outline {
				k = 2
			} else if v, ok = colorLV(c); ok {
				k = 2
			}
			if k < 0 || seen[k] {
				return nil, false
			}
			seen[k] = true
			out[k].V = []LV{v}
		}
		return out, true
	}
}

// ---------- fonts ----------

func fontWeightLV(c *Comp) (LV, bool) {
	switch kw(c) {
	case "normal":
		return s("n4e2"), true
	case "bold":
		return s("n7e2"), true
	case "bolder", "lighter":
		return s(kw(c)), true
	}
	if c.Kind == KNumber {
		r, ok := numRat(c.Num)
		if ok && r.Cmp(rat1) >= 0 && r.Cmp(ratInt(1000)) <= 0 {
			return s("n" + numCanon(c.Num)), true
		}
	}
	return LV{}, false
}

var genericFamilies = map[string]bool{"serif": true, "sans-serif": true, "cursive": true, "fantasy": true, "monospace": true,
	"system-ui": true, "ui-serif": true, "ui-sans-serif": true, "ui-monospace": true, "ui-rounded": true, "emoji": true, "math": true, "fangsong": true}

var wideKeywords = map[string]bool{"inherit": true, "initial": true, "unset": true, "revert": true, "revert-layer": true, "default": true}

// parseFamilyList: <family-name>#; names compare ASCII case-insensitively; a quoted name is
// never a generic family or a keyword.
func parseFamilyList(cs []Comp) ([]LV, string, bool) {
	var out []LV
	tag := ""
	for _, part := range splitCommas(cs) {
		if len(part) == 0 {
			return nil, "", false
		}
		if len(part) == 1 && part[0].Kind == KString {
			out = append(out, s("name:"+lower(part[0].Val)))
			continue
		}
		if len(part) == 1 && part[0].FuncName() == "var" {
			out = append(out, LV{Opaque: part})
			continue
		}
		var words []string
		for i := range part {
			if part[i].Kind != KIdent {
				return nil, "", false
			}
			words = append(words, lower(part[i].Val))
		}
		if len(words) > 1 {
			// sub-domains of unquoted multi-word names, named from the input alone
			for _, w := range words {
				if fontKeywords[w] && tag == "" {
					tag = "keyword-in-unquoted-family-name"
				}
			}
			if strings.HasPrefix(words[0], "-") {
				tag = "hyphen-first-word-of-unquoted-family-name"
			}
		}
		if len(words) == 1 {
			if wideKeywords[words[0]] {
				return nil, "", false
			}
			if genericFamilies[words[0]] {
				out = append(out, s("generic:"+words[0]))
				continue
			}
		}
		out = append(out, s("name:"+strings.Join(words, " ")))
	}
	return out, tag, true
}

// fontKeywords are the keywords of the font shorthand that may also occur as words of an
// unquoted family name.
var fontKeywords = map[string]bool{"normal": true, "bold": true, "bolder": true, "lighter": true, "italic": true, "oblique": true, "small-caps": true,
	"xx-small": true, "x-small": true, "small": true, "medium": true, "large": true, "x-large": true, "xx-large": true, "smaller": true, "larger": true,
	"inherit": true, "initial": true, "unset": true, "condensed": true, "expanded": true}

func parseFontFamilyProp(p string, cs []Comp) (Longhands, bool) {
	v, _, ok := parseFamilyList(cs)
	if !ok {
		return nil, false
	}
	return Longhands{{p, v}}, true
}

var fontStretchKw = []string{"ultra-condensed", "extra-condensed", "condensed", "semi-condensed", "semi-expanded", "expanded", "extra-expanded", "ultra-expanded"}
var fontSizeKw = []string{"xx-small", "x-small", "small", "medium", "large", "x-large", "xx-large", "xxx-large", "smaller", "larger", "math"}
var systemFonts = []string{"caption", "icon", "menu", "message-box", "small-caption", "status-bar"}

func parseFont(p string, cs []Comp) (Longhands, bool) {
	if len(cs) == 1 {
		if v, ok := kwLV(&cs[0], systemFonts...); ok {
			return Longhands{{"font", one("system:" + v.S)}}, true
		}
		return nil, false
	}
	style, variant, weight, stretch := s("normal"), s("normal"), s("n4e2"), s("normal")
	var seen [4]bool
	i, n := 0, 0
	for ; i < len(cs) && n < 4; i++ {
		c := &cs[i]
		if kw(c) == "normal" {
			n++
			continue
		}
		if v, ok := kwLV(c, "italic", "oblique"); ok && !seen[0] {
			style, seen[0] = v, true
		} else if v, ok := kwLV(c, "small-caps"); ok && !seen[1] {
			variant, seen[1] = v, true
		} else if v, ok := fontWeightLV(c); ok && !seen[2] {
			weight, seen[2] = v, true
		} else if v, ok := kwLV(c, fontStretchKw...); ok && !seen[3] {
			stretch, seen[3] = v, true
		} else {
			break
		}
		n++
	}
	if i >= len(cs) {
		return nil, false
	}
	size, ok := kwLV(&cs[i], fontSizeKw...)
	if !ok {
		if size, ok = lengthPctLV(&cs[i]); !ok {
			return nil, false
		}
	}
	i++
	lh := s("normal")
	if i < len(cs) && isDelim(&cs[i], "/") {
		i++
		if i >= len(cs) {
			return nil, false
		}
		c := &cs[i]
		if v, ok := kwLV(c, "normal"); ok {
			lh = v
		} else if c.Kind == KNumber {
			if numZero(c.Num) {
				lh = s(zeroLen)
			} else {
				lh, _ = numberLV(c)
			}
		} else if v, ok := lengthPctLV(c); ok {
			lh = v
		} else {
			return nil, false
		}
		i++
	}
	if i >= len(cs) {
		return nil, false
	}
	fam, tag, ok := parseFamilyList(cs[i:])
	if !ok {
		return nil, false
	}
	if tag != "" {
		return Longhands{{"#tag", one(tag)}, {"font-style", []LV{style}}, {"font-variant", []LV{variant}}, {"font-weight", []LV{weight}}, {"font-stretch", []LV{stretch}},
			{"font-size", []LV{size}}, {"line-height", []LV{lh}}, {"font-family", fam}}, true
	}
	return Longhands{{"font-style", []LV{style}}, {"font-variant", []LV{variant}}, {"font-weight", []LV{weight}}, {"font-stretch", []LV{stretch}},
		{"font-size", []LV{size}}, {"line-height", []LV{lh}}, {"font-family", fam}}, true
}

// ---------- flex ----------

func flexBasisLV(c *Comp) (LV, bool) {
	if v, ok := kwLV(c, "auto", "content", "min-content", "max-content", "fit-content"); ok {
		return v, true
	}
	return lengthPctLV(c)
}

func flexLH(g, sh, b LV) Longhands {
	return Longhands{{"flex-grow", []LV{g}}, {"flex-shrink", []LV{sh}}, {"flex-basis", []LV{b}}}
}

// parseFlex: none | [ <grow> <shrink>? || <basis> ] (CSS Flexbox 1 §7.1.1). A unitless zero
// that is not preceded by two flex factors is a flex factor. An omitted basis is 0%.
func parseFlex(p string, cs []Comp) (Longhands, bool) {
	if len(cs) == 1 && kw(&cs[0]) == "none" {
		return flexLH(s("n0e0"), s("n0e0"), s("auto")), true
	}
	if len(cs) > 3 {
		return nil, false
	}
	nonNeg := func(c *Comp) bool {
		if c.Kind != KNumber {
			return false
		}
		r, ok := numRat(c.Num)
		return ok && r.Sign() >= 0
	}
	var nums []LV
	var basis *LV
	for i := 0; i < len(cs); i++ {
		c := &cs[i]
		if nonNeg(c) {
			if len(nums) == 2 {
				// third position: only a zero is a (unitless) basis
				if !numZero(c.Num) || basis != nil || i != 2 {
					return nil, false
				}
				b := s(zeroLen)
				basis = &b
				continue
			}
			// numbers must be adjacent
			if len(nums) == 1 && i > 0 && !nonNeg(&cs[i-1]) {
				return nil, false
			}
			v, _ := numberLV(c)
			nums = append(nums, v)
			continue
		}
		v, ok := flexBasisLV(c)
		if !ok || basis != nil || c.Kind == KNumber {
			return nil, false
		}
		basis = &v
	}
	g, sh, b := s("n1e0"), s("n1e0"), s(numCanon("0")+"%")
	if len(nums) > 0 {
		g = nums[0]
	}
	if len(nums) > 1 {
		sh = nums[1]
	}
	if basis != nil {
		b = *basis
	}
	return flexLH(g, sh, b), true
}

// ---------- shadows ----------

func shadowParser(box bool) func(string, []Comp) (Longhands, bool) {
	return func(p string, cs []Comp) (Longhands, bool) {
		if len(cs) == 1 && kw(&cs[0]) == "none" {
			return Longhands{{p, one("none")}}, true
		}
		var out []LV
		for li, part := range splitCommas(cs) {
			if li > 0 {
				out = append(out, s(","))
			}
			inset := false
			var col *LV
			var lens []LV
			lensDone := false
			for i := range part {
				c := &part[i]
				if v, ok := lengthLV(c); ok {
					if lensDone {
						return nil, false
					}
					lens = append(lens, v)
					continue
				}
				if len(lens) > 0 {
					lensDone = true
				}
				if box && kw(c) == "inset" && !inset {
					inset = true
				} else if v, ok := colorLV(c); ok && col == nil {
					col = &v
				} else {
					return nil, false
				}
			}
			max := 3
			if box {
				max = 4
			}
			if len(lens) < 2 || len(lens) > max {
				return nil, false
			}
			for len(lens) < max {
				lens = append(lens, s(zeroLen))
			}
			if inset {
				out = append(out, s("inset"))
			}
			out = append(out, lens...)
			if col != nil {
				out = append(out, *col)
			} else {
				out = append(out, s("currentcolor"))
			}
		}
		return Longhands{{p, out}}, true
	}
}

// ---------- text-decoration / text-emphasis ----------

func textDecoLH(lines []string, style, col LV) Longhands {
	sort.Strings(lines)
	l := "none"
	if len(lines) > 0 {
		l = strings.Join(lines, "+")
	}
	return Longhands{{"line", one(l)}, {"style", []LV{style}}, {"color", []LV{col}}}
}

func parseTextDecoration(p string, cs []Comp) (Longhands, bool) {
	var lines []string
	none := false
	style, col := s("solid"), s("currentcolor")
	var seenStyle, seenCol bool
	for i := range cs {
		c := &cs[i]
		if v, ok := kwLV(c, "underline", "overline", "line-through", "blink"); ok {
			for _, l := range lines {
				if l == v.S {
					return nil, false
				}
			}
			if none || i > 0 && len(lines) > 0 && !isLineKw(&cs[i-1]) {
				return nil, false
			}
			lines = append(lines, v.S)
		} else if kw(c) == "none" {
			if none || len(lines) > 0 {
				return nil, false
			}
			none = true
		} else if v, ok := kwLV(c, "solid", "double", "dotted", "dashed", "wavy"); ok && !seenStyle {
			style, seenStyle = v, true
		} else if v, ok := colorLV(c); ok && !seenCol {
			col, seenCol = v, true
		} else {
			return nil, false
		}
	}
	return textDecoLH(lines, style, col), true
}

func isLineKw(c *Comp) bool {
	_, ok := kwLV(c, "underline", "overline", "line-through", "blink")
	return ok
}

func parseTextEmphasis(p string, cs []Comp) (Longhands, bool) {
	fill, shape, str := "", "", ""
	none := false
	col := s("currentcolor")
	seenCol := false
	styleEnd := -1
	for i := range cs {
		c := &cs[i]
		isStyle := false
		if v, ok := kwLV(c, "filled", "open"); ok && fill == "" && !none && str == "" {
			fill, isStyle = v.S, true
		} else if v, ok := kwLV(c, "dot", "circle", "double-circle", "triangle", "sesame"); ok && shape == "" && !none && str == "" {
			shape, isStyle = v.S, true
		} else if kw(c) == "none" && !none && fill == "" && shape == "" && str == "" {
			none, isStyle = true, true
		} else if c.Kind == KString && str == "" && !none && fill == "" && shape == "" {
			str, isStyle = "s:"+c.Val, true
		} else if v, ok := colorLV(c); ok && !seenCol {
			col, seenCol = v, true
		} else {
			return nil, false
		}
		if isStyle {
			if styleEnd >= 0 && styleEnd != i-1 {
				return nil, false // the style keywords are adjacent
			}
			styleEnd = i
		}
	}
	st := "none"
	switch {
	case str != "":
		st = str
	case fill != "" || shape != "":
		if fill == "" {
			fill = "filled"
		}
		if shape == "" {
			shape = "auto"
		}
		st = fill + "+" + shape
	}
	return Longhands{{"style", one(st)}, {"color", []LV{col}}}, true
}
