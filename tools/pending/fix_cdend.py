import sys
root=sys.argv[1] if len(sys.argv)>1 else '/repo'
p=root+'/xml/xml.go'
s=open(p).read()
old='''			t.Data = parse.ReplaceMultipleWhitespaceAndEntities(t.Data, EntitiesMap, TextRevEntitiesMap)

			// whitespace removal; trim left'''
new='''			t.Data = parse.ReplaceMultipleWhitespaceAndEntities(t.Data, EntitiesMap, TextRevEntitiesMap)
			if bytes.Contains(t.Data, []byte("]]>")) {
				t.Data = bytes.ReplaceAll(t.Data, []byte("]]>"), []byte("]]&gt;")) // ]]&gt; was decoded: ]]> may not stand in character data
			}

			// whitespace removal; trim left'''
assert s.count(old)==1
s=s.replace(old,new)
if '"bytes"' not in s.split(')')[0]:
    s=s.replace('import (','import (\n	"bytes"',1)
open(p,'w').write(s)
p=root+'/svg/svg.go'
s=open(p).read()
old='''				t.Data = parse.ReplaceMultipleWhitespaceAndEntities(t.Data, minifyXML.EntitiesMap, minifyXML.TextRevEntitiesMap)
'''
new='''				t.Data = parse.ReplaceMultipleWhitespaceAndEntities(t.Data, minifyXML.EntitiesMap, minifyXML.TextRevEntitiesMap)
				if bytes.Contains(t.Data, []byte("]]>")) {
					t.Data = bytes.ReplaceAll(t.Data, []byte("]]>"), []byte("]]&gt;")) // ]]&gt; was decoded: ]]> may not stand in character data
				}
'''
assert s.count(old)==1
s=s.replace(old,new)
open(p,'w').write(s)
