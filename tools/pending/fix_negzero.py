import sys
root=sys.argv[1] if len(sys.argv)>1 else '/repo'
p=root+'/json/json.go'
s=open(p).read()
old='''			} else if 1 < len(text) && text[0] == '-' && text[1] == '.' {
				text = text[1:]
				w.Write(minusZeroBytes)
			}'''
new='''			} else if 1 < len(text) && text[0] == '-' && text[1] == '.' {
				text = text[1:]
				w.Write(minusZeroBytes)
			} else if orig[0] == '-' && len(text) == 1 && text[0] == '0' {
				text = minusZeroBytes // -0 and -0.0 are negative zero, which is not the number 0
			}'''
assert s.count(old)==1
open(p,'w').write(s.replace(old,new))
