import sys
root=sys.argv[1] if len(sys.argv)>1 else '/repo'
p=root+'/js/js.go'
s=open(p).read()
old='''				m.write(closeBraceBytes)
			}
			if stmt.Module != nil {
				m.write(fromBytes)'''
new='''				m.write(closeBraceBytes)
			} else {
				// export {} and export {} from 'x' have an empty list, not none
				m.write(openBraceBytes)
				m.write(closeBraceBytes)
			}
			if stmt.Module != nil {
				m.write(fromBytes)'''
assert s.count(old)==1
s=s.replace(old,new)
old='''				m.write(spaceDefaultBytes)
				m.writeSpaceBeforeIdent()
				m.minifyExpr(stmt.Decl, js.OpAssign)'''
new='''				m.write(spaceDefaultBytes)
				if startsWithDecl(stmt.Decl) {
					// export default (function(){})() may not become export default function(){}(), a declaration followed by ()
					m.write(openParenBytes)
					m.minifyExpr(stmt.Decl, js.OpExpr)
					m.write(closeParenBytes)
					m.requireSemicolon()
					break
				}
				m.writeSpaceBeforeIdent()
				m.minifyExpr(stmt.Decl, js.OpAssign)'''
assert s.count(old)==1
s=s.replace(old,new)
open(p,'w').write(s)
p=root+'/js/util.go'
s=open(p).read()
old='''func isHexDigit(b byte) bool {'''
new='''// startsWithDecl returns true if the expression is more than a function or class expression but begins with one, e.g. function(){}() or class{}.name
func startsWithDecl(i js.IExpr) bool {
	first := true
	for {
		switch expr := i.(type) {
		case *js.FuncDecl, *js.ClassDecl:
			return !first
		case *js.GroupExpr:
			i = expr.X
			continue // the parentheses may be dropped
		case *js.CallExpr:
			i = expr.X
		case *js.DotExpr:
			i = expr.X
		case *js.IndexExpr:
			i = expr.X
		case *js.TemplateExpr:
			if expr.Tag == nil {
				return false
			}
			i = expr.Tag
		case *js.BinaryExpr:
			i = expr.X
		case *js.CondExpr:
			i = expr.Cond
		case *js.CommaExpr:
			if len(expr.List) == 0 {
				return false
			}
			i = expr.List[0]
		case *js.UnaryExpr:
			if expr.Op != js.PostIncrToken && expr.Op != js.PostDecrToken {
				return false
			}
			i = expr.X
		default:
			return false
		}
		first = false
	}
}

func isHexDigit(b byte) bool {'''
assert s.count(old)==1
s=s.replace(old,new)
open(p,'w').write(s)
