import sys
root=sys.argv[1] if len(sys.argv)>1 else '/repo'
p=root+'/xml/xml.go'
s=open(p).read()
old='''	omitSpace := true // on true the next text token must not start with a space
	inPI := false     // on true we are inside a processing instruction
'''
new='''	omitSpace := true // on true the next text token must not start with a space
	inPI := false     // on true we are inside a processing instruction
	tw := &tailWriter{w: w}
	w = tw // remembers how the output ends so far: ]] followed by > may not be written as character data
'''
assert s.count(old)==1
s=s.replace(old,new)
old='''					i++
				}
			}
			w.Write(t.Data)
		case xml.StartTagToken:'''
new='''					i++
				}
			}
			if 0 < len(t.Data) && t.Data[0] == '>' && tw.tail[0] == ']' && tw.tail[1] == ']' {
				// a comment or an empty section between ]] and > was dropped
				w.Write([]byte("&gt;"))
				t.Data = t.Data[1:]
			}
			w.Write(t.Data)
		case xml.StartTagToken:'''
assert s.count(old)==1
s=s.replace(old,new)
old='''// Minifier is an XML minifier.'''
new='''// tailWriter keeps the last two bytes that were written.
type tailWriter struct {
	w    io.Writer
	tail [2]byte
}

func (t *tailWriter) Write(b []byte) (int, error) {
	if 1 < len(b) {
		t.tail[0], t.tail[1] = b[len(b)-2], b[len(b)-1]
	} else if len(b) == 1 {
		t.tail[0], t.tail[1] = t.tail[1], b[0]
	}
	return t.w.Write(b)
}

// Minifier is an XML minifier.'''
assert s.count(old)==1
s=s.replace(old,new)
open(p,'w').write(s)
