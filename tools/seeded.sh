#!/bin/bash
# tools/seeded.sh <seeded dir> [tier]: apply a seeded property-breaking change to /repo's
# working tree, run the check(s) it should trip, restore the tree. Never commits.
# The property is taken from meta.json ("property", plus optional "also": [...]).
set -u
dir=$(cd "$1" && pwd); tier=${2:-quick}
cd "$(dirname "$0")/.."
if ! git -C /repo diff --quiet; then echo "refusing: /repo has uncommitted changes"; exit 2; fi
props=$(python3 -c "import json,re; m=json.load(open('$dir/meta.json')); print(' '.join(dict.fromkeys(re.findall(r'C[0-9][0-9]', ' '.join([m['property']]+m.get('also',[]))))))")
git -C /repo apply "$dir/patch.diff" || { echo "patch does not apply"; exit 2; }
# the run on the modified tree rewrites evidence/<ID>.json: the committed files (runs on the unchanged tree) are put back at the end
trap 'git -C /repo checkout -- . ; git -C /repo clean -fdq -- . 2>/dev/null; git checkout -q -- evidence 2>/dev/null' EXIT
rc=0
for p in $props; do
  out=$(mktemp)
  timeout 3600 ./run.sh "$p" "$tier" > "$out" 2>&1; r=$?
  n=$(grep -c '^VIOLATION' "$out")
  echo "seeded=$(basename $(dirname $dir))/$(basename $dir) check=$p tier=$tier exit=$r violations_printed=$n $(grep '^SUMMARY' "$out" | cut -c1-160)"
  grep -A2 '^VIOLATION' "$out" | head -9 | cut -c1-260
  grep -E '^(BUILD-ERROR|INTERNAL)' "$out" | head -3
  rm -f "$out"
  [ $r -eq 1 ] && rc=1
done
rm -rf replays/*
exit $rc
