#!/bin/bash
# tools/seeded_pair.sh <k> <seeded dir> [tier]: like seeded.sh, but in a private copy pair
# /tmp/vp<k> (copy of /verif as it is now) + /tmp/rp<k> (worktree of /repo's HEAD), so that several
# seeded changes can be measured at once and /repo itself stays untouched. The pair is created on
# first use and re-synchronised with /verif on every call; remove it with
#   git -C /repo worktree remove --force /tmp/rp<k>; rm -rf /tmp/vp<k>
# A measurement that is recorded in DESIGN.md as final is repeated with seeded.sh on /repo itself.
set -u
k=$1; dir=$(cd "$2" && pwd); tier=${3:-quick}
v=/tmp/vp$k; r=/tmp/rp$k
[ -d $r ] || git -C /repo worktree add -q --detach $r HEAD || exit 2
mkdir -p $v
rsync -a --delete --exclude .git --exclude bin --exclude replays --exclude evidence /verif/ $v/
mkdir -p $v/bin $v/replays $v/evidence
sed -i "s#=> /repo#=> $r#" $v/go.mod
props=$(python3 -c "import json,re; m=json.load(open('$dir/meta.json')); print(' '.join(dict.fromkeys(re.findall(r'C[0-9][0-9]', ' '.join([m['property']]+m.get('also',[]))))))")
git -C $r checkout -q -- . ; git -C $r clean -fdq
git -C $r apply "$dir/patch.diff" || { echo "patch does not apply"; exit 2; }
trap 'git -C $r checkout -q -- . ; git -C $r clean -fdq' EXIT
rc=0
for p in $props; do
  out=$(mktemp)
  VERIF_ROOT=$v VERIF_REPO=$r timeout 3600 $v/run.sh "$p" "$tier" > "$out" 2>&1; x=$?
  n=$(grep -c '^VIOLATION' "$out")
  echo "seeded=$(basename $(dirname $dir))/$(basename $dir) check=$p tier=$tier exit=$x violations_printed=$n $(grep '^SUMMARY' "$out" | cut -c1-160)"
  grep -A2 '^VIOLATION' "$out" | head -9 | cut -c1-260
  grep -E '^(BUILD-ERROR|INTERNAL)' "$out" | head -3
  rm -f "$out"
  [ $x -eq 1 ] && rc=1
done
exit $rc
