#!/usr/bin/env python3
"""Writes /verif/MANIFEST.json from the table below and validates it against the schema."""
import json, sys, os
ROOT = os.path.dirname(os.path.dirname(os.path.abspath(__file__)))

CHECKS = {}
def check(pid, level, text, note, technique, design_ref, engine="enum"):
    CHECKS[pid] = {
        "property_id": pid,
        "quick_cmd": f"./run.sh {pid} quick",
        "thorough_cmd": f"./run.sh {pid} thorough",
        "evidence_file": f"/verif/evidence/{pid}.json",
        "replay_cmd_template": "./run.sh replay {path}",
        "engine": engine,
        "level_claimed": {"category": level, "text": text, "design_ref": design_ref},
        "level_note": note,
        "technique": technique,
    }

check("C08", "exploration",
      "Every string of the number grammar up to a mantissa-length bound (digits 0,1,4,5,9) x a boundary list of exponent lexemes x every precision -1..20 is fed to Number/Decimal and compared with an exact math/big normal form; guard bytes around the slice detect out-of-bounds writes. Exhaustive within the bound, so every index computation of the helpers is swept for every short shape.",
      "Trusts math/big and the argument that digits 2,3,6,7,8 take the same branches as 1,4,5; mantissas longer than the bound are not covered.",
      "bounded exhaustive input enumeration vs exact big-number reference", "DESIGN.md#c08")

ALL = ["C%02d" % i for i in range(1, 21)]
NOT_YET = {p: "check not built yet in this revision (planned, see DESIGN.md section 4); not claimed until its command exists" for p in ALL if p not in CHECKS}

manifest = {
    "version": 1,
    "setup_cmd": "./setup.sh",
    "hooks": {
        "guard": "verif-overlay (no source hooks are committed to /repo; instrumentation is applied at check time with go build -overlay generated from the current tree)",
        "enable": "checks build /repo through a replace directive in /verif/go.mod; the schedule-exploration checks add a generated -overlay that swaps sync/io.Pipe for scheduler shims",
        "baseline_off_cmd": "cd /repo && GOFLAGS=-mod=mod go test -vet=off -count=1 ./...",
        "source_commits": [],
        "add_only": True,
    },
    "engines": [
        {"name": "enum", "path": "/verif/internal/core", "serves_properties": sorted(CHECKS), "kind_free_text": "bounded exhaustive case enumerator (mixed radix / grammar families, sharded over all cores) with independent oracles"},
    ],
    "checks": [CHECKS[k] for k in sorted(CHECKS)],
    "not_applicable": [{"property_id": p, "reason": r} for p, r in sorted(NOT_YET.items())],
    "notes": "All checks: ./run.sh <ID> <quick|thorough>; exit 0 held, exit 1 + VIOLATION line, exit 2 = checker could not be built (no verdict). Known findings: /verif/known_findings.json.",
}
json.dump(manifest, open(os.path.join(ROOT, "MANIFEST.json"), "w"), indent=1)
try:
    import jsonschema
    jsonschema.validate(manifest, json.load(open("/root/.vp/MANIFEST.schema.json")))
    print("MANIFEST.json valid;", len(CHECKS), "checks")
except ImportError:
    print("jsonschema not available; not validated")
