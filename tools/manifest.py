#!/usr/bin/env python3
"""Writes /verif/MANIFEST.json from the table below and validates it against the schema."""
import json, sys, os
ROOT = os.path.dirname(os.path.dirname(os.path.abspath(__file__)))

CHECKS = {}
def check(pid, level, text, note, technique, design_ref, engine="enum"):
    CHECKS[pid] = {
        "property_id": pid,
        "quick_cmd": f"./run.sh {pid} quick",
        "thorough_cmd": f"./run.sh {pid} thorough",
        "evidence_file": f"/verif/evidence/{pid}.json",
        "replay_cmd_template": "./run.sh replay {path}",
        "engine": engine,
        "level_claimed": {"category": level, "text": text, "design_ref": design_ref},
        "level_note": note,
        "technique": technique,
    }

check("C08", "exploration",
      "Every string of the number grammar up to a mantissa-length bound (digits 0,1,4,5,9) x a boundary list of exponent lexemes x every precision -1..20 is fed to Number/Decimal and compared with an exact math/big normal form; guard bytes around the slice detect out-of-bounds writes. Exhaustive within the bound, so every index computation of the helpers is swept for every short shape.",
      "Trusts math/big and the argument that digits 2,3,6,7,8 take the same branches as 1,4,5; mantissas longer than the bound are not covered.",
      "bounded exhaustive input enumeration vs exact big-number reference", "DESIGN.md#c08")

check("C07", "exploration",
      "Every JSON value derivable with at most N scalars+brackets (depth<=3) over a scalar alphabet that contains every number notation the shortener special-cases, strings with escapes and the literals, rendered in 5 whitespace styles, and every number of the grammar int x fraction x exponent x sign over small digit alphabets (~0.6 M lexemes), is minified with KeepNumbers off/on; the output must be valid (encoding/json), token-for-token equal under an own raw lexer (strings/literals byte-identical, numbers equal as exact big-number normal forms, byte-identical with KeepNumbers) and never longer.",
      "Trusts encoding/json.Valid, the own raw lexer and math/big; texts beyond the size bound are not covered.",
      "bounded exhaustive grammar enumeration vs independent JSON lexer and exact number reference", "DESIGN.md#c07")

check("C15", "model_checking",
      "Explicit-state breadth-first search over registration histories (16 operations: literal, func, regexp and command registrations with overlapping keys) up to depth 3 (quick) / 4 (thorough). States are deduplicated on the canonical form of a reference model written from the documentation; every transition replays the full history on a fresh real registry and compares Minify and Match on 14 media-type strings (which minifier ran, the parameter map it received, bytes written, error).",
      "The model (literal first, then first matching pattern in registration order, else ErrNotExist and nothing written) is the trusted statement of the documented rules; media types outside the query alphabet are not covered.",
      "explicit-state BFS over operation histories with the implementation as transition function and a reference model as oracle", "DESIGN.md#c15", engine="bfs")

check("C18", "exploration",
      "Every payload of <=2 arbitrary bytes and of <=L symbols over a structural alphabet, encoded five ways (four valid ones and the common sloppy form with printable characters left raw), under 19 media-type headers and four registries (none, real css+svg, stubs, failing stubs) goes through DataURI; an own RFC 2397 decoder must recover the same media type (up to case/whitespace/defaults) and exactly the payload the registry produces; encoding validity, shorter-encoding choice and the never-longer clause are checked; every call is made on a slice with cap==len (guard bytes) and on one with spare capacity (the dependency then works in place in the caller's buffer). Mediatype is compared with a 10-line reference on every sequence of <=5/7 tokens and on every single byte and 576 byte pairs in three contexts.",
      "Trusts the own RFC 2397 decoder and RFC 3986 character classes; 'validly encoded' for the never-longer clause means base64 or every character escaped that RFC 3986 forbids plus '&'.",
      "bounded exhaustive input enumeration vs independent decoder", "DESIGN.md#c18")

check("C12", "model_checking",
      "The real wrapper code of minify.go (Writer, Reader, ResponseWriter, Middleware, MiddlewareWithError) is rebuilt from the current tree with sync.RWMutex/WaitGroup/io.Pipe/go routed through a cooperative scheduler (go build -overlay; /repo untouched). For every partition of short inputs of each media type into chunks, and for a 20 kB stylesheet cut at every ordered pair of lengths around the usual buffer sizes (1..8192), every interleaving of producer, minifier goroutine and consumer at every synchronisation operation is explored (preemption bound 3 in quick, unbounded in thorough, cut at visited global states) and compared with the plain sequential call: bytes, error, 'everything delivered at the instant Close returns', Content-Length removal and minifier selection. The io.Pipe model is validated against the real io.Pipe by exhaustive model exploration vs free runs.",
      "Preemption happens only at hooked operations (before and after each); the pipe is a model kept bound to io.Pipe by the conformance run; inputs longer than the bound are cut into <=3 pieces only.",
      "stateless schedule exploration (controlled scheduler, DFS with prefix replay, state-key pruning) of the implementation + model/implementation conformance for io.Pipe", "DESIGN.md#c12", engine="vsched")

check("C13", "model_checking",
      "N=2 (thorough: N=3) concurrent calls from an 11-call alphabet (Minify/Bytes/String/Reader/Writer/Match on all media types, documents whose embedded content re-enters the registry, shared non-default option structs) and a 5-call alphabet on the package-level minify.Default are explored under the controlled scheduler on the real minify.go: every multiset, every interleaving at every lock/pipe/WaitGroup/go operation up to the preemption bound. Oracle: each call returns its sequential result, no deadlock, no call ever finds a lock held by another call, option structs unchanged. Deterministic companion: every call alone on a fresh shared registry (non-default and zero options) must leave a deep snapshot of all registered option structs, unexported fields included, unchanged (a scratch buffer or lazily built table kept on a shared struct is shared state). Sampling companions reported separately: free-running -race pass of the same bodies on three registries, history independence over all ordered pairs of corpus documents, cross-process output digest at GOMAXPROCS 1/4/16.",
      "The cooperative scheduler sees interference only across hooked operations; unsynchronised windows are covered by the -race companion (sampling). Map iteration order is sampled by repeated processes.",
      "stateless schedule exploration of the implementation (controlled scheduler, preemption-bounded DFS, state-key pruning) + free-running race-detector companion", "DESIGN.md#c13", engine="vsched")

check("C14", "fault_enumeration",
      "For every corpus document of every media type (incl. embedded content and documents that fail late) and the entry points direct Minify and M.Minify: the reader fails after k bytes for every k in 0..len (three read granularities, error alone or with the last bytes), the writer fails from its k-th call on for every k in 1..calls+1 (zero or short count), and both together, with three error identities (plain, wrapping io.EOF, wrapping another io error); every proper prefix of every valid document is used as a document of its own with the writer failing at every k; the call must return a non-nil error that is the injected one. Through Reader, Writer, ResponseWriter and MiddlewareWithError the same faults are explored under the controlled scheduler over all interleavings: the error must reach the consumer / Write / Close, Close must return, no deadlock.",
      "A failing writer keeps failing; documents whose minification fails by itself may return their own error instead of the writer's.",
      "exhaustive fault-position enumeration + schedule exploration of the wrappers", "DESIGN.md#c14", engine="vsched")

check("C19", "exploration",
      "Every tree of <=3 (thorough <=4) files from a pool of 17 (eight names in src/, src/sub/ and a hidden directory, minifiable and failing contents) x 36 invocation shapes (file to stdout/file/dir/itself, several files, bundles, directories with and without trailing slash, -r/-a/-s, in place, match/include/exclude glob and regex, type/mime/ext overrides, stdin, -q/-v, rejected combinations) plus special trees (user's own .bak, existing destinations, symlinks) is run on the real cmd/minify binary in a fresh scratch directory. A reference model written from the README gives the destination paths; expected bytes come from library calls; every other path must be byte-identical before/after; exit status and leftover backups are checked.",
      "The model is the trusted reading of cmd/minify/README.md; --watch, ownership and timestamps are not covered.",
      "bounded exhaustive enumeration of trees x invocations on the real binary vs reference model", "DESIGN.md#c19", engine="cli")

check("C20", "fault_enumeration",
      "The real cmd/minify binary runs under a ptrace supervisor. For each of ~30 histories (in-place for every media type and sizes 0..64KiB+1, failing minification, symlink/hard-link aliases, separate output, mirror, in-place directory, bundles onto an input, sync, preserve variants) a trace run records the N file-mutating system calls; then for every k in 1..N a fresh tree is built and the process is SIGKILLed right before operation k executes, and every write is additionally torn at 1, n/2, n-1 bytes (thorough: every operation also fails with ENOSPC/EIO/EACCES). Each disk state left behind must keep, for every input file, the complete original in place or in <name>.bak, or the complete new output; files only read must be unchanged. The worker pool is model-checked separately: the tool is rebuilt (go build -overlay) with package os routed through a shim, 1-2 (thorough 3) tasks of seven kinds run the real minify(Task) as controlled threads, every interleaving of their file system operations up to 2 (3) preemptions is explored with the disk digest in the state key, the same invariant is evaluated before every disk-changing operation (torn writes included) and the final tree must equal the sequential one.",
      "Process kill only (no power loss); ptrace histories run tasks sequentially (single task or -v); in the concurrent family preemption happens at file system operations only and the channel that distributes tasks is not modelled; the expected new content is the content after an undisturbed run.",
      "exhaustive crash-point and torn-write enumeration at system-call boundaries of the real binary (ptrace fault injector) + stateless schedule exploration of concurrent task bodies with crash invariant at every operation", "DESIGN.md#c20", engine="ptsup")

check("C06", "exploration",
      "Well-formed documents are generated by grammar (optional XML declaration and DOCTYPE with internal subset; every content sequence of <=3 (thorough <=4) items over 37 text chunks, CDATA variants incl. ]]> splits, comments, PIs and child elements; nested children; every attribute value of <=4 (<=5) symbols over quotes and references to tab/LF/CR/space in both quote kinds), minified with KeepWhitespace off/on, and compared through an own XML reader: output well-formed (own tokenizer + encoding/xml strict), same markup events, attributes equal after XML 1.0 attribute-value normalisation, processing instructions identical, and per text run a matcher that allows collapsible white-space runs to shrink (to nothing only next to a tag and only without KeepWhitespace) but never joins, splits or drops words and keeps CDATA characters exact.",
      "Trusts the own tokenizer/normaliser and encoding/xml; DTD-declared entities and attribute types are not interpreted; processing instructions and comments are transparent for white-space runs.",
      "bounded exhaustive grammar enumeration vs independent infoset reader", "DESIGN.md#c06")

check("C05", "exploration",
      "Path data: 4 start points x every sequence of <=3 (thorough <=4) of 57 command variants (all 20 letters, implicit repetition, coincident/axis-aligned/reflected/degenerate geometry, every arc flag pair, exponents, sign/dot adjacency) x 3 separator styles goes through the exported shortener and the public minifier; an own strict SVG path parser/interpreter must accept the output and obtain the same absolute segments within 1e-9 (only zero-length lines and exactly degenerate curves may be simplified). Documents: 9 root attribute sets x every sequence of <=2 (<=3) of 30 child items (shapes with lengths in every unit, colours, style elements/attributes/CDATA, metadata, foreign-namespace elements and attributes, xlink/xml attributes, text with significant white space, foreignObject, empty defs, comments, PI, DOCTYPE), standalone and inline; compared as element trees after removing exactly what the statement allows, attribute values by kind (numbers exactly, viewBox, colours as sRGB, path data as segments).",
      "Trusts the own path interpreter, the xmlinfo reader and the CSS named-colour table in /verif; an SVG-only registry is used (embedded CSS is C11's business); paths longer than the bound are not covered.",
      "bounded exhaustive enumeration vs independent path-data interpreter and tree comparison", "DESIGN.md#c05")

check("C01", "exploration",
      "Programs are enumerated exhaustively per family: F1 operator nesting (every ordered pair of the complete binary/assignment/unary operator sets in both nestings with explicit parentheses, member/call/new/optional-chaining/template/arrow/spread/yield positions, `in` in for-init), F2 conditional/boolean/nullish rewrites (41 statement templates x condition/then/else atoms incl. every falsy/truthy literal spelling), F3 statement lists (pairs, thorough triples, of 34 statement forms in 8 contexts, sloppy and strict), F4 flow merging (25 structures x return/throw/break/continue/expression combinations, 12 loop shapes), F5 declarations and hoisting, F6 token adjacency and ASI (36 endings x 36 beginnings x 4 separators, ~250 special-cased spellings), F7 string/template/regexp/number literal forms, F8 functions/classes/objects/built-in rewrites, F9 top-level scripts. Each program is minified under 8 configurations (KeepVarNames x Version) and every distinct output is executed by V8 next to the original under every input vector; host-call log, completion and globals must be equal. Mismatches are re-confirmed in fresh contexts.",
      "V8 (node 20) is the reference engine; observation excludes function/regexp source text, .name/.length and error messages; programs whose original fails to compile or hits TDZ, direct eval and Annex-B block functions are out of the domain; sizes beyond the family bounds are not covered.",
      "bounded exhaustive program enumeration with differential execution on an independent engine", "DESIGN.md#c01", engine="jsrun")

check("C03", "exploration",
      "Conforming documents and fragments are enumerated by neighbourhood: optional-tag contexts (parent, left sibling, optional white space, right sibling; thorough triples) over one representative element per class of html/table.go, white-space placement over every inline/block/atomic/transparent pair, attribute values (every string of <=3/4 symbols over quotes, =, <, >, backtick, white space, ampersands and character references under the three quoting styles on one attribute of each kind, plus the special cases coded in html.go), raw-text and escapable-raw-text bodies, text with character references, template delimiters, comments; each under 9 option sets with an HTML-only registry. Input and output are parsed by golang.org/x/net/html and compared after exactly the documented allowances: comments removed, same element structure, attributes equal per attribute kind from an own table, text by rendering equivalence under white-space:normal (words never joined or split), raw text byte-equal.",
      "Trusts x/net/html as the HTML5 parser and the oracle's own element/attribute classification written from the HTML Standard; CSS that changes display and scripting-disabled parsing of noscript are outside.",
      "bounded exhaustive document enumeration vs independent HTML5 parser and rendering-equivalence normal form", "DESIGN.md#c03")

check("C04", "exploration",
      "Stylesheets and inline declaration lists are enumerated exhaustively per family: structure (rule lists, at-rule preludes, selectors in mixed case with attribute selectors and pseudo-classes, declaration lists with errors) and, for each property branch of minifyProperty (margin/padding/border*/outline/background*/font*/flex*/box-shadow/text-*/colour properties/unicode-range), every sequence of <=3/4 components over the property's own value alphabet restricted to valid values, plus token families (numbers and dimensions in every notation with every unit inside and outside functions, rgb/hsl grids, hex colours, colour keywords, strings, URLs); KeepCSS2 off/on, stylesheet and inline mode. An own CSS Syntax 3 tokenizer/parser/value interpreter compares meaning: exact rationals and units, sRGB+alpha, shorthand expansion to longhands with initial values, code-point sets, strings/URLs, token streams for everything else.",
      "Trusts the own cssval oracle (tokenizer, grammars, colour table, initial values from the cited specifications); properties without a grammar are compared by token identity.",
      "bounded exhaustive stylesheet enumeration vs independent CSS value interpreter", "DESIGN.md#c04")

check("C02", "exploration",
      "Scope shapes are enumerated exhaustively: every chain of <=2 (thorough <=3) nested scopes over 12 scope kinds x 9 declaration kinds x 4 naming schemes (distinct, shadowing, names equal to the renamer's first picks, with globals of those names in use); every declaration carries its own constant, every use site logs the value it resolves to before and after the inner scope and closures are called at the end, so a capture or collision changes the log or throws. A var-hoisting family (0-3 function-level var statements x 10 block shapes x let/const x 1-3 declarators x every subset of outer names used in the block) targets the merged declaration. Free-variable families put globals named like the first 32 generated names next to 1..12 locals; one scope with N bindings for N up to 3700 (all N in thorough) drives name generation through every one- and two-letter name incl. keywords, with two-letter globals in use. Programs run in V8 for KeepVarNames off/on. Static clauses with acorn: output parses in sloppy and strict mode, labels/top-level declarations/import and export names/property names unchanged, no new identifier with KeepVarNames, `with` functions untouched (observed by execution).",
      "V8 and acorn from node 20 are the trusted engine and parser; scope trees deeper than the bound and direct eval are outside.",
      "bounded exhaustive scope-shape enumeration with instrumented bindings executed on an independent engine + independent parser for static clauses", "DESIGN.md#c02", engine="jsrun")

check("C17", "exploration",
      "The tables are finite and are enumerated completely: all ~2230 entries of html.EntitiesMap (each replacement must decode to the same text as the reference it replaces, by the Go standard library's entity table), the reverse maps, xml.EntitiesMap, css.ShortenColorHex/ShortenColorName against the CSS Color 4 keyword table, and tagMap/attrMap/jsMimetypes/optionalZeroDimension/svg colorAttrMap (read from the source with go/parser) against lists written from the HTML Standard and CSS Values 4. Every entity additionally goes through the public minifier in text and in attribute values followed by 12 different continuations and is re-parsed with x/net/html; every colour keyword and its hex value goes through the CSS and SVG minifiers; every element and attribute name of the hash tables is probed behaviourally (boolean minimisation, white-space removal next to the element).",
      "Reference lists and the colour table are written into /verif from the standards; the Go standard library and x/net/html are the entity references.",
      "complete enumeration of finite tables vs independent standard tables, directly and through the public API", "DESIGN.md#c17")

check("C10", "exploration",
      "Every string of <=3 (thorough <=4) symbols over a structural alphabet per media type (24-66 symbols incl. multi-byte ones and the bytes NUL/0x80/0xC3) and every byte string of length <=2 over all 256 values goes through Bytes and String of each of the six minifiers under four registries (default, all options non-default, precision 17, extreme precisions); the helpers Number/Decimal/Mediatype/DataURI run on every string of <=4 (<=5) symbols of their alphabets with precisions -1,0,1,17,1000,MaxInt and on their fuzz corpora; every truncation and one-byte deletion of every corpus/benchmark file up to a size bound; 46 nesting/repetition ladders unit^n. Oracle: no panic, a watchdog for non-termination, on error the original data is returned and the caller's slice is unchanged, Bytes and String agree; growth: a separately built binary with coverage counters gives the number of executed code blocks, which may at most triple when n doubles (deterministic, no wall clock); allocated bytes likewise.",
      "Arbitrary byte strings are decided only up to the length bound and the one-edit neighbourhood of the bundled files; cost hidden inside copy/append (memmove) is visible only in the recorded wall time, which decides nothing.",
      "bounded exhaustive input enumeration + deterministic work-growth ladders (coverage block counters)", "DESIGN.md#c10")

check("C11", "exploration",
      "21 hosts (HTML script with five type attributes, style, style=, on*= with and without a javascript: prefix, data: URIs percent- and base64-encoded; SVG style element as text and CDATA, style=; CSS url(data:…)) x 30 payloads (incl. quotes of both kinds, <, >, &, ]]>, white space, newlines) x 18 registry modes: a recording stub whose output is a marker of (type, input), 13 stubs with outputs that need re-escaping, a failing stub, a failing stub with a parse position, nothing registered, the real minifiers. The commutation law is checked by decoding: the host output is parsed by x/net/html, the own XML reader or the own RFC 2397 decoder, the embedded value is extracted and must equal what the embedded minifier wrote for exactly the documented pre-processing of the payload, called once with the documented media type and parameters; unregistered → bytes unchanged; failing → outer error with a position inside the host.",
      "The documented pre-processing (trimming, javascript: removal, entity decoding) and the default media types per host are an own table; hosts not in the list are not covered.",
      "exhaustive product of hosts x payloads x registries with recording stubs, checked by independent decoding", "DESIGN.md#c11")

check("C09", "exploration",
      "Every file of tests/*/corpus and _benchmarks (six media types) and its complete one-edit neighbourhood (every one-byte deletion, every replacement by each of 14 structural bytes) up to a size bound, plus splices of all ordered pairs of small files, plus every program of the C01 grammar families (stand-alone and, for the literal family, inside an HTML script element) goes through the default and an all-non-default registry (JavaScript registered by the CLI's media type pattern). Whenever the minifier accepts the input, the output must be valid by an independent parser (acorn for JS including scripts inside HTML, encoding/json, own XML reader and strict SVG path parser, own CSS tokenizer, HTML raw-text boundaries) and must be accepted again by the minifier.",
      "Validity is decided by acorn 8.16, encoding/json and the readers of /verif; inputs outside the one-edit neighbourhood of the bundled files are not covered.",
      "bounded exhaustive enumeration of the one-edit neighbourhood of the bundled corpora and of generated programs vs independent parsers", "DESIGN.md#c09", engine="jsrun")

check("C16", "exploration",
      "HTML: all 128 combinations of the seven Keep* options x 4 template-delimiter sets x a document family; each kept construct (end tags, document tags, attribute names, quotes, comments, special comments, white space next to tags, template spans) is read off the x/net/html token stream of input and output. JS: versions 0, 5 and 2015..2022 x inputs using or inviting each gated syntax; acorn reports the least ECMAScript version that parses the output, which may exceed Version only if the input's did. Numbers: a lexeme family x precisions 0..17 x seven hosts (css, css KeepCSS2, svg attribute, svg path, svg style, json, json KeepNumbers) against a math/big tolerance. CLI: every option flag produces byte-identical output to the library field it maps to.",
      "Inputs per option are a generated family, not all documents; the semantic properties under option combinations are decided by the C01..C07 checks, which enumerate configurations themselves.",
      "exhaustive product of option combinations x generated inputs with token-level oracles from independent parsers", "DESIGN.md#c16", engine="jsrun")

ALL = ["C%02d" % i for i in range(1, 21)]
NOT_YET = {p: "check not built yet in this revision (planned, see DESIGN.md section 4); not claimed until its command exists" for p in ALL if p not in CHECKS}

manifest = {
    "version": 1,
    "setup_cmd": "./setup.sh",
    "hooks": {
        "guard": "verif-overlay (no source hooks are committed to /repo; instrumentation is applied at check time with go build -overlay generated from the current tree)",
        "enable": "checks build /repo through a replace directive in /verif/go.mod; the schedule-exploration checks add a generated -overlay that swaps sync/io.Pipe for scheduler shims",
        "baseline_off_cmd": "cd /repo && GOFLAGS=-mod=mod go test -vet=off -count=1 ./...",
        "source_commits": [],
        "add_only": True,
    },
    "engines": [
        {"name": "enum", "path": "/verif/internal/core", "serves_properties": sorted(k for k in CHECKS if CHECKS[k]["engine"] == "enum"), "kind_free_text": "bounded exhaustive case enumerator (mixed radix / grammar families, sharded over all cores) with independent oracles"},
        {"name": "vsched", "path": "/verif/internal/vsync", "serves_properties": ["C12", "C13", "C14"], "kind_free_text": "cooperative deterministic scheduler with shims for sync.RWMutex/Mutex/WaitGroup/Once, io.Pipe and go; stateless DFS over schedules with prefix replay, iterative preemption bounding and state-key pruning; applied to the real minify.go through a generated go build -overlay"},
        {"name": "ptsup", "path": "/verif/internal/ptsup", "serves_properties": ["C20"], "kind_free_text": "ptrace supervisor: traces file-mutating system calls of the real binary, kills before the k-th, tears the k-th write, or fails it with an errno"},
        {"name": "cli", "path": "/verif/internal/props/c19", "serves_properties": ["C19"], "kind_free_text": "tree x invocation enumerator on the real binary with a reference model of destinations"},
        {"name": "jsrun", "path": "/verif/node/jsoracle.js", "serves_properties": ["C01", "C02", "C09", "C16"], "kind_free_text": "pool of node workers: V8 executes original and minified programs with recording host functions under every input vector; bundled acorn parses at a chosen ECMAScript version"},
        {"name": "bfs", "path": "/verif/internal/props/c15", "serves_properties": ["C15"], "kind_free_text": "explicit-state breadth-first search over operation histories; successor = replay on a fresh real object + one operation; reference-model canonical state for deduplication"},
    ],
    "checks": [CHECKS[k] for k in sorted(CHECKS)],
    "not_applicable": [{"property_id": p, "reason": r} for p, r in sorted(NOT_YET.items())],
    "notes": "All checks: ./run.sh <ID> <quick|thorough>; exit 0 held, exit 1 + VIOLATION line, exit 2 = checker could not be built (no verdict). Known findings: /verif/known_findings.json.",
}
json.dump(manifest, open(os.path.join(ROOT, "MANIFEST.json"), "w"), indent=1)
try:
    import jsonschema
    jsonschema.validate(manifest, json.load(open("/root/.vp/MANIFEST.schema.json")))
    print("MANIFEST.json valid;", len(CHECKS), "checks")
except ImportError:
    print("jsonschema not available; not validated")
