#!/bin/bash
# tools/confirm_seeded.sh <ID> <n> [<dest n>]: confirm a sub-agent's seeded change in its scratch worktree
# /tmp/wt/<ID>: patch applies, builds, repository tests pass, the demonstration differs between the
# modified and the unmodified tree. On success copies it to /verif/seeded/<ID>/<n>/.
set -u
id=$1; n=$2; dn=${3:-$n}; wt=/tmp/wt/$id; sd=$wt/SEEDED/$n
export GOFLAGS=-mod=mod GOPROXY=off GOSUMDB=off GOTOOLCHAIN=local
cd $wt || exit 2
git checkout -q -- . ; git clean -fdq -e SEEDED -e PROPERTY.json
git apply --check $sd/patch.diff || { echo "CONFIRM $id/$n: patch does not apply"; exit 1; }
rundemo() {
  ( cd $sd/demo && if [ -f demo.sh ]; then timeout 600 bash demo.sh; else timeout 600 go run . ; fi ) 2>&1 | head -60
  echo "exit=${PIPESTATUS[0]}"
}
base=$(rundemo)
git apply $sd/patch.diff
go build ./... || { echo "CONFIRM $id/$n: build fails"; git checkout -q -- .; exit 1; }
t=$(go test -vet=off -count=1 ./... 2>&1); tr=$?
mod=$(rundemo)
git checkout -q -- . ; git clean -fdq -e SEEDED -e PROPERTY.json
if [ $tr -ne 0 ]; then echo "CONFIRM $id/$n: repository tests FAIL"; echo "$t" | grep -v "^ok\|no test files" | head; exit 1; fi
if [ "$base" == "$mod" ]; then echo "CONFIRM $id/$n: demonstration shows no difference"; echo "$mod" | head; exit 1; fi
mkdir -p /verif/seeded/$id/$dn
cp $sd/patch.diff $sd/meta.json /verif/seeded/$id/$dn/
rm -rf /verif/seeded/$id/$dn/demo; cp -r $sd/demo /verif/seeded/$id/$dn/demo
printf '%s\n' "$base" > /verif/seeded/$id/$dn/demo_output_unmodified.txt
printf '%s\n' "$mod" > /verif/seeded/$id/$dn/demo_output_modified.txt
echo "CONFIRM $id/$n: ok (applies, builds, tests pass, demo differs) files=$(grep -c '^diff' $sd/patch.diff)"
