#!/bin/bash
# tools/seeded_all.sh <ID>...: confirm the two changes of each property in its scratch worktree,
# then run the property's check against each and append the outcome to seeded/RESULTS.txt
# OFFSET (env) is added to the change number when it is stored (round 2: OFFSET=2)
cd "$(dirname "$0")/.."
for id in "$@"; do
  for n in 1 2; do
    dn=$((n + ${OFFSET:-0}))
    [ -d /tmp/wt/$id/SEEDED/$n ] || { echo "no $id/$n"; continue; }
    c=$(tools/confirm_seeded.sh $id $n $dn 2>&1 | tail -3); echo "$c"
    case "$c" in *": ok"*) ;; *) echo "$id/$dn NOT-CONFIRMED: $c" >> seeded/RESULTS.txt; continue;; esac
    r=$(tools/seeded.sh seeded/$id/$dn quick 2>&1); echo "$r" | head -8
    echo "$r" | grep '^seeded=' >> seeded/RESULTS.txt
  done
done
