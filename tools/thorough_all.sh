#!/bin/bash
# thorough tier of every check, one after the other; outputs th_<ID>.out
for id in ${THOROUGH_ORDER:-C02 C03 C04 C05 C06 C07 C08 C10 C11 C12 C13 C14 C15 C16 C17 C18 C19 C20 C09 C01}; do
  s=$(date +%s); ./run.sh $id thorough > th_$id.out 2>&1; e=$?
  echo "$id exit=$e $(( $(date +%s)-s ))s $(tail -1 th_$id.out | cut -c1-220)"
done
