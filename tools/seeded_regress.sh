#!/bin/bash
# tools/seeded_regress.sh: run every kept seeded change against its check(s) (quick tier) and
# write seeded/RESULTS.txt; a change that no check reports is listed as MISSED.
cd "$(dirname "$0")/.."
out=seeded/RESULTS.txt; : > $out
for d in seeded/C*/*/; do
  d=${d%/}
  [ -f $d/patch.diff ] || continue
  if grep -q '"obsolete"' $d/meta.json; then echo "seeded=$(basename $(dirname $d))/$(basename $d) OBSOLETE (see meta.json)" >> $out; continue; fi
  r=$(tools/seeded.sh $d quick 2>&1)
  echo "$r" | grep '^seeded=' | sed 's/ SUMMARY.*violations=/ violations=/; s/ known_finding.*//' >> $out
  if echo "$r" | grep -q 'patch does not apply'; then echo "seeded=$(basename $(dirname $d))/$(basename $d) PATCH-DOES-NOT-APPLY" >> $out; fi
  if ! echo "$r" | grep -q 'exit=1'; then echo "seeded=$(basename $(dirname $d))/$(basename $d) MISSED" >> $out; fi
done
echo DONE >> $out
